"""C11 -- survey results do not depend on worker count, scheduling or file mode.

(G) PREBUILD hook `gen_mpshape`: reads emg3d/_multiprocessing.py and
    emg3d/simulations.py of the CURRENT tree with `ast` and writes
    coq/Gen/MpShape.v: the collection primitive of every branch of
    `process_map`, the positional store loops of `_compute/_bcompute/jvec`,
    the shape of `_srcfreq` and the file-name pattern of `_data_or_file`.
    Fail closed: what is not recognised becomes `COther`/`false`/`ProdOther`
    (the tie theorems of Props/C11.v then no longer compile) or raises.
(H) Model/Sched.v: a pool completing tasks in an arbitrary order on any number
    of workers; theorems in Props/C11.v.
Tie / stress: `emg3d._multiprocessing.process_map` itself with adversarial run
    times, and tiny simulations under workers x {memory, file_dir} x
    {forward, gradient, jvec} compared bit for bit with the sequential run.
"""
import ast
import hashlib
import itertools
import json
import os
import shutil
import sys
import tempfile
import time

import numpy as np

from vlib import core as V

ID = 'C11'
PROPS = 'Props/C11.v'
GEN = []
TECHNIQUE = ("Coq proof (induction over pool traces, permutations) about a hand model whose shape "
             "parameters are re-extracted from the source with ast on every run + differential "
             "stress of the real process_map / Simulation")
DESIGN_REF = "DESIGN.md section 6 C11"
LEVEL_TEXT = (
    "Theorems (Props/C11.v): for EVERY task list, worker count and interleaving of start/finish "
    "events of a process pool (all completion orders are reachable: every_permutation_schedulable), "
    "collection by submission index returns exactly map f tasks = the sequential result; with "
    "distinct source x frequency keys the positional store loop puts f(task of k) into slot k "
    "(survey_slots_any_schedule); hand-over file names are distinct for arbitrary string keys "
    "(file_names_distinct) and file hand-over is then transparent (file_mode_same); "
    "recomputation is idempotent under the solver's restart contract. The collector tags, store-loop "
    "shapes, _srcfreq shape and file-name pattern these theorems are applied to are re-extracted "
    "from emg3d/_multiprocessing.py and emg3d/simulations.py on every run (Gen/MpShape.v); "
    "process_map_any_config is proved about that generated table. Unit tests never perturb "
    "completion order.")
LEVEL_NOTE = (
    "Partial: bit-identical floating results across worker processes, pickling and HDF5 fidelity "
    "are runtime facts the model cannot exhibit; they are MEASURED by the stress runs (bit-for-bit "
    "comparison with the sequential in-memory run), not proved. Contracts (oracles): "
    "ProcessPoolExecutor.map and tqdm.contrib.concurrent.process_map yield results in submission "
    "order (modelled as lookup by submission index; exercised on the real pool with adversarial run "
    "times); the task function is pure; solver restart contract for recompute_idempotent (a solve "
    "started from its own converged result returns it unchanged; measured). The syntactic "
    "extractor (ast patterns in py/props/c11.py) is trusted to classify the call shapes; it fails "
    "closed. History: before the fix the hand-over file names joined the keys with '_' and were "
    "not injective (fname_unfixed_collision_refuted); the extracted pattern must now be the "
    "position-based one (mpshape_fname_fixed), for which fname_injective / file_names_distinct "
    "hold for arbitrary string keys; a stream of surveys with adversarial keys is compared "
    "bit for bit between file_dir and memory mode. History independence of the operations of ONE "
    "simulation (compute / clean / get_efield / jvec / jtvec / gradient / misfit with tol != "
    "tol_gradient, fields dropped and computed again on demand inside another operation): the "
    "Coq model carries the tolerance of every task through the shared solver_opts register "
    "(history_tasks_tolerance: with the collectors' tolerance writes extracted from the current "
    "source every forward task carries tol and every adjoint / jvec task tol_gradient, for every "
    "history; cached gradient not modelled, task lists are a superset); that the VALUES an "
    "operation returns do not depend on the history is measured by the operation-history stream "
    "against fresh sequential simulations and an independent residual of every stored forward "
    "field.")
TRUSTED = [
    "ast-based shape extractor gen_mpshape in py/props/c11.py (fails closed: unknown shapes become "
    "COther / false and break process_map_any_config / store_sites_positional)",
    "contract of concurrent.futures.Executor.map and tqdm.contrib.concurrent.process_map: results "
    "are yielded in submission order (stress-tested on the real pool, not proved)",
]
ASSUMES = [
    "the solver wrapper _multiprocessing.solve is a pure function of its pickled input "
    "(measured: bit-identical results in fresh worker processes)",
    "bit identity across processes / pickling / HDF5 round trip is measured on generated surveys, "
    "not proved",
]

REPO = V.REPO


# =====================================================================
# (G) shape extraction
# =====================================================================
class ShapeError(Exception):
    pass


def _src(node):
    return ast.unparse(node)


def _is_name(n, name):
    return isinstance(n, ast.Name) and n.id == name


def _fn_args_forwarded(call):
    """call(fn, *iterables, ...) with exactly these two positional arguments."""
    a = call.args
    return (len(a) == 2 and _is_name(a[0], 'fn') and isinstance(a[1], ast.Starred)
            and _is_name(a[1].value, 'iterables'))


def _kw(call, name):
    for k in call.keywords:
        if k.arg == name:
            return k.value
    return None


UNORDERED_NAMES = {'as_completed', 'imap_unordered', 'wait', 'FIRST_COMPLETED',
                   'add_done_callback', 'apply_async', 'map_async'}
REORDER_NAMES = {'sorted', 'reversed', 'set', 'frozenset', 'shuffle', 'dict'}


def _mentions(node, names):
    for n in ast.walk(node):
        if isinstance(n, ast.Name) and n.id in names:
            return True
        if isinstance(n, ast.Attribute) and n.attr in names:
            return True
    return False


def _strip_list(expr):
    """list(X) or [r for r in X] -> X, else None."""
    if (isinstance(expr, ast.Call) and _is_name(expr.func, 'list') and len(expr.args) == 1
            and not expr.keywords):
        return expr.args[0]
    if (isinstance(expr, ast.ListComp) and len(expr.generators) == 1
            and not expr.generators[0].ifs and isinstance(expr.elt, ast.Name)
            and isinstance(expr.generators[0].target, ast.Name)
            and expr.elt.id == expr.generators[0].target.id):
        return expr.generators[0].iter
    return None


def classify_collector(stmts, executor_name):
    """Classify the body of one branch of process_map."""
    body = list(stmts)
    whole = ast.Module(body=body, type_ignores=[])
    if _mentions(whole, UNORDERED_NAMES):
        return 'CAsCompleted'
    if _mentions(whole, REORDER_NAMES):
        return ('COther', 'reordering primitive in: ' + _src(whole)[:120])
    exvar = None
    if len(body) == 1 and isinstance(body[0], ast.With):
        w = body[0]
        if len(w.items) != 1:
            return ('COther', _src(w)[:120])
        ce = w.items[0].context_expr
        ov = w.items[0].optional_vars
        if not (isinstance(ce, ast.Call) and isinstance(ce.func, ast.Name)
                and ce.func.id == executor_name and isinstance(ov, ast.Name)):
            return ('COther', _src(w)[:120])
        mw = _kw(ce, 'max_workers')
        if ce.args or mw is None or not _is_name(mw, 'max_workers') or len(ce.keywords) != 1:
            return ('COther', 'executor not built with max_workers=max_workers: ' + _src(ce))
        exvar = ov.id
        body = w.body
    if len(body) != 1 or not isinstance(body[0], ast.Return) or body[0].value is None:
        return ('COther', _src(whole)[:120])
    expr = body[0].value
    # tqdm.contrib.concurrent.process_map(fn, *iterables, max_workers=max_workers, **kwargs)
    if isinstance(expr, ast.Call) and _src(expr.func) == 'tqdm.contrib.concurrent.process_map':
        mw = _kw(expr, 'max_workers')
        if _fn_args_forwarded(expr) and mw is not None and _is_name(mw, 'max_workers'):
            return 'CTqdmProcessMap'
        return ('COther', _src(expr)[:120])
    inner = _strip_list(expr)
    if inner is None:
        return ('COther', _src(expr)[:120])
    # ex.map(fn, *iterables)
    if (isinstance(inner, ast.Call) and isinstance(inner.func, ast.Attribute)
            and inner.func.attr == 'map' and exvar is not None
            and _is_name(inner.func.value, exvar)):
        if _fn_args_forwarded(inner) and not inner.keywords:
            return 'CExecutorMap'
        return ('COther', _src(inner)[:120])
    # map(fn, *iterables)
    if isinstance(inner, ast.Call) and _is_name(inner.func, 'map'):
        if _fn_args_forwarded(inner) and not inner.keywords and exvar is None:
            return 'CBuiltinMap'
        return ('COther', _src(inner)[:120])
    # tqdm.auto.tqdm(iterable=map(fn, *iterables), ...)
    if isinstance(inner, ast.Call) and _src(inner.func) in ('tqdm.auto.tqdm', 'tqdm.tqdm'):
        it = _kw(inner, 'iterable')
        if it is None and inner.args:
            it = inner.args[0]
        if (isinstance(it, ast.Call) and _is_name(it.func, 'map') and _fn_args_forwarded(it)
                and not it.keywords and exvar is None):
            return 'CTqdmOverMap'
        return ('COther', _src(inner)[:120])
    return ('COther', _src(expr)[:120])


def parse_guard(test):
    if isinstance(test, ast.BoolOp) and isinstance(test.op, ast.And):
        g = parse_guard(test.values[0])
        for v in test.values[1:]:
            g = ('GAnd', g, parse_guard(v))
        return g
    if (isinstance(test, ast.Compare) and len(test.ops) == 1 and len(test.comparators) == 1):
        l, op, r = test.left, test.ops[0], test.comparators[0]
        if (_is_name(l, 'max_workers') and isinstance(op, ast.Gt)
                and isinstance(r, ast.Constant) and type(r.value) is int):
            return ('GWorkersGt', r.value)
        if (_is_name(l, 'max_workers') and isinstance(op, ast.GtE)
                and isinstance(r, ast.Constant) and type(r.value) is int):
            return ('GWorkersGt', r.value - 1)
        if (_is_name(l, 'tqdm') and isinstance(op, ast.Is)
                and isinstance(r, ast.Constant) and r.value is None):
            return ('GTqdmNone',)
    raise ShapeError('process_map: guard not understood: ' + _src(test))


def extract_process_map(tree):
    fn = next((n for n in tree.body if isinstance(n, ast.FunctionDef)
               and n.name == 'process_map'), None)
    if fn is None:
        raise ShapeError('_multiprocessing.process_map not found')
    a = fn.args
    if not ([x.arg for x in a.args] == ['fn'] and a.vararg is not None
            and a.vararg.arg == 'iterables' and [x.arg for x in a.kwonlyargs] == ['max_workers']
            and not a.posonlyargs):
        raise ShapeError('process_map: signature changed: ' + _src(a))
    # name bound to the stdlib executor
    executor = None
    for n in tree.body:
        if isinstance(n, ast.ImportFrom) and n.module == 'concurrent.futures':
            for al in n.names:
                if al.name == 'ProcessPoolExecutor':
                    executor = al.asname or al.name
    if executor is None:
        raise ShapeError('ProcessPoolExecutor is not imported from concurrent.futures')
    body = list(fn.body)
    if body and isinstance(body[0], ast.Expr) and isinstance(body[0].value, ast.Constant) \
            and isinstance(body[0].value.value, str):
        body = body[1:]
    # allowed preamble: process_map.count += 1
    while body and isinstance(body[0], ast.AugAssign) and _src(body[0].target) == 'process_map.count':
        body = body[1:]
    if len(body) != 1 or not isinstance(body[0], ast.If):
        raise ShapeError('process_map: body is not a single if/elif/else chain after the counter: '
                         + '; '.join(type(s).__name__ for s in body))
    branches = []
    node = body[0]
    while True:
        branches.append((parse_guard(node.test), classify_collector(node.body, executor)))
        if len(node.orelse) == 1 and isinstance(node.orelse[0], ast.If):
            node = node.orelse[0]
            continue
        if node.orelse:
            branches.append((('GElse',), classify_collector(node.orelse, executor)))
        break
    return branches


# ---- store loops in Simulation -------------------------------------------
def _uses_of(name, node):
    return [n for n in ast.walk(node) if isinstance(n, ast.Name) and n.id == name]


def _parents(root):
    par = {}
    for n in ast.walk(root):
        for c in ast.iter_child_nodes(n):
            par[c] = n
    return par


def extract_store_site(cls, mname):
    m = next((n for n in cls.body if isinstance(n, ast.FunctionDef) and n.name == mname), None)
    if m is None:
        raise ShapeError(f'Simulation.{mname} not found')
    par = _parents(m)
    # the unique  out = _mp.process_map(...)
    calls = [s for s in ast.walk(m) if isinstance(s, ast.Assign) and isinstance(s.value, ast.Call)
             and _src(s.value.func).endswith('process_map')]
    if len(calls) != 1 or par[calls[0]] is not m:
        raise ShapeError(f'{mname}: expected exactly one top-level `out = ...process_map(...)`')
    asg = calls[0]
    if len(asg.targets) != 1 or not isinstance(asg.targets[0], ast.Name):
        raise ShapeError(f'{mname}: result of process_map not bound to a name')
    out = asg.targets[0].id
    call = asg.value
    pm = _src(call.func)
    if len(call.args) != 2:
        raise ShapeError(f'{mname}: process_map called with {len(call.args)} positional args')
    worker = _src(call.args[0])
    mw = _kw(call, 'max_workers')
    if mw is None or _src(mw) != 'self.max_workers':
        raise ShapeError(f'{mname}: max_workers is not self.max_workers')
    # task list: list(map(collect, TASKS))
    tl = call.args[1]
    mapped_in_order = False
    tasks_over = _src(tl)
    collect = None
    inner = _strip_list(tl)
    if (inner is not None and isinstance(inner, ast.Call) and _is_name(inner.func, 'map')
            and len(inner.args) == 2 and isinstance(inner.args[0], ast.Name)
            and not inner.keywords):
        collect = inner.args[0].id
        tasks_over = _src(inner.args[1])
        mapped_in_order = not _mentions(inner.args[1], REORDER_NAMES)
    # the store loop(s): top-level For statements after the call that mention `out`
    idx = m.body.index(asg)
    later = m.body[idx + 1:]
    loops = [s for s in later if isinstance(s, ast.For) and _uses_of(out, s)]
    loop_over, index_ok, keys_ok = '<none>', False, False
    if len(loops) == 1:
        lp = loops[0]
        tgt, it = lp.target, lp.iter
        if (isinstance(it, ast.Call) and _is_name(it.func, 'enumerate') and len(it.args) == 1
                and not it.keywords and isinstance(tgt, ast.Tuple) and len(tgt.elts) == 2
                and isinstance(tgt.elts[0], ast.Name) and isinstance(tgt.elts[1], ast.Tuple)
                and len(tgt.elts[1].elts) == 2
                and all(isinstance(e, ast.Name) for e in tgt.elts[1].elts)):
            loop_over = _src(it.args[0])
            ivar = tgt.elts[0].id
            ka, kb = (e.id for e in tgt.elts[1].elts)
            # TASKS / LOOP must not be rebound after the task list was built
            rebound = False
            if isinstance(it.args[0], ast.Name):
                for s in later:
                    for n in ast.walk(s):
                        if isinstance(n, ast.Name) and n.id == it.args[0].id \
                                and isinstance(n.ctx, ast.Store):
                            rebound = True
            # loop variables must not be rebound inside the loop
            for n in ast.walk(ast.Module(body=lp.body, type_ignores=[])):
                if isinstance(n, ast.Name) and isinstance(n.ctx, ast.Store) \
                        and n.id in (ivar, ka, kb, out):
                    rebound = True
            # every use of `out` in the whole method (apart from the binding)
            lpar = _parents(lp)
            index_ok = not rebound
            for u in _uses_of(out, m):
                if u is asg.targets[0]:
                    continue
                p1 = lpar.get(u)
                p2 = lpar.get(p1) if p1 is not None else None
                ok = (isinstance(p1, ast.Subscript) and p1.value is u and _is_name(p1.slice, ivar)
                      and isinstance(p2, ast.Subscript) and p2.value is p1
                      and isinstance(p2.slice, ast.Constant) and p2.slice.value in (0, 1)
                      and isinstance(p2.ctx, ast.Load))
                if not ok:
                    index_ok = False
            # slots: self._dict_X[a][b], X.loc[a, :, b], self._get_responses(a, b, ...)
            keys_ok = True
            nslots = 0
            for n in ast.walk(ast.Module(body=lp.body, type_ignores=[])):
                if (isinstance(n, ast.Subscript) and isinstance(n.value, ast.Subscript)
                        and _src(n.value.value).startswith('self._dict_')):
                    nslots += 1
                    if not (_is_name(n.value.slice, ka) and _is_name(n.slice, kb)):
                        keys_ok = False
                if (isinstance(n, ast.Subscript) and isinstance(n.value, ast.Attribute)
                        and n.value.attr == 'loc'):
                    nslots += 1
                    sl = n.slice
                    if not (isinstance(sl, ast.Tuple) and len(sl.elts) == 3
                            and _is_name(sl.elts[0], ka) and isinstance(sl.elts[1], ast.Slice)
                            and _is_name(sl.elts[2], kb)):
                        keys_ok = False
                if isinstance(n, ast.Call) and _src(n.func) == 'self._get_responses':
                    nslots += 1
                    if not (len(n.args) >= 2 and _is_name(n.args[0], ka)
                            and _is_name(n.args[1], kb)):
                        keys_ok = False
            if nslots == 0:
                keys_ok = False
    # the collect function names the task (and its file) from (source, freq) = inp
    file_key_ok = False
    cf = next((n for n in m.body if isinstance(n, ast.FunctionDef) and n.name == collect), None)
    if cf is not None and cf.args.args:
        inp = cf.args.args[0].arg
        body = [s for s in cf.body if not (isinstance(s, ast.Expr)
                                           and isinstance(s.value, ast.Constant))]
        if (body and isinstance(body[0], ast.Assign) and len(body[0].targets) == 1
                and isinstance(body[0].targets[0], ast.Tuple)
                and len(body[0].targets[0].elts) == 2
                and all(isinstance(e, ast.Name) for e in body[0].targets[0].elts)
                and _is_name(body[0].value, inp)):
            sa, sb = (e.id for e in body[0].targets[0].elts)
            rets = [s for s in ast.walk(cf) if isinstance(s, ast.Return)]
            rebound = [n for s in body[1:] for n in ast.walk(s)
                       if isinstance(n, ast.Name) and isinstance(n.ctx, ast.Store)
                       and n.id in (sa, sb)]
            if (len(rets) == 1 and isinstance(rets[0].value, ast.Call)
                    and _src(rets[0].value.func) == 'self._data_or_file'
                    and len(rets[0].value.args) == 4
                    and isinstance(rets[0].value.args[0], ast.Constant)
                    and _is_name(rets[0].value.args[1], sa)
                    and _is_name(rets[0].value.args[2], sb) and not rebound):
                # every _dict_get / get_grid / _get_rfield in collect uses (source, freq) too
                file_key_ok = True
                for n in ast.walk(cf):
                    if isinstance(n, ast.Call) and _src(n.func) in (
                            'self._dict_get', 'self.get_grid', 'self._get_rfield'):
                        tail = n.args[-2:]
                        if not (len(tail) == 2 and _is_name(tail[0], sa)
                                and _is_name(tail[1], sb)):
                            file_key_ok = False
    return dict(fn=mname, pm=pm, worker=worker, tasks_over=tasks_over, loop_over=loop_over,
                mapped_in_order=mapped_in_order, index_is_enum=index_ok,
                keys_are_loop_vars=keys_ok, file_key_ok=file_key_ok,
                tol_write=collector_tol_write(cf))


def collector_tol_write(cf):
    """Which tolerance the collector writes into the shared solver options right before it
    hands its task over: the statement directly before the single
    `return self._data_or_file(what, source, freq, DATA)` must be
    `DATA['solver_opts']['tol'] = self.tol_forward | self.tol_gradient` -> 'forward' /
    'gradient'; anything else -> None (the collector trusts whatever the register holds)."""
    if cf is None:
        return None
    body = [s for s in cf.body if not (isinstance(s, ast.Expr)
                                       and isinstance(s.value, ast.Constant))]
    rets = [s for s in ast.walk(cf) if isinstance(s, ast.Return)]
    if len(rets) != 1 or len(body) < 2 or body[-1] is not rets[0]:
        return None
    r, w = rets[0].value, body[-2]
    if not (isinstance(r, ast.Call) and len(r.args) == 4 and isinstance(r.args[3], ast.Name)):
        return None
    dname = r.args[3].id
    if not (isinstance(w, ast.Assign) and len(w.targets) == 1):
        return None
    if _src(w.targets[0]).replace('"', "'") != f"{dname}['solver_opts']['tol']":
        return None
    return {'self.tol_forward': 'forward', 'self.tol_gradient': 'gradient'}.get(_src(w.value))


def extract_srcfreq(cls):
    m = next((n for n in cls.body if isinstance(n, ast.FunctionDef) and n.name == '_srcfreq'), None)
    if m is None:
        raise ShapeError('Simulation._srcfreq not found')
    prods = [n for n in ast.walk(m) if isinstance(n, ast.Call)
             and _src(n.func) in ('itertools.product', 'product')]
    if len(prods) == 1 and not prods[0].keywords and \
            [_src(a) for a in prods[0].args] == ['self.survey.sources.keys()',
                                                 'self.survey.frequencies.keys()']:
        par = _parents(m)
        p = par[prods[0]]
        if isinstance(p, ast.Call) and _is_name(p.func, 'list') and \
                not _mentions(m, REORDER_NAMES | {'shuffle', 'random'}):
            return ('ProdSourcesFrequencies',)
    return ('ProdOther', _src(m)[-160:])


def extract_fname(cls):
    m = next((n for n in cls.body if isinstance(n, ast.FunctionDef)
              and n.name == '_data_or_file'), None)
    if m is None:
        raise ShapeError('Simulation._data_or_file not found')
    names = [a.arg for a in m.args.args]
    if names != ['self', 'what', 'source', 'frequency', 'data']:
        raise ShapeError('_data_or_file: signature changed: ' + str(names))
    js = [n for n in ast.walk(m) if isinstance(n, ast.JoinedStr)]
    if len(js) != 1:
        raise ShapeError('_data_or_file: expected exactly one f-string file name')
    # local names bound to the position of a key in the survey
    IDX = {'list(self.survey.sources.keys()).index(source)': 'PSourceIdx',
           'list(self.survey.frequencies.keys()).index(frequency)': 'PFrequencyIdx'}
    local = {}
    for n in ast.walk(m):
        if isinstance(n, ast.Assign) and len(n.targets) == 1 and isinstance(n.targets[0], ast.Name):
            local.setdefault(n.targets[0].id, []).append(n.value)
    pieces = []
    for v in js[0].values:
        if isinstance(v, ast.Constant):
            pieces.append(('PLit', v.value))
            continue
        if not (isinstance(v, ast.FormattedValue) and isinstance(v.value, ast.Name)
                and v.conversion == -1 and v.format_spec is None):
            raise ShapeError('_data_or_file: file name piece not understood: ' + _src(v))
        nm = v.value.id
        if nm in ('what', 'source', 'frequency') and nm not in local:
            pieces.append(({'what': 'PWhat', 'source': 'PSource',
                            'frequency': 'PFrequency'}[nm],))
        elif nm in local and len(local[nm]) == 1 and _src(local[nm][0]) in IDX:
            pieces.append((IDX[_src(local[nm][0])],))
        else:
            raise ShapeError('_data_or_file: file name piece not understood: ' + _src(v)
                             + (' = ' + _src(local[nm][0]) if nm in local else ''))
    return pieces


def extract_ondemand(cls):
    """get_efield / get_hfield -> compute(source=, frequency=) -> _compute([(source, frequency)]):
    the on-demand task is keyed by the very (source, frequency) whose slot is read back."""
    def meth(name):
        m = next((n for n in cls.body if isinstance(n, ast.FunctionDef) and n.name == name), None)
        if m is None:
            raise ShapeError(f'Simulation.{name} not found')
        return m
    ok = True
    comp = meth('compute')
    pops = {}
    for n in ast.walk(comp):
        if (isinstance(n, ast.Assign) and len(n.targets) == 1 and isinstance(n.targets[0], ast.Name)
                and isinstance(n.value, ast.Call) and _src(n.value.func) == 'kwargs.pop'
                and n.value.args and isinstance(n.value.args[0], ast.Constant)):
            pops[n.targets[0].id] = n.value.args[0].value
    calls = [n for n in ast.walk(comp) if isinstance(n, ast.Call) and _src(n.func) == 'self._compute']
    if len(calls) != 1 or len(calls[0].args) != 1:
        ok = False
    else:
        a = calls[0].args[0]
        if not (isinstance(a, ast.List) and len(a.elts) == 1 and isinstance(a.elts[0], ast.Tuple)
                and len(a.elts[0].elts) == 2
                and all(isinstance(e, ast.Name) for e in a.elts[0].elts)
                and [pops.get(e.id) for e in a.elts[0].elts] == ['source', 'frequency']):
            ok = False
    for name in ('get_efield', 'get_hfield'):
        m = meth(name)
        args = [x.arg for x in m.args.args]
        if args != ['self', 'source', 'frequency']:
            ok = False
            continue
        fk = [n for n in m.body if isinstance(n, ast.Assign) and len(n.targets) == 1
              and isinstance(n.targets[0], ast.Name)
              and _src(n.value) == 'self._freq_inp2key(frequency)']
        if len(fk) != 1:
            ok = False
            continue
        fv = fk[0].targets[0].id
        cc = [n for n in ast.walk(m) if isinstance(n, ast.Call) and _src(n.func) == 'self.compute']
        if len(cc) != 1 or cc[0].args or \
                sorted((k.arg, _src(k.value)) for k in cc[0].keywords) != \
                [('frequency', fv), ('source', 'source')]:
            ok = False
        reads = [n for n in ast.walk(m) if isinstance(n, ast.Call)
                 and _src(n.func) == 'self._dict_get']
        if not reads or any([_src(x) for x in r.args] != ["'efield'", 'source', fv] for r in reads):
            ok = False
    return ok


def extract_shapes(repo=None):
    repo = repo or V.REPO
    mp_src = open(os.path.join(repo, 'emg3d', '_multiprocessing.py')).read()
    sim_src = open(os.path.join(repo, 'emg3d', 'simulations.py')).read()
    mp = ast.parse(mp_src)
    sim = ast.parse(sim_src)
    cls = next((n for n in sim.body if isinstance(n, ast.ClassDef) and n.name == 'Simulation'),
               None)
    if cls is None:
        raise ShapeError('class Simulation not found')
    return dict(branches=extract_process_map(mp),
                sites=[extract_store_site(cls, n) for n in ('_compute', '_bcompute', 'jvec')],
                srcfreq=extract_srcfreq(cls), fname=extract_fname(cls),
                ondemand=extract_ondemand(cls))


def _cstr(s):
    s = ''.join(ch if 32 <= ord(ch) < 127 else '?' for ch in s)
    return '"' + s.replace('"', '""') + '"'


def _cguard(g):
    if g[0] == 'GWorkersGt':
        return f"(GWorkersGt ({g[1]})%Z)"
    if g[0] == 'GAnd':
        return f"(GAnd {_cguard(g[1])} {_cguard(g[2])})"
    return g[0]


def _ccoll(c):
    return c if isinstance(c, str) else f"(COther {_cstr(c[1])})"


def render_mpshape(sh):
    L = ["(* GENERATED on every run by py/props/c11.py (gen_mpshape) from",
         "   emg3d/_multiprocessing.py and emg3d/simulations.py -- do not edit. *)",
         "From Coq Require Import List String ZArith.",
         "From V Require Import Model.Sched.",
         "Import ListNotations.",
         "Local Open Scope string_scope.",
         "",
         "(* if/elif/else chain of emg3d._multiprocessing.process_map, in source order *)",
         "Definition process_map_branches : list branch := ["]
    L.append(';\n'.join(f"  mkBranch {_cguard(g)} {_ccoll(c)}" for g, c in sh['branches']))
    L.append("].")
    L.append("")
    L.append("(* out = process_map(...) / for i, (src, freq) in enumerate(...) sites of Simulation *)")
    L.append("Definition store_sites : list store_site := [")
    b = (lambda x: 'true' if x else 'false')
    L.append(';\n'.join(
        f"  mkSite {_cstr(s['fn'])} {_cstr(s['worker'])} {_cstr(s['tasks_over'])} "
        f"{_cstr(s['loop_over'])} {b(s['mapped_in_order'])} {b(s['index_is_enum'])} "
        f"{b(s['keys_are_loop_vars'])} {b(s['file_key_ok'])}" for s in sh['sites']))
    L.append("].")
    L.append("")
    sf = sh['srcfreq']
    L.append("Definition srcfreq_shape : product_shape := "
             + (sf[0] if len(sf) == 1 else f"ProdOther {_cstr(sf[1])}") + ".")
    L.append("")
    L.append("(* get_efield/get_hfield -> compute(source=, frequency=) -> _compute([(source, frequency)]):")
    L.append("   the on-demand task and the slot read back carry the same (source, frequency) *)")
    L.append("Definition ondemand_keys_ok : bool := " + ('true' if sh.get('ondemand') else 'false') + ".")
    L.append("")
    L.append("(* what each collector writes into the shared solver_opts['tol'] right before it hands")
    L.append("   its task over (statement before `return self._data_or_file(...)`) *)")
    kind_of = {'_compute': 'KForward', '_bcompute': 'KBackprop', 'jvec': 'KJvec'}
    tw = {kind_of.get(s['fn']): s.get('tol_write') for s in sh['sites']}

    def _tw(k):
        v = tw.get(k)
        if v == 'forward':
            return 'TWrite KForward'
        if v == 'gradient':
            return 'TWrite ' + (k if k in ('KBackprop', 'KJvec') else 'KBackprop')
        return 'TTrust'
    L.append("Definition collector_tol_writes : tol_writes := fun k => match k with "
             + ' | '.join(f"{k} => {_tw(k)}" for k in ('KForward', 'KBackprop', 'KJvec'))
             + " end.")
    L.append("")
    L.append("(* f-string of Simulation._data_or_file *)")
    L.append("Definition fname_pattern : list fpiece := ["
             + '; '.join(p[0] if len(p) == 1 else f"PLit {_cstr(p[1])}" for p in sh['fname'])
             + "].")
    return '\n'.join(L) + '\n'


def gen_mpshape(ctx):
    sh = extract_shapes()
    text = render_mpshape(sh)
    p = os.path.join(V.COQ, 'Gen', 'MpShape.v')
    os.makedirs(os.path.dirname(p), exist_ok=True)
    old = open(p).read() if os.path.exists(p) else None
    if old != text:
        with open(p, 'w') as f:
            f.write(text)
    ctx.notes.append('Gen/MpShape.v: collectors ' + ', '.join(
        c if isinstance(c, str) else 'COther' for _, c in sh['branches'])
        + '; sites ' + ', '.join(s['fn'] for s in sh['sites']))


PREBUILD = [gen_mpshape]


# =====================================================================
# Stress harness A: the real process_map with adversarial run times
# =====================================================================
PATTERNS = ('reverse', 'random', 'straggler')
_LOG_FD = None          # append-only log shared with the forked workers


def _log(line):
    if _LOG_FD is not None:
        os.write(_LOG_FD, (line + '\n').encode())


def _task_value(v, i):
    return v * v + 3 * i + 1


class FakeGrid:
    """Stand-in for a computational grid: real tasks are dicts that carry one."""
    def __init__(self, n_cells):
        self.n_cells = n_cells


def harness_fn(task, extra=None):
    """Task function handed to process_map: sleeps as long as the task says,
    logs start/finish, returns a value that identifies (index, payload).
    Tasks are tuples or, like the real ones, dicts carrying a grid of some size."""
    if isinstance(task, dict):
        i, delay_ms, v, fail = task['i'], task['delay_ms'], task['v'], task['fail']
    else:
        i, delay_ms, v, fail = task
    t0 = time.monotonic()
    if delay_ms:
        time.sleep(delay_ms / 1000.0)
    if fail:
        _log(f"F {i} {os.getpid()} {t0!r} {time.monotonic()!r}")
        raise ValueError(f"task {i} failed")
    r = _task_value(v, i) + (0 if extra is None else 7 * extra)
    _log(f"T {i} {os.getpid()} {t0!r} {time.monotonic()!r}")
    return r


def make_delays(rng, n, pattern, scale):
    if pattern == 'reverse':
        return [int(scale * (n - i)) for i in range(n)]
    if pattern == 'random':
        return [rng.randint(0, int(scale * n)) for _ in range(n)]
    if pattern == 'straggler':
        k = rng.randrange(max(1, n // 2))
        return [int(scale * n * 1.5) if i == k else rng.randint(0, 3) for i in range(n)]
    return [0] * n


class _Log:
    def __enter__(self):
        global _LOG_FD
        self.path = tempfile.mktemp(prefix='c11_log_')
        _LOG_FD = os.open(self.path, os.O_CREAT | os.O_WRONLY | os.O_APPEND, 0o600)
        return self

    def events(self):
        ev = []
        with open(self.path) as f:
            for line in f:
                p = line.split()
                if p[0] == 'S':
                    continue
                ev.append((p[0], int(p[1]), int(p[2]), float(p[3]), float(p[4])))
        return ev

    def dispatched(self):
        """hand-over file names in the order the tasks were started"""
        nm = []
        with open(self.path) as f:
            for line in f:
                p = line.split()
                if p[0] == 'S' and len(p) > 4:
                    nm.append((int(p[1]), p[4]))
        return [n for _, n in sorted(nm)]

    def solves(self):
        """(dispatch count, kind, tol as hex) of every solve the wrapper saw."""
        sv = []
        with open(self.path) as f:
            for line in f:
                p = line.split()
                if p[0] == 'S':
                    sv.append((int(p[1]), p[2], p[3]))
        return sorted(sv)

    def __exit__(self, *a):
        global _LOG_FD
        os.close(_LOG_FD)
        _LOG_FD = None
        try:
            os.remove(self.path)
        except OSError:
            pass


class _TqdmMasked:
    """`tqdm` not importable, as seen by emg3d._multiprocessing (the module
    binds `tqdm = None` in that case)."""
    def __init__(self, masked):
        self.masked = masked

    def __enter__(self):
        from emg3d import _multiprocessing as _mp
        self.mp, self.old = _mp, _mp.tqdm
        if self.masked:
            _mp.tqdm = None
        return self

    def __exit__(self, *a):
        self.mp.tqdm = self.old


def run_process_map(case):
    """Run emg3d._multiprocessing.process_map on one harness case.  Returns
    dict(result | error, events, parent pid)."""
    from emg3d import _multiprocessing as _mp
    n = case['n']
    tasks = [(i, case['delays'][i], case['values'][i], i == case.get('fail_at'))
             for i in range(n)]
    if case.get('sizes'):       # dict tasks with grids of different cell counts
        tasks = [{'i': t[0], 'delay_ms': t[1], 'v': t[2], 'fail': t[3], 'model': None,
                  'grid': FakeGrid(case['sizes'][t[0]]), 'efield': None, 'solver_opts': {}}
                 for t in tasks]
    its = [tasks]
    if case.get('two_iterables'):
        its.append(list(range(100, 100 + n)))
    out = {'parent': os.getpid()}
    with _Log() as lg, _TqdmMasked(case['tqdm_masked']):
        try:
            res = _mp.process_map(harness_fn, *its, max_workers=case['max_workers'],
                                  disable=True)
            out['result'] = [int(x) for x in res]
        except ValueError as e:
            out['error'] = 'ValueError'
            out['msg'] = str(e)
        except Exception as e:      # noqa
            out['error'] = type(e).__name__
            out['msg'] = str(e)[:200]
        out['events'] = lg.events()
    return out


def expected_result(case):
    n = case['n']
    ex = [None] * n
    for i in range(n):
        extra = (100 + i) if case.get('two_iterables') else None
        ex[i] = _task_value(case['values'][i], i) + (0 if extra is None else 7 * extra)
    return ex


def trace_of(events, n):
    """Rebuild a Start/Finish trace (worker indices) from the log: Finish
    events in the order of the logged finish times; Start events in submission
    order (the pool's queue is FIFO), each as early as its worker is idle (the
    log only has the time the function was entered, not the dequeue time)."""
    pids = {}
    fin = sorted(events, key=lambda e: e[4])
    worker_of = {}
    for kind, i, pid, t0, t1 in sorted(events, key=lambda e: e[3]):
        worker_of[i] = pids.setdefault(pid, len(pids))
    order = sorted(worker_of)
    busy, nxt, tr = set(), 0, []

    def start_some():
        nonlocal nxt
        while nxt < len(order) and worker_of[order[nxt]] not in busy:
            w = worker_of[order[nxt]]
            busy.add(w)
            tr.append(('Start', w))
            nxt += 1
    start_some()
    for kind, i, pid, t0, t1 in fin:
        w = worker_of[i]
        tr.append(('Finish', w))
        busy.discard(w)
        start_some()
    completion = [e[1] for e in fin]
    return tr, completion, len(pids)


def gen_pm_cases(ctx):
    rng = ctx.rng
    if ctx.thorough:
        workers = list(range(1, 17))
        reps = 2
    else:
        workers = [1, 2, 3, 5, 16]
        reps = 1
    cases = []
    for mw in workers:
        for pat in PATTERNS:
            for masked in (False, True):
                for _ in range(reps):
                    n = rng.randint(3, 12)
                    scale = 90.0 / n if mw > 1 else 0.0     # sequential: no sleeping
                    c = dict(kind='process_map', n=n, max_workers=mw, pattern=pat,
                             tqdm_masked=masked,
                             delays=make_delays(rng, n, pat, scale),
                             values=[rng.randint(-50, 50) for _ in range(n)],
                             two_iterables=rng.random() < 0.25)
                    if rng.random() < 0.35:     # tasks of different sizes, like real ones
                        ab = rng.sample([64, 96, 128, 256, 512], 3)
                        c['sizes'] = ([ab[0], ab[1]] * n)[:n] if rng.random() < 0.5 \
                            else [rng.choice(ab) for _ in range(n)]
                    cases.append(c)
    # edge stream: empty list, one task, non-positive worker counts
    for mw in (0, 1, 4, -2):
        for masked in (False, True):
            for n in (0, 1):
                cases.append(dict(kind='process_map', n=n, max_workers=mw, pattern='none',
                                  tqdm_masked=masked, delays=[0] * n,
                                  values=[rng.randint(-9, 9) for _ in range(n)],
                                  two_iterables=False))
    # malformed stream: one task raises
    for mw in (1, 2, 5):
        for masked in (False, True):
            n = rng.randint(3, 7)
            cases.append(dict(kind='process_map', n=n, max_workers=mw, pattern='random',
                              tqdm_masked=masked,
                              delays=make_delays(rng, n, 'random', 30.0 / n if mw > 1 else 0),
                              values=[rng.randint(-9, 9) for _ in range(n)],
                              two_iterables=False, fail_at=rng.randrange(n)))
    return cases


def coq_pm_file(items):
    """One Coq file evaluating the model on the recorded traces."""
    L = ["From Coq Require Import ZArith List String.",
         "From V Require Import Model.Sched Gen.MpShape.",
         "Import ListNotations.",
         "Set Printing Width 1000000.", "Set Printing Depth 10000000.",
         "Definition fz (t : nat * (Z * option Z)) : Z :=",
         "  let i := Z.of_nat (fst t) in let v := fst (snd t) in",
         "  (v * v + 3 * i + 1 + match snd (snd t) with Some e => 7 * e | None => 0 end)%Z.",
         "Definition tagnum (c : collector) : nat := match c with CExecutorMap => 1",
         "  | CTqdmProcessMap => 2 | CBuiltinMap => 3 | CTqdmOverMap => 4 | CAsCompleted => 5",
         "  | COther _ => 6 end.",
         "Definition go (mw : Z) (tq : bool) (nw : nat) (tasks : list (nat * (Z * option Z)))",
         "  (tr : list step) :=",
         "  match select_branch process_map_branches mw tq with",
         "  | None => (0, false, @nil nat, @nil (option Z))",
         "  | Some b =>",
         "    match run fz nw (submit_all tasks) tr with",
         "    | None => (tagnum (br_collector b), false, @nil nat, @nil (option Z))",
         "    | Some p => (tagnum (br_collector b), quiescent p, map fst (completed p),",
         "                 collect fz (br_collector b) tasks (completed p))",
         "    end end."]
    for (case, tr, nw) in items:
        n = case['n']
        tasks = []
        for i in range(n):
            e = f"(Some ({100 + i})%Z)" if case.get('two_iterables') else "None"
            tasks.append(f"({i}%nat, (({case['values'][i]})%Z, {e}))")
        trs = '; '.join(f"{k} {w}" for k, w in tr)
        L.append(f"Eval vm_compute in go ({case['max_workers']})%Z "
                 f"{'true' if case['tqdm_masked'] else 'false'} {nw} "
                 f"[{'; '.join(tasks)}] [{trs}].")
    return '\n'.join(L) + '\n'


TAGS = {1: 'CExecutorMap', 2: 'CTqdmProcessMap', 3: 'CBuiltinMap', 4: 'CTqdmOverMap',
        5: 'CAsCompleted', 6: 'COther', 0: 'none'}


def parse_go(ans):
    """'(tag, bool, [..], [Some x; ...])' -> (tag, ok, completion, collected)."""
    import re
    m = re.match(r'^\(\s*(\d+)\s*,\s*(true|false)\s*,\s*(\[[^\]]*\]|nil)\s*,\s*(.*)\)$', ans.strip())
    if not m:
        raise ValueError('cannot parse model answer: ' + ans[:200])
    tag = int(m.group(1))
    ok = m.group(2) == 'true'
    comp = [int(x) for x in re.findall(r'-?\d+', m.group(3))]
    coll_txt = m.group(4)
    coll = []
    for tok in re.findall(r'Some \(?(-?\d+)\)?|None', coll_txt):
        coll.append(int(tok) if tok != '' else None)
    if 'None' in coll_txt:
        coll = [None if c is None else c for c in coll]
    return tag, ok, comp, coll


def correspondence_pm(ctx, dis, hist):
    cases = gen_pm_cases(ctx)
    items, perturbed, nontrivial = [], 0, set()
    invalid_traces = 0
    samples = []
    for case in cases:
        r = run_process_map(case)
        case['_run'] = r
        n = case['n']
        key = ('fail' if 'fail_at' in case else 'ok', case['pattern'],
               min(case['max_workers'], 2), case['tqdm_masked'])
        hist['pm:' + '/'.join(map(str, key))] = hist.get('pm:' + '/'.join(map(str, key)), 0) + 1
        brief = {k: case[k] for k in ('n', 'max_workers', 'pattern', 'tqdm_masked', 'delays',
                                      'values', 'two_iterables', 'sizes') if k in case}
        if 'fail_at' in case:
            brief['fail_at'] = case['fail_at']
            # property on the malformed stream: the failure surfaces as the task's own
            # exception in every configuration; never a list with a hole / wrong slot
            if r.get('error') != 'ValueError' or f"task {case['fail_at']} failed" not in r.get('msg', ''):
                dis.append({'what': 'process_map: failing task not reported as its own exception',
                            'case': brief, 'impl': {k: r.get(k) for k in ('error', 'msg', 'result')},
                            'model': 'ValueError of the failing task'})
            continue
        if 'error' in r:
            dis.append({'what': 'process_map raised on a valid case', 'case': brief,
                        'impl': r['error'] + ': ' + r.get('msg', ''), 'model': 'list'})
            continue
        exp = expected_result(case)
        if r['result'] != exp:
            dis.append({'what': 'process_map result differs from the sequential list '
                                '[fn(t) for t in tasks]',
                        'signature': 'process_map result depends on completion order',
                        'case': brief, 'impl': r['result'], 'model': exp})
        ev = [e for e in r['events'] if e[0] == 'T']
        if len(ev) != n:
            dis.append({'what': 'process_map: number of executed tasks differs from submitted',
                        'case': brief, 'impl': len(ev), 'model': n})
            continue
        tr, completion, nproc = trace_of(ev, n)
        parallel = any(e[2] != r['parent'] for e in ev)
        case['_parallel'] = parallel
        case['_completion'] = completion
        if completion != sorted(completion):
            perturbed += 1
            nontrivial.add((n, case['max_workers'], case['pattern'], case['tqdm_masked'],
                            tuple(completion)))
        if nproc > max(1, case['max_workers']):
            dis.append({'what': 'process_map used more worker processes than max_workers',
                        'case': brief, 'impl': nproc, 'model': case['max_workers']})
        items.append((case, tr, max(nproc, 1)))
        if len(samples) < 4 and completion != sorted(completion):
            samples.append(dict(brief, completion_order=completion, result=r['result']))
    # evaluate the model on the recorded traces
    files = []
    per = 120
    for k in range(0, len(items), per):
        files.append((f"c11_pm_{k // per}", coq_pm_file(items[k:k + per])))
    res = V.coq_eval_many(files)
    validated = 0
    for fi, (name, _) in enumerate(files):
        rc, out = res[name]
        chunk = items[fi * per:(fi + 1) * per]
        if rc != 0:
            dis.append({'what': 'Coq model evaluation failed', 'case': name, 'impl': '',
                        'model': out[-1500:]})
            continue
        answers = V.eval_answers(out)
        if len(answers) != len(chunk):
            dis.append({'what': 'Coq model: answer count mismatch', 'case': name,
                        'impl': len(chunk), 'model': len(answers)})
            continue
        for (case, tr, nw), a in zip(chunk, answers):
            tag, ok, comp, coll = parse_go(a)
            brief = {k: case[k] for k in ('n', 'max_workers', 'pattern', 'tqdm_masked')}
            tname = TAGS.get(tag, '?')
            par_model = tname in ('CExecutorMap', 'CTqdmProcessMap', 'CAsCompleted')
            if case['n'] >= 2 and par_model != case['_parallel'] and not (
                    par_model and not case['_parallel']):
                # sequential tag but tasks ran in other processes
                dis.append({'what': 'branch selected by the extracted guards is sequential but '
                                    'the implementation ran tasks in worker processes',
                            'case': brief, 'impl': 'parallel', 'model': tname})
            if not ok:
                invalid_traces += 1       # log race: trace not replayable by the model
                continue
            validated += 1
            if comp != case['_completion']:
                dis.append({'what': 'model pool: completion order differs from the recorded one',
                            'case': brief, 'impl': case['_completion'], 'model': comp})
            if coll != case['_run']['result']:
                dis.append({'what': 'model collector result differs from process_map result',
                            'case': brief, 'impl': case['_run']['result'], 'model': coll})
    if items and invalid_traces > max(3, len(items) // 5):
        dis.append({'what': 'too many recorded traces are not accepted by the pool model',
                    'case': {}, 'impl': invalid_traces, 'model': len(items)})
    hist['pm:perturbed_completion_orders'] = perturbed
    hist['pm:traces_not_replayable(log race)'] = invalid_traces
    return len(cases), len(nontrivial), validated, samples


# =====================================================================
# Stress harness B: tiny simulations, bit-for-bit against the sequential run
# =====================================================================
_SOLVE_STATE = {}


def _delayed_solve(inp):
    """Stand-in for emg3d._multiprocessing.solve (patched in the PARENT before
    the pool forks): sleeps according to the dispatch count, then calls the
    real wrapper.  The result is untouched."""
    st = _SOLVE_STATE
    c = st['counter']
    with c.get_lock():
        i = c.value
        c.value += 1
    d = st['delays'][i % len(st['delays'])] if st['delays'] else 0
    t0 = time.monotonic()
    if d:
        time.sleep(d / 1000.0)
    try:        # what this solve actually received (file mode: what the hand-over file holds)
        from emg3d import io as _io
        d_in = _io.load(inp, verb=0)['data'] if isinstance(inp, str) else inp
        kind = 'forward' if 'source' in d_in else 'sfield'
        nm = os.path.basename(inp) if isinstance(inp, str) else '-'
        _log(f"S {i} {kind} {float(d_in['solver_opts']['tol']).hex()} {nm}")
    except Exception as e:      # noqa
        _log(f"S {i} unreadable {type(e).__name__}")
    out = st['orig'](inp)
    _log(f"T {i} {os.getpid()} {t0!r} {time.monotonic()!r}")
    return out


_delayed_solve.__module__ = 'emg3d._multiprocessing'
_delayed_solve.__qualname__ = 'solve'
_delayed_solve.__name__ = 'solve'


class _PatchedSolve:
    def __init__(self, delays):
        self.delays = delays

    def __enter__(self):
        import multiprocessing
        from emg3d import _multiprocessing as _mp
        self.mp = _mp
        self.orig = _mp.solve
        _SOLVE_STATE.update(counter=multiprocessing.Value('i', 0), delays=self.delays,
                            orig=self.orig)
        _mp.solve = _delayed_solve
        return self

    def __exit__(self, *a):
        self.mp.solve = self.orig
        _SOLVE_STATE.clear()


# (nsrc, nrec, nfreq) of the deterministic first block: more frequencies than
# receivers, one receiver, more sources than frequencies, one frequency, one source, ...
# (a hand-over name that mixes up the three survey dimensions collides on some of them)
DIMS_BLOCK = [(2, 1, 3), (3, 1, 2), (2, 2, 4), (4, 3, 2), (3, 2, 1), (1, 1, 3), (2, 3, 3)]
# more than ten frequencies / sources: two-digit positions (names sort differently from slots)
DIMS_BIG = [(1, 1, 11), (11, 1, 1)]


def gen_survey_spec(rng, big=False, adversarial_keys=False, dims=None):
    shape = [rng.choice([4, 4, 6, 8] if big else [4, 4, 6]) for _ in range(3)]
    if dims is None:
        nsrc = rng.choice([2, 3, 3])
        nrec = rng.choice([1, 2, 3])
        nfreq = rng.choice([2, 3, 4])
    else:
        nsrc, nrec, nfreq = dims
    spec = dict(
        shape=shape,
        h=[[rng.choice([100.0, 150.0, 200.0, 250.0]) for _ in range(m)] for m in shape],
        prop=[rng.randint(1, 64) / 16.0 for _ in range(shape[0] * shape[1] * shape[2])],
        aniso=rng.choice(['isotropic', 'isotropic', 'VTI']),
        src=[[rng.randint(-8, 8) * 12.5, rng.randint(-8, 8) * 12.5, rng.randint(-8, 8) * 12.5,
              rng.randint(0, 35) * 10.0, rng.randint(-8, 8) * 10.0] for _ in range(nsrc)],
        rec=[[rng.randint(-10, 10) * 12.5, rng.randint(-10, 10) * 12.5,
              rng.randint(-6, 6) * 12.5, rng.randint(0, 35) * 10.0, 0.0] for _ in range(nrec)],
        rec_magnetic=[rng.random() < 0.3 for _ in range(nrec)],
        freqs=sorted(rng.sample([0.25, 0.5, 1.0, 2.0, 4.0, 8.0] if nfreq <= 6 else
                            [round(0.125 * 1.5 ** k, 6) for k in range(14)], nfreq)),
        obs_scale=1.0 + rng.randint(1, 8) / 16.0,
        vec_seed=rng.randint(0, 2**31 - 1),
        dims=[nsrc, nrec, nfreq],
    )
    if adversarial_keys:
        # arbitrary user strings as keys: separators, blanks, one key a prefix of another
        spec['src_keys'] = ['Tx', 'Tx_A', 'S 3_f'][:nsrc]
        spec['freq_keys'] = ['A_f1', 'f1', 'f_1'][:nfreq]
    return spec


def build_sim(spec, max_workers, file_dir):
    import emg3d
    shape = spec['shape']
    hs = [np.array(h) for h in spec['h']]
    origin = tuple(-h.sum() / 2 for h in hs)
    grid = emg3d.TensorMesh(hs, origin)
    px = np.array(spec['prop']).reshape(shape, order='F')
    kw = dict(property_x=px, mapping='Conductivity')
    if spec['aniso'] == 'VTI':
        kw['property_z'] = px[::-1, :, :] * 0.5 + 0.25
    model = emg3d.Model(grid, **kw)
    skeys = spec.get('src_keys') or [f"TxED-{i + 1}" for i in range(len(spec['src']))]
    srcs = {skeys[i]: emg3d.TxElectricDipole(tuple(c)) for i, c in enumerate(spec['src'])}
    recs = {}
    for i, (c, mag) in enumerate(zip(spec['rec'], spec['rec_magnetic'])):
        cls = emg3d.RxMagneticPoint if mag else emg3d.RxElectricPoint
        recs[f"Rx-{i + 1}"] = cls(tuple(c))
    freqs = spec['freqs']
    if spec.get('freq_keys'):
        freqs = {k: v for k, v in zip(spec['freq_keys'], spec['freqs'])}
    survey = emg3d.Survey(srcs, recs, freqs, noise_floor=1e-18, relative_error=0.05)
    gridding, gopts = 'same', None
    if spec.get('freq_nx'):
        # computational grids of different cell counts: frequency k has freq_nx[k] cells in x
        # over the same extent (gridding='dict')
        ext = float(hs[0].sum())
        fkeys = list(survey.frequencies.keys())
        gr = {fk: emg3d.TensorMesh([np.ones(nx) * ext / nx, hs[1], hs[2]], origin)
              for fk, nx in zip(fkeys, spec['freq_nx'])}
        gridding, gopts = 'dict', {sk: dict(gr) for sk in survey.sources.keys()}
    sim = emg3d.Simulation(survey, model, max_workers=max_workers, gridding=gridding,
                           gridding_opts=gopts,
                           file_dir=file_dir,
                           solver_opts=dict({'sslsolver': False, 'maxit': 30},
                                            **({'tol': spec['tols'][0],
                                                'tol_gradient': spec['tols'][1]}
                                               if spec.get('tols') else {})),
                           tqdm_opts=False, receiver_interpolation='linear', verb=-1)
    return sim


def _bytes(a):
    return hashlib.sha1(np.ascontiguousarray(a).tobytes()).hexdigest()


def _canon(x):
    """Value of a solver-info entry, independent of its container type
    (HDF5 hands back numpy scalars; that is C17's subject, not C11's)."""
    if isinstance(x, (bool, np.bool_)):
        return bool(x)
    if isinstance(x, (int, np.integer)):
        return int(x)
    if isinstance(x, (float, np.floating)):
        return float(x).hex()
    return str(x)


INFO_KEYS = ('exit', 'exit_message', 'abs_error', 'rel_error', 'ref_error', 'it_mg', 'it_ssl')


def observe(sim, what, obs):
    """Run forward (+gradient, +jvec) and return digests of everything
    observable: one entry per slot."""
    out = {}
    sim.compute()
    for (s, f) in sim._srcfreq:
        e = sim.get_efield(s, f)
        out[f"efield[{s}][{f}]"] = _bytes(e.field)
        out[f"efield.freq[{s}][{f}]"] = repr(complex(e.frequency))
        info = sim.get_efield_info(s, f)
        out[f"info[{s}][{f}]"] = repr([_canon(info[k]) for k in INFO_KEYS]
                                      + [_bytes(np.asarray(info['error_at_cycle'], float))])
    out['synthetic'] = _bytes(sim.data.synthetic.data)
    if what == 'forward':
        return out
    sim.survey.data['observed'][...] = obs
    out['misfit'] = float(sim.misfit).hex()
    if what == 'gradient':
        g = sim.gradient
        out['gradient'] = _bytes(g)
        for (s, f) in sim._srcfreq:
            out[f"bfield[{s}][{f}]"] = _bytes(sim._dict_get('bfield', s, f).field)
    if what == 'jvec':
        ncomp = {'isotropic': 1, 'HTI': 2, 'VTI': 2, 'triaxial': 3}[sim.model.case]
        vec = np.random.RandomState(obs_seed(obs)).randint(
            -8, 9, (ncomp, *sim.model.shape)) / 8.0
        jv = sim.jvec(vec)
        out['jvec'] = _bytes(jv)
    return out


def obs_seed(obs):
    return int(hashlib.sha1(np.ascontiguousarray(obs).tobytes()).hexdigest()[:8], 16)


def run_sim_config(spec, cfg, obs):
    """One configuration of one survey.  Returns (digests, completion order).
    A configuration that raises where the sequential run succeeded is reported
    as a digest {'raised': ...} (it then differs from the reference)."""
    try:
        return _run_sim_config(spec, cfg, obs)
    except Exception as e:       # noqa
        return {'raised': type(e).__name__ + ': ' + str(e)[:300]}, []


def _run_sim_config(spec, cfg, obs):
    fd = tempfile.mkdtemp(prefix='c11_fd_') if cfg['file_dir'] else None
    try:
        with _Log() as lg, _TqdmMasked(cfg['tqdm_masked']), _PatchedSolve(cfg['delays']):
            sim = build_sim(spec, cfg['max_workers'], fd)
            digs = observe(sim, cfg['what'], obs)
            if cfg.get('recompute'):
                first = dict(digs)
                # restart contract (Hfix of recompute_idempotent) is about CONVERGED
                # solves: a solve that stopped at maxit continues when restarted
                conv = {k: int(sim.get_efield_info(*k)['exit']) == 0 for k in sim._srcfreq}
                sim.compute()
                for (s, f) in sim._srcfreq:
                    k = f"efield[{s}][{f}]"
                    if conv[(s, f)]:
                        digs['re:' + k] = _bytes(sim.get_efield(s, f).field)
                        digs['first:' + k] = first[k]
                if all(conv.values()):
                    digs['re:synthetic'] = _bytes(sim.data.synthetic.data)
                digs['#nonconverged'] = sum(1 for v in conv.values() if not v)
            ev = lg.events()
        comp = [e[1] for e in sorted(ev, key=lambda e: e[4])]
        return digs, comp
    finally:
        if fd:
            shutil.rmtree(fd, ignore_errors=True)


def reference(spec):
    """Sequential, in memory, unpatched: the result every configuration must
    reproduce bit for bit."""
    sim = build_sim(spec, 1, None)
    sim.compute()
    obs = sim.data.synthetic.data.copy() * spec['obs_scale']
    ref = {}
    for what in ('forward', 'gradient', 'jvec'):
        ref[what] = observe(build_sim(spec, 1, None), what, obs)
    return obs, ref


def own_task_oracle(spec, obs, file_dir=False):
    """Independent of process_map and of the store loops: solve the task of
    every (source, frequency) slot by itself and compare with what the
    simulation stored in that slot (forward field and back-propagated field).
    With file_dir=True the simulation hands its tasks over through files."""
    fd = tempfile.mkdtemp(prefix='c11_own_') if file_dir else None
    try:
        return _own_task_oracle(spec, obs, fd)
    except Exception as e:       # noqa
        return ['own-task run raised ' + type(e).__name__ + ': ' + str(e)[:200]]
    finally:
        if fd:
            shutil.rmtree(fd, ignore_errors=True)


def _own_task_oracle(spec, obs, fd):
    from emg3d import _multiprocessing as _mp
    sim = build_sim(spec, 1, fd)
    sim.compute()
    sim.survey.data['observed'][...] = obs
    _ = sim.gradient
    bad = []
    for (s, f) in sim._srcfreq:
        base = dict(sim.solver_opts)
        own_e, _i = _mp.solve({'model': sim.model, 'grid': sim.get_grid(s, f),
                               'source': sim.survey.sources[s],
                               'frequency': sim.survey.frequencies[f], 'efield': None,
                               'solver_opts': {**base, 'tol': sim.tol_forward}})
        if _bytes(own_e.field) != _bytes(sim.get_efield(s, f).field):
            bad.append(f"efield[{s}][{f}] is not the result of its own task")
        own_b, _i = _mp.solve({'model': sim.model, 'sfield': sim._get_rfield(s, f),
                               'efield': None,
                               'solver_opts': {**base, 'tol': sim.tol_gradient}})
        if _bytes(own_b.field) != _bytes(sim._dict_get('bfield', s, f).field):
            bad.append(f"bfield[{s}][{f}] is not the result of its own task")
    return bad


def sim_configs(ctx, spec, si=0):
    rng = ctx.rng
    ntask = len(spec['src']) * len(spec['freqs'])
    workers = [1, 2, 5, 16] if ctx.thorough else [1, 2, 5]
    cfgs = []
    k = 0
    for mw in workers:
        for file_dir in (False, True):
            for what in ('forward', 'gradient', 'jvec'):
                if not ctx.thorough and ((k + si) % 2 == 1):
                    k += 1
                    continue       # quick tier: the two surveys split the 18 combinations
                k += 1
                pat = PATTERNS[rng.randrange(3)]
                delays = make_delays(rng, ntask, pat, 60.0 / ntask) if mw > 1 else []
                cfgs.append(dict(max_workers=mw, file_dir=file_dir, what=what, pattern=pat,
                                 delays=delays, tqdm_masked=rng.random() < 0.4,
                                 recompute=(what == 'forward' and rng.random() < 0.5)))
    return cfgs


def compare_digests(ref, digs):
    bad = []
    if 'raised' in digs:
        return ['configuration raised ' + digs['raised']]
    for k, v in ref.items():
        if digs.get(k) != v:
            bad.append(k)
    for k, v in digs.items():
        if k.startswith('re:') and k != 're:synthetic':
            if v != digs['first:' + k[3:]]:
                bad.append('recompute changed ' + k[3:])
        if k == 're:synthetic' and v != digs['synthetic']:
            bad.append('recompute changed synthetic')
    return bad


def model_dispatch_names(skeys, fkeys):
    """Hand-over file names of a full forward compute in DISPATCH order according to the
    model: task i of the dispatched list is slot i of sources x frequencies, named by the
    pattern extracted from the current source (Gen/MpShape.v)."""
    import re
    ls = lambda xs: '[' + '; '.join('"%s"' % x for x in xs) + ']'
    txt = ("From Coq Require Import List String.\nFrom V Require Import Model.Sched Proofs.Sched "
           "Gen.MpShape Proofs.SchedTie.\nImport ListNotations.\nLocal Open Scope string_scope.\n"
           "Set Printing Width 1000000.\nSet Printing Depth 1000000.\n"
           f"Eval vm_compute in map (fname \"efield\" {ls(skeys)} {ls(fkeys)}) "
           f"(srcfreq {ls(skeys)} {ls(fkeys)}).\n")
    rc, out = V.coq_eval('c11_names', txt)
    if rc != 0:
        raise RuntimeError('file-name model does not evaluate: ' + out[-600:])
    return re.findall(r'"([^"]*)"', V.eval_answers(out)[0])


def dispatch_order_problems(spec, ref=None):
    """file_dir, one worker: the i-th task that is started must be the task of slot i;
    with `ref` (forward digests of the in-memory run) every slot is compared as well."""
    fd = tempfile.mkdtemp(prefix='c11_do_')
    try:
        pre = []
        with _Log() as lg, _TqdmMasked(False), _PatchedSolve([]):
            sim = build_sim(spec, 1, fd)
            digs = observe(sim, 'forward', None)
            got = lg.dispatched()
            skeys, fkeys = list(sim.survey.sources.keys()), list(sim.survey.frequencies.keys())
        if ref is not None:
            bad = compare_digests(ref, digs)
            if bad:
                pre.append('digests differ from the in-memory run: ' + ', '.join(bad[:6]))
        try:
            want = model_dispatch_names(skeys, fkeys)
        except Exception as e:      # noqa  (model not built: the proof obligation reports it)
            return pre
        if got != want:
            i = next((k for k in range(min(len(got), len(want))) if got[k] != want[k]),
                     min(len(got), len(want)))
            return pre + [f"dispatch order: task {i} of the dispatched list is "
                    f"{got[i] if i < len(got) else 'missing'}, slot {i} is "
                    f"{want[i] if i < len(want) else '-'} "
                    f"(dispatched: {got[:4]} ... {got[-2:]})"]
        return pre
    except Exception as e:      # noqa
        return ['dispatch-order run raised ' + type(e).__name__ + ': ' + str(e)[:200]]
    finally:
        shutil.rmtree(fd, ignore_errors=True)


def dims_block_hits(rng, block, hist=None, stop_at_first=False):
    """For every (nsrc, nrec, nfreq) of the block: file_dir mode (sequential, so no
    forking) against the in-memory reference (forward + gradient digests) and the
    own-task oracle in file_dir mode.  Returns hit dicts with the concrete survey."""
    hits = []
    for dims in block:
        spec = gen_survey_spec(rng, dims=dims)
        spec['shape'] = [4, 4, 4]
        spec['h'] = [h[:4] if len(h) >= 4 else (h + [200.0] * 4)[:4] for h in spec['h']]
        spec['prop'] = (spec['prop'] * 2)[:64]
        cfg = dict(max_workers=1, file_dir=True, what='gradient', pattern='none', delays=[],
                   tqdm_masked=False, recompute=False)
        if max(dims) > 10:
            # many tasks: forward run only, loose tolerance; the dispatch-order tie (task i of
            # the dispatched list is slot i, names from the Coq model) replaces own-task solves
            spec['tols'] = [1e-4, 1e-4]
            cfg['what'] = 'forward'
            ref = observe(build_sim(spec, 1, None), 'forward', None)
            bad, comp = [], []
            own = dispatch_order_problems(spec, ref)
        else:
            sim = build_sim(spec, 1, None)
            sim.compute()
            obs = sim.data.synthetic.data.copy() * spec['obs_scale']
            ref = observe(build_sim(spec, 1, None), 'gradient', obs)
            digs, comp = run_sim_config(spec, cfg, obs)
            bad = compare_digests(ref, digs)
            own = own_task_oracle(spec, obs, file_dir=True)
        if hist is not None:
            k = 'sim:dims_block/file'
            hist[k] = hist.get(k, 0) + 1
        if bad or own:
            hits.append({'signature': 'simulation result depends on execution configuration',
                         'kind': 'simulation', 'spec': spec, 'config': cfg,
                         'observed': ('digests differ from the in-memory run: ' + ', '.join(bad[:6])
                                      if bad else '') + (' | ' + '; '.join(own[:4]) if own else ''),
                         'required': 'file_dir run bit-identical to max_workers=1 in memory; every '
                                     'slot = result of its own task',
                         'completion_order': comp})
            if stop_at_first:
                break
    return hits


def sized_grids_hits(rng, workers=(2, 3), hist=None):
    """2 sources x 2 (3) frequencies whose computational grids have different cell
    counts, the LATER frequency on the larger grid; in memory, several workers,
    each slot against the sequential run."""
    hits = []
    for dims, nx in (((2, 2, 2), [4, 8]), ((2, 2, 3), [4, 8, 6])):
        spec = gen_survey_spec(rng, dims=dims)
        spec['shape'] = [4, 4, 4]
        spec['h'] = [[200.0] * 4, [200.0] * 4, [200.0] * 4]
        spec['prop'] = (spec['prop'] * 2)[:64]
        spec['aniso'] = 'isotropic'
        spec['freq_nx'] = nx
        sim = build_sim(spec, 1, None)
        sim.compute()
        obs = sim.data.synthetic.data.copy() * spec['obs_scale']
        ref = observe(build_sim(spec, 1, None), 'gradient', obs)
        nt = dims[0] * dims[2]
        for mw in workers:
            cfg = dict(max_workers=mw, file_dir=False, what='gradient', pattern='reverse',
                       delays=make_delays(rng, nt, 'reverse', 40.0 / nt), tqdm_masked=(mw == 3),
                       recompute=False)
            digs, comp = run_sim_config(spec, cfg, obs)
            bad = compare_digests(ref, digs)
            if hist is not None:
                hist['sim:sized_grids/mem'] = hist.get('sim:sized_grids/mem', 0) + 1
            if bad:
                hits.append({'signature': 'simulation result depends on execution configuration',
                             'kind': 'simulation', 'spec': spec, 'config': cfg,
                             'observed': 'digests differ from the sequential run: '
                                         + ', '.join(bad[:8]),
                             'required': 'bit-identical to max_workers=1 (grids of '
                                         f"{nx} x 4 x 4 cells for the frequencies)",
                             'completion_order': comp})
                return hits
    return hits


# ---- sequences of runs of different kinds (forward / back-propagation / jvec) ----
TOL_SEQUENCE = ['compute', 'jvec', 'gradient', "clean('computed')", 'compute', 'gradient']


def run_tol_sequence(spec, max_workers, file_dir, obs):
    """compute -> (misfit) -> jvec -> gradient -> clean('computed') -> compute -> gradient on
    one simulation; returns the observables after every stage and what every solve received."""
    fd = tempfile.mkdtemp(prefix='c11_tol_') if file_dir else None
    try:
        nt = len(spec['src']) * len(spec['freqs'])
        with _Log() as lg, _TqdmMasked(False), _PatchedSolve([]):
            sim = build_sim(spec, max_workers, fd)
            sim.survey.data['observed'][...] = obs
            digs = {}

            def fields(tag):
                for (s_, f_) in sim._srcfreq:
                    digs[f"{tag}:efield[{s_}][{f_}]"] = _bytes(sim.get_efield(s_, f_).field)
                digs[f"{tag}:synthetic"] = _bytes(sim.data.synthetic.data)
            sim.compute()
            fields('1 compute')
            digs['1 misfit'] = float(sim.misfit).hex()
            vec = np.random.RandomState(spec['vec_seed'] % 2**31).randint(
                -8, 9, sim.model.shape) / 8.0
            digs['2 jvec'] = _bytes(sim.jvec(vec))
            digs['3 gradient'] = _bytes(sim.gradient)
            for (s_, f_) in sim._srcfreq:
                digs[f"3 bfield[{s_}][{f_}]"] = _bytes(sim._dict_get('bfield', s_, f_).field)
            sim.clean('computed')
            sim.compute()
            fields('5 compute')
            digs['5 misfit'] = float(sim.misfit).hex()
            digs['6 gradient'] = _bytes(sim.gradient)
            solves = lg.solves()
        # group by run: the r-th process_map call has dispatch counts [r*nt, (r+1)*nt)
        runs = {}
        for (i, kind, tol) in solves:
            runs.setdefault(i // nt, []).append((kind, tol))
        return digs, [sorted(runs[r]) for r in sorted(runs)]
    except Exception as e:      # noqa
        return {'raised': type(e).__name__ + ': ' + str(e)[:300]}, []
    finally:
        if fd:
            shutil.rmtree(fd, ignore_errors=True)


def model_tolerances(tols, ntasks):
    """What Model/Sched.v says every task of the five runs of TOL_SEQUENCE carries."""
    txt = ("From Coq Require Import List QArith.\nFrom V Require Import Base.ExecQ Model.Sched.\n"
           "Import ListNotations.\nSet Printing Width 100000.\n"
           f"Eval vm_compute in map (fun k => (kind_code k, out_q (tol_of {V.q(tols[0])} "
           f"{V.q(tols[1])} k))) [KForward; KJvec; KBackprop; KForward; KBackprop].\n")
    rc, out = V.coq_eval('c11_tol', txt)
    if rc != 0:
        raise RuntimeError('tolerance model does not evaluate: ' + out[-600:])
    import re
    nums = [int(x) for x in re.findall(r'-?\d+', V.eval_answers(out)[0])]
    res = []
    for k in range(0, len(nums), 3):
        kind = 'forward' if nums[k] == 0 else 'sfield'
        tol = float(nums[k + 1]) / float(nums[k + 2])
        res.append(sorted([(kind, tol.hex())] * ntasks))
    return res


def tol_sequence_hits(rng, configs, hist=None):
    """Runs of different kinds on ONE simulation with tol != tol_gradient: every configuration
    must reproduce the sequential in-memory observables bit for bit and every solve must
    receive the tolerance of ITS kind of run."""
    spec = gen_survey_spec(rng, dims=(2, 2, 2))
    spec['shape'] = [4, 4, 4]
    spec['h'] = [[200.0] * 4, [200.0] * 4, [200.0] * 4]
    spec['prop'] = (spec['prop'] * 2)[:64]
    spec['aniso'] = 'isotropic'
    spec['tols'] = [1e-7, 1e-3]
    sim = build_sim(spec, 1, None)
    sim.compute()
    obs = sim.data.synthetic.data.copy() * spec['obs_scale']
    nt = 4
    want_tols = model_tolerances(spec['tols'], nt)
    ref, ref_tols = run_tol_sequence(spec, 1, False, obs)
    hits = []
    for (mw, fdir) in [(1, False)] + list(configs):
        digs, got = (ref, ref_tols) if (mw, fdir) == (1, False) else \
            run_tol_sequence(spec, mw, fdir, obs)
        if hist is not None:
            hist['sim:tol_sequence'] = hist.get('sim:tol_sequence', 0) + 1
        bad = []
        if 'raised' in digs:
            bad.append('sequence raised ' + digs['raised'])
        elif digs != ref:
            bad += [k for k in ref if digs.get(k) != ref[k]][:6]
        if got != want_tols:
            r = next((j for j in range(min(len(got), len(want_tols))) if got[j] != want_tols[j]),
                     min(len(got), len(want_tols)))
            names = ['compute', 'jvec', 'gradient (back-propagation)', 'compute after clean',
                     'gradient after clean']
            g = sorted({float.fromhex(t) for _, t in got[r]}) if r < len(got) else 'missing'
            w = sorted({float.fromhex(t) for _, t in want_tols[r]}) if r < len(want_tols) else '-'
            bad.append(f"solves of run {r} ({names[r] if r < 5 else '?'}) received tol {g}, "
                       f"their kind of run requires {w}")
        if bad:
            hits.append({'signature': 'simulation result depends on execution configuration',
                         'kind': 'tol_sequence', 'spec': spec,
                         'config': {'max_workers': mw, 'file_dir': fdir,
                                    'solver_opts': {'tol': 1e-7, 'tol_gradient': 1e-3},
                                    'sequence': TOL_SEQUENCE},
                         'observed': '; '.join(bad),
                         'required': 'observables bit-identical to max_workers=1 in memory; '
                                     'forward solves get tol, back-propagation / jvec solves get '
                                     'tol_gradient'})
            break
    return hits


# ---- on-demand computations in file mode ----
def _slot_digests(sim, tag, digs, hfield=False):
    for (s_, f_) in sim._srcfreq:
        digs[f"{tag}:efield[{s_}][{f_}]"] = _bytes(sim.get_efield(s_, f_).field)
        digs[f"{tag}:efield.freq[{s_}][{f_}]"] = repr(complex(sim.get_efield(s_, f_).frequency))
        if hfield:
            digs[f"{tag}:hfield[{s_}][{f_}]"] = _bytes(sim.get_hfield(s_, f_).field)


def run_ondemand_history(spec, max_workers, file_dir, obs, which, order):
    """Histories in which source-frequency tasks are computed ON DEMAND.
    which='get': fresh simulation, get_efield / get_hfield for the pairs in `order`
                 (freshly computed one at a time), then every requested slot is read back;
    which='keepresults': compute, misfit, clean('keepresults'), gradient, jvec, then every
                 slot is read back."""
    fd = tempfile.mkdtemp(prefix='c11_od_') if file_dir else None
    try:
        with _TqdmMasked(False):
            sim = build_sim(spec, max_workers, fd)
            digs = {}
            if which == 'get':
                keys = sim._srcfreq
                for j, idx in enumerate(order):
                    s_, f_ = keys[idx % len(keys)]
                    if j % 3 == 2:
                        digs[f"first:hfield[{s_}][{f_}]"] = _bytes(sim.get_hfield(s_, f_).field)
                    else:
                        digs[f"first:efield[{s_}][{f_}]"] = _bytes(sim.get_efield(s_, f_).field)
                for idx in sorted(set(i % len(keys) for i in order)):      # read back later
                    s_, f_ = keys[idx]
                    e = sim.get_efield(s_, f_)
                    digs[f"later:efield[{s_}][{f_}]"] = _bytes(e.field)
                    digs[f"later:efield.freq[{s_}][{f_}]"] = repr(complex(e.frequency))
            else:
                sim.compute()
                sim.survey.data['observed'][...] = obs
                digs['misfit'] = float(sim.misfit).hex()
                sim.clean('keepresults')
                digs['gradient'] = _bytes(sim.gradient)
                vec = np.random.RandomState(spec['vec_seed'] % 2**31).randint(
                    -8, 9, sim.model.shape) / 8.0
                digs['jvec'] = _bytes(sim.jvec(vec))
                _slot_digests(sim, 'later', digs)
                digs['synthetic'] = _bytes(sim.data.synthetic.data)
            return digs
    except Exception as e:      # noqa
        return {'raised': type(e).__name__ + ': ' + str(e)[:300]}
    finally:
        if fd:
            shutil.rmtree(fd, ignore_errors=True)


ONDEMAND_PLANS = [('get', [3, 0]), ('get', [1, 2, 0]), ('keepresults', []), ('get', [2, 3, 1, 0])]


def ondemand_hits(rng, plans, workers=(1,), hist=None):
    """File-based on-demand histories against the same history in memory and against
    the plain sequential compute, slot by slot, bit for bit."""
    spec = gen_survey_spec(rng, dims=(2, 2, 2))
    spec['shape'] = [4, 4, 4]
    spec['h'] = [[200.0] * 4, [200.0] * 4, [200.0] * 4]
    spec['prop'] = (spec['prop'] * 2)[:64]
    spec['aniso'] = 'isotropic'
    full = build_sim(spec, 1, None)
    full.compute()
    obs = full.data.synthetic.data.copy() * spec['obs_scale']
    own = {}
    _slot_digests(full, 'later', own)
    hits = []
    for which, order in plans:
        ref = run_ondemand_history(spec, 1, False, obs, which, order)
        for mw in workers:
            digs = run_ondemand_history(spec, mw, True, obs, which, order)
            if hist is not None:
                hist['sim:ondemand/file'] = hist.get('sim:ondemand/file', 0) + 1
            bad = []
            if 'raised' in digs:
                bad.append('history raised ' + digs['raised'])
            else:
                bad += [k + ' differs from the same history in memory'
                        for k in ref if digs.get(k) != ref[k]][:5]
                bad += [k + ' is not the field of its own task (plain sequential compute)'
                        for k in digs if k in own and digs[k] != own[k]][:5]
            if 'raised' not in ref:
                bad += ['in memory: ' + k + ' is not the field of its own task'
                        for k in ref if k in own and ref[k] != own[k]][:3]
            if bad:
                keys = [list(k) for k in full._srcfreq]
                hist_txt = (['get_hfield' + str(tuple(keys[i % 4])) if j % 3 == 2
                             else 'get_efield' + str(tuple(keys[i % 4]))
                             for j, i in enumerate(order)] + ['read every requested slot back']
                            if which == 'get' else
                            ['compute', 'misfit', "clean('keepresults')", 'gradient', 'jvec',
                             'get_efield of every slot'])
                hits.append({'signature': 'simulation result depends on execution configuration',
                             'kind': 'ondemand', 'spec': spec, 'which': which, 'order': order,
                             'config': {'max_workers': mw, 'file_dir': True},
                             'history': hist_txt, 'observed': '; '.join(bad[:6]),
                             'required': 'every slot read back = field of its own task, '
                                         'bit-identical to the in-memory run of the same history'})
                return hits
    return hits


# ---- histories of operations on ONE simulation against FRESH sequential simulations ----
# A field that was dropped (clean) and is computed again ON DEMAND inside another operation
# (jvec / jtvec / gradient / misfit / get_efield) must be the forward field again.  The same
# history in another configuration has the same flaw, so the reference here is a FRESH
# sequential in-memory simulation driven straight to the same logical state, plus an
# independent residual |s - A e| <= tol * |s| of every stored forward field.
HIST_SIG = 'result of an operation on a simulation depends on the operations before it'
HIST_TOLS = [(1e-7, 1e-3), (1e-6, 1e-2), (1e-7, 1e-4)]
HIST_CHAIN = ['compute', "clean('keepresults')", 'jvec', "clean('computed')", 'jvec',
              "clean('keepresults')", 'jtvec', "clean('computed')", 'jtvec',
              "clean('keepresults')", 'gradient', "clean('computed')", 'gradient',
              "clean('keepresults')", 'get_efield:3', 'misfit', "clean('computed')",
              'get_efield:1', 'misfit', 'jvec']
HIST_SHORT = ['compute', "clean('keepresults')", 'jvec', "clean('computed')", 'jtvec',
              'get_efield:2', 'gradient']
HIST_OPS = ['compute', "clean('keepresults')", "clean('computed')", 'get_efield', 'jvec',
            'jtvec', 'gradient', 'misfit']


def hist_spec(rng, tols):
    spec = gen_survey_spec(rng, dims=(2, 2, 2))
    spec['shape'] = [4, 4, 4]
    spec['h'] = [[200.0] * 4, [200.0] * 4, [200.0] * 4]
    spec['prop'] = (spec['prop'] * 2)[:64]
    spec['aniso'] = 'isotropic'
    spec['tols'] = list(tols)
    return spec


def gen_history(rng, n):
    """Random history: starts anywhere (also on a fresh simulation), at least one drop
    followed by a consumer."""
    ops = []
    for _ in range(n):
        op = rng.choice(HIST_OPS)
        ops.append(f"get_efield:{rng.randrange(4)}" if op == 'get_efield' else op)
    k = rng.randrange(1, n - 1)
    ops[k] = rng.choice(["clean('keepresults')", "clean('computed')"])
    ops[k + 1] = rng.choice(['jvec', 'jtvec', 'gradient', 'jvec'])
    if rng.random() < 0.7:
        ops[0] = 'compute'
    return ops


def _hist_vectors(spec, sim):
    rs = np.random.RandomState(spec['vec_seed'] % 2**31)
    vec = rs.randint(-8, 9, sim.model.shape) / 8.0
    w = (rs.randint(-8, 9, sim.survey.shape) + 1j * rs.randint(-8, 9, sim.survey.shape)) / 8.0
    return vec, w


def _rel_residual(sim, s, f, efield):
    """|s - A e| / |s| of a forward field, computed here from the model, the source and the
    field alone (not from what the simulation stored about the solve)."""
    import emg3d
    grid = sim.get_grid(s, f)
    sfield = emg3d.fields.get_source_field(grid, sim.survey.sources[s],
                                           sim.survey.frequencies[f])
    vmodel = emg3d.models.VolumeModel(sim.get_model(s, f), sfield)
    res = emg3d.solver.residual(vmodel, sfield, efield, norm=True)
    return float(res) / float(np.linalg.norm(sfield.field))


def fresh_oracle(spec, obs):
    """What every operation has to return / leave behind, from FRESH sequential in-memory
    simulations (one per kind of operation): compute -> operation."""
    def mk():
        s_ = build_sim(spec, 1, None)
        s_.survey.data['observed'][...] = obs
        s_.compute()
        return s_
    a = mk()
    vec, w = _hist_vectors(spec, a)
    orc = {'efield': {}, 'resid': {}, 'converged': True}
    for (s, f) in a._srcfreq:
        e = a.get_efield(s, f)
        orc['efield'][(s, f)] = _bytes(e.field)
        orc['resid'][(s, f)] = _rel_residual(a, s, f, e)
        orc['converged'] &= int(a.get_efield_info(s, f)['exit']) == 0
    orc['synthetic'] = a.data.synthetic.data.copy()
    orc['misfit'] = float(a.misfit).hex()
    orc['gradient'] = _bytes(a.gradient)
    orc['jvec'] = _bytes(mk().jvec(vec))
    orc['jtvec'] = _bytes(mk().jtvec(w))
    return orc


def run_op_history(spec, max_workers, file_dir, obs, ops):
    """Drive ONE simulation through `ops`; after every operation record its value and,
    WITHOUT triggering any computation, every stored forward field (digest, independent
    residual) and the responses."""
    fd = tempfile.mkdtemp(prefix='c11_hist_') if file_dir else None
    steps = []
    try:
        with _TqdmMasked(False):
            sim = build_sim(spec, max_workers, fd)
            sim.survey.data['observed'][...] = obs
            vec, w = _hist_vectors(spec, sim)
            keys = sim._srcfreq
            for op in ops:
                rec = {'op': op}
                try:
                    if op == 'compute':
                        sim.compute()
                    elif op.startswith('clean('):
                        sim.clean(op[7:-2])
                    elif op.startswith('get_efield:'):
                        s, f = keys[int(op.split(':')[1]) % len(keys)]
                        rec['value'] = _bytes(sim.get_efield(s, f).field)
                        rec['slot'] = (s, f)
                    elif op == 'jvec':
                        rec['value'] = _bytes(sim.jvec(vec))
                    elif op == 'jtvec':
                        rec['value'] = _bytes(sim.jtvec(w))
                    elif op == 'gradient':
                        rec['value'] = _bytes(sim.gradient)
                    elif op == 'misfit':
                        rec['value'] = float(sim.misfit).hex()
                    else:
                        raise ValueError(op)
                except Exception as e:      # noqa
                    rec['raised'] = type(e).__name__ + ': ' + str(e)[:200]
                    steps.append(rec)
                    break
                rec['stored'] = {}
                for (s, f) in keys:
                    e = sim._dict_get('efield', s, f)
                    if e is not None:
                        rec['stored'][(s, f)] = (_bytes(e.field), _rel_residual(sim, s, f, e))
                rec['synthetic'] = sim.data.synthetic.data.copy()
                steps.append(rec)
        return steps
    except Exception as e:      # noqa
        return steps + [{'op': '<setup>', 'raised': type(e).__name__ + ': ' + str(e)[:200]}]
    finally:
        if fd:
            shutil.rmtree(fd, ignore_errors=True)


def judge_op_history(spec, orc, steps, keys):
    """First step of the history at which something differs from the fresh simulations."""
    tol = spec['tols'][0]
    for j, rec in enumerate(steps):
        bad = []
        if 'raised' in rec:
            bad.append('raised ' + rec['raised'])
        else:
            op = rec['op']
            if 'value' in rec:
                want = orc['efield'][rec['slot']] if 'slot' in rec else orc[op]
                if rec['value'] != want:
                    bad.append(f"{op} does not return what a fresh sequential simulation "
                               f"(compute -> {op.split(':')[0]}) returns")
            for (s, f), (dg, rr) in rec['stored'].items():
                if dg != orc['efield'][(s, f)]:
                    bad.append(f"stored efield[{s}][{f}] is not the forward field of a fresh "
                               f"compute (rel. residual {rr:.1e}, fresh {orc['resid'][(s, f)]:.1e}, "
                               f"forward tol {tol:g})")
                elif not rr <= tol * 1.001:
                    bad.append(f"stored efield[{s}][{f}] misses the forward tolerance: rel. "
                               f"residual {rr:.3e} > {tol:g}")
            syn = rec['synthetic']
            for i, s in enumerate(dict.fromkeys(k[0] for k in keys)):
                for k, f in enumerate(dict.fromkeys(k[1] for k in keys)):
                    got = syn[i, :, k]
                    if np.all(np.isnan(got)):
                        if not op.startswith(('clean', 'get_efield')):
                            bad.append(f"synthetic[{s}][{f}] is empty after {op}")
                    elif _bytes(got) != _bytes(orc['synthetic'][i, :, k]):
                        rel = float(np.max(np.abs(got / orc['synthetic'][i, :, k] - 1)))
                        bad.append(f"synthetic[{s}][{f}] differs from the responses of a fresh "
                                   f"compute (max rel. diff {rel:.1e})")
        if bad:
            return j, bad
    return None, []


def history_hits(spec, histories, configs, hist=None, notes=None):
    sim = build_sim(spec, 1, None)
    sim.compute()
    obs = sim.data.synthetic.data.copy() * spec['obs_scale']
    keys = sim._srcfreq
    orc = fresh_oracle(spec, obs)
    if not orc['converged'] or max(orc['resid'].values()) > spec['tols'][0]:
        if notes is not None:
            notes.append('operation histories: fresh simulation did not converge; spec skipped')
        return []
    hits = []
    for ops in histories:
        for (mw, fdir) in configs:
            steps = run_op_history(spec, mw, fdir, obs, ops)
            if hist is not None:
                k = f"sim:op_history/w{mw}/{'file' if fdir else 'mem'}"
                hist[k] = hist.get(k, 0) + 1
                hist['sim:op_history/ops'] = hist.get('sim:op_history/ops', 0) + len(steps)
            j, bad = judge_op_history(spec, orc, steps, keys)
            if bad:
                hits.append({'signature': HIST_SIG, 'kind': 'op_history', 'spec': spec,
                             'config': {'max_workers': mw, 'file_dir': fdir,
                                        'solver_opts': {'tol': spec['tols'][0],
                                                        'tol_gradient': spec['tols'][1]}},
                             'history': ops[:j + 1], 'full_history': ops,
                             'slots': [list(k) for k in keys],
                             'observed': f"after step {j} ({ops[j] if j < len(ops) else '?'}): "
                                         + '; '.join(bad[:5]),
                             'required': 'every operation returns, and leaves stored, exactly '
                                         'what a fresh sequential in-memory simulation (compute '
                                         '-> operation) gives; stored forward fields satisfy '
                                         '|s - A e| <= tol |s|'})
                return hits
    return hits


def op_history_stream(rng, thorough, hist=None, notes=None, searcher=False):
    """Deterministic chain (every drop x every consumer) + random histories; tolerance pairs
    enumerated deterministically."""
    hits = []
    t0 = time.time()
    tols = HIST_TOLS[rng.randrange(len(HIST_TOLS))] if not (thorough or searcher) else None
    for ti, tl in enumerate(HIST_TOLS if tols is None else [tols]):
        spec = hist_spec(rng, tl)
        rnd = [gen_history(rng, 7) for _ in range(3 if (thorough or searcher) else 1)]
        if thorough or searcher:
            plan = [([HIST_CHAIN] + rnd, [(1, False), (1, True)]),
                    ([HIST_SHORT] + rnd[:1], [(2, True), (2, False)])]
            if ti > 0:
                plan = [([HIST_CHAIN] + rnd[:1], [(1, False), (1, True)])]
        else:
            plan = [([HIST_CHAIN], [(1, False), (1, True)]), (rnd, [(1, False)]),
                    ([HIST_SHORT], [(2, True)])]
        for histories, configs in plan:
            hits += history_hits(spec, histories, configs, hist, notes)
            if hits:
                return hits
    if notes is not None:
        notes.append(f"operation histories {time.time() - t0:.0f}s")
    return hits


def correspondence_sim(ctx, dis, hist):
    nsurv = 4 if ctx.thorough else 2
    runs, perturbed, samples, distinct = 0, 0, [], set()
    for si in range(nsurv):
        spec = gen_survey_spec(ctx.rng, big=ctx.thorough)
        obs, ref = reference(spec)
        if si == 0 or ctx.thorough:
            own = own_task_oracle(spec, obs)
            runs += 1
            hist['sim:own_task_oracle'] = hist.get('sim:own_task_oracle', 0) + 1
            if own:
                dis.append({'what': 'a source-frequency slot does not hold the result of its '
                                    'own task (sequential, in memory)',
                            'signature': 'slot holds the result of another task',
                            'case': {'spec': {k: spec[k] for k in ('shape', 'aniso', 'freqs',
                                                                     'src', 'rec')}},
                            'impl': own[:6], 'model': 'slot k = f(task k)', 'spec_full': spec})
        for cfg in sim_configs(ctx, spec, si):
            digs, comp = run_sim_config(spec, cfg, obs)
            runs += 1
            nt = len(spec['src']) * len(spec['freqs'])
            first = comp[:nt]
            if first != sorted(first):
                perturbed += 1
            key = f"sim:w{cfg['max_workers']}/{'file' if cfg['file_dir'] else 'mem'}/{cfg['what']}"
            hist[key] = hist.get(key, 0) + 1
            if cfg['max_workers'] > 1 or cfg['file_dir']:
                distinct.add((si, cfg['max_workers'], cfg['file_dir'], cfg['what'],
                              cfg['tqdm_masked']))
            hist['sim:recomputed_slots_not_converged(skipped)'] = \
                hist.get('sim:recomputed_slots_not_converged(skipped)', 0) + digs.pop('#nonconverged', 0)
            bad = compare_digests(ref[cfg['what']], digs)
            brief = dict(spec={k: spec[k] for k in ('shape', 'aniso', 'freqs', 'src', 'rec')},
                         config={k: cfg[k] for k in ('max_workers', 'file_dir', 'what',
                                                     'pattern', 'delays', 'tqdm_masked',
                                                     'recompute')},
                         completion_order=comp)
            if bad:
                dis.append({'what': 'simulation result differs bit-wise from the sequential '
                                    'in-memory run',
                            'signature': 'simulation result depends on execution configuration',
                            'case': brief, 'impl': bad[:6], 'model': 'identical digests',
                            'spec_full': spec})
            elif len(samples) < 3 and first != sorted(first):
                samples.append(brief)
    # deterministic block of survey dimensions (nsrc, nrec, nfreq), file_dir mode
    nblock = len(DIMS_BLOCK) if ctx.thorough else 4
    for h in dims_block_hits(ctx.rng, DIMS_BLOCK[:nblock] + DIMS_BIG, hist):
        dis.append({'what': 'file_dir run differs from the in-memory run / a slot does not hold '
                            'the result of its own task, for survey dimensions '
                            f"(nsrc, nrec, nfreq) = {tuple(h['spec']['dims'])}",
                    'signature': h['signature'],
                    'case': {'dims': h['spec']['dims'], 'config': h['config']},
                    'impl': h['observed'], 'model': h['required'], 'spec_full': h['spec']})
    runs += 2 * (nblock + len(DIMS_BIG))
    distinct.update(('dims', d) for d in DIMS_BLOCK[:nblock] + DIMS_BIG)
    # computational grids of different sizes (later frequency on the larger grid)
    for h in sized_grids_hits(ctx.rng, (2, 3) if ctx.thorough else (2,), hist):
        dis.append({'what': 'parallel in-memory run with source/frequency dependent grids '
                            'differs from the sequential run',
                    'signature': h['signature'],
                    'case': {'dims': h['spec']['dims'], 'freq_nx': h['spec']['freq_nx'],
                             'config': {k: h['config'][k] for k in ('max_workers', 'file_dir',
                                                                    'what')}},
                    'impl': h['observed'], 'model': h['required'], 'spec_full': h['spec']})
    runs += 2
    distinct.add(('sized_grids',))
    # on-demand computations in file mode
    for h in ondemand_hits(ctx.rng, ONDEMAND_PLANS if ctx.thorough else ONDEMAND_PLANS[:3],
                           (1, 2) if ctx.thorough else (1,), hist):
        dis.append({'what': 'file_dir, tasks computed on demand: ' + h['observed'][:300],
                    'signature': h['signature'],
                    'case': {'history': h['history'], 'config': h['config']},
                    'impl': h['observed'], 'model': h['required'], 'spec_full': h['spec']})
    runs += 3
    distinct.add(('ondemand',))
    # runs of different kinds on one simulation, tol != tol_gradient
    for h in tol_sequence_hits(ctx.rng, [(1, True)] + ([(2, True), (2, False)] if ctx.thorough
                                                       else []), hist):
        dis.append({'what': 'sequence compute/jvec/gradient/clean/compute with tol != '
                            'tol_gradient: ' + h['observed'][:300],
                    'signature': h['signature'], 'case': {'config': h['config']},
                    'impl': h['observed'], 'model': h['required'], 'spec_full': h['spec']})
    runs += 2
    distinct.add(('tol_sequence',))
    # histories of operations on one simulation against fresh sequential simulations
    n0 = len(dis)
    for h in op_history_stream(ctx.rng, ctx.thorough, hist, ctx.notes):
        dis.append({'what': 'history of operations on one simulation (tol != tol_gradient): '
                            + h['observed'][:300],
                    'signature': h['signature'],
                    'case': {'history': h['history'], 'config': h['config']},
                    'impl': h['observed'], 'model': h['required'], 'spec_full': h['spec']})
    nh = sum(v for k, v in hist.items() if k.startswith('sim:op_history/w'))
    runs += nh
    distinct.update(('op_history', k) for k in hist if k.startswith('sim:op_history/w'))
    # arbitrary string keys (file names must not depend on what the keys contain)
    spec = gen_survey_spec(ctx.rng, adversarial_keys=True)
    obs, ref = reference(spec)
    nt = len(spec['src']) * len(spec['freqs'])
    for mw, what in ((1, 'forward'), (2, 'gradient'), (1, 'jvec')):
        cfg = dict(max_workers=mw, file_dir=True, what=what, pattern='reverse',
                   delays=make_delays(ctx.rng, nt, 'reverse', 40.0 / nt) if mw > 1 else [],
                   tqdm_masked=False, recompute=False)
        digs, comp = run_sim_config(spec, cfg, obs)
        runs += 1
        hist['sim:adversarial_keys/file'] = hist.get('sim:adversarial_keys/file', 0) + 1
        distinct.add(('keys', mw, True, what, False))
        bad = compare_digests(ref[what], digs)
        if bad:
            dis.append({'what': 'file_dir run with arbitrary string keys differs bit-wise from '
                                'the in-memory run',
                        'signature': COLLISION_SIG,
                        'case': {'src_keys': spec['src_keys'], 'freq_keys': spec['freq_keys'],
                                 'config': {k: cfg[k] for k in ('max_workers', 'file_dir', 'what')}},
                        'impl': bad[:6], 'model': 'identical digests', 'spec_full': spec})
    hist['sim:runs_with_perturbed_completion_order'] = perturbed
    return runs, len(distinct), samples


# =====================================================================
# Driver interface
# =====================================================================
def correspondence(ctx):
    dis, hist = [], {}
    try:
        sh = extract_shapes()
        hist['shape:collectors'] = [c if isinstance(c, str) else 'COther' for _, c in sh['branches']]
    except Exception as e:      # the PREBUILD hook reports it as a broken obligation
        ctx.notes.append('shape extraction failed: ' + repr(e))
    t0 = time.time()
    n_pm, nt_pm, validated, s_pm = correspondence_pm(ctx, dis, hist)
    t1 = time.time()
    n_sim, nt_sim, s_sim = correspondence_sim(ctx, dis, hist)
    ctx.notes.append(f"stress A (process_map) {t1 - t0:.0f}s, stress B (simulations) "
                     f"{time.time() - t1:.0f}s")
    return {
        'evaluations': n_pm + n_sim,
        'distinct_nontrivial': nt_pm + nt_sim,
        'rule': ("A: emg3d._multiprocessing.process_map itself on a harness function with "
                 "adversarial run times (reverse / random / one straggler), max_workers "
                 + ("1..16" if ctx.thorough else "{1,2,3,5,16}") +
                 ", with tqdm and with tqdm masked, 3..12 tasks, 25% with two iterables; plus an "
                 "edge stream (0/1 tasks, max_workers <= 0) and a malformed stream (one task "
                 "raises). Each valid run's start/finish log is turned into a Start/Finish trace and "
                 "replayed by the Coq pool model (vm_compute), which must reproduce the completion "
                 "order and, through the collector tag extracted from the source, the returned list. "
                 "distinct non-trivial = distinct (n, max_workers, pattern, tqdm, completion order) "
                 "whose completion order is NOT the submission order. "
                 "B: generated surveys (3 sources x 2-3 frequencies, 4..6 (thorough: 4..8) cells per direction, "
                 "isotropic/VTI, electric+magnetic receivers) under max_workers x {memory, file_dir} "
                 "x {forward, gradient, jvec} with the solver wrapper delayed adversarially, every "
                 "field / info / synthetic / misfit / gradient / bfield / jvec digest compared BIT "
                 "FOR BIT with the sequential in-memory unpatched run; half of the forward runs "
                 "recompute and must not change anything. distinct non-trivial = distinct "
                 "(survey, workers, mode, kind, tqdm) with workers > 1 or file_dir."),
        'samples': s_pm[:3] + s_sim[:2],
        'traces_validated_against_impl': validated + n_sim,
        'histogram': hist,
        'disagreements': dis,
    }


def _pm_hit(case, r, exp):
    return {'signature': 'process_map result depends on completion order',
            'kind': 'process_map',
            'case': {k: case[k] for k in ('kind', 'n', 'max_workers', 'pattern', 'tqdm_masked',
                                          'delays', 'values', 'two_iterables', 'sizes')
                     if k in case},
            'observed': r.get('result', r.get('error')),
            'required': exp,
            'completion_order': [e[1] for e in sorted(r['events'], key=lambda e: e[4])]}


def search(ctx, broken):
    rng = ctx.rng
    hits = []
    # 0. the witness of Props/C11.v fname_unfixed_collision_refuted on the implementation
    try:
        if fname_collision_reproduces():
            hits.append({'signature': COLLISION_SIG, 'kind': 'fname_collision',
                         'sources': ['Tx', 'Tx_A'], 'frequencies': {'A_f1': 1.0, 'f1': 3.0},
                         'config': 'Simulation(..., file_dir=<dir>, max_workers=1).compute()',
                         'observed': "get_efield('Tx', 'A_f1') is the field of ('Tx_A', 'f1') "
                                     "(frequency 3.0 Hz); both pairs use efield_Tx_A_f1.h5",
                         'required': "the field of ('Tx', 'A_f1') (1.0 Hz), bit-identical to the "
                                     "in-memory run"})
            return hits
    except Exception as e:      # noqa
        ctx.notes.append('fname collision probe crashed: ' + repr(e))
    # 1. the real process_map under the most adversarial schedules
    for mw in (2, 3, 8):
        for pat in ('reverse', 'straggler'):
            for masked in (False, True):
                n = 8
                case = dict(kind='process_map', n=n, max_workers=mw, pattern=pat,
                            tqdm_masked=masked, delays=make_delays(rng, n, pat, 12.0),
                            values=[rng.randint(-50, 50) for _ in range(n)],
                            two_iterables=False)
                for sizes in (None, [64, 512] * 4, [128, 512, 256, 128, 512, 64, 256, 64]):
                    cs = dict(case, sizes=sizes) if sizes else case
                    r = run_process_map(cs)
                    exp = expected_result(cs)
                    if r.get('result') != exp:
                        hits.append(_pm_hit(cs, r, exp))
                        break
                if hits:
                    break
            if hits:
                break
        if hits:
            break
    # 1a. tasks computed on demand in file mode
    if not hits:
        hits += ondemand_hits(rng, ONDEMAND_PLANS, (1, 2))
    # 1b. runs of different kinds with tol != tol_gradient, memory and file based
    if not hits:
        hits += tol_sequence_hits(rng, [(1, True), (2, True), (2, False)])
    # 1c. histories of operations on one simulation against fresh sequential simulations
    if not hits:
        hits += op_history_stream(rng, False, None, ctx.notes, searcher=True)
    # 2. grids of different sizes, in memory, several workers
    if not hits:
        hits += sized_grids_hits(rng, (2, 3, 4))
    # 2b. deterministic first block of survey dimensions in file_dir mode
    if not hits:
        hits += dims_block_hits(rng, DIMS_BIG + DIMS_BLOCK, stop_at_first=True)
    # 3. one survey, the sharpest configurations
    if not hits:
        spec = gen_survey_spec(rng)
        obs, ref = reference(spec)
        nt = len(spec['src']) * len(spec['freqs'])
        for cfg in (dict(max_workers=2, file_dir=False, what='forward', pattern='reverse'),
                    dict(max_workers=5, file_dir=True, what='gradient', pattern='straggler'),
                    dict(max_workers=3, file_dir=False, what='jvec', pattern='reverse'),
                    dict(max_workers=1, file_dir=True, what='jvec', pattern='none')):
            cfg = dict(cfg, tqdm_masked=False, recompute=(cfg['what'] == 'forward'),
                       delays=(make_delays(rng, nt, cfg['pattern'], 60.0 / nt)
                               if cfg['max_workers'] > 1 else []))
            digs, comp = run_sim_config(spec, cfg, obs)
            bad = compare_digests(ref[cfg['what']], digs)
            if bad:
                hits.append({'signature': 'simulation result depends on execution configuration',
                             'kind': 'simulation', 'spec': spec, 'config': cfg,
                             'observed': 'digests differ: ' + ', '.join(bad[:8]),
                             'required': 'bit-identical to max_workers=1, in memory',
                             'completion_order': comp})
                break
    if not hits:
        own = own_task_oracle(spec, obs) + own_task_oracle(spec, obs, file_dir=True)
        if own:
            hits.append({'signature': 'slot holds the result of another task',
                         'kind': 'own_task', 'spec': spec,
                         'observed': '; '.join(own[:8]),
                         'required': 'slot (src, freq) = solve(task of (src, freq))'})
    ctx.notes.append('searcher: process_map under reverse/straggler schedules for 2,3,8 workers '
                     '(with/without tqdm) against [fn(t) for t in tasks]; one survey under 4 '
                     'configurations against the sequential in-memory run')
    return hits


def replay(ctx, payload):
    fi = payload.get('failing_input')
    if not fi:
        return False
    if fi.get('kind') == 'process_map':
        case = fi['case']
        r = run_process_map(case)
        return r.get('result') == expected_result(case)
    if fi.get('kind') == 'simulation':
        spec, cfg = fi['spec'], fi['config']
        obs, ref = reference(spec)
        digs, _ = run_sim_config(spec, cfg, obs)
        return not compare_digests(ref[cfg['what']], digs)
    if fi.get('kind') == 'ondemand':
        return not ondemand_hits(ctx.rng, [(fi['which'], fi['order'])],
                                 (fi['config']['max_workers'],))
    if fi.get('kind') == 'tol_sequence':
        c = fi['config']
        return not tol_sequence_hits(ctx.rng, [(c['max_workers'], c['file_dir'])])
    if fi.get('kind') == 'op_history':
        c = fi['config']
        return not history_hits(fi['spec'], [fi['full_history']],
                                [(c['max_workers'], c['file_dir'])])
    if fi.get('kind') == 'own_task':
        obs, _ref = reference(fi['spec'])
        return not own_task_oracle(fi['spec'], obs)
    if fi.get('kind') == 'fname_collision':
        return not fname_collision_reproduces()
    return False


# ---- finding: file names of file_dir mode are not injective ----------------
FNAME_SIG = "C11: file_dir file name collision for keys containing '_'"   # historical
COLLISION_SIG = "file_dir: two source-frequency pairs share one hand-over file"


def fname_collision_reproduces():
    """Witness of Props/C11.v fname_collision_refuted on the implementation:
    sources {'Tx','Tx_A'}, frequencies {'A_f1','f1'}; in file_dir mode the slot
    ('Tx','A_f1') must hold its own field."""
    import emg3d
    def mk(file_dir):
        hx = np.ones(4) * 200.0
        grid = emg3d.TensorMesh([hx, hx, hx], (-400, -400, -400))
        model = emg3d.Model(grid, property_x=np.arange(1, 65).reshape((4, 4, 4), order='F') / 64
                            + 0.5)
        srcs = {'Tx': emg3d.TxElectricDipole((-150., 10, -50, 30, 10)),
                'Tx_A': emg3d.TxElectricDipole((120., 50, 20, 0, 0))}
        recs = {'Rx-1': emg3d.RxElectricPoint((100., 0, 0, 0, 0))}
        survey = emg3d.Survey(srcs, recs, {'A_f1': 1.0, 'f1': 3.0})
        return emg3d.Simulation(survey, model, max_workers=1, gridding='same',
                                file_dir=file_dir, solver_opts={'sslsolver': False},
                                tqdm_opts=False, verb=-1)
    fd = tempfile.mkdtemp(prefix='c11_fn_')
    try:
        a, b = mk(None), mk(fd)
        a.compute()
        b.compute()
        ea, eb = a.get_efield('Tx', 'A_f1'), b.get_efield('Tx', 'A_f1')
        return (not np.array_equal(ea.field, eb.field)) or ea.frequency != eb.frequency
    finally:
        shutil.rmtree(fd, ignore_errors=True)


def known_checks(ctx):
    """Repaired defect (fix: file_dir hand-over file names): nothing is listed any more; a
    reproduction is a violation and is reported by search()."""
    return []
