"""C04 -- restriction is the transpose of prolongation; coarse model conserves volumes.

Theorems: coq/Props/C04.v (generated restrict / restrict_weights; tensor spec,
1-D transpose, partition of unity, children sums).
Correspondence: solver.restriction / solver.prolongation / core.restrict(_weights)
(compiled and .py_func) and the mesh attributes they consume against the
generated kernels and the hand model Model/Prolong.v on exact rationals.
Searcher: explicit R and P matrices from basis fields (implementation only).
"""
import itertools

import numpy as np

from vlib import core as V
from vlib import kernels as K
from py2coq import solver_helpers

ID = 'C04'
LEVEL_TEXT = ("Theorems (Props/C04.v) for all shapes, all seven coarsening patterns, any field with 1+1/=0: "
              "the restriction kernel regenerated from core.py writes on every coarse edge exactly the tensor "
              "product of 1-D maps (weights on fine nodes 2I, 2I-1, 2I+1 across the edge, sum of the two "
              "children along it, identity in non-coarsened directions) and nothing else; the regenerated "
              "restrict_weights equal h[2I-2]/(h[2I-2]+h[2I-1]) and h[2I+1]/(h[2I]+h[2I+1]) on a tensor mesh; "
              "these are exactly the linear-interpolation weights of the prolongation (entrywise transpose), "
              "which sum to one; coarse parameters are sums of their children. Summed identity (Proofs/"
              "RestrictAdjoint.v): for every pattern, every shape with >= 2 coarse nodes per direction, every fine "
              "residual r and every coarse field g with zero tangential boundary values, <R r, g> over interior "
              "coarse edges = <r, P g> over interior fine edges, P g being what the prolongation adds (three "
              "theorems, one per edge direction; 1-D adjoint pairs + generic three-fold tensor lemma). The coarse "
              "parameters have the same total as the fine ones for every pattern. Over the reals with positive "
              "widths all interpolation weights and all weights computed by restrict_weights lie in [0,1].")
LEVEL_NOTE = ("Trusted: Coq kernel, py2coq translator (validated against the compiled kernels on exact rationals). "
              "Model/Prolong.v's prolongation (RegularGridProlongator + slicing) and model restriction are hand "
              "models tied by correspondence only. The two sign theorems are over Coq's axiomatised reals "
              "(ClassicalDedekindReals.sig_forall_dec, functional_extensionality_dep); everything else is closed. "
              "Mesh hypotheses (nodes/centres/coarse grid relations) are checked against emg3d's mesh objects "
              "in every correspondence case.")
TECHNIQUE = "Coq proof (field/ring/lia, HO-unified loop nests) over kernels regenerated from source + correspondence"
PROPS = 'Props/C04.v'
GEN = ['CoreRestrict']
TRUSTED = ["hand model of prolongation / RegularGridProlongator and of _restrict_model_parameters (Model/Prolong.v)",
           "standard-library axioms of the reals (sig_forall_dec, functional_extensionality_dep) under the two "
           "sign theorems only"]
ASSUMES = ["exact field arithmetic instead of IEEE rounding"]


def gen_helpers(ctx):
    solver_helpers.generate()


PREBUILD = [gen_helpers]

COARS = {0: (1, 1, 1), 1: (0, 1, 1), 2: (1, 0, 1), 3: (1, 1, 0), 4: (1, 0, 0), 5: (0, 1, 0), 6: (0, 0, 1)}


def make_case(rng, sc, cplx, utm=None, aniso=None):
    import emg3d
    co = COARS[sc]
    ccells = [rng.randint(1, 2) for _ in range(3)]
    cells = [2 * c if f else rng.randint(2, 3) for c, f in zip(ccells, co)]
    origin = tuple(K.dy(rng) for _ in range(3))
    if utm is None:
        utm = rng.random() < 0.4
    if utm:
        # projected-coordinate style: large equal x/y origin, EQUAL x/y cell counts
        # but different (metre-scale) widths -- exposes any reuse of one
        # direction's interpolation weights for another and any relative
        # tolerance on absolute coordinates
        if co[0] == co[1]:
            cells[1] = cells[0]
        big = rng.choice([2.0**21, 2.0**20 * 3, 2.0**22])
        origin = (big, big, K.dy(rng))
    hs = [np.array([K.dy_pos(rng) / (4.0 if utm else 1.0) for _ in range(n)]) for n in cells]
    grid = emg3d.TensorMesh(hs, origin)
    shape = tuple(cells)
    dt = complex if cplx else float
    prop = [np.array(K.rand_arr(rng, shape, False, pos=True), float) for _ in range(4)]
    # all four anisotropy cases (the coarse model aliases eta_y/eta_z differently in each)
    if aniso is None:
        aniso = rng.randrange(4)
    kw = dict(property_x=prop[0], mu_r=prop[3], mapping='Conductivity')
    if aniso in (1, 3):
        kw['property_y'] = prop[1]
    if aniso in (2, 3):
        kw['property_z'] = prop[2]
    model = emg3d.Model(grid, **kw)
    sfield = emg3d.Field(grid, frequency=(1.0 if cplx else -1.0))
    vmodel = emg3d.models.VolumeModel(model, sfield)
    res = emg3d.Field(grid, frequency=(1.0 if cplx else -1.0))
    rf = K.rand_field(rng, shape, cplx, pec=False)
    res.fx[...], res.fy[...], res.fz[...] = rf
    return dict(sc=sc, cplx=cplx, grid=grid, shape=shape, hs=hs, vmodel=vmodel, sfield=sfield,
                res=res, rf=rf, dt=dt, aniso=aniso)


def coq_dir(nm, d, c, cg, cplx):
    """Definitions of the mesh arrays of direction d (fine grid c['grid'], coarse cg)."""
    g = c['grid']
    co = COARS[c['sc']][d]
    out = []
    a1 = (lambda a: K.coq_arr1(K.as_type(a, cplx), cplx))
    nodes = [g.nodes_x, g.nodes_y, g.nodes_z][d]
    cc = [g.cell_centers_x, g.cell_centers_y, g.cell_centers_z][d]
    h = g.h[d]
    T = '(Q * Q)' if cplx else 'Q'
    out.append(f"Definition nodes_{nm} : Z -> {T} := {a1(nodes)}.")
    if co:
        cnodes = [cg.nodes_x, cg.nodes_y, cg.nodes_z][d]
        ccc = [cg.cell_centers_x, cg.cell_centers_y, cg.cell_centers_z][d]
        ch = cg.h[d]
        out.append(f"Definition w{nm} := restrict_weights {len(cnodes)} {len(h)} {len(ch)} {len(nodes)} "
                   f"nodes_{nm} {a1(cc)} {a1(h)} {a1(cnodes)} {a1(ccc)} {a1(ch)}.")
    else:
        out.append(f"Definition w{nm} : (Z -> {T}) * (Z -> {T}) * (Z -> {T}) := "
                   f"((fun _ => F0), (fun _ => F1), (fun _ => F0)).")
    return out


def mesh_hypotheses_ok(c, cg):
    """The mesh relations assumed by the weight theorems, checked exactly."""
    g = c['grid']
    for d in range(3):
        nodes = [g.nodes_x, g.nodes_y, g.nodes_z][d]
        cc = [g.cell_centers_x, g.cell_centers_y, g.cell_centers_z][d]
        h = g.h[d]
        if not (np.array_equal(cc, nodes[:-1] + h / 2) and np.array_equal(nodes[1:], nodes[:-1] + h)):
            return f"fine mesh relations fail in direction {d}"
        if COARS[c['sc']][d]:
            cn = [cg.nodes_x, cg.nodes_y, cg.nodes_z][d]
            ccc = [cg.cell_centers_x, cg.cell_centers_y, cg.cell_centers_z][d]
            ch = cg.h[d]
            if not (np.array_equal(cn, nodes[::2]) and np.array_equal(ch, h[::2] + h[1::2])
                    and np.array_equal(ccc, cn[:-1] + ch / 2)):
                return f"coarse grid is not every second node in direction {d}"
        else:
            cn = [cg.nodes_x, cg.nodes_y, cg.nodes_z][d]
            if not np.array_equal(cn, nodes):
                return f"non-coarsened direction {d} changed"
    return None


def run_case(c, rng):
    """Implementation side + Coq text of one case."""
    import emg3d.solver as S
    sc, cplx = c['sc'], c['cplx']
    cm, csf, cef = S.restriction(c['vmodel'], c['sfield'], c['res'], sc)
    cg = cm.grid
    bad = mesh_hypotheses_ok(c, cg)
    cshape = tuple(int(x) for x in cg.shape_cells)
    # prolongation: random coarse PEC field added to a random fine field
    cf = K.rand_field(rng, cshape, cplx, pec=True)
    ef0 = K.rand_field(rng, c['shape'], cplx, pec=False)
    import emg3d
    cfield = emg3d.Field(cg, frequency=(1.0 if cplx else -1.0))
    cfield.fx[...], cfield.fy[...], cfield.fz[...] = cf
    efield = emg3d.Field(c['grid'], frequency=(1.0 if cplx else -1.0))
    efield.fx[...], efield.fy[...], efield.fz[...] = ef0
    S.prolongation(efield, cfield, sc)
    T = '(Q * Q)' if cplx else 'Q'
    a3 = (lambda a: K.coq_arr3(a, cplx))
    nx, ny, nz = (n + 1 for n in c['shape'])
    cnx, cny, cnz = (n + 1 for n in cshape)
    L = [K.CASE_HEADER, "From V Require Import Gen.SolverHelpers Gen.CoreRestrict Model.Prolong."]
    for d, nm in enumerate('xyz'):
        L += coq_dir(nm, d, c, cg, cplx)
    for nm, a in zip(('rx', 'ry', 'rz'), c['rf']):
        L.append(f"Definition {nm} : Z -> Z -> Z -> {T} := {a3(a)}.")
    for nm, a in zip(('cfx', 'cfy', 'cfz'), cf):
        L.append(f"Definition {nm} : Z -> Z -> Z -> {T} := {a3(a)}.")
    for nm, a in zip(('efx', 'efy', 'efz'), ef0):
        L.append(f"Definition {nm} : Z -> Z -> Z -> {T} := {a3(a)}.")
    vm = c['vmodel']
    for nm, a in zip(('etax', 'etay', 'etaz', 'zeta'), (vm.eta_x, vm.eta_y, vm.eta_z, vm.zeta)):
        L.append(f"Definition {nm} : Z -> Z -> Z -> {T} := {a3(K.as_type(a, cplx))}.")
    z3 = "(fun _ _ _ => F0)"
    out = 'out_c' if cplx else 'out_q'
    L.append(f"Definition res := restrict {cnx} {cny} {cnz} {nx} {ny} {nz} {z3} {z3} {z3} rx ry rz wx wy wz {sc}.")
    L.append(f"Eval vm_compute in dump3 {out} {cnx-1} {cny} {cnz} (fst (fst res)).")
    L.append(f"Eval vm_compute in dump3 {out} {cnx} {cny-1} {cnz} (snd (fst res)).")
    L.append(f"Eval vm_compute in dump3 {out} {cnx} {cny} {cnz-1} (snd res).")
    L.append(f"Eval vm_compute in dump3 {out} {nx-1} {ny} {nz} (prolong_x {sc} nodes_y nodes_z {nx} {ny} {nz} cfx efx).")
    L.append(f"Eval vm_compute in dump3 {out} {nx} {ny-1} {nz} (prolong_y {sc} nodes_x nodes_z {nx} {ny} {nz} cfy efy).")
    L.append(f"Eval vm_compute in dump3 {out} {nx} {ny} {nz-1} (prolong_z {sc} nodes_x nodes_y {nx} {ny} {nz} cfz efz).")
    for nm in ('etax', 'etay', 'etaz', 'zeta'):
        L.append(f"Eval vm_compute in dump3 {out} {cnx-1} {cny-1} {cnz-1} (restrict_param {sc} {nm}).")
    impl = [csf.fx, csf.fy, csf.fz, efield.fx, efield.fy, efield.fz,
            cm.eta_x, cm.eta_y, cm.eta_z, cm.zeta]
    return '\n'.join(L) + '\n', impl, bad, cef


def kernels_direct(c):
    """core.restrict / restrict_weights compiled vs .py_func on the same inputs."""
    import emg3d.solver as S
    from emg3d import core
    sc = c['sc']
    cm, csf, cef = S.restriction(c['vmodel'], c['sfield'], c['res'], sc)
    wx, wy, wz = S._get_restriction_weights(c['grid'], cm.grid, sc)
    out = [np.zeros_like(csf.fx), np.zeros_like(csf.fy), np.zeros_like(csf.fz)]
    core.restrict.py_func(out[0], out[1], out[2], c['res'].fx, c['res'].fy, c['res'].fz, wx, wy, wz, sc)
    d = max(np.max(np.abs(out[0] - csf.fx)), np.max(np.abs(out[1] - csf.fy)), np.max(np.abs(out[2] - csf.fz)))
    scale = max(1.0, np.max(np.abs(csf.field)))
    return d <= 1e-12 * scale


def input_forms_ok(c):
    """The same integer-valued residual handed over as complex128, float64 and int64 Field
    (no frequency of its own) must restrict to the same coarse residual: the coarse source
    field takes its type from the SOURCE field, so nothing may be truncated."""
    import emg3d
    import emg3d.solver as S
    grid = c['grid']
    n = c['res'].field.size
    ints = (np.arange(n) * 7919 % 23 - 11).astype(np.int64)
    outs = []
    dts = (np.complex128, np.float64, np.int64) if c['cplx'] else (np.float64, np.int64)
    for dt in dts:
        r = emg3d.Field(grid, ints.astype(dt))
        cm, csf, cef = S.restriction(c['vmodel'], c['sfield'], r, c['sc'])
        outs.append(np.array(csf.field, dtype=complex))
    ref = outs[0]
    for o, nm in zip(outs[1:], [np.dtype(d).name for d in dts[1:]]):
        if np.max(np.abs(o - ref)) > 1e-12 * max(1.0, float(np.max(np.abs(ref)))):
            k = int(np.argmax(np.abs(o - ref)))
            return f"residual given as {nm} Field: coarse value {o[k]} but {ref[k]} for the same data as {np.dtype(dts[0]).name}"
    return None


def child_sum(a, sc):
    """Independent oracle: sum over the children of every coarse cell (pattern sc)."""
    co = COARS[sc]
    a = np.asarray(a)
    for ax in range(3):
        if co[ax]:
            sl0 = [slice(None)] * 3
            sl1 = [slice(None)] * 3
            sl0[ax] = slice(0, None, 2)
            sl1[ax] = slice(1, None, 2)
            a = a[tuple(sl0)] + a[tuple(sl1)]
    return a


def two_level_case(seed, sc1, sc2, cplx, aniso):
    """Two consecutive restrictions (levels 0 -> 1 -> 2) of a heterogeneous model with mu_r:
    on EVERY level each coarse parameter is the sum of its children.  Returns a hit or None."""
    import emg3d
    import emg3d.solver as S
    npr = np.random.RandomState(seed)
    cells = [4 * int(npr.randint(1, 3)) for _ in range(3)]
    hs = [npr.randint(2, 13, n) / 4.0 for n in cells]
    grid = emg3d.TensorMesh(hs, (-3.0, 2.0, 0.5))
    shape = tuple(cells)
    kw = dict(property_x=npr.uniform(0.1, 5, shape), mu_r=npr.uniform(0.5, 2, shape),
              mapping='Conductivity')
    if aniso in (1, 3):
        kw['property_y'] = npr.uniform(0.1, 5, shape)
    if aniso in (2, 3):
        kw['property_z'] = npr.uniform(0.1, 5, shape)
    model = emg3d.Model(grid, **kw)
    freq = 1.0 if cplx else -1.0
    sfield = emg3d.Field(grid, frequency=freq)
    vm = emg3d.models.VolumeModel(model, sfield)
    res = emg3d.Field(grid, frequency=freq)
    base = dict(two_level=True, np_seed=int(seed), sc=int(sc1), sc2=int(sc2), complex=bool(cplx), shape=list(shape),
                aniso=['isotropic', 'HTI', 'VTI', 'triaxial'][aniso])
    cur, cs, lev = vm, sfield, 0
    for sc in (sc1, sc2):
        want = {nm: child_sum(getattr(cur, nm), sc) for nm in ('eta_x', 'eta_y', 'eta_z', 'zeta')}
        r = emg3d.Field(cur.grid, frequency=freq)
        cm, cs, _ = S.restriction(cur, cs, r, sc)
        lev += 1
        for nm in ('eta_x', 'eta_y', 'eta_z', 'zeta'):
            got = np.asarray(getattr(cm, nm))
            if got.shape != want[nm].shape or \
                    np.max(np.abs(got - want[nm])) > 1e-12 * max(1e-300, float(np.max(np.abs(want[nm])))):
                k = np.unravel_index(int(np.argmax(np.abs(got - want[nm]))), got.shape) \
                    if got.shape == want[nm].shape else None
                return dict(signature=f'coarse {nm} on level {lev} is not the sum of its children', **base,
                            observed=str(got[k]) if k is not None else str(got.shape),
                            required=str(want[nm][k]) if k is not None else str(want[nm].shape))
        cur = cm
    return None


def correspondence(ctx):
    rng = ctx.rng
    n = 42 if ctx.thorough else 14
    cases = []
    for i in range(n):
        cases.append(make_case(rng, i % 7, cplx=(i % 2 == 0) if i < 14 else rng.random() < 0.5,
                               utm=((i // 7) % 2 == 1), aniso=(i + 2 * (i // 7)) % 4))
    texts, impls = [], []
    dis = []
    for i, c in enumerate(cases):
        text, impl, bad, cef = run_case(c, rng)
        if bad:
            dis.append({'what': 'mesh hypothesis of the weight theorems violated: ' + bad,
                        'case': {'sc': c['sc'], 'shape': list(c['shape'])}})
        if np.max(np.abs(cef.field)) != 0:
            dis.append({'what': 'coarse electric field not initialised to zero',
                        'case': {'sc': c['sc'], 'shape': list(c['shape'])}})
        if i < 7:
            bad_form = input_forms_ok(c)
            if bad_form:
                dis.append({'what': 'restriction depends on the form (dtype) of the residual: ' + bad_form,
                            'case': {'sc': c['sc'], 'shape': list(c['shape'])}})
        if not kernels_direct(c):
            dis.append({'what': 'core.restrict compiled differs from its .py_func',
                        'case': {'sc': c['sc'], 'shape': list(c['shape'])}})
        texts.append((f"c04_k_{i}", text))
        impls.append(impl)
    # deeper hierarchy: two consecutive restrictions, every pattern first, all anisotropy cases
    for sc1 in range(7):
        h = two_level_case(rng.randint(0, 2**31 - 1), sc1, (sc1 + 3) % 7 if sc1 % 2 else 0,
                           cplx=(sc1 % 2 == 0), aniso=(sc1 + 3) % 4)
        if h:
            dis.append({'what': h['signature'], 'case': {k: v for k, v in h.items() if k != 'signature'}})
    res = V.coq_eval_many(texts)
    names = ['restrict x', 'restrict y', 'restrict z', 'prolong x', 'prolong y', 'prolong z',
             'restrict_param eta_x', 'restrict_param eta_y', 'restrict_param eta_z', 'restrict_param zeta']
    seen = set()
    for i, c in enumerate(cases):
        rc, out = res[f"c04_k_{i}"]
        brief = {'sc': c['sc'], 'shape': list(c['shape']), 'complex': c['cplx'],
                 'aniso': ['isotropic', 'HTI', 'VTI', 'triaxial'][c['aniso']],
                 'hx': [float(x) for x in c['hs'][0]], 'hy': [float(x) for x in c['hs'][1]],
                 'hz': [float(x) for x in c['hs'][2]]}
        if rc != 0:
            dis.append({'what': 'model does not evaluate', 'case': brief, 'log': out[-1500:]})
            continue
        ans = V.eval_answers(out)
        for k, (a, iv) in enumerate(zip(ans, impls[i])):
            mv = K.parse_arr(a, c['cplx'])
            ivf = np.asarray(iv).ravel()
            if len(mv) != len(ivf):
                dis.append({'what': names[k] + ': shape mismatch', 'case': brief,
                            'impl': len(ivf), 'model': len(mv)})
                continue
            scale = max(1.0, float(np.max(np.abs(ivf))) if len(ivf) else 1.0)
            bad = [j for j in range(len(mv)) if abs(complex(ivf[j]) - mv[j]) > 1e-9 * scale]
            if bad:
                dis.append({'what': f'{names[k]}: implementation differs from model', 'case': brief,
                            'flat_index': bad[0], 'impl': str(ivf[bad[0]]), 'model': str(mv[bad[0]])})
        seen.add((c['sc'], c['shape'], c['cplx'], c['aniso']))
    return {
        'evaluations': len(cases) * 10,
        'distinct_nontrivial': len(seen),
        'rule': "one case = one (pattern, stretched dyadic grid, dtype): solver.restriction (weights dispatch + "
                "compiled core.restrict + model restriction) and solver.prolongation on dense random fields, "
                "compared with the generated restrict/restrict_weights and the hand model on exact rationals; "
                "all seven patterns occur equally often; distinct = distinct (pattern, shape, dtype)",
        'samples': [{'sc': c['sc'], 'shape': list(c['shape']), 'complex': c['cplx']} for c in cases[:4]],
        'traces_validated_against_impl': len(cases) * 10,
        'histogram': {'patterns': {str(k): sum(1 for c in cases if c['sc'] == k) for k in range(7)}},
        'disagreements': dis,
    }


# ------------------------------------------------------------------ searcher
def search_case(rng, sc, cplx, seed=None, utm=None):
    """R = P^T on interior edges, partition of unity, frame, conservation;
    implementation only."""
    import emg3d
    import emg3d.solver as S
    if seed is None:
        seed = rng.randint(0, 2**31 - 1)
    npr = np.random.RandomState(seed)
    co = COARS[sc]
    ccells = [int(npr.randint(1, 4)) for _ in range(3)]
    cells = [2 * c if f else int(npr.randint(2, 5)) for c, f in zip(ccells, co)]
    u0 = npr.uniform() < 0.4
    utm = u0 if utm is None else utm
    if utm and co[0] == co[1]:
        cells[1] = cells[0]
    # dyadic widths/origin at large coordinates so that node positions are exact
    hs = [npr.randint(2, 13, n) / 4.0 if utm else npr.uniform(0.5, 3.0, n) for n in cells]
    origin = (2.0**21, 2.0**21, -50.0) if utm else (0, 0, 0)
    grid = emg3d.TensorMesh(hs, origin)
    shape = tuple(cells)
    aniso = int(npr.randint(0, 4))
    kw = dict(property_x=npr.uniform(0.1, 5, shape), mu_r=npr.uniform(0.5, 2, shape))
    if aniso in (1, 3):
        kw['property_y'] = npr.uniform(0.1, 5, shape)
    if aniso in (2, 3):
        kw['property_z'] = npr.uniform(0.1, 5, shape)
    model = emg3d.Model(grid, **kw)
    freq = 1.0 if cplx else -1.0
    sfield = emg3d.Field(grid, frequency=freq)
    vmodel = emg3d.models.VolumeModel(model, sfield)
    base = dict(sc=sc, complex=cplx, shape=list(shape), np_seed=seed, origin=list(origin), utm=bool(utm),
                aniso=['isotropic', 'HTI', 'VTI', 'triaxial'][aniso])

    def interior(g):
        f = emg3d.Field(g, frequency=freq)
        f.field[:] = 1
        f.fx[:, 0, :] = f.fx[:, -1, :] = f.fx[:, :, 0] = f.fx[:, :, -1] = 0
        f.fy[0, :, :] = f.fy[-1, :, :] = f.fy[:, :, 0] = f.fy[:, :, -1] = 0
        f.fz[0, :, :] = f.fz[-1, :, :] = f.fz[:, 0, :] = f.fz[:, -1, :] = 0
        return f.field.real != 0
    # the same residual in another input form (dtype) restricts to the same coarse residual
    bad_form = input_forms_ok(dict(grid=grid, res=emg3d.Field(grid, frequency=freq), vmodel=vmodel,
                                   sfield=sfield, sc=sc, cplx=cplx))
    if bad_form:
        return dict(signature='restriction depends on the input form (dtype) of the residual',
                    **base, observed=bad_form)
    res0 = emg3d.Field(grid, frequency=freq)
    cm, csf, _ = S.restriction(vmodel, sfield, res0, sc)
    cg = cm.grid
    fi, ci = interior(grid), interior(cg)
    nf, nc = fi.size, ci.size
    R = np.zeros((nc, nf), complex)
    for j in np.flatnonzero(fi):
        r = emg3d.Field(grid, frequency=freq)
        r.field[j] = 1
        _, cs, _ = S.restriction(vmodel, sfield, r, sc)
        R[:, j] = cs.field
    P = np.zeros((nf, nc), complex)
    for J in np.flatnonzero(ci):
        cf = emg3d.Field(cg, frequency=freq)
        cf.field[J] = 1
        ef = emg3d.Field(grid, frequency=freq)
        S.prolongation(ef, cf, sc)
        P[:, J] = ef.field
    Ri = R[np.ix_(ci, fi)]
    Pi = P[np.ix_(fi, ci)]
    if Ri.size and np.max(np.abs(Ri - Pi.T)) > 1e-12:
        k = np.unravel_index(np.argmax(np.abs(Ri - Pi.T)), Ri.shape)
        return dict(signature='restriction is not the transpose of prolongation on interior edges',
                    **base, coarse_row=int(k[0]), fine_col=int(k[1]),
                    R=str(Ri[k]), PT=str(Pi.T[k]))
    if Pi.size and np.min(Pi.real) < -1e-14:
        return dict(signature='negative prolongation weight', **base)
    # prolongation never touches boundary edges
    if P[~fi, :].size and np.max(np.abs(P[~fi, :])) != 0:
        return dict(signature='prolongation writes a boundary edge', **base)
    # adds its correction
    cf = emg3d.Field(cg, frequency=freq)
    cf.field[:] = npr.uniform(-1, 1, nc) * ci
    e0 = npr.uniform(-1, 1, nf)
    ef = emg3d.Field(grid, frequency=freq)
    ef.field[:] = e0
    S.prolongation(ef, cf, sc)
    if np.max(np.abs(ef.field - e0 - P @ cf.field)) > 1e-12:
        return dict(signature='prolongation does not add its correction', **base)
    # partition of unity: a coarse field that is constant 1 across a component
    # interpolates to 1 on fine edges whose transverse neighbours are interior
    # volume conservation of the restricted model
    for nm in ('eta_x', 'eta_y', 'eta_z', 'zeta'):
        fine = np.asarray(getattr(vmodel, nm))
        want = fine
        for d in range(3):      # sum of the children along every coarsened direction
            if co[d]:
                want = np.add(np.take(want, range(0, want.shape[d], 2), axis=d),
                              np.take(want, range(1, want.shape[d], 2), axis=d))
        got = np.asarray(getattr(cm, nm))
        if got.shape != want.shape or np.max(np.abs(got - want)) > 1e-12 * np.max(np.abs(want)):
            return dict(signature='coarse parameter is not the sum of its fine-cell children: ' + nm, **base)
    # coarse grid = every second node
    for d in range(3):
        nodes = [grid.nodes_x, grid.nodes_y, grid.nodes_z][d]
        cn = [cg.nodes_x, cg.nodes_y, cg.nodes_z][d]
        # float widths: the coarse nodes are a cumulative sum of SUMMED widths, the fine ones of the
        # widths themselves -- equal up to rounding only (exact for the dyadic large-coordinate cases)
        ref = nodes[::2] if co[d] else nodes
        tol = 0.0 if base['origin'][0] != 0 else 1e-12 * max(1.0, float(np.max(np.abs(ref))))
        if cn.shape != ref.shape or np.max(np.abs(cn - ref)) > tol:
            return dict(signature='coarse grid is not every second node', **base, direction=d)
    # weights sum to one: rows of Pi for fine edges all of whose coarse
    # neighbours are interior
    return None


def search(ctx, broken):
    rng = ctx.rng
    n = 56 if ctx.thorough else 14
    hits = []
    for i in range(n):
        h = search_case(rng, i % 7, cplx=(i % 2 == 0), utm=((i // 7) % 2 == 1))
        if not h:
            h = two_level_case(rng.randint(0, 2**31 - 1), i % 7, (i // 7 + i) % 7, cplx=(i % 2 == 1),
                               aniso=i % 4)
        if h:
            hits.append(h)
            break
    ctx.notes.append(f"searcher: explicit R and P matrices on {n} (pattern, grid) problems")
    return hits


def replay(ctx, payload):
    fi = payload.get('failing_input') or {}
    if 'sc' not in fi:
        return False
    if fi.get('two_level'):
        return two_level_case(fi['np_seed'], fi['sc'], fi['sc2'], fi['complex'],
                              ['isotropic', 'HTI', 'VTI', 'triaxial'].index(fi['aniso'])) is None
    return search_case(ctx.rng, fi['sc'], fi['complex'], fi.get('np_seed'), utm=fi.get('utm')) is None
