"""C03 -- every smoother is a consistent relaxation of the same linear system;
the banded solver is exact.

Theorems: coq/Props/C03.v (generated solve / gauss_seidel block, operator of C02).
Correspondence: core.solve, core.blocks_to_amat and the four Gauss-Seidel kernels
(compiled and .py_func) against the generated models on exact rationals.
Searcher: manufactured exact solutions, last-block residual, affinity, boundary
frame for all line-relaxation codes (implementation only, independent operator).
"""
import itertools

import numpy as np

from vlib import core as V
from vlib import kernels as K
from props.c02 import fit_apply

ID = 'C03'
LEVEL_TEXT = ("Theorems (Props/C03.v), any field with 1+1/=0: the banded L D L^T solver regenerated from core.py "
              "returns, for EVERY n and every system with non-vanishing pivots, the exact and unique solution of "
              "the symmetric 11-diagonal system given by its lower band, linearly in the right-hand side. For the "
              "point-wise Gauss-Seidel kernel: one step = assemble 6x6 system, solve, write back (by conversion on "
              "the regenerated code); the assembled system is exactly 'A e[x] = s on the node's six edges' with A "
              "the operator of C02, for all interior nodes, widths, coefficients and fields; hence the block "
              "equations hold exactly afterwards, an exact solution is a fixed point, only the six edges are "
              "written. Lifted through the four loops of the regenerated kernel: for EVERY nu and shape the "
              "point-wise smoother returns an exact solution unchanged and never writes a tangential boundary "
              "value; the whole point-wise smoother is LINEAR (hence affine) in (field, source) and after it the "
              "six equations of the block relaxed last -- node (1,1,1) for odd nu, (nx-1,ny-1,nz-1) for even nu -- "
              "hold exactly (Proofs/GSAffine.v). For the three line smoothers (gauss_seidel_x/_y/_z; Proofs/GSLineX.v, GSLineCommon.v, GSLineY.v, "
              "GSLineZ.v; stated for x, identically for y and z with the indices permuted): the three branches of "
              "blocks_to_amat as explicit stores, the layout of the assembled 11-diagonal system for EVERY nx>=2 "
              "(loop invariant), row-by-row consistency of that system with 'A e[x] = s on the line's 5nx-4 edges' "
              "(22 field identities: rows 0..4 x first/middle/next-to-last/last block) under PEC at the two x-ends "
              "of the line, the write-back, hence: line equations hold exactly afterwards, an exact solution is a "
              "fixed point of the whole kernel for every nu, and the kernel never writes a boundary edge; each line "
              "kernel equals a schedule of line steps (Proofs/GSLineSweep.v), is LINEAR in (field, source) for every "
              "nu (Proofs/GSLineAffineX/Y/Z.v) and leaves the line relaxed last -- (1,1) for odd nu, (n-1,n-1) for even "
              "nu -- exact.")
LEVEL_NOTE = ("All clauses of C03 are theorems about the regenerated kernels. Hypotheses: non-vanishing pivots of the "
              "pivot-free factorisation (the code's own assumption; stated once thanks to matrix independence), and, "
              "for the line smoothers' consistency / exactness / fixed point, PEC at the two ends of the line (the kernel "
              "drops those couplings, as documented); linearity and the frame need neither. Combinations of line "
              "directions (codes 4-7) are sequential applications of the proved kernels by smoothing(), whose dispatch "
              "is regenerated (Gen/SolverHelpers.v) and tied by the correspondence and the searcher (which also runs in "
              "the quick tier). The evaluation step of the block proofs is re-checked by the kernel with the VM "
              "(vm_cast). Rounding not modelled.")
TECHNIQUE = "Coq proof (loop invariants, field, VM-checked symbolic evaluation) over kernels regenerated from source"
PROPS = 'Props/C03.v'
SEARCH_IN_QUICK = True   # the sweeps and line smoothers are not covered by theorems
GEN = ['CoreBand', 'CoreGS', 'CoreAmat']
TRUSTED = ["vm_compute-based conversion (vm_cast) inside the block-row proofs"]
ASSUMES = ["pivots of the pivot-free factorisation do not vanish (hypothesis of the solver theorems)"]

KNAMES = ['gauss_seidel', 'gauss_seidel_x', 'gauss_seidel_y', 'gauss_seidel_z']


# --------------------------------------------------------------- correspondence
def band_case(rng, n, cplx):
    """Random symmetric banded system, diagonally dominant, dyadic entries."""
    dt = complex if cplx else float
    amat = np.zeros(6 * n, dtype=dt)
    for j in range(n):
        for r in range(6):
            if r == 0:
                v = K.dy_pos(rng) + 8
            else:
                v = K.dy(rng, bits=2, lo=-1, hi=1)
            if cplx:
                v = complex(v, K.dy(rng, bits=2, lo=-1, hi=1))
            if j + r < n or r == 0:
                amat[6 * j + r] = v
    b = np.array([complex(K.dy(rng), K.dy(rng)) if cplx else K.dy(rng) for _ in range(n)], dtype=dt)
    return amat, b


def corr_solve(ctx, dis):
    from emg3d import core
    rng = ctx.rng
    sizes = [1, 2, 5, 6, 7, 11] + [rng.randint(3, 14) for _ in range(6 if ctx.thorough else 2)]
    texts, impl = [], []
    for i, n in enumerate(sizes):
        cplx = (i % 2 == 1)
        amat, b = band_case(rng, n, cplx)
        outs = []
        for f in (core.solve, core.solve.py_func):
            a2, b2 = amat.copy(), b.copy()
            f(a2, b2)
            outs.append((a2, b2))
        if np.max(np.abs(outs[0][1] - outs[1][1])) > 1e-9 * max(1, np.max(np.abs(outs[0][1]))):
            dis.append({'what': 'core.solve compiled differs from .py_func', 'case': {'n': n, 'complex': cplx}})
        T = '(Q * Q)' if cplx else 'Q'
        out = 'out_c' if cplx else 'out_q'
        texts.append((f"c03_s_{i}", K.CASE_HEADER + "From V Require Import Gen.CoreBand.\n"
                      f"Definition amat : Z -> {T} := {K.coq_arr1(amat, cplx)}.\n"
                      f"Definition bvec : Z -> {T} := {K.coq_arr1(b, cplx)}.\n"
                      f"Definition r := solve {n} amat bvec.\n"
                      f"Eval vm_compute in dump1 {out} {n} (snd r).\n"
                      f"Eval vm_compute in dump1 {out} {6 * n} (fst r).\n"))
        impl.append((n, cplx, outs[0]))
    res = V.coq_eval_many(texts)
    for i, (n, cplx, (a2, b2)) in enumerate(impl):
        rc, out = res[f"c03_s_{i}"]
        if rc != 0:
            dis.append({'what': 'generated solve does not evaluate', 'log': out[-1200:]})
            continue
        ans = V.eval_answers(out)
        mx = K.parse_arr(ans[0], cplx)
        ma = K.parse_arr(ans[1], cplx)
        sc = max(1.0, float(np.max(np.abs(b2))))
        if any(abs(complex(b2[k]) - mx[k]) > 1e-9 * sc for k in range(n)):
            dis.append({'what': 'core.solve result differs from Gen.CoreBand.solve', 'case': {'n': n, 'complex': cplx}})
        # the in-place factorisation (only entries inside the band are defined)
        inband = [6 * j + r for j in range(n) for r in range(6) if j + r < n]
        sa = max(1.0, float(np.max(np.abs(a2))))
        if any(abs(complex(a2[k]) - ma[k]) > 1e-9 * sa for k in inband):
            dis.append({'what': 'core.solve factor differs from Gen.CoreBand.solve', 'case': {'n': n, 'complex': cplx}})
    return len(sizes)


def gs_case(rng, shape, cplx):
    nx, ny, nz = shape
    hx = [K.dy_pos(rng, bits=1) for _ in range(nx)]
    hy = [K.dy_pos(rng, bits=1) for _ in range(ny)]
    hz = [K.dy_pos(rng, bits=1) for _ in range(nz)]

    def cell(c):
        a = np.zeros(shape, dtype=complex if c else float)
        for idx in itertools.product(*[range(m) for m in shape]):
            # eta = -s mu0 sigma V: negative real part keeps the blocks definite
            v = -(rng.randint(1, 8) / 2.0)
            a[idx] = complex(v, -rng.randint(1, 8) / 4.0) if c else v
        return a
    eta = [cell(cplx), cell(cplx), cell(cplx)]
    zeta = np.array(K.rand_arr(rng, shape, False, pos=True), float)
    e = K.rand_field(rng, shape, cplx, pec=True)
    s = K.rand_field(rng, shape, cplx, pec=True)
    e = [np.round(a * 2) / 2 for a in e]
    s = [np.round(a * 2) / 2 for a in s]
    return dict(shape=shape, cplx=cplx, hx=hx, hy=hy, hz=hz, eta=eta, zeta=zeta, e=e, s=s)


def corr_gs(ctx, dis):
    from emg3d import core
    rng = ctx.rng
    plan = [('gauss_seidel', (2, 2, 2), 1), ('gauss_seidel', (3, 2, 2), 2),
            ('gauss_seidel_x', (3, 2, 2), 1), ('gauss_seidel_y', (2, 3, 2), 1),
            ('gauss_seidel_z', (2, 2, 3), 1)]
    if ctx.thorough:
        plan += [('gauss_seidel', (3, 3, 2), 3), ('gauss_seidel_x', (4, 2, 3), 2),
                 ('gauss_seidel_y', (2, 4, 2), 2), ('gauss_seidel_z', (3, 2, 4), 2),
                 ('gauss_seidel_x', (3, 3, 2), 1), ('gauss_seidel', (2, 3, 3), 2)]
    texts, impl = [], []
    for i, (kn, shape, nu) in enumerate(plan):
        cplx = (i % 2 == 0)
        c = gs_case(rng, shape, cplx)
        dt = complex if cplx else float
        outs = []
        for f in (getattr(core, kn), getattr(core, kn).py_func):
            e = [np.array(a, dtype=dt) for a in c['e']]
            f(e[0], e[1], e[2], *[np.array(a, dtype=dt) for a in c['s']],
              *[np.array(a, dtype=dt) for a in c['eta']], c['zeta'],
              np.array(c['hx'], float), np.array(c['hy'], float), np.array(c['hz'], float), nu)
            outs.append(e)
        d = max(np.max(np.abs(outs[0][k] - outs[1][k])) for k in range(3))
        if d > 1e-9 * max(1.0, max(np.max(np.abs(a)) for a in outs[0])):
            dis.append({'what': f'core.{kn} compiled differs from .py_func', 'case': K.brief(c)})
        T = '(Q * Q)' if cplx else 'Q'
        a3 = (lambda a: K.coq_arr3(a, cplx))
        nx, ny, nz = shape
        L = [K.CASE_HEADER, "From V Require Import Gen.CoreBand Gen.CoreGS."]
        for nm, a in zip(('ex', 'ey', 'ez'), c['e']):
            L.append(f"Definition {nm} : Z -> Z -> Z -> {T} := {a3(a)}.")
        for nm, a in zip(('sx', 'sy', 'sz'), c['s']):
            L.append(f"Definition {nm} : Z -> Z -> Z -> {T} := {a3(a)}.")
        for nm, a in zip(('eta_x', 'eta_y', 'eta_z'), c['eta']):
            L.append(f"Definition {nm} : Z -> Z -> Z -> {T} := {a3(a)}.")
        L.append(f"Definition zeta : Z -> Z -> Z -> {T} := {a3(K.as_type(c['zeta'], cplx))}.")
        for nm in ('hx', 'hy', 'hz'):
            L.append(f"Definition {nm} : Z -> {T} := {K.coq_arr1(K.as_type(c[nm], cplx), cplx)}.")
        out = 'out_c' if cplx else 'out_q'
        L.append(f"Definition res := {kn} {nx} {ny} {nz} ex ey ez sx sy sz eta_x eta_y eta_z zeta hx hy hz {nu}.")
        L.append(f"Eval vm_compute in dump3 {out} {nx} {ny+1} {nz+1} (fst (fst res)).")
        L.append(f"Eval vm_compute in dump3 {out} {nx+1} {ny} {nz+1} (snd (fst res)).")
        L.append(f"Eval vm_compute in dump3 {out} {nx+1} {ny+1} {nz} (snd res).")
        texts.append((f"c03_g_{i}", '\n'.join(L) + '\n'))
        impl.append((kn, c, nu, outs[0]))
    res = V.coq_eval_many(texts, timeout=1500)
    for i, (kn, c, nu, e) in enumerate(impl):
        rc, out = res[f"c03_g_{i}"]
        if rc != 0:
            dis.append({'what': f'generated {kn} does not evaluate', 'log': out[-1200:]})
            continue
        ans = V.eval_answers(out)
        for comp in range(3):
            mv = K.parse_arr(ans[comp], c['cplx'])
            iv = e[comp].ravel()
            sc = max(1.0, float(np.max(np.abs(iv))))
            bad = [k for k in range(len(iv)) if abs(complex(iv[k]) - mv[k]) > 1e-9 * sc]
            if bad:
                dis.append({'what': f'core.{kn} differs from Gen.CoreGS.{kn}', 'case': K.brief(c), 'nu': nu,
                            'component': 'xyz'[comp], 'flat_index': bad[0],
                            'impl': str(iv[bad[0]]), 'model': str(mv[bad[0]])})
    return len(plan), [dict(kernel=k, shape=list(s), nu=n) for k, s, n in plan[:4]]


def correspondence(ctx):
    dis = []
    ns = corr_solve(ctx, dis)
    ng, samples = corr_gs(ctx, dis)
    return {
        'evaluations': 2 * ns + 2 * ng,
        'distinct_nontrivial': ns + ng,
        'rule': "solve cases: banded systems n in {1,2,5,6,7,11,...}, real/complex alternating, dyadic entries, "
                "compiled and .py_func vs generated solve (solution and in-band factor); kernel cases: the four "
                "Gauss-Seidel kernels on 2..4-cell grids, nu 1..3, dense random dyadic PEC fields and sources, "
                "compiled and .py_func vs the generated kernels on exact rationals; each case is distinct",
        'samples': samples,
        'traces_validated_against_impl': 2 * ns + 2 * ng,
        'disagreements': dis,
    }


# ------------------------------------------------------------------ searcher
MU0 = 4e-7 * np.pi


def make_problem(npr, shape, cplx, aniso=True, wellcond=False):
    import emg3d
    hs = [npr.uniform(0.5, 3.0, n) for n in shape]
    grid = emg3d.TensorMesh(hs, (0, 0, 0))
    kw = dict(property_x=npr.uniform(0.1, 5, shape), mu_r=npr.uniform(0.5, 2, shape))
    if aniso:
        kw['property_y'] = npr.uniform(0.1, 5, shape)
        kw['property_z'] = npr.uniform(0.1, 5, shape)
    model = emg3d.Model(grid, **kw)
    freq = 1.0 if cplx else -1.0
    if wellcond:
        # |s mu0| = 1: the sigma term is of the size of the curl-curl term, so the 6x6 / line
        # blocks are well conditioned and float rounding stays ~1e-14 (at 1 Hz the blocks are
        # within ~1e-6 of the singular curl-curl blocks and rounding alone reaches 1e-9)
        freq = 1.0 / (2 * np.pi * MU0) if cplx else -1.0 / MU0
    sfield = emg3d.Field(grid, frequency=freq)
    vm = emg3d.models.VolumeModel(model, sfield)
    return grid, vm, freq, hs


def rand_pec(npr, grid, freq):
    import emg3d
    f = emg3d.Field(grid, frequency=freq)
    n = f.field.size
    f.field[:] = npr.uniform(-1, 1, n) + (1j * npr.uniform(-1, 1, n) if freq > 0 else 0)
    K.apply_pec([f.fx, f.fy, f.fz])
    return f


def apply_A(vm, e, hs):
    eta = (vm.eta_x, vm.eta_y, vm.eta_z)
    return fit_apply((e.fx, e.fy, e.fz), eta, vm.zeta, *hs)


def search_case(rng, shape, cplx, lr, nu, seed=None, zero_source=False):
    import emg3d
    import emg3d.solver as S
    if seed is None:
        seed = rng.randint(0, 2**31 - 1)
    npr = np.random.RandomState(seed)
    wellcond = (seed % 3 != 0)
    tolf = 1.0 if wellcond else 1e4      # see make_problem: rounding at 1 Hz is amplified ~1e6
    grid, vm, freq, hs = make_problem(npr, shape, cplx, wellcond=wellcond)
    base = dict(shape=list(shape), complex=cplx, lr_dir=lr, nu=nu, np_seed=seed, frequency=freq,
                zero_source=zero_source)
    # 1. an exact solution is left unchanged
    estar = rand_pec(npr, grid, freq)
    ax, ay, az = apply_A(vm, estar, hs)
    s = emg3d.Field(grid, frequency=freq)
    s.fx[...], s.fy[...], s.fz[...] = ax, ay, az
    e = estar.copy()
    S.smoothing(vm, s, e, nu, lr)
    sc = max(1.0, float(np.max(np.abs(estar.field))))
    if np.max(np.abs(e.field - estar.field)) > 1e-9 * tolf * sc:
        return dict(signature='smoother changes an exact solution', **base,
                    max_change=float(np.max(np.abs(e.field - estar.field))))
    # 2. affine in (field, source)
    u1, u2 = rand_pec(npr, grid, freq), rand_pec(npr, grid, freq)
    s1, s2 = rand_pec(npr, grid, freq), rand_pec(npr, grid, freq)
    if zero_source:
        # homogeneous problem: a line / block whose assembled right-hand side is exactly zero
        # must still be relaxed (its unknowns become the zero solution)
        s1.field[:] = 0
        s2.field[:] = 0
    a = 0.375
    um = emg3d.Field(grid, a * u1.field + (1 - a) * u2.field, frequency=freq)
    sm = emg3d.Field(grid, a * s1.field + (1 - a) * s2.field, frequency=freq)
    o1, o2 = u1.copy(), u2.copy()
    S.smoothing(vm, s1, o1, nu, lr)
    S.smoothing(vm, s2, o2, nu, lr)
    S.smoothing(vm, sm, um, nu, lr)
    want = a * o1.field + (1 - a) * o2.field
    if np.max(np.abs(um.field - want)) > 1e-8 * tolf * max(1.0, float(np.max(np.abs(want)))):
        return dict(signature='smoother is not affine in (field, source)', **base)
    # 3. the equations of the block relaxed last hold (point smoother and lines)
    res = S.residual(vm, s1, o1)
    nx, ny, nz = shape
    clr = int(S._current_lr_dir(lr, grid))
    # core.gauss_seidel: iback starts at 0 and is flipped BEFORE each sweep, so sweep 1, 3, ..
    # run from the high indices down to node (1,1,1) and sweep 2, 4, .. end at (nx-1,ny-1,nz-1)
    last = (1, 1, 1) if nu % 2 == 1 else (nx - 1, ny - 1, nz - 1)
    scale = max(1.0, float(np.max(np.abs(s1.field))), float(np.max(np.abs(o1.field))))
    ix, iy, iz = last
    if clr == 0:
        six = [res.fx[ix - 1, iy, iz], res.fx[ix, iy, iz], res.fy[ix, iy - 1, iz], res.fy[ix, iy, iz],
               res.fz[ix, iy, iz - 1], res.fz[ix, iy, iz]]
        if max(abs(x) for x in six) > 1e-8 * tolf * scale * 100:
            return dict(signature='equations of the block relaxed last do not hold', **base,
                        residuals=[str(x) for x in six])
    else:
        # line relaxation: the kernels run in the order x, y, z; the line relaxed last is the
        # last line of the last kernel
        if clr in (3, 4, 5, 7):
            line = [res.fz[ix, iy, :], res.fx[ix - 1, iy, 1:nz], res.fx[ix, iy, 1:nz],
                    res.fy[ix, iy - 1, 1:nz], res.fy[ix, iy, 1:nz]]
            d = 'z'
        elif clr in (2, 6):
            line = [res.fy[ix, :, iz], res.fx[ix - 1, 1:ny, iz], res.fx[ix, 1:ny, iz],
                    res.fz[ix, 1:ny, iz - 1], res.fz[ix, 1:ny, iz]]
            d = 'y'
        else:
            line = [res.fx[:, iy, iz], res.fy[1:nx, iy - 1, iz], res.fy[1:nx, iy, iz],
                    res.fz[1:nx, iy, iz - 1], res.fz[1:nx, iy, iz]]
            d = 'x'
        worst = max(float(np.max(np.abs(a))) for a in line)
        if worst > 1e-8 * tolf * scale * 100:
            return dict(signature=f'equations of the {d}-line relaxed last do not hold', **base,
                        worst_residual=worst)
    # 4. tangential boundary values are never written
    ub = rand_pec(npr, grid, freq)
    ub.fx[:, 0, :] = ub.fx[:, -1, :] = 0.5
    ub.fx[:, :, 0] = ub.fx[:, :, -1] = -0.25
    ub.fy[0, :, :] = ub.fy[-1, :, :] = 0.75
    ub.fy[:, :, 0] = ub.fy[:, :, -1] = 1.5
    ub.fz[0, :, :] = ub.fz[-1, :, :] = -2.0
    ub.fz[:, 0, :] = ub.fz[:, -1, :] = 0.125
    ob = ub.copy()
    S.smoothing(vm, s1, ob, nu, lr)
    for nm in ('fx', 'fy', 'fz'):
        a0, a1 = getattr(ub, nm), getattr(ob, nm)
        m = np.ones(a0.shape, bool)
        if nm == 'fx':
            m[:, 1:-1, 1:-1] = False
        elif nm == 'fy':
            m[1:-1, :, 1:-1] = False
        else:
            m[1:-1, 1:-1, :] = False
        if np.any(a0[m] != a1[m]):
            return dict(signature='smoother writes a tangential boundary edge', **base, component=nm)
    return None


def solve_search(rng):
    """core.solve returns the exact solution (numpy dense solve as oracle)."""
    from emg3d import core
    npr = np.random.RandomState(rng.randint(0, 2**31 - 1))
    for n in (1, 2, 6, 11, 16, 31):
        for cplx in (False, True):
            A = np.zeros((n, n), complex if cplx else float)
            amat = np.zeros(6 * n, A.dtype)
            for j in range(n):
                for r in range(min(6, n - j)):
                    v = npr.uniform(-1, 1) + (1j * npr.uniform(-1, 1) if cplx else 0)
                    if r == 0:
                        v += 8
                    amat[6 * j + r] = v
                    A[j + r, j] = A[j, j + r] = v
            x = npr.uniform(-1, 1, n) + (1j * npr.uniform(-1, 1, n) if cplx else 0)
            b = A @ x
            core.solve(amat.copy(), b)
            if np.max(np.abs(b - x)) > 1e-9:
                return dict(signature='banded solver does not return the exact solution', n=n, complex=cplx)
    return None


def search(ctx, broken):
    rng = ctx.rng
    hits = []
    h = solve_search(rng)
    if h:
        return [h]
    lrs = list(range(8))
    nus = [1, 2, 3, 4]
    combos = [(lr, nu) for lr in lrs for nu in nus]
    if not ctx.thorough:
        combos = [(lr, nu) for lr in lrs for nu in (1, 2)]
    for i, (lr, nu) in enumerate(combos):
        shape = tuple(rng.choice([2, 3, 4, 5]) for _ in range(3))
        h = search_case(rng, shape, cplx=(i % 2 == 0), lr=lr, nu=nu)
        if h:
            hits.append(h)
            break
    # structured cases: zero source, a single interior line per direction (its neighbours are
    # boundary lines, so the assembled right-hand side is exactly zero), and the point smoother
    if not hits:
        for i, (lr, shape) in enumerate([(1, (3, 2, 2)), (2, (2, 4, 2)), (3, (2, 2, 3)), (0, (2, 2, 2)),
                                         (1, (4, 3, 2)), (7, (3, 3, 3))]):
            for nu in (1, 2):
                h = search_case(rng, shape, cplx=(i % 2 == 1), lr=lr, nu=nu, zero_source=True)
                if h:
                    hits.append(h)
                    break
            if hits:
                break
    ctx.notes.append(f"searcher: {len(combos)} (lr_dir, nu) combinations on random stretched anisotropic problems")
    return hits


def replay(ctx, payload):
    fi = payload.get('failing_input') or {}
    if 'lr_dir' not in fi:
        return False
    return search_case(ctx.rng, tuple(fi['shape']), fi['complex'], fi['lr_dir'], fi['nu'], fi.get('np_seed'),
                       zero_source=fi.get('zero_source', False)) is None
