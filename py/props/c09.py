"""C09 -- receiver sampling and point sources are exact transposes; reciprocity.

Theorems: coq/Props/C09.v (hand model Model/Interp.v + Model/InterpMag.v, the
latter over Gen/FieldsCurl.v = emg3d.fields._edge_curl_factor regenerated from
source on every run).
Correspondence: Model/Interp.v executed on exact rationals against
fields.get_receiver(method='linear'), fields._point_vector,
fields.get_source_field(TxElectricPoint), fields._edge_curl_factor (compiled and
.py_func), fields.get_magnetic_field + get_receiver, _point_vector_magnetic.
Searcher: the transpose identity and reciprocity on the implementation alone.
"""
import numpy as np

from vlib import core as V
from vlib import kernels as K

ID = 'C09'
LEVEL_TEXT = ("Theorems (Props/C09.v): for every tensor grid with strictly increasing nodes, every "
              "position in the second to second-last cell, every rotation-factor triple whose entries "
              "are 0 or exceed the 1e-10 guard, every real or complex field: get_receiver(linear) = "
              "<point_vector, field>, the eight writes of point_source hit eight distinct edges, "
              "receivers outside that range give NaN; sampling the magnetic field produced by the "
              "kernel _edge_curl_factor (translated from fields.py on every run) equals "
              "<curl^T(face sampling vector), E>/(s mu0) (discrete Faraday, mu_r = 1, all widths > 0); "
              "for a symmetric operator and exact solves the response is reciprocal. Unbounded in grid "
              "size; tests check one source/receiver pair. Survey glue (Model/RecCoord.v): for every survey "
              "(relative/absolute, electric/magnetic receivers, any sources) and EVERY history of requests on "
              "one Survey object the coordinates handed to get_receiver for (source, receiver) are "
              "coordinates_abs(source centre, receiver) (cache coherence by induction; a failed request leaves "
              "the cache unchanged; stored entries are never rewritten), hence after every history the responses "
              "of Simulation._get_responses are the inner products with the unit point vectors at those positions.")
LEVEL_NOTE = ("Hand model tied by differential correspondence on exact dyadic inputs (scipy's linear "
              "RegularGridInterpolator, numpy indexing, the rotation factors cosdg/sindg are inputs). "
              "discretize's face interpolation / edge_curl used by _point_vector_magnetic are compared "
              "numerically with the model's curl^T(face_vector), not proved. Reciprocity is proved for "
              "exact solutions of a symmetric operator (hypotheses); 'up to solver tolerance' is only "
              "searched on small solves. Rounding not modelled. Theorems over R use the Reals axioms. "
              "Model/RecCoord.v (Receiver.coordinates_abs, Survey._irec_types/_rec_types_coord with its per-source "
              "cache, Simulation._get_responses) is a hand model tied by a history stream on real Survey/Simulation "
              "objects (exact dyadic coordinates; source centres are inputs: point = its position, dipole = midpoint; "
              "electrodes.rotation is an oracle).")
TECHNIQUE = ("Coq proof (field/ring/lia/lra; generated kernel for the curl) + differential "
             "correspondence (vm_compute on Q)")
DESIGN_REF = "DESIGN.md section 6 C09"
GEN = ['FieldsCurl']
GEN_JOBS = {'FieldsCurl': ('emg3d/fields.py', [
    ('_edge_curl_factor', dict({n: 'A3' for n in ['mx', 'my', 'mz', 'ex', 'ey', 'ez', 'zeta']},
                               hx='A1', hy='A1', hz='A1'))])}
PROPS = 'Props/C09.v'
TRUSTED = ["Model/Interp.v as the reading of scipy RegularGridInterpolator(linear, fill_value=nan), "
           "maps._points_from_grids, fields.get_receiver and fields._point_vector (validated on every run "
           "by the correspondence on exact rationals)",
           "Model/FIT.v curl / curl^T as the meaning of 'discrete Faraday law' (shared with C02)",
           "Model/RecCoord.v as the reading of Receiver.coordinates_abs, Survey._rec_types_coord (cache as state) "
           "and Simulation._get_responses (validated on every run by the survey-history stream)"]
ASSUMES = ["rotation factors (scipy.special.cosdg/sindg) are inputs of the model",
           "complex fields are treated as (real part, imaginary part): all weights are real",
           "magnetic clause: mu_r = 1 (zeta = cell volume / (s mu0)); discretize's interpolation matrix "
           "and edge_curl are compared numerically only",
           "reciprocity: exact solutions of a symmetric system (C02); solver tolerance not modelled"]

EPS = 1e-10          # the literal in get_receiver; the model takes it as a parameter
HEADER = (K.CASE_HEADER + "From V Require Import Model.Interp.\n"
          "Definition oo (r : option Q) : Z * (Z * Z) := "
          "match r with Some q => (1, out_q q) | None => (0, (0, 1)) end.\n")


# ------------------------------------------------------------------ generators
def gen_grid(rng, lo=2, hi=5, force_big=False):
    shape = tuple(rng.randint(lo, hi) for _ in range(3))
    hs = [[K.dy_pos(rng) for _ in range(n)] for n in shape]
    origin = [K.dy(rng, bits=2) for _ in range(3)]
    big = force_big or rng.random() < 0.4
    if big:
        # projected (UTM-like) and negative absolute coordinates, 1e5 .. 1e7; still exact dyadics
        r = rng.random()
        if r < 0.4:
            base = [5e5, 6.5e6, -2000.]
        elif r < 0.7:
            base = [-5e5, -6.5e6, -1e5]
        else:
            base = [rng.choice([-1, 1]) * float(rng.randint(10**5, 10**7)) for _ in range(3)]
        origin = [b + o for b, o in zip(base, origin)]
    return dict(shape=shape, hs=hs, origin=origin, big_origin=big)


def nodes_of(g, d):
    out = [g['origin'][d]]
    for h in g['hs'][d]:
        out.append(out[-1] + h)
    return out


INTERIOR_KINDS = ('generic', 'node', 'centre', 'lo_node', 'hi_node', 'near_lo_in', 'near_hi_in')
OUTER_KINDS = ('outer_lo', 'outer_hi', 'bnd_lo', 'bnd_hi', 'outside_lo', 'outside_hi',
               'near_lo_out', 'near_hi_out', 'near_lo_out', 'near_hi_out')
POS_KINDS = list(INTERIOR_KINDS) + sorted(set(OUTER_KINDS))


def gen_coord(rng, nodes, kind):
    n = len(nodes) - 1
    if kind == 'generic':
        a, b = nodes[1], nodes[n - 1]
        if a == b:
            return a
        return a + (b - a) * rng.randint(0, 64) / 64
    if kind == 'node':
        return nodes[rng.randint(1, n - 1)]
    if kind == 'centre':
        if n < 3:
            return nodes[1]
        i = rng.randint(1, n - 2)
        return (nodes[i] + nodes[i + 1]) / 2
    if kind == 'lo_node':
        return nodes[1]
    if kind == 'hi_node':
        return nodes[n - 1]
    if kind.startswith('near_'):
        # sweep towards the second / second-to-last node from inside the outermost cell
        # ('_out': must be NaN) or from the inner side ('_in'): distance = cell width * 2^-k
        k = rng.choice([1, 2, 4, 7, 10, 14, 18, 20])
        lo = 'lo' in kind
        if kind.endswith('_out'):
            w = (nodes[1] - nodes[0]) if lo else (nodes[n] - nodes[n - 1])
            return nodes[1] - w / 2**k if lo else nodes[n - 1] + w / 2**k
        w = nodes[n - 1] - nodes[1]
        if w == 0:
            return nodes[1]
        return nodes[1] + w / 2**k if lo else nodes[n - 1] - w / 2**k
    if kind == 'outer_lo':
        return nodes[0] + (nodes[1] - nodes[0]) * rng.randint(1, 15) / 16
    if kind == 'outer_hi':
        return nodes[n - 1] + (nodes[n] - nodes[n - 1]) * rng.randint(1, 15) / 16
    if kind == 'bnd_lo':
        return nodes[0]
    if kind == 'bnd_hi':
        return nodes[n]
    if kind == 'outside_lo':
        return nodes[0] - K.dy_pos(rng)
    return nodes[n] + K.dy_pos(rng)


ANGLES = [(0., 0.), (90., 0.), (0., 90.), (180., 0.), (-90., 0.), (0., -90.), (45., 0.),
          (0., 1e-9), (0., -1e-9), (0., 1e-8), (90., 1e-9), (90. + 1e-9, 0.), (90. - 1e-8, 0.),
          (1e-9, 0.), (180., 5e-9), (30., 90. - 1e-9)]


def gen_angle(rng):
    r = rng.random()
    if r < 0.45:
        return (rng.randint(-1800, 1800) / 10., rng.randint(-900, 900) / 10.)
    return ANGLES[rng.randrange(len(ANGLES))]


def rot(az, el):
    from emg3d import electrodes
    return [float(x) for x in electrodes.rotation(az, el)]


def gen_receiver(rng, g, malformed=False):
    kinds = []
    for d in range(3):
        if malformed and (d == rng.randrange(3) or rng.random() < 0.3):
            kinds.append(rng.choice(OUTER_KINDS))
        else:
            kinds.append(rng.choice(INTERIOR_KINDS))
    if malformed and all(k in INTERIOR_KINDS for k in kinds):
        kinds[rng.randrange(3)] = rng.choice(OUTER_KINDS)
    xyz = [float(gen_coord(rng, nodes_of(g, d), kinds[d])) for d in range(3)]
    az, el = gen_angle(rng)
    return dict(xyz=xyz, az=az, el=el, fac=rot(az, el), kinds=kinds)


BATCH_KINDS = ['random', 'pm_az', 'pm_el', 'antiparallel', 'same', 'crossed4', 'guard_mix']


def gen_batch(rng, g, kind=None):
    """2..6 receivers for ONE get_receiver call.  Adversarial kinds make the
    rotation factors of one Cartesian component cancel in the sum over the
    receivers although every single factor is far above the guard."""
    kind = kind or rng.choice(BATCH_KINDS)
    a = rng.randint(1, 890) / 10.
    e = rng.randint(1, 890) / 10.
    if kind == 'random':
        angs = [gen_angle(rng) for _ in range(rng.randint(2, 6))]
    elif kind == 'pm_az':            # sin(az) cancels: y dropped by abs(sum)
        angs = [(a, e * (rng.random() < 0.5)), (-a, 0.)]
        angs[1] = (-a, angs[0][1])
        if rng.random() < 0.4:
            angs += [(a, angs[0][1]), (-a, angs[0][1])]
    elif kind == 'pm_el':            # sin(el) cancels: z dropped
        angs = [(a, e), (a, -e)]
        if rng.random() < 0.4:
            angs += [(a + 10., e), (a + 10., -e)]
    elif kind == 'antiparallel':     # all three cancel
        angs = [(a, e), (a - 180., -e)]
        if rng.random() < 0.3:
            angs += [(0., 0.), (180., 0.)]
    elif kind == 'same':
        angs = [(a, e)] * rng.randint(2, 4)
    elif kind == 'crossed4':         # x and y cancel
        angs = [(a, 0.), (a + 90., 0.), (a - 180., 0.), (a - 90., 0.)]
    else:                            # guard_mix: only tiny / zero factors in one component
        angs = [(0., 1e-9), (0., -1e-9), (0., 0.)][:rng.randint(2, 3)] + \
               ([(0., 1e-8)] if rng.random() < 0.5 else [])
    rng.shuffle(angs)
    recs = []
    for (az, el) in angs:
        r = gen_receiver(rng, g, malformed=(rng.random() < 0.1))
        r['az'], r['el'], r['fac'] = float(az), float(el), rot(az, el)
        recs.append(r)
    form = rng.choice(['tuple', 'list'])
    return dict(kind=kind, recs=recs, form=form)


def cancelling_components(recs):
    """components with a factor above the guard whose SUM over the batch is below it"""
    out = []
    for c in range(3):
        fs = [r['fac'][c] for r in recs]
        if any(abs(f) > EPS for f in fs) and abs(sum(fs)) <= EPS:
            out.append(c)
    return out


def sweep_receivers(rng, g):
    """NaN-policy sweep: for every direction and side, receivers approaching node 1 / n-1
    from inside the outermost cell (two distances) and from the inner side (one)."""
    recs = []
    for d in range(3):
        for side in ('lo', 'hi'):
            for kind in (f'near_{side}_out', f'near_{side}_out', f'near_{side}_in'):
                kinds = [rng.choice(('generic', 'centre', 'node')) for _ in range(3)]
                kinds[d] = kind
                xyz = [float(gen_coord(rng, nodes_of(g, dd), kinds[dd])) for dd in range(3)]
                az, el = gen_angle(rng)
                recs.append(dict(xyz=xyz, az=az, el=el, fac=rot(az, el), kinds=kinds))
    return recs


def gen_field(rng, shape, cplx, big=None):
    f = K.rand_field(rng, shape, cplx, pec=False)
    if big is not None:
        f[big] = f[big] * 2.0**40
    return f


def make_grid(g):
    import emg3d
    return emg3d.TensorMesh([np.array(h, float) for h in g['hs']], np.array(g['origin'], float))


def make_field(grid, f, cplx, electric=True):
    import emg3d
    fld = emg3d.Field(grid, dtype=complex if cplx else float, electric=electric)
    fld.fx[...] = f[0]
    fld.fy[...] = f[1]
    fld.fz[...] = f[2]
    return fld


# ---------------------------------------------------------------- Coq literals
def coq_grid(g):
    nx, ny, nz = g['shape']
    lines = [f"Definition nx := {nx}%Z. Definition ny := {ny}%Z. Definition nz := {nz}%Z."]
    for d, nm in enumerate(('ndx', 'ndy', 'ndz')):
        lines.append(f"Definition {nm} : Z -> Q := {K.coq_arr1(nodes_of(g, d), False)}.")
    lines.append(f"Definition eps : Q := {V.q(EPS)}.")
    return lines


def coq_field(prefix, f):
    """Real and imaginary parts as separate Q arrays."""
    lines = []
    for nm, a in zip(('x', 'y', 'z'), f):
        a = np.asarray(a)
        lines.append(f"Definition {prefix}{nm}r : Z -> Z -> Z -> Q := {K.coq_arr3(a.real, False)}.")
        if np.iscomplexobj(a):
            lines.append(f"Definition {prefix}{nm}i : Z -> Z -> Z -> Q := {K.coq_arr3(a.imag, False)}.")
    return lines


def rx_args(r):
    return ' '.join(V.q(v) for v in list(r['xyz']) + list(r['fac']))


def coq_batch(b):
    return '[' + '; '.join('((%s, %s, %s), (%s, %s, %s))' % tuple(V.q(v) for v in list(r['xyz']) + list(r['fac']))
                           for r in b['recs']) + ']'


def parse_opt(ans):
    """'(1, (n, d))' -> Fraction, '(0, (0, 1))' -> None."""
    import fractions
    import re
    ints = [int(x) for x in re.findall(r'-?\d+', ans)]
    out = []
    for i in range(0, len(ints) - 2, 3):
        out.append(fractions.Fraction(ints[i + 1], ints[i + 2]) if ints[i] == 1 else None)
    return out


FSH_E = lambda s: [(s[0], s[1] + 1, s[2] + 1), (s[0] + 1, s[1], s[2] + 1), (s[0] + 1, s[1] + 1, s[2])]
FSH_H = lambda s: [(s[0] + 1, s[1], s[2]), (s[0], s[1] + 1, s[2]), (s[0], s[1], s[2] + 1)]


def close(impl, model, scale):
    return abs(complex(impl) - complex(model)) <= 1e-9 * max(1.0, abs(complex(model)), scale)


# ------------------------------------------------------- electric groups
def electric_group(rng, gi, thorough):
    """One grid, one field, several receivers (single calls), one batch call,
    point vectors for the same receivers."""
    g = gen_grid(rng)
    cplx = rng.random() < 0.5
    nrec = 6
    recs = [gen_receiver(rng, g, malformed=(rng.random() < 0.25)) for _ in range(nrec)]
    # fields: for receivers with a factor on the small side of the guard the
    # component is blown up so that a skipped / not skipped component is visible
    big = None
    for r in recs:
        for c in range(3):
            if 0 < abs(r['fac'][c]) < 1e-7:
                big = c
    f = gen_field(rng, g['shape'], cplx, big)
    batches = [gen_batch(rng, g, 'random' if i == 0 else None) for i in range(3)]
    for b in batches:
        if b['kind'] == 'guard_mix' and big is None:
            big = 2
            f[2] = f[2] * 2.0**40
    # history on ONE grid object: repeated source-field requests of the same points
    def fkind():
        t = rng.random()
        return None if t < 0.35 else (-K.dy_pos(rng) if t < 0.7 else K.dy_pos(rng))
    history = [(rng.randrange(2), fkind(), rng.choice([0.5, 2.0, 3.0, 1.0, K.dy_pos(rng)]))
               for _ in range(8)]
    return dict(kind='electric', g=g, cplx=cplx, f=f, recs=recs, batches=batches, big=big,
                history=history)


def sweep_group(rng):
    g = gen_grid(rng, 2, 3, force_big=True)
    cplx = rng.random() < 0.5
    return dict(kind='electric', g=g, cplx=cplx, f=gen_field(rng, g['shape'], cplx),
                recs=sweep_receivers(rng, g), batches=[], big=None, history=[], sweep=True)


def electric_text(c):
    g = c['g']
    L = [HEADER] + coq_grid(g) + coq_field('f', c['f'])
    parts = ['r', 'i'] if c['cplx'] else ['r']
    for r in c['recs']:
        for p in parts:
            L.append(f"Eval vm_compute in oo (get_receiver Qle_bool nx ny nz ndx ndy ndz eps true "
                     f"fx{p} fy{p} fz{p} {rx_args(r)}).")
    for b in c['batches']:
        for p in parts:
            L.append(f"Eval vm_compute in map oo (get_receiver_batch Qle_bool nx ny nz ndx ndy ndz eps true "
                     f"fx{p} fy{p} fz{p} {coq_batch(b)}).")
    nx, ny, nz = g['shape']
    for r in ([] if c.get('sweep') else c['recs']):
        L.append(f"Eval vm_compute in match point_vector Qle_bool nx ny nz ndx ndy ndz {rx_args(r)} with "
                 f"| Some t => (1, (dump3 out_q nx (ny+1) (nz+1) (fst (fst t)), "
                 f"dump3 out_q (nx+1) ny (nz+1) (snd (fst t)), dump3 out_q (nx+1) (ny+1) nz (snd t))) "
                 f"| None => (0, ([], [], [])) end.")
    return '\n'.join(L) + '\n'


def impl_receiver(fld, recs, form='tuple', magnetic=False):
    import emg3d
    from emg3d import fields
    if isinstance(recs, dict):
        co = tuple(recs['xyz']) + (recs['az'], recs['el'])
    elif form == 'list':
        Rx = emg3d.RxMagneticPoint if magnetic else emg3d.RxElectricPoint
        co = [Rx(tuple(r['xyz']) + (r['az'], r['el'])) for r in recs]
    else:
        co = tuple(np.array([r['xyz'][d] for r in recs]) for d in range(3)) + (
            np.array([r['az'] for r in recs]), np.array([r['el'] for r in recs]))
    return np.atleast_1d(np.asarray(fields.get_receiver(fld, co, 'linear')))


def brief_rx(g, r):
    return dict(shape=list(g['shape']), hs=g['hs'], origin=g['origin'], xyz=r['xyz'],
                big_origin=g.get('big_origin', False),
                azimuth=r['az'], elevation=r['el'], factors=r['fac'], kinds=r['kinds'])


def electric_check(c, out, dis, hist, seen):
    from emg3d import fields
    g = c['g']
    grid = make_grid(g)
    fld = make_field(grid, c['f'], c['cplx'])
    ans = V.eval_answers(out)
    parts = 2 if c['cplx'] else 1
    k = 0
    scale_f = [float(np.max(np.abs(a))) for a in c['f']]

    def cmp_rx(r, vals, impl, what):
        sc = sum(abs(r['fac'][i]) * scale_f[i] for i in range(3))
        if any(v is None for v in vals):
            ok = bool(np.isnan(impl))
            mod = 'nan'
        else:
            mod = complex(float(vals[0]), float(vals[1]) if len(vals) > 1 else 0.0)
            ok = (not np.isnan(impl)) and close(impl, mod, sc)
        if not ok:
            dis.append({'what': what, 'case': brief_rx(g, r), 'complex': c['cplx'],
                        'impl': str(impl), 'model': str(mod)})
        return mod

    nevals = 0
    hist['grid_big_origin' if g.get('big_origin') else 'grid_small_origin'] += 1
    for r in c['recs']:
        vals = [parse_opt(ans[k + p])[0] for p in range(parts)]
        k += parts
        impl = impl_receiver(fld, r)[0]
        cmp_rx(r, vals, impl, 'fields.get_receiver(linear) differs from Model.Interp.get_receiver')
        nevals += 1
        # other input forms and the other interpolation method: same NaN mask
        import emg3d
        co5 = tuple(r['xyz']) + (r['az'], r['el'])
        alt = {'Rx instance': np.atleast_1d(np.asarray(fields.get_receiver(
                   fld, emg3d.RxElectricPoint(co5), 'linear')))[0],
               'list of one Rx': np.atleast_1d(np.asarray(fields.get_receiver(
                   fld, [emg3d.RxElectricPoint(co5)], 'linear')))[0]}
        for nm, v in alt.items():
            if not (np.isnan(v) and np.isnan(impl)) and v != impl:
                dis.append({'what': f'get_receiver(linear) with {nm} differs from the tuple form',
                            'case': brief_rx(g, r), 'impl': str(v), 'model': str(impl)})
        cub = np.nan                      # the cubic spline needs >= 4 points per direction
        if min(g['shape']) >= 4:
            cub = np.atleast_1d(np.asarray(fields.get_receiver(fld, co5, 'cubic')))[0]
            hist['rx_cubic_mask_checked'] += 1
        if vals[0] is None and not np.isnan(cub):
            dis.append({'what': "get_receiver(method='cubic') returns a number where the NaN policy "
                                "(Model.Interp.outer_mask) requires NaN", 'case': brief_rx(g, r),
                        'impl': str(cub), 'model': 'nan'})
        nevals += 1
        guard = any(0 < abs(x) <= 1e-7 for x in r['fac'])
        key = (tuple(r['kinds']), tuple(0 if x == 0 else (1 if abs(x) <= EPS else 2) for x in r['fac']))
        hist['rx_' + ('nan' if vals[0] is None else 'num')] += 1
        if guard:
            hist['rx_guard_side_' + ('small' if any(0 < abs(x) <= EPS for x in r['fac']) else 'large')] += 1
        for kd in r['kinds']:
            hist['pos_' + kd] += 1
        if any(kd != 'generic' for kd in r['kinds']) or guard:
            seen.add(('rx', g['shape'], key))
    for b in c['batches']:
        bvals = [parse_opt(ans[k + p]) for p in range(parts)]
        k += parts
        impl_b = impl_receiver(fld, b['recs'], b['form'])
        canc = cancelling_components(b['recs'])
        for i, r in enumerate(b['recs']):
            cmp_rx(r, [bvals[p][i] for p in range(parts)], impl_b[i],
                   f"fields.get_receiver(linear, {len(b['recs'])} receivers in one call, {b['form']} form, "
                   f"orientation set '{b['kind']}') differs from get_receiver_batch")
            nevals += 1
        hist['batch_kind_' + b['kind']] += 1
        hist['batch_size_%d' % len(b['recs'])] += 1
        hist['batch_form_' + b['form']] += 1
        if canc:
            hist['batch_with_cancelling_component'] += 1
        if b['kind'] != 'random':
            seen.add(('batch', g['shape'], b['kind'], len(b['recs']), b['form'], tuple(canc)))
    # point vectors
    shp = FSH_E(g['shape'])
    model_vec = {}
    for ri, r in enumerate([] if c.get('sweep') else c['recs']):
        a = ans[k]
        k += 1
        co = tuple(r['xyz']) + (r['az'], r['el'])
        try:
            pv = fields._point_vector(grid, co)
            impl = [np.array(pv.fx), np.array(pv.fy), np.array(pv.fz)]
        except ValueError:
            impl = None
        nevals += 1
        is_some = a.strip().startswith('(1')
        hist['pv_' + ('ok' if is_some else 'error')] += 1
        if (impl is None) != (not is_some):
            dis.append({'what': '_point_vector error behaviour differs from Model.Interp.point_vector',
                        'case': brief_rx(g, r), 'impl': 'ValueError' if impl is None else 'vector',
                        'model': 'Some' if is_some else 'None'})
            continue
        if impl is None:
            seen.add(('pv_err', g['shape'], tuple(r['kinds'])))
            continue
        fr = V.parse_pairs(a[a.index(',') + 1:])
        sizes = [int(np.prod(s)) for s in shp]
        if len(fr) != sum(sizes):
            dis.append({'what': 'point_vector dump has wrong size', 'case': brief_rx(g, r)})
            continue
        off = 0
        mvs = []
        for comp in range(3):
            mvs.append(np.array([float(x) for x in fr[off:off + sizes[comp]]]).reshape(shp[comp]))
            off += sizes[comp]
        model_vec[ri] = np.r_[mvs[0].ravel('F'), mvs[1].ravel('F'), mvs[2].ravel('F')]
        for comp in range(3):
            mv = mvs[comp]
            d = np.abs(impl[comp] - mv)
            if np.max(d) > 1e-9 * max(1.0, float(np.max(np.abs(mv)))):
                idx = np.unravel_index(int(np.argmax(d)), d.shape)
                dis.append({'what': 'fields._point_vector differs from Model.Interp.point_vector',
                            'case': brief_rx(g, r), 'component': 'xyz'[comp],
                            'index': [int(i) for i in idx], 'impl': float(impl[comp][idx]),
                            'model': float(mv[idx])})
                break
        if any(kd in ('outer_lo', 'outer_hi', 'bnd_lo', 'bnd_hi') for kd in r['kinds']):
            seen.add(('pv_outer', g['shape'], tuple(r['kinds'])))
    nevals += history_check(c, grid, model_vec, dis, hist, seen)
    return nevals


def history_check(c, grid, model_vec, dis, hist, seen):
    """Repeated get_source_field requests on the SAME grid object (which has
    already served one _point_vector call per point): the model is a function
    of (grid, point, frequency, strength) only, so every answer must equal
    factor * Model.Interp.point_vector, and fields returned earlier must not
    change afterwards."""
    import emg3d
    from emg3d import fields
    g = c['g']
    returned, done, n = [], [], 0
    for step, (ri, freq, strength) in enumerate(c['history']):
        if ri not in model_vec:
            continue
        r = c['recs'][ri]
        co = tuple(r['xyz']) + (r['az'], r['el'])
        src = emg3d.TxElectricPoint(co, strength=strength)
        sf = src.get_field(grid, freq) if step % 2 else fields.get_source_field(grid, src, freq)
        fac = strength if freq is None else -sf.smu0 * strength
        want = model_vec[ri] * fac
        done.append({'point': ri, 'frequency': freq, 'strength': strength})
        n += 1
        hist['history_' + ('none' if freq is None else ('laplace' if freq < 0 else 'frequency'))] += 1
        sc = max(1e-300, float(np.max(np.abs(want))))
        if np.max(np.abs(sf.field - want)) > 1e-9 * sc:
            kk = int(np.argmax(np.abs(sf.field - want)))
            dis.append({'what': 'get_source_field(TxElectricPoint) depends on the call history of the grid '
                                'object (differs from factor * Model.Interp.point_vector)',
                        'case': brief_rx(g, r), 'history': [{'op': '_point_vector once per point'}] + list(done),
                        'impl': str(complex(sf.field[kk])), 'model': str(complex(want[kk]))})
            break
        returned.append((sf, want, len(done)))
    else:
        for sf, want, upto in returned:
            sc = max(1e-300, float(np.max(np.abs(want))))
            if np.max(np.abs(sf.field - want)) > 1e-9 * sc:
                dis.append({'what': 'a source field returned earlier changed after later get_source_field calls',
                            'case': brief_rx(g, c['recs'][done[upto - 1]['point']]),
                            'history': list(done), 'returned_at_step': upto})
                break
    if n >= 2:
        seen.add(('history', g['shape'], tuple((d['point'], d['frequency'] is None,
                                                (d['frequency'] or 1) < 0) for d in done)))
    return n


def source_field_check(rng, n, dis):
    """get_source_field(TxElectricPoint) = (-s mu0) * strength * _point_vector, and the
    receiver classes map to the adjoint source classes."""
    import emg3d
    from emg3d import fields, electrodes
    ev = 0
    if electrodes.RxElectricPoint._adjoint_source is not electrodes.TxElectricPoint:
        dis.append({'what': 'RxElectricPoint._adjoint_source is not TxElectricPoint',
                    'impl': str(electrodes.RxElectricPoint._adjoint_source), 'model': 'TxElectricPoint'})
    if electrodes.RxMagneticPoint._adjoint_source is not electrodes.TxMagneticPoint:
        dis.append({'what': 'RxMagneticPoint._adjoint_source is not TxMagneticPoint',
                    'impl': str(electrodes.RxMagneticPoint._adjoint_source), 'model': 'TxMagneticPoint'})
    for _ in range(n):
        g = gen_grid(rng)
        grid = make_grid(g)
        r = gen_receiver(rng, g)
        co = tuple(r['xyz']) + (r['az'], r['el'])
        strength = K.dy_pos(rng)
        freq = rng.choice([None, K.dy_pos(rng), -K.dy_pos(rng)])
        pv = fields._point_vector(grid, co)
        src = emg3d.TxElectricPoint(co, strength=strength)
        sf = fields.get_source_field(grid, src, freq)
        sf2 = src.get_field(grid, freq)
        if freq is None:
            fac = strength
        else:
            fac = -sf.smu0 * strength
        want = pv.field * fac
        ev += 1
        sc = max(1e-300, float(np.max(np.abs(want))))
        if (np.max(np.abs(sf.field - want)) > 1e-12 * sc or
                np.max(np.abs(sf2.field - want)) > 1e-12 * sc):
            dis.append({'what': 'get_source_field(TxElectricPoint) is not (-s mu0) strength point_vector',
                        'case': brief_rx(g, r), 'frequency': freq, 'strength': strength,
                        'impl': str(complex(sf.field[np.argmax(np.abs(sf.field - want))])),
                        'model': str(complex(want[np.argmax(np.abs(sf.field - want))]))})
        # smu0 itself
        if freq is not None:
            import scipy.constants as sc_
            s = 2j * np.pi * freq if freq > 0 else -freq
            if abs(sf.smu0 - s * sc_.mu_0) > 1e-15 * abs(s * sc_.mu_0):
                dis.append({'what': 'Field.smu0 is not s*mu0', 'frequency': freq,
                            'impl': str(sf.smu0), 'model': str(s * sc_.mu_0)})
    return ev


# ------------------------------------------------------- magnetic groups
MHEADER = (HEADER + "From V Require Import Gen.FieldsCurl Model.FIT Model.InterpMag.\n")


def kernel_case(rng):
    """_edge_curl_factor: generated model vs compiled kernel and .py_func."""
    shape = tuple(rng.randint(1, 3) for _ in range(3))
    cplx = rng.random() < 0.5
    hs = [[K.dy_pos(rng) for _ in range(n)] for n in shape]
    e = gen_field(rng, shape, cplx)
    m0 = [K.rand_arr(rng, sh, cplx) for sh in FSH_H(shape)]      # pre-filled output arrays
    zeta = K.rand_arr(rng, shape, cplx, pos=True)
    return dict(shape=shape, cplx=cplx, hs=hs, e=e, m0=m0, zeta=zeta)


def kernel_text(c):
    cplx = c['cplx']
    T = '(Q * Q)' if cplx else 'Q'
    nx, ny, nz = c['shape']
    L = [K.CASE_HEADER, "From V Require Import Gen.FieldsCurl.",
         f"Definition nx := {nx}%Z. Definition ny := {ny}%Z. Definition nz := {nz}%Z."]
    for nm, a in zip(('mx', 'my', 'mz'), c['m0']):
        L.append(f"Definition {nm} : Z -> Z -> Z -> {T} := {K.coq_arr3(a, cplx)}.")
    for nm, a in zip(('ex', 'ey', 'ez'), c['e']):
        L.append(f"Definition {nm} : Z -> Z -> Z -> {T} := {K.coq_arr3(K.as_type(a, cplx), cplx)}.")
    L.append(f"Definition zeta : Z -> Z -> Z -> {T} := {K.coq_arr3(c['zeta'], cplx)}.")
    for nm, h in zip(('hx', 'hy', 'hz'), c['hs']):
        L.append(f"Definition {nm} : Z -> {T} := {K.coq_arr1(K.as_type(h, cplx), cplx)}.")
    out = 'out_c' if cplx else 'out_q'
    L.append("Definition res := _edge_curl_factor nx ny nz mx my mz ex ey ez hx hy hz zeta.")
    L.append(f"Eval vm_compute in dump3 {out} (nx+1) ny nz (fst (fst res)).")
    L.append(f"Eval vm_compute in dump3 {out} nx (ny+1) nz (snd (fst res)).")
    L.append(f"Eval vm_compute in dump3 {out} nx ny (nz+1) (snd res).")
    return '\n'.join(L) + '\n'


def kernel_check(c, out, dis):
    from emg3d import fields
    dt = complex if c['cplx'] else float
    model = [K.parse_arr(a, c['cplx']) for a in V.eval_answers(out)]
    n = 0
    for tag, f in (('jit', fields._edge_curl_factor), ('py_func', fields._edge_curl_factor.py_func)):
        m = [np.array(a, dtype=dt) for a in c['m0']]
        e = [np.array(a, dtype=dt) for a in c['e']]
        f(m[0], m[1], m[2], e[0], e[1], e[2], *[np.array(h, float) for h in c['hs']],
          np.array(c['zeta'], dtype=dt))
        n += 1
        for comp in range(3):
            iv = m[comp].ravel()
            mv = model[comp]
            if len(iv) != len(mv):
                dis.append({'what': 'shape mismatch in _edge_curl_factor dump', 'case': list(c['shape'])})
                continue
            scale = max(1.0, float(np.max(np.abs(iv))))
            bad = [k for k in range(len(iv)) if abs(complex(iv[k]) - mv[k]) > 1e-9 * scale]
            if bad:
                dis.append({'what': f'fields._edge_curl_factor ({tag}) differs from Gen.FieldsCurl',
                            'case': {'shape': list(c['shape']), 'complex': c['cplx'], 'hs': c['hs']},
                            'component': 'xyz'[comp], 'flat_index': bad[0],
                            'impl': str(iv[bad[0]]), 'model': str(mv[bad[0]])})
    return n


def magnetic_group(rng, sweep=False):
    """One grid (mu_r = 1), one E field, a frequency (Laplace s real, or
    frequency domain), receivers in the inner range (+ a few outside)."""
    g = gen_grid(rng, 2, 3 if sweep else 4, force_big=sweep)
    cplx = rng.random() < 0.5
    laplace = rng.random() < 0.5
    cplx = cplx and not laplace          # a Laplace-domain Field is real
    freq = -K.dy_pos(rng) if laplace else K.dy_pos(rng)
    e = gen_field(rng, g['shape'], cplx)
    recs = [gen_receiver(rng, g, malformed=(rng.random() < 0.2)) for _ in range(4)]
    if sweep:
        recs = sweep_receivers(rng, g)[::2]
    batches = [gen_batch(rng, g, rng.choice(['pm_az', 'pm_el', 'antiparallel', 'crossed4', 'random']))
               for _ in range(2)]
    return dict(kind='magnetic', g=g, cplx=cplx, freq=freq, e=e, recs=recs, batches=batches)


def magnetic_text(c):
    import scipy.constants as sc
    g = c['g']
    nx, ny, nz = g['shape']
    # real scale of s*mu0: Laplace s = -f (f<0) ; frequency s = i w, handled by H = H'/i
    cval = (-c['freq'] if c['freq'] < 0 else 2 * np.pi * c['freq']) * sc.mu_0
    L = [MHEADER] + coq_grid(g) + coq_field('e', c['e'])
    for nm, h in zip(('hx', 'hy', 'hz'), g['hs']):
        L.append(f"Definition {nm} : Z -> Q := {K.coq_arr1(h, False)}.")
    L.append(f"Definition cval : Q := {V.q(float(cval))}.")
    parts = ['r', 'i'] if c['cplx'] else ['r']
    for p in parts:
        L.append(f"Definition H{p} := magnetic_field nx ny nz hx hy hz (zeta_vac hx hy hz cval) "
                 f"ex{p} ey{p} ez{p}.")
        L.append(f"Definition Hx{p} := tab3 0%Q (nx+1) ny nz (fst (fst H{p})).")
        L.append(f"Definition Hy{p} := tab3 0%Q nx (ny+1) nz (snd (fst H{p})).")
        L.append(f"Definition Hz{p} := tab3 0%Q nx ny (nz+1) (snd H{p}).")
    for r in c['recs']:
        for p in parts:
            L.append(f"Eval vm_compute in oo (get_receiver Qle_bool nx ny nz ndx ndy ndz eps false "
                     f"Hx{p} Hy{p} Hz{p} {rx_args(r)}).")
    for b in c['batches']:
        for p in parts:
            L.append(f"Eval vm_compute in map oo (get_receiver_batch Qle_bool nx ny nz ndx ndy ndz eps false "
                     f"Hx{p} Hy{p} Hz{p} {coq_batch(b)}).")
    # adjoint source vector: curl^T of the face sampling vector
    for r in c['recs']:
        L.append(f"Eval vm_compute in match face_vector Qle_bool nx ny nz ndx ndy ndz {rx_args(r)} with "
                 f"| Some t => let wx := tab3 0%Q (nx+1) ny nz (fst (fst t)) in "
                 f"let wy := tab3 0%Q nx (ny+1) nz (snd (fst t)) in "
                 f"let wz := tab3 0%Q nx ny (nz+1) (snd t) in "
                 f"(1, (dump3 out_q nx (ny+1) (nz+1) (curlT_x wy wz hy hz), "
                 f"dump3 out_q (nx+1) ny (nz+1) (curlT_y wx wz hx hz), "
                 f"dump3 out_q (nx+1) (ny+1) nz (curlT_z wx wy hx hy))) "
                 f"| None => (0, ([], [], [])) end.")
    return '\n'.join(L) + '\n'


def magnetic_check(c, out, dis, hist, seen):
    import emg3d
    from emg3d import fields
    g = c['g']
    grid = make_grid(g)
    efield = emg3d.Field(grid, frequency=c['freq'])
    efield.fx[...] = c['e'][0]
    efield.fy[...] = c['e'][1]
    efield.fz[...] = c['e'][2]
    model = emg3d.Model(grid, property_x=np.ones(grid.shape_cells))
    hfield = fields.get_magnetic_field(model, efield)
    ans = V.eval_answers(out)
    parts = 2 if c['cplx'] else 1
    k = 0
    n = 0
    hscale = float(np.max(np.abs(hfield.field))) if hfield.field.size else 1.0
    for r in c['recs']:
        vals = [parse_opt(ans[k + p])[0] for p in range(parts)]
        k += parts
        impl = impl_receiver(hfield, r)[0]
        n += 1
        if any(v is None for v in vals):
            ok = bool(np.isnan(impl))
            mod = 'nan'
        else:
            hp = complex(float(vals[0]), float(vals[1]) if parts > 1 else 0.0)   # H' for real s*mu0
            mod = hp if c['freq'] < 0 else hp / 1j
            ok = (not np.isnan(impl)) and abs(impl - mod) <= 1e-9 * max(abs(mod), hscale * sum(abs(x) for x in r['fac']), 1e-300)
        hist['mag_rx_' + ('nan' if mod == 'nan' else 'num')] += 1
        if not ok:
            dis.append({'what': 'get_magnetic_field + get_receiver(linear) differs from the model '
                                '(Gen._edge_curl_factor + Model.Interp.get_receiver on faces)',
                        'case': brief_rx(g, r), 'frequency': c['freq'], 'complex': c['cplx'],
                        'impl': str(impl), 'model': str(mod)})
        else:
            seen.add(('mag', g['shape'], tuple(r['kinds']), c['freq'] < 0))
    for b in c['batches']:
        bvals = [parse_opt(ans[k + p]) for p in range(parts)]
        k += parts
        impl_b = impl_receiver(hfield, b['recs'], b['form'], magnetic=True)
        canc = cancelling_components(b['recs'])
        for i, r in enumerate(b['recs']):
            vals = [bvals[p][i] for p in range(parts)]
            impl = impl_b[i]
            n += 1
            if any(v is None for v in vals):
                ok = bool(np.isnan(impl))
                mod = 'nan'
            else:
                hp = complex(float(vals[0]), float(vals[1]) if parts > 1 else 0.0)
                mod = hp if c['freq'] < 0 else hp / 1j
                ok = (not np.isnan(impl)) and abs(impl - mod) <= 1e-9 * max(
                    abs(mod), hscale * sum(abs(x) for x in r['fac']), 1e-300)
            if not ok:
                dis.append({'what': f"get_magnetic_field + get_receiver(linear, {len(b['recs'])} receivers in one "
                                    f"call, {b['form']} form, orientation set '{b['kind']}') differs from "
                                    f"get_receiver_batch on faces",
                            'case': brief_rx(g, r), 'frequency': c['freq'], 'impl': str(impl), 'model': str(mod)})
        hist['mag_batch_kind_' + b['kind']] += 1
        if canc:
            hist['mag_batch_with_cancelling_component'] += 1
        seen.add(('mag_batch', g['shape'], b['kind'], len(b['recs']), b['form'], tuple(canc)))
    shp = FSH_E(g['shape'])
    for r in c['recs']:
        a = ans[k]
        k += 1
        interior = all(kd in INTERIOR_KINDS for kd in r['kinds'])
        if not interior:
            continue             # discretize's behaviour outside the inner range is not modelled
        co = tuple(r['xyz']) + (r['az'], r['el'])
        pv = fields._point_vector_magnetic(grid, co, None)
        impl = [np.array(pv.fx), np.array(pv.fy), np.array(pv.fz)]
        n += 1
        if not a.strip().startswith('(1'):
            dis.append({'what': 'face_vector is None for an interior position', 'case': brief_rx(g, r)})
            continue
        fr = V.parse_pairs(a[a.index(',') + 1:])
        sizes = [int(np.prod(s_)) for s_ in shp]
        off = 0
        for comp in range(3):
            mv = -np.array([float(x_) for x_ in fr[off:off + sizes[comp]]]).reshape(shp[comp])
            off += sizes[comp]
            d = np.abs(impl[comp] - mv)
            if np.max(d) > 1e-9 * max(1.0, float(np.max(np.abs(mv)))):
                idx = np.unravel_index(int(np.argmax(d)), d.shape)
                dis.append({'what': '_point_vector_magnetic (discretize) differs from -curl^T(face_vector)',
                            'case': brief_rx(g, r), 'component': 'xyz'[comp],
                            'index': [int(i) for i in idx], 'impl': float(impl[comp][idx]),
                            'model': float(mv[idx])})
                break
        hist['mag_vector'] += 1
    return n


# ------------------------------------------------ survey histories (round 7)
# The glue between Survey and get_receiver: Receiver.coordinates_abs,
# Survey._irec_types, Survey._rec_types_coord (per-source cache on the Survey
# object) and Simulation._get_responses.  Model: Model/RecCoord.v, executed on
# the whole history of ONE Survey object.
SHEADER = (K.CASE_HEADER + "From V Require Import Model.RecCoord.\n"
           "Definition oc (c : @coord5 Q) : list (Z * Z) := "
           "[out_q (fst (fst (fst c))); out_q (snd (fst (fst c))); out_q (snd (fst c)); "
           "out_q (fst (snd c)); out_q (snd (snd c))].\n"
           "Definition tag (o : @outcome Q) : Z := match o with Coords _ _ => 1 | KeyErr => 2 | Done => 3 end.\n"
           "Definition oe (o : @outcome Q) : list (Z * Z) := "
           "match o with Coords e _ => flat_map oc e | _ => [] end.\n"
           "Definition om (o : @outcome Q) : list (Z * Z) := "
           "match o with Coords _ m => flat_map oc m | _ => [] end.\n")

RX_LAYOUTS = ['mixed_mag_first', 'all_relative', 'mixed_electric_only', 'all_absolute',
              'relative_magnetic_absolute_electric', 'one_relative_last']
HIST_TEMPLATES = ['observed_then_new_simulation', 'compute_clean_compute', 'direct_requests',
                  'direct_responses', 'compute_twice_no_clean']


def _src_def(rng, kind, centre, g):
    """(constructor name, coordinates); the centre is an INPUT (midpoint of the dipole)."""
    if kind == 'ED':
        # half-lengths: dyadic, at most half of the thinner outermost cell (electrodes stay inside)
        d = [rng.randint(-4, 4) / 8. * min(g['hs'][dd][0], g['hs'][dd][-1]) for dd in range(3)]
        if not any(d):
            d[0] = min(g['hs'][0][0], g['hs'][0][-1]) / 2
        co = (centre[0] - d[0], centre[0] + d[0], centre[1] - d[1], centre[1] + d[1],
              centre[2] - d[2], centre[2] + d[2])
        return ('TxElectricDipole', co)
    az, el = gen_angle(rng)
    return ('TxElectricPoint' if kind == 'EP' else 'TxMagneticPoint', tuple(centre) + (az, el))


def gen_survey_case(rng, ci):
    g = gen_grid(rng, 4, 5, force_big=(ci % 3 == 1))
    nds = [nodes_of(g, d) for d in range(3)]
    nsrc = 2 + ci % 3
    kinds = [['EP', 'ED', 'MP'][(ci + i) % 3] for i in range(nsrc)]
    if g['big_origin']:
        # electrodes.Dipole rejects electrodes that are np.allclose (rtol 1e-5 of the ABSOLUTE
        # coordinate): short dipoles cannot be built at projected coordinates
        kinds = ['EP' if k == 'ED' else k for k in kinds]
    centres = []
    for i in range(nsrc):
        c = [float(gen_coord(rng, nds[d], 'generic')) for d in range(3)]
        if i and c == centres[0]:
            c[0] = float(nds[0][1])
        centres.append(c)
    if nsrc == 4:
        centres[3] = list(centres[1])          # two sources sharing one centre
    # user keys in non-alphabetical order
    skeys = ['Tx%s' % 'zkabq'[i] for i in range(nsrc)]
    sources = [dict(key=skeys[i], kind=kinds[i], centre=centres[i],
                    ctor=_src_def(rng, kinds[i], centres[i], g)) for i in range(nsrc)]
    layout = RX_LAYOUTS[ci % len(RX_LAYOUTS)]
    nrec = rng.randint(3, 6)
    recs = []
    for j in range(nrec):
        if layout == 'mixed_mag_first':
            rel, el = (j % 2 == 0), (j % 3 != 0)
        elif layout == 'all_relative':
            rel, el = True, (j % 2 == 0)
        elif layout == 'mixed_electric_only':
            rel, el = (j % 2 == 1), True
        elif layout == 'all_absolute':
            rel, el = False, (j % 2 == 1)
        elif layout == 'relative_magnetic_absolute_electric':
            rel = (j % 2 == 0)
            el = not rel
        else:
            rel, el = (j == nrec - 1), (j % 2 == 0)
        # target position inside the inner range for a reference source
        tgt = [float(gen_coord(rng, nds[d], rng.choice(['generic', 'generic', 'centre', 'node'])))
               for d in range(3)]
        ref = rng.randrange(nsrc)
        xyz = [tgt[d] - centres[ref][d] for d in range(3)] if rel else tgt
        az, elv = gen_angle(rng)
        recs.append(dict(key='Rx%s' % 'qpacbz'[j], rel=rel, el=el, xyz=xyz, az=az, elv=elv))
    # history: the direct-request template always, plus two others (rotating)
    tpl = ['direct_requests', HIST_TEMPLATES[ci % len(HIST_TEMPLATES)],
           HIST_TEMPLATES[(ci // 2 + 3) % len(HIST_TEMPLATES)]]
    rng.shuffle(tpl)
    ops = []
    for t in tpl:
        if t == 'observed_then_new_simulation':
            ops += [('compute', True), ('newsim',), ('compute', False)]
        elif t == 'compute_clean_compute':
            ops += [('compute', False), ('clean',), ('compute', False)]
        elif t == 'compute_twice_no_clean':
            ops += [('compute', False), ('compute', False)]
        elif t == 'direct_requests':
            order = list(range(nsrc))
            ops += [('req', i) for i in order]
            ops += [('scribble',)]
            ops += [('req', i) for i in reversed(order)]
            ops += [('bad', 'no-such-source')]
            ops += [('req', rng.randrange(nsrc)) for _ in range(3)]
        else:
            order = list(range(nsrc)) * 2
            rng.shuffle(order)
            ops += [('resp', i, rng.randint(0, 2**31 - 1)) for i in order]
    return dict(g=g, sources=sources, recs=recs, ops=ops, layout=layout, templates=tpl,
                freq=rng.choice([1.0, 0.5, 2.0]))


def survey_model_ops(c):
    """The history as operations of Model.RecCoord (one freq: compute asks every source once)."""
    out = []
    for op in c['ops']:
        if op[0] in ('req', 'resp'):
            out.append('Req %d' % op[1])
        elif op[0] == 'bad':
            out.append('Req 99')
        elif op[0] == 'scribble':
            out.append('Scribble')
        elif op[0] == 'compute':
            out += ['Req %d' % i for i in range(len(c['sources']))]
    return out


def survey_text(cases, tagn):
    L = [SHEADER]
    for k, c in enumerate(cases):
        srcs = '; '.join('(%d, (%s, %s, %s))' % ((i,) + tuple(V.q(v) for v in s['centre']))
                         for i, s in enumerate(c['sources']))
        rcs = '; '.join('mkRx %s %s (%s, %s, %s) (%s, %s)' % (
            (V.coq_bool(r['rel']), V.coq_bool(r['el'])) + tuple(V.q(v) for v in r['xyz']) +
            (V.q(r['az']), V.q(r['elv']))) for r in c['recs'])
        mops = survey_model_ops(c)
        L.append(f"Definition sv{k} : @survey Q := mkSurvey [{srcs}] [{rcs}].")
        L.append(f"Definition an{k} : list (@outcome Q) := snd (run sv{k} [] [{'; '.join(mops)}]).")
        L.append(f"Eval vm_compute in map (fun o => (tag o, oe o, om o)) an{k}.")
    return '\n'.join(L) + '\n'


def build_survey(c):
    import emg3d
    srcs = {s['key']: getattr(emg3d, s['ctor'][0])(s['ctor'][1]) for s in c['sources']}
    recs = {}
    for r in c['recs']:
        Rx = emg3d.RxElectricPoint if r['el'] else emg3d.RxMagneticPoint
        recs[r['key']] = Rx(tuple(r['xyz']) + (r['az'], r['elv']), relative=r['rel'])
    return emg3d.Survey(srcs, recs, c['freq'])


def new_simulation(survey, grid, model):
    import emg3d
    return emg3d.Simulation(survey, model, gridding='same', max_workers=1,
                            receiver_interpolation='linear', verb=-1, tqdm_opts=False,
                            solver_opts={'tol': 1e-2, 'maxit': 1, 'sslsolver': False,
                                         'semicoarsening': False, 'linerelaxation': False})


def brief_survey(c):
    return dict(grid=dict(shape=list(c['g']['shape']), hs=c['g']['hs'], origin=c['g']['origin']),
                frequency=c['freq'],
                sources=[{'key': s['key'], 'class': s['ctor'][0], 'coordinates': list(s['ctor'][1]),
                          'centre': s['centre']} for s in c['sources']],
                receivers=[{'key': r['key'], 'class': 'RxElectricPoint' if r['el'] else 'RxMagneticPoint',
                            'coordinates': list(r['xyz']) + [r['az'], r['elv']], 'relative': r['rel']}
                           for r in c['recs']])


def show_ops(c, upto=None):
    out = []
    for op in c['ops'][:upto]:
        if op[0] in ('req', 'resp'):
            out.append({'req': 'survey._rec_types_coord', 'resp': 'sim._get_responses(random field)'}[op[0]]
                       + ' ' + c['sources'][op[1]]['key'])
        elif op[0] == 'bad':
            out.append('survey._rec_types_coord(unknown key)')
        elif op[0] == 'scribble':
            out.append('overwrite the arrays returned by the previous request in place')
        elif op[0] == 'compute':
            out.append('sim.compute(observed=%s)' % op[1])
        elif op[0] == 'newsim':
            out.append('new Simulation on the same Survey object')
        else:
            out.append("sim.clean('computed')")
    return out


def survey_check(c, answers, dis, hist, seen):
    """Drive ONE real Survey (and Simulations on it) through the history and compare
    every observable with Model.RecCoord.run on the same history."""
    import emg3d
    from emg3d import fields
    survey = build_survey(c)
    grid = make_grid(c['g'])
    npr = np.random.RandomState(17)
    model = emg3d.Model(grid, property_x=npr.uniform(0.5, 4.0, grid.shape_cells))
    eidx = [j for j, r in enumerate(c['recs']) if r['el']]
    midx = [j for j, r in enumerate(c['recs']) if not r['el']]
    skeys = [s['key'] for s in c['sources']]
    if list(survey.sources.keys()) != skeys or list(survey.receivers.keys()) != [r['key'] for r in c['recs']]:
        dis.append({'what': 'Survey does not keep the user keys / order of sources and receivers',
                    'case': brief_survey(c)})
        return 0
    fkey = list(survey.frequencies.keys())[0]
    sim = None
    state = {'k': 0, 'n': 0}
    last_returned = None

    import ast
    import fractions
    answers = ast.literal_eval(answers.replace(';', ','))      # [(tag, [(n, d), ...], [(n, d), ...]), ...]

    def model_answer():
        tg, e, m = answers[state['k']]
        state['k'] += 1
        rows = lambda a: [[float(fractions.Fraction(n, d)) for (n, d) in a[i:i + 5]]
                          for i in range(0, len(a), 5)]
        return int(tg), rows(e), rows(m)

    def fail(what, step, **kw):
        dis.append(dict({'what': what, 'case': brief_survey(c), 'history': show_ops(c, step + 1),
                         'failing_step': step}, **kw))

    def cmp_coords(step, skey, got, e_rows, m_rows):
        for nm, tup, rows in (('electric', got[0], e_rows), ('magnetic', got[1], m_rows)):
            arr = np.array([np.asarray(a, float) for a in tup]).T.reshape(-1, 5) if len(tup) else np.zeros((0, 5))
            want = np.array(rows, float).reshape(-1, 5)
            if arr.shape != want.shape or not np.array_equal(arr, want):
                fail('Survey._rec_types_coord(source) differs from Model.RecCoord (coordinates_abs of THIS '
                     'source for every history)', step, source=skey, receivers=nm,
                     impl=arr.tolist(), model=want.tolist())
                return False
        return True

    def expected_resp(skey, efield, e_rows, m_rows):
        want = np.full(len(c['recs']), np.nan, dtype=complex)
        if e_rows:
            want[eidx] = fields.get_receiver(
                efield, tuple(np.array(col) for col in zip(*e_rows)), 'linear')
        if m_rows:
            hf = fields.get_magnetic_field(model, efield)
            want[midx] = fields.get_receiver(
                hf, tuple(np.array(col) for col in zip(*m_rows)), 'linear')
        return want

    def cmp_resp(step, skey, got, want, how):
        got = np.asarray(got, dtype=complex)
        sc = max(1e-300, float(np.nanmax(np.abs(want))) if np.any(np.isfinite(want)) else 1e-300)
        for j in range(len(want)):
            a, b = got[j], want[j]
            ok = (np.isnan(a) and np.isnan(b)) or (np.isfinite(a) and np.isfinite(b) and
                                                   abs(a - b) <= 1e-9 * max(abs(b), 1e-6 * sc))
            hist['survey_resp_' + ('nan' if np.isnan(b) else 'num')] += 1
            if not ok:
                fail(f'{how}: the response stored for (source, receiver) is not get_receiver of the '
                     f"source's field at Model.RecCoord's coordinates_abs(source, receiver)", step,
                     source=skey, receiver=c['recs'][j]['key'], impl=str(a), model=str(b))
                return False
        return True

    for step, op in enumerate(c['ops']):
        hist['survey_op_' + op[0]] += 1
        if op[0] in ('req', 'bad'):
            skey = skeys[op[1]] if op[0] == 'req' else op[1]
            tg, e_rows, m_rows = model_answer()
            try:
                got = survey._rec_types_coord(skey)
                err = None
            except KeyError:
                got, err = None, 'KeyError'
            state['n'] += 1
            if (tg == 2) != (err is not None):
                fail('Survey._rec_types_coord error behaviour differs from Model.RecCoord', step,
                     source=skey, impl=err or 'coordinates', model='KeyErr' if tg == 2 else 'Coords')
                return state['n']
            if got is not None:
                if not cmp_coords(step, skey, got, e_rows, m_rows):
                    return state['n']
                last_returned = got
        elif op[0] == 'scribble':
            tg, _, _ = model_answer()
            for tup in (last_returned or []):
                for a in tup:
                    a[...] = -12345.678
        elif op[0] == 'resp':
            skey = skeys[op[1]]
            tg, e_rows, m_rows = model_answer()
            if sim is None:
                sim = new_simulation(survey, grid, model)
            fr = np.random.RandomState(op[2])
            ef = emg3d.Field(grid, frequency=c['freq'])
            ef.field = fr.standard_normal(ef.field.size) + 1j * fr.standard_normal(ef.field.size)
            got = sim._get_responses(skey, fkey, efield=ef)
            state['n'] += 1
            if not cmp_resp(step, skey, got, expected_resp(skey, ef, e_rows, m_rows),
                            'Simulation._get_responses(source, frequency, efield)'):
                return state['n']
        elif op[0] == 'newsim':
            sim = new_simulation(survey, grid, model)
        elif op[0] == 'clean':
            if sim is not None:
                sim.clean('computed')
        else:
            if sim is None:
                sim = new_simulation(survey, grid, model)
            if op[1]:
                sim.compute(observed=True, add_noise=False)
            else:
                sim.compute()
            for skey in skeys:
                tg, e_rows, m_rows = model_answer()
                ef = sim.get_efield(skey, fkey)
                got = survey.data.synthetic.loc[skey, :, fkey].data
                state['n'] += 1
                if not cmp_resp(step, skey, got, expected_resp(skey, ef, e_rows, m_rows),
                                f'Simulation.compute(observed={op[1]})'):
                    return state['n']
    hist['survey_layout_' + c['layout']] += 1
    for t in c['templates']:
        hist['survey_template_' + t] += 1
    hist['survey_sources_%d' % len(skeys)] += 1
    seen.add(('survey', c['layout'], tuple(c['templates']), len(skeys), c['g']['big_origin']))
    return state['n']


# ----------------------------------------------------------- correspondence
def correspondence(ctx):
    import collections
    rng = ctx.rng
    ngroups = 64 if ctx.thorough else 10
    groups = [electric_group(rng, i, ctx.thorough) for i in range(ngroups)]
    groups += [sweep_group(rng) for _ in range(6 if ctx.thorough else 2)]
    texts = [(f"c09_e_{i}", electric_text(c)) for i, c in enumerate(groups)]
    kcases = [kernel_case(rng) for _ in range(16 if ctx.thorough else 4)]
    texts += [(f"c09_k_{i}", kernel_text(c)) for i, c in enumerate(kcases)]
    mgroups = [magnetic_group(rng, sweep=(i == 0)) for i in range(24 if ctx.thorough else 6)]
    texts += [(f"c09_m_{i}", magnetic_text(c)) for i, c in enumerate(mgroups)]
    # survey histories: layouts and history templates enumerated deterministically
    scases = [gen_survey_case(rng, i) for i in range(24 if ctx.thorough else 6)]
    sfiles = [scases[i:i + 3] for i in range(0, len(scases), 3)]
    texts += [(f"c09_s_{i}", survey_text(cs, i)) for i, cs in enumerate(sfiles)]
    res = V.coq_eval_many(texts)
    dis, seen = [], set()
    hist = collections.Counter()
    evals = 0
    for i, c in enumerate(groups):
        rc, out = res[f"c09_e_{i}"]
        if rc != 0:
            dis.append({'what': 'Model.Interp does not evaluate', 'log': out[-1500:]})
            continue
        evals += electric_check(c, out, dis, hist, seen)
    evals += source_field_check(rng, 24 if ctx.thorough else 8, dis)
    for i, c in enumerate(kcases):
        rc, out = res[f"c09_k_{i}"]
        if rc != 0:
            dis.append({'what': 'Gen.FieldsCurl does not evaluate', 'log': out[-1500:]})
            continue
        evals += kernel_check(c, out, dis)
        seen.add(('kernel', c['shape'], c['cplx']))
    hist['kernel_cases'] = len(kcases)
    for i, c in enumerate(mgroups):
        rc, out = res[f"c09_m_{i}"]
        if rc != 0:
            dis.append({'what': 'magnetic model does not evaluate', 'log': out[-1500:]})
            continue
        evals += magnetic_check(c, out, dis, hist, seen)
    for i, cs in enumerate(sfiles):
        rc, out = res[f"c09_s_{i}"]
        if rc != 0:
            dis.append({'what': 'Model.RecCoord does not evaluate', 'log': out[-1500:]})
            continue
        ans = V.eval_answers(out)
        for c, a in zip(cs, ans):
            evals += survey_check(c, a, dis, hist, seen)
    samples = [brief_rx(groups[0]['g'], r) for r in groups[0]['recs'][:2]]
    return {
        'evaluations': evals,
        'distinct_nontrivial': len(seen),
        'rule': "groups of (random 2..5^3 grid with dyadic widths/origin, dense random dyadic real or complex "
                "field, 6 receivers evaluated one per call + 3 calls with 2..6 receivers each (tuple or list-of-Rx form; orientation sets: random, +-azimuth, +-elevation, anti-parallel, identical, crossed quadruple, guard mix -- the adversarial sets make one component's factors cancel in the sum although each is far above the guard) + the 6 point vectors); positions "
                "per direction from {generic interior, on a node, on a cell centre, on node 1 / n-1, in an "
                "outermost cell, on the boundary, outside}; ~25% of the receivers have at least one "
                "non-interior coordinate (malformed stream); angles 45% random, else axis-aligned or within "
                "1e-8 degrees of an axis (both sides of the 1e-10 guard, the guarded component scaled by "
                "2^40 so that a skipped component is visible). distinct non-trivial = distinct (shape, "
                "position kinds, factor classes) with a non-generic coordinate or a guarded factor, plus "
                "distinct error / outer-cell point-vector cases. 40% of the grids have projected / negative origins of "
                "1e5..1e7 (exact dyadics); the position kinds include sweeps towards node 1 / n-1 from inside the "
                "outermost cell (distance = cell width * 2^-k, k up to 20; must be NaN) and from the inner side; every "
                "single receiver is also sampled as Rx instance, list of Rx, and with method='cubic' (NaN mask only). "
                "Histories: per group 8 get_source_field / Tx.get_field requests of 2 points on the one grid object "
                "(frequency None / Laplace / frequency domain, strengths != 1), each compared with factor * model "
                "vector, earlier returned fields re-compared at the end. Kernel cases: _edge_curl_factor compiled and "
                ".py_func vs the generated model on 1..3^3 shapes with pre-filled outputs. Magnetic groups: "
                "mu_r = 1, Laplace or frequency domain, 4 receivers sampled through get_magnetic_field one per call + 2 multi-receiver calls with cancelling orientation sets, and "
                "_point_vector_magnetic(frequency=None) vs -curl^T(face_vector) for interior positions. "
                "Survey histories: per case ONE real Survey (2..4 point/dipole/magnetic sources with user keys in "
                "non-alphabetical order, two of four sharing a centre; 3..6 point receivers, layout enumerated: "
                + ', '.join(RX_LAYOUTS) + "; dyadic coordinates, every third grid at projected coordinates) driven through "
                "a history built from the templates " + ', '.join(HIST_TEMPLATES) + " (enumerated; direct requests in "
                "forward / reversed / random order with an unknown key and in-place overwriting of returned arrays "
                "always included); Model.RecCoord.run is evaluated on the same history (vm_compute on Q); requests are "
                "compared exactly, responses of compute()/_get_responses with fields.get_receiver / get_magnetic_field "
                "of the stored field at the model's coordinates (1e-9)",
        'samples': samples,
        'traces_validated_against_impl': evals,
        'histogram': dict(hist),
        'disagreements': dis,
    }


# ------------------------------------------------------------------ searcher
# Independent oracle written from the property text: trilinear weights on the
# staggered grids with numpy only (no scipy interpolator, no emg3d helper).
def _w1(g, x):
    i = int(np.clip(np.searchsorted(g, x, side='right') - 1, 0, len(g) - 2))
    r = (x - g[i]) / (g[i + 1] - g[i])
    return i, r


def oracle_vector(grid, xyz, fac, electric=True):
    nd = [np.asarray(grid.nodes_x), np.asarray(grid.nodes_y), np.asarray(grid.nodes_z)]
    cc = [(n[1:] + n[:-1]) / 2 for n in nd]
    out = []
    for c in range(3):
        gs = [(cc[d] if ((c == d) == electric) else nd[d]) for d in range(3)]
        v = np.zeros([len(g) for g in gs])
        (i, a), (j, b), (k, cz) = [_w1(gs[d], xyz[d]) for d in range(3)]
        for di, wa in ((0, 1 - a), (1, a)):
            for dj, wb in ((0, 1 - b), (1, b)):
                for dk, wc in ((0, 1 - cz), (1, cz)):
                    v[i + di, j + dj, k + dk] += wa * wb * wc
        out.append(v * fac[c])
    return out


def _rand_problem(npr, nmin=3, nmax=7):
    import emg3d
    shape = tuple(int(npr.randint(nmin, nmax + 1)) for _ in range(3))
    hs = [npr.uniform(0.5, 3.0, n) for n in shape]
    origin = npr.uniform(-5, 5, 3)
    grid = emg3d.TensorMesh(hs, origin)
    return grid


def _rand_rx(npr, grid, kind='interior'):
    nds = [grid.nodes_x, grid.nodes_y, grid.nodes_z]
    xyz = []
    for d in range(3):
        n = nds[d]
        t = npr.rand()
        if t < 0.2:
            xyz.append(float(n[npr.randint(1, len(n) - 1)]))          # exactly on a node
        else:
            xyz.append(float(npr.uniform(n[1], n[-2])))
    if kind == 'outer':
        d = npr.randint(3)
        n = nds[d]
        xyz[d] = float(npr.choice([npr.uniform(n[0], n[1]) - 1e-9, npr.uniform(n[-2], n[-1]) + 1e-9,
                                   n[0] - 1.0, n[-1] + 1.0]))
    # includes factors that are small but far above the 1e-10 guard (1.7e-4, 1.7e-8)
    az, el = npr.choice([0., 90., -90., 180., 90.01, float(npr.uniform(-180, 180))]), \
        npr.choice([0., 90., -90., 0.01, 1e-6, float(npr.uniform(-90, 90))])
    return xyz, float(az), float(el)


def search_identity(np_seed):
    """get_receiver(linear) == <_point_vector, field> == <oracle vector, field>;
    NaN exactly outside the inner range; magnetic analogue through Faraday."""
    import emg3d
    from emg3d import fields
    npr = np.random.RandomState(np_seed)
    grid = _rand_problem(npr)
    freq = float(npr.choice([1.0, 0.3, -2.0]))
    ef = emg3d.Field(grid, frequency=freq)
    ef.field = npr.standard_normal(ef.field.size) + (
        1j * npr.standard_normal(ef.field.size) if freq > 0 else 0)
    base = {'np_seed': int(np_seed), 'shape': list(grid.shape_cells), 'frequency': freq,
            'hx': [float.hex(float(v)) for v in grid.h[0]], 'hy': [float.hex(float(v)) for v in grid.h[1]],
            'hz': [float.hex(float(v)) for v in grid.h[2]], 'origin': [float.hex(float(v)) for v in grid.origin]}
    model = emg3d.Model(grid, property_x=npr.uniform(0.1, 10, grid.shape_cells))
    hf = fields.get_magnetic_field(model, ef)
    for t in range(6):
        xyz, az, el = _rand_rx(npr, grid)
        co = tuple(xyz) + (az, el)
        fac = rot(az, el)
        rec = dict(base, xyz=[float.hex(v) for v in xyz], azimuth=az, elevation=el)
        r = complex(fields.get_receiver(ef, co, 'linear'))
        pv = fields._point_vector(grid, co)
        ip = complex(np.sum(pv.field * ef.field))
        sc = max(1.0, float(np.max(np.abs(ef.field))))
        if not abs(r - ip) <= 1e-9 * sc:
            return dict(rec, signature='get_receiver(linear) != <_point_vector, field>',
                        observed=str(r), required=str(ip))
        ov = oracle_vector(grid, xyz, fac, True)
        io = complex(sum(np.sum(ov[c] * [ef.fx, ef.fy, ef.fz][c]) for c in range(3)))
        if not abs(r - io) <= 1e-9 * sc:
            return dict(rec, signature='get_receiver(linear) != trilinear sampling (independent oracle)',
                        observed=str(r), required=str(io))
        for c, a in enumerate((pv.fx, pv.fy, pv.fz)):
            if np.max(np.abs(a - ov[c])) > 1e-9:
                return dict(rec, signature='_point_vector != adjoint of trilinear sampling (independent oracle)',
                            component='xyz'[c], observed=float(np.max(np.abs(a - ov[c]))), required=0.0)
        # magnetic
        rh = complex(fields.get_receiver(hf, co, 'linear'))
        pm = fields._point_vector_magnetic(grid, co, freq)
        ih = complex(np.sum(pm.field * ef.field))
        sh = max(1.0, float(np.max(np.abs(hf.field))))
        if not abs(rh - ih) <= 1e-8 * sh:
            return dict(rec, signature='magnetic get_receiver != <_point_vector_magnetic, E> (mu_r = 1)',
                        observed=str(rh), required=str(ih))
        ovh = oracle_vector(grid, xyz, fac, False)
        ioh = complex(sum(np.sum(ovh[c] * [hf.fx, hf.fy, hf.fz][c]) for c in range(3)))
        if not abs(rh - ioh) <= 1e-9 * sh:
            return dict(rec, signature='get_receiver(linear) on faces != trilinear sampling (independent oracle)',
                        observed=str(rh), required=str(ioh))
    for t in range(4):
        xyz, az, el = _rand_rx(npr, grid, 'outer')
        co = tuple(xyz) + (az, el)
        r = complex(fields.get_receiver(ef, co, 'linear'))
        if not np.isnan(r):
            return dict(base, xyz=[float.hex(v) for v in xyz], azimuth=az, elevation=el,
                        signature='receiver outside the second to second-last cell is not NaN',
                        observed=str(r), required='nan')
    return None


def search_batch(np_seed):
    """Several receivers in ONE get_receiver call (tuple and list-of-Rx forms,
    electric and magnetic): every receiver must still be the transpose of ITS
    point source, also when the direction cosines of the batch cancel."""
    import emg3d
    from emg3d import fields
    npr = np.random.RandomState(np_seed)
    grid = _rand_problem(npr)
    freq = float(npr.choice([1.0, -2.0]))
    ef = emg3d.Field(grid, frequency=freq)
    ef.field = npr.standard_normal(ef.field.size) + (
        1j * npr.standard_normal(ef.field.size) if freq > 0 else 0)
    model = emg3d.Model(grid, property_x=npr.uniform(0.1, 10, grid.shape_cells))
    hf = fields.get_magnetic_field(model, ef)
    a, e = float(npr.uniform(1, 89)), float(npr.uniform(1, 89))
    sets = {
        'pm_az': [(a, 0.), (-a, 0.)],
        'pm_el': [(a, e), (a, -e)],
        'antiparallel': [(a, e), (a - 180., -e)],
        'crossed4': [(a, 0.), (a + 90., 0.), (a - 180., 0.), (a - 90., 0.)],
        'tilted_pairs': [(a, e), (a, -e), (-a, e), (-a, -e)],
        'random': [(float(npr.uniform(-180, 180)), float(npr.uniform(-90, 90)))
                   for _ in range(int(npr.randint(2, 7)))],
    }
    base = {'np_seed': int(np_seed), 'kind': 'batch', 'shape': list(grid.shape_cells), 'frequency': freq,
            'hx': [float.hex(float(v)) for v in grid.h[0]], 'hy': [float.hex(float(v)) for v in grid.h[1]],
            'hz': [float.hex(float(v)) for v in grid.h[2]], 'origin': [float.hex(float(v)) for v in grid.origin]}
    for name, angs in sets.items():
        pos = [_rand_rx(npr, grid)[0] for _ in angs]
        cos = [tuple(p) + ang for p, ang in zip(pos, angs)]
        tup = tuple(np.array([c[d] for c in cos]) for d in range(5))
        for magnetic, fld in ((False, ef), (True, hf)):
            Rx = emg3d.RxMagneticPoint if magnetic else emg3d.RxElectricPoint
            comps = [fld.fx, fld.fy, fld.fz]
            sc = max(1.0, float(np.max(np.abs(fld.field))))
            for form, arg in (('tuple', tup), ('list', [Rx(c) for c in cos])):
                got = np.atleast_1d(np.asarray(fields.get_receiver(fld, arg, 'linear')))
                for i, c in enumerate(cos):
                    ov = oracle_vector(grid, c[:3], rot(c[3], c[4]), not magnetic)
                    want = complex(sum(np.sum(ov[k] * comps[k]) for k in range(3)))
                    if not magnetic:
                        pv = fields._point_vector(grid, c)
                        want2 = complex(np.sum(pv.field * fld.field))
                        if abs(want - want2) > 1e-9 * sc:
                            want = want2       # reported by search_identity; keep the impl's own vector here
                    if not abs(complex(got[i]) - want) <= 1e-9 * sc:
                        return dict(base, signature=('magnetic' if magnetic else 'electric') +
                                    ' receivers sampled in one get_receiver call are not the transposes of '
                                    'their point sources',
                                    orientation_set=name, form=form, receiver_index=i,
                                    receivers=[[float.hex(float(v)) for v in c[:3]] + [c[3], c[4]] for c in cos],
                                    observed=str(complex(got[i])), required=str(want))
    return None


def search_nan_sweep(np_seed):
    """NaN policy on grids with large / negative absolute coordinates: receivers
    swept across the outermost cells up to node 1 / n-1 from both sides; all
    field types, both interpolation methods, tuple / Rx / list input."""
    import emg3d
    from emg3d import fields
    npr = np.random.RandomState(np_seed)
    shape = tuple(int(npr.randint(4, 7)) for _ in range(3))
    hs = [npr.uniform(20., 200., n) for n in shape]
    bases = [[5e5, 6.5e6, -3000.], [-5e5, -6.5e6, -1e5], [3.2e5, 4.1e6, 0.],
             [float(npr.uniform(-1e7, 1e7)) for _ in range(3)], [0., 0., 0.]]
    origin = np.array(bases[npr.randint(len(bases))]) + npr.uniform(-50, 50, 3)
    grid = emg3d.TensorMesh(hs, origin)
    freq = float(npr.choice([1.0, -2.0]))
    ef = emg3d.Field(grid, frequency=freq)
    ef.field = npr.standard_normal(ef.field.size) + (
        1j * npr.standard_normal(ef.field.size) if freq > 0 else 0)
    model = emg3d.Model(grid, property_x=npr.uniform(0.1, 10, grid.shape_cells))
    hf = fields.get_magnetic_field(model, ef)
    nds = [np.asarray(grid.nodes_x), np.asarray(grid.nodes_y), np.asarray(grid.nodes_z)]
    base = {'np_seed': int(np_seed), 'kind': 'nan_sweep', 'shape': list(shape), 'frequency': freq,
            'hx': [float.hex(float(v)) for v in hs[0]], 'hy': [float.hex(float(v)) for v in hs[1]],
            'hz': [float.hex(float(v)) for v in hs[2]], 'origin': [float.hex(float(v)) for v in origin]}
    for d in range(3):
        n = nds[d]
        for side in (0, 1):
            node = n[1] if side == 0 else n[-2]
            w = (n[1] - n[0]) if side == 0 else (n[-1] - n[-2])
            sgn = -1.0 if side == 0 else 1.0
            for frac in (0.9, 0.5, 0.1, 1e-2, 1e-3, 1e-5, 1e-7):
                delta = max(w * frac, 16 * np.spacing(abs(node)))
                for outward in (True, False):
                    xyz = [float(npr.uniform(m[1], m[-2])) for m in nds]
                    xyz[d] = float(node + sgn * delta) if outward else float(node - sgn * min(delta, 0.4 * (n[-2] - n[1])))
                    az, el = float(npr.uniform(-180, 180)), float(npr.uniform(-90, 90))
                    co = tuple(xyz) + (az, el)
                    for magnetic, fld in ((False, ef), (True, hf)):
                        Rx = emg3d.RxMagneticPoint if magnetic else emg3d.RxElectricPoint
                        for method in ('linear', 'cubic'):
                            for form, arg in (('tuple', co), ('Rx', Rx(co)), ('list', [Rx(co), Rx(co)])):
                                v = complex(np.atleast_1d(np.asarray(fields.get_receiver(fld, arg, method)))[0])
                                bad = (not np.isnan(v)) if outward else (np.isnan(v) and method == 'linear')
                                if bad:
                                    return dict(base, signature=(
                                        'receiver in an outermost cell returns a number instead of NaN' if outward
                                        else 'receiver inside the second to second-last cell returns NaN'),
                                        direction='xyz'[d], side=['low', 'high'][side],
                                        distance_to_node=float(delta), node=float.hex(float(node)),
                                        field='magnetic' if magnetic else 'electric', method=method, form=form,
                                        receiver=[float.hex(v_) for v_ in xyz] + [az, el],
                                        observed=str(v), required='nan' if outward else 'a number')
    return None


def search_history(np_seed):
    """History independence of point sources: repeated get_source_field requests
    on ONE grid object must all equal factor * (independent oracle vector), and
    fields handed out earlier must not change."""
    import emg3d
    from emg3d import fields
    npr = np.random.RandomState(np_seed)
    grid = _rand_problem(npr)
    pts = []
    for _ in range(3):
        xyz, az, el = _rand_rx(npr, grid)
        pts.append(tuple(xyz) + (az, el))
    ops, returned = [], []
    for step in range(12):
        pi = int(npr.randint(len(pts)))
        freq = [None, -float(npr.uniform(0.5, 3)), float(npr.uniform(0.5, 3))][int(npr.randint(3))]
        strength = float(npr.choice([0.5, 2.0, 3.0, 1.0]))
        magnetic = bool(npr.rand() < 0.2) and freq is not None
        Tx = emg3d.TxMagneticPoint if magnetic else emg3d.TxElectricPoint
        ops.append({'point': list(pts[pi]), 'frequency': freq, 'strength': strength,
                    'source': Tx.__name__})
        sf = fields.get_source_field(grid, Tx(pts[pi], strength=strength), freq)
        if magnetic:
            fresh = emg3d.TensorMesh([np.array(h) for h in grid.h], np.array(grid.origin))
            want = fields.get_source_field(fresh, Tx(pts[pi], strength=strength), freq).field.copy()
        else:
            ov = oracle_vector(grid, pts[pi][:3], rot(pts[pi][3], pts[pi][4]), True)
            vec = np.r_[ov[0].ravel('F'), ov[1].ravel('F'), ov[2].ravel('F')]
            want = vec * (strength if freq is None else -sf.smu0 * strength)
        sc = max(1e-300, float(np.max(np.abs(want))))
        rec = {'np_seed': int(np_seed), 'kind': 'history', 'shape': list(grid.shape_cells),
               'hx': [float.hex(float(v)) for v in grid.h[0]], 'hy': [float.hex(float(v)) for v in grid.h[1]],
               'hz': [float.hex(float(v)) for v in grid.h[2]],
               'origin': [float.hex(float(v)) for v in grid.origin]}
        if np.max(np.abs(sf.field - want)) > 1e-9 * sc:
            kk = int(np.argmax(np.abs(sf.field - want)))
            return dict(rec, signature='point source field depends on earlier requests on the same grid object',
                        history=ops, failing_step=step, observed=str(complex(sf.field[kk])),
                        required=str(complex(want[kk])), flat_index=kk)
        returned.append((sf, want, step))
        for sf0, want0, st0 in returned:
            if np.max(np.abs(sf0.field - want0)) > 1e-9 * max(1e-300, float(np.max(np.abs(want0)))):
                return dict(rec, signature='a source field returned earlier was changed by a later request',
                            history=ops, returned_at_step=st0, changed_after_step=step)
    return None


def search_survey_history(np_seed):
    """Histories on ONE Survey object (relative + absolute, electric + magnetic
    point receivers, several sources with different centres; repeated
    extraction of the responses): after every step each stored response must be
    the inner product of that source's field with the independent oracle vector
    at  own centre + offset  (relative) / own coordinates (absolute), NaN outside
    the inner range.  Independent of the Coq model and of emg3d's coordinate glue."""
    import emg3d
    from emg3d import fields
    npr = np.random.RandomState(np_seed)
    shape = tuple(int(npr.choice([4, 6, 8])) for _ in range(3))
    hs = [npr.uniform(30., 80., n) for n in shape]
    base = [[0., 0., 0.], [5e5, 6.5e6, -2000.], [-3e5, -4e6, 100.]][int(npr.randint(3))]
    origin = np.array(base) - np.array([h.sum() / 2 for h in hs])
    grid = emg3d.TensorMesh(hs, origin)
    nds = [np.asarray(grid.nodes_x), np.asarray(grid.nodes_y), np.asarray(grid.nodes_z)]
    model = emg3d.Model(grid, property_x=npr.uniform(0.5, 4.0, grid.shape_cells))
    freq = float(npr.choice([0.5, 1.0, 2.0]))

    def inner_pos():
        return np.array([npr.uniform(n[1] + 0.2 * (n[2] - n[1]), n[-2] - 0.2 * (n[-2] - n[-3])) for n in nds])
    nsrc = int(npr.randint(2, 4))
    centres, srcs, sdesc = [], {}, []
    for i in range(nsrc):
        c = inner_pos()
        kind = ['TxElectricPoint', 'TxElectricDipole', 'TxMagneticPoint'][int(npr.randint(3))]
        if kind == 'TxElectricDipole':
            d = npr.uniform(-5, 5, 3)
            co = (c[0] - d[0], c[0] + d[0], c[1] - d[1], c[1] + d[1], c[2] - d[2], c[2] + d[2])
            c = np.array([(co[0] + co[1]) / 2, (co[2] + co[3]) / 2, (co[4] + co[5]) / 2])
        else:
            co = tuple(c) + (float(npr.uniform(-180, 180)), float(npr.uniform(-90, 90)))
        key = 'S%s' % 'zka'[i]
        srcs[key] = getattr(emg3d, kind)(tuple(float(v) for v in co))
        centres.append(c)
        sdesc.append({'key': key, 'class': kind, 'coordinates': [float(v) for v in co]})
    nrec = int(npr.randint(3, 7))
    recs, rdesc = {}, []
    for j in range(nrec):
        rel = bool(j % 2 == 0) if j < 4 else bool(npr.rand() < 0.5)
        el = bool(npr.rand() < 0.6)
        tgt = inner_pos()
        xyz = tgt - centres[int(npr.randint(nsrc))] if rel else tgt
        co = tuple(float(v) for v in xyz) + (float(npr.uniform(-180, 180)), float(npr.uniform(-90, 90)))
        key = 'R%s' % 'qpacbz'[j]
        recs[key] = (emg3d.RxElectricPoint if el else emg3d.RxMagneticPoint)(co, relative=rel)
        rdesc.append({'key': key, 'class': 'RxElectricPoint' if el else 'RxMagneticPoint',
                      'coordinates': list(co), 'relative': rel})
    survey = emg3d.Survey(srcs, recs, freq)
    fkey = list(survey.frequencies.keys())[0]
    rec = {'np_seed': int(np_seed), 'kind': 'survey_history', 'shape': list(shape),
           'hx': [float.hex(float(v)) for v in hs[0]], 'hy': [float.hex(float(v)) for v in hs[1]],
           'hz': [float.hex(float(v)) for v in hs[2]], 'origin': [float.hex(float(v)) for v in origin],
           'frequency': freq, 'sources': sdesc, 'receivers': rdesc}

    def inside(p):
        return all(nds[d][1] <= p[d] <= nds[d][-2] for d in range(3))

    def verify(which, get_field, get_value, done):
        for i in which:
            sd = sdesc[i]
            ef = get_field(sd['key'])
            hf = None
            for j, rd in enumerate(rdesc):
                co = rd['coordinates']
                p = (centres[i] + np.array(co[:3])) if rd['relative'] else np.array(co[:3])
                got = complex(get_value(sd['key'], j))
                if not inside(p):
                    want = complex(np.nan)
                else:
                    electric = rd['class'] == 'RxElectricPoint'
                    if electric:
                        fld = ef
                    else:
                        hf = hf if hf is not None else fields.get_magnetic_field(model, ef)
                        fld = hf
                    ov = oracle_vector(grid, p, rot(co[3], co[4]), electric)
                    want = complex(sum(np.sum(ov[k] * [fld.fx, fld.fy, fld.fz][k]) for k in range(3)))
                sc = max(1e-300, float(np.max(np.abs(fld.field)))) if inside(p) else 1.0
                ok = (np.isnan(got) and np.isnan(want)) or (
                    np.isfinite(got) and np.isfinite(want) and abs(got - want) <= 1e-7 * max(abs(want), 1e-3 * sc))
                if not ok:
                    return dict(rec, signature='after a history on one Survey object the response of '
                                '(source, receiver) is not <field of that source, unit point vector at '
                                "the receiver's absolute position for THAT source>",
                                history=list(done), source=sd['key'], receiver=rd['key'],
                                receiver_position_for_this_source=[float(v) for v in p],
                                observed=str(got), required=str(want))
        return None

    sim = new_simulation(survey, grid, model)
    plan = [['compute(observed=True)', 'new Simulation on the same Survey', 'compute()'],
            ['compute()', "clean('computed')", 'compute()'],
            ['compute()', 'compute()'],
            ['_get_responses in permuted order, twice']][int(npr.randint(4))]
    plan = plan + [['compute()'], ['_get_responses in permuted order, twice'],
                   ['new Simulation on the same Survey', 'compute()']][int(npr.randint(3))]
    done = []
    for op in plan:
        done.append(op)
        if op.startswith('compute'):
            if 'observed' in op:
                sim.compute(observed=True, add_noise=False)
            else:
                sim.compute()
            cur = sim
            h = verify(range(nsrc), lambda s: cur.get_efield(s, fkey),
                       lambda s, j: survey.data.synthetic.loc[s, :, fkey].data[j], done)
            if h:
                return h
        elif op.startswith('new'):
            sim = new_simulation(survey, grid, model)
        elif op.startswith('clean'):
            sim.clean('computed')
        else:
            order = list(range(nsrc)) * 2
            npr.shuffle(order)
            for i in order:
                ef = emg3d.Field(grid, frequency=freq)
                ef.field = npr.standard_normal(ef.field.size) + 1j * npr.standard_normal(ef.field.size)
                resp = sim._get_responses(sdesc[i]['key'], fkey, efield=ef)
                done[-1] = op + ' (now: %s)' % sdesc[i]['key']
                h = verify([i], lambda s: ef, lambda s, j: resp[j], done)
                if h:
                    return h
    return None


def search_reciprocity(np_seed, tol=1e-9):
    """Exchange an electric point source and an electric point receiver on a
    tiny solve; same for magnetic points."""
    import emg3d
    from emg3d import fields
    npr = np.random.RandomState(np_seed)
    n = int(npr.choice([4, 8]))
    hs = [np.ones(n) * 100.0 * npr.uniform(0.8, 1.25, n) for _ in range(3)]
    grid = emg3d.TensorMesh(hs, (-sum(hs[0]) / 2, -sum(hs[1]) / 2, -sum(hs[2]) / 2))
    model = emg3d.Model(grid, property_x=npr.uniform(0.3, 3.0, grid.shape_cells))
    freq = 1.0
    magnetic = bool(npr.rand() < 0.4)
    Tx = emg3d.TxMagneticPoint if magnetic else emg3d.TxElectricPoint

    def rx():
        xyz, az, el = _rand_rx(npr, grid)
        return tuple(xyz) + (float(npr.uniform(-180, 180)), float(npr.uniform(-80, 80)))
    ca, cb = rx(), rx()
    out = []
    for c in (ca, cb):
        sf = fields.get_source_field(grid, Tx(c), freq)
        ef, info = emg3d.solve(model, sf, sslsolver='bicgstab', semicoarsening=True,
                               linerelaxation=True, tol=tol, maxit=200, verb=-1, return_info=True)
        if info['exit'] != 0:
            return None                     # not converged: nothing to compare
        out.append(ef)
    if magnetic:
        fa = fields.get_magnetic_field(model, out[0])
        fb = fields.get_magnetic_field(model, out[1])
    else:
        fa, fb = out
    rab = complex(fields.get_receiver(fa, cb, 'linear'))
    rba = complex(fields.get_receiver(fb, ca, 'linear'))
    scale = max(abs(rab), abs(rba), 1e-300)
    # bound: |<p_b, A^-1 r_a>| with relative residual <= tol; condition number of these tiny
    # systems is small -> 1e5*tol relative is > 500x the measured deviation (<= 2e-7)
    if abs(rab - rba) > 1e5 * tol * scale:
        return {'signature': ('magnetic' if magnetic else 'electric') + ' point source/receiver not reciprocal',
                'np_seed': int(np_seed), 'n': n, 'source_a': list(ca), 'source_b': list(cb),
                'observed': [str(rab), str(rba)], 'required': 'equal up to solver tolerance',
                'rel_diff': abs(rab - rba) / scale, 'kind': 'reciprocity'}
    return {'ok': True, 'rel_diff': abs(rab - rba) / scale}


def search(ctx, broken):
    rng = ctx.rng
    hits = []
    n = 40 if ctx.thorough else 15
    for _ in range(n):
        h = search_identity(rng.randint(0, 2**31 - 1))
        if h:
            h['kind'] = 'identity'
            hits.append(h)
            break
    nb = 12 if ctx.thorough else 5
    if not hits:
        for _ in range(nb):
            h = search_batch(rng.randint(0, 2**31 - 1))
            if h:
                hits.append(h)
                break
    nsw = 8 if ctx.thorough else 3
    if not hits:
        for _ in range(nsw):
            h = search_nan_sweep(rng.randint(0, 2**31 - 1))
            if h:
                hits.append(h)
                break
    nh = 20 if ctx.thorough else 8
    if not hits:
        for _ in range(nh):
            h = search_history(rng.randint(0, 2**31 - 1))
            if h:
                hits.append(h)
                break
    nsh = 24 if ctx.thorough else 8
    if not hits:
        for _ in range(nsh):
            h = search_survey_history(rng.randint(0, 2**31 - 1))
            if h:
                hits.append(h)
                break
    worst = 0.0
    nrec = 20 if ctx.thorough else 8
    if not hits:
        for _ in range(nrec):
            h = search_reciprocity(rng.randint(0, 2**31 - 1))
            if h and not h.get('ok'):
                hits.append(h)
                break
            if h:
                worst = max(worst, h['rel_diff'])
    ctx.notes.append(f"searcher: {n} random float problems (identity vs implementation and an independent numpy "
                     f"oracle, electric and magnetic, NaN policy), {nb} multi-receiver problems (6 orientation sets incl. "
                     f"cancelling ones x electric/magnetic x tuple/list form), {nsw} NaN sweeps on grids with large/negative "
                     f"origins (both methods, both field types, 3 input forms), {nh} 12-step source-field histories "
                     f"on one grid object, {nsh} histories on one Survey object (relative/absolute, electric/magnetic "
                     f"receivers, 2-3 sources; compute(observed) / new Simulation / clean / compute / direct "
                     f"_get_responses in permuted order; every stored response against the oracle at the "
                     f"independently computed absolute position), {nrec} reciprocity solves "
                     f"(worst relative deviation {worst:.2e}, tol 1e-9)")
    return hits


def replay(ctx, payload):
    fi = payload.get('failing_input')
    if not fi or 'np_seed' not in fi:
        return False
    if fi.get('kind') == 'nan_sweep':
        return search_nan_sweep(fi['np_seed']) is None
    if fi.get('kind') == 'history':
        return search_history(fi['np_seed']) is None
    if fi.get('kind') == 'batch':
        return search_batch(fi['np_seed']) is None
    if fi.get('kind') == 'survey_history':
        return search_survey_history(fi['np_seed']) is None
    if fi.get('kind') == 'reciprocity':
        h = search_reciprocity(fi['np_seed'])
        return bool(h is None or h.get('ok'))
    return search_identity(fi['np_seed']) is None
