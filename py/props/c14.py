"""C14 -- the physical model is invariant under the property mapping; the chain
rule is exact; validation acts on conductivities.

Theorems: coq/Props/C14.v, about Gen/MapsMap.v (the six Map* classes of
emg3d/maps.py re-extracted with `ast` on every run, over Coq's reals) and the
hand model Model/Maps.v (map selection, _check_positive_finite, constructor and
setters, VolumeModel coefficients as functions of the mapped values).

Correspondence: (a) Map*.forward/backward/derivative_chain against Python-side
evaluation of the SAME extracted expression trees (1e-12), on values over
twelve decades; (b) the rational maps against their executable Q twins inside
Coq; (c) VolumeModel coefficients of the six parametrisations of one
conductivity model against eta_of/zeta_of evaluated in Coq on that conductivity
(1e-12 relative); (d) histories construct + assign (valid and malformed: zero,
-0.0, negative, NaN, +-inf, None properties, unknown map) against
Model.Maps.run_history evaluated with vm_compute; (e) map selection by name;
(f) fault paths: on ONE Model object every refused kind of assignment (zero, -0.0,
negative, +-inf, nan, finite values beyond the float range of 10**x / exp(x), rho = 0,
assignment to a None property) for every mapping and each of the five parameters,
exception caught, then stored arrays + VolumeModel coefficients compared with
Model.MapsSetter.run_history_sp -- the setters interpreted in the ORDER of their
events (check / store) as re-extracted from models.py on every run (Gen/MapsSetter.v).
"""
import itertools
import math
import warnings

import numpy as np

from vlib import core as V
from vlib import kernels as K
from vlib import mapsgen as MG

ID = 'C14'
LEVEL_TEXT = ("Theorems (Props/C14.v) over Coq's reals about the six maps re-extracted from maps.py on "
              "every run: for all sigma > 0 backward(forward sigma) = sigma (and forward(backward x) = x "
              "on every admissible x), the factor applied by derivative_chain is the derivative of "
              "backward at every mapped value (Coquelicot is_derive), hence the gradient conversion is "
              "exact for any differentiable misfit; VolumeModel coefficients computed from any of the "
              "six parametrisations of the same conductivities coincide (all anisotropy cases, mu_r, "
              "epsilon_r, any coefficient field); validation accepts exactly the arrays whose cells are "
              "finite with positive conductivity (resp. mu_r/epsilon_r), at construction and on every "
              "assignment; None properties cannot be set; the setters AS THEY STAND in models.py (order of "
              "check / store re-extracted on every run) check before they store, so a refused assignment "
              "leaves every stored parameter unchanged; by induction over operation sequences every model "
              "reachable by construction and any history of accepted or refused assignments (augmented "
              "assignments included as long as none is refused) holds only finite cells with positive "
              "conductivity / mu_r / epsilon_r and keeps anisotropy case and map.  Gradient glue (round 7): "
              "for every anisotropy case, mapping and row, the row of direction d of the converted gradient is "
              "the conductivity-gradient row times chain(m)(property_d) and is the derivative with respect to "
              "the mapped parameter of direction d (pairing by name; the positional pairing with the x-fallback "
              "list is proved equal off VTI and refuted for VTI).")
LEVEL_NOTE = ("Trusted: Coq kernel; the ast extractor py/vlib/mapsgen.py (np.log10 x read as ln x/ln 10, "
              "c**e as exp(e ln c)); additionally validated by evaluating the extracted trees in Python "
              "against the Map* methods to 1e-12. Real arithmetic, not IEEE: overflow/underflow of "
              "10**x / exp(x) to inf / 0 for |x| > ~300 and rounding are not modelled. The validation "
              "model, the IEEE special-value table of backward (1/0 = inf, 10**-inf = 0, ...) and the "
              "VolumeModel formulas are hand models tied by correspondence only. 'Same fields and same "
              "data' follows because the solver sees the model only through VolumeModel (checked by the "
              "searcher on small solves in the thorough tier, not proved). A REFUSED augmented assignment "
              "(`model.p *= -1`) has already changed the stored array -- numpy operates in place before the "
              "setter runs -- so the invariant carries the side condition aug_clean (Example "
              "fault_path_examples exhibits it); in-place edits through the getter view bypass validation "
              "altogether and are outside the invariant. The pairing model glue_by_name (Model/GradGlue.v) is a hand "
              "model: anchored structurally on simulations.py (anchor_gradient_glue: derivative_chain only in "
              "Simulation.gradient/jvec, on a row, with self.model.property_<d> named) and behaviourally by "
              "stream (h) on real 4x4x4 Simulations (gradient, jtvec, jvec; all four cases) against the extracted "
              "chain expression; the adjoint-state gradient itself is C08's subject, not C14's.")
TECHNIQUE = ("Coq proof over R (Coquelicot auto_derive, field, lra) about a model regenerated from source "
             "with ast + differential correspondence (vm_compute on Q, expression-tree evaluation)")
DESIGN_REF = "DESIGN.md section 6 C14"
GEN = []
PROPS = 'Props/C14.v'
TRUSTED = ["py/vlib/mapsgen.py: reading of the Map* method bodies (single return expression; "
           "`gradient *= e` as the factor e; np.log10/np.log/np.exp/**/1.0/x) -- cross-checked "
           "numerically against the methods themselves on every run",
           "Model/Maps.v: hand model of Model._check_positive_finite/_init_parameter/setters and of "
           "numpy's IEEE special values under the six backward maps (tied by correspondence)",
           "py/props/c14.py extract_setter_orders: reading of the five setters of Model (and one level of "
           "helper method) as event lists EvGuardNone / EvCheckValues / EvCheckStored / EvStore; fails closed on "
           "any other statement; validated on every run by the fault-path stream (stored arrays after every "
           "refused assignment vs the interpretation of the extracted list)"]
ASSUMES = ["theorems over R: real arithmetic instead of IEEE-754 (no rounding; over-/underflow of backward "
           "enters the validation model only through the oracle ovf, which is None over R)",
           "property arrays are broadcastable to the grid shape (shape errors are not part of C14)",
           "float range of 10**x / exp(x): thresholds 309/-324 and 710/-746 written by hand in ovf_exec "
           "(executable instance only), validated by correspondence with values 2 or more away from them"]

NAMES = [n[3:] for n in MG.EXPECTED]
_MAPS = {}


def gen_maps(ctx):
    """PREBUILD: regenerate Gen/MapsMap.v from the current maps.py (fail closed)."""
    _MAPS['maps'] = MG.generate(V.REPO, V.COQ)


def anchor_volume_model(ctx):
    """PREBUILD (fail closed): VolumeModel.__init__ must obtain the conductivities as
    `<model>.map.backward(<current property array>)`, the property array being read from the
    model in the same loop body (`getattr(model, name)`), i.e. no cached / derived copy.  This is
    the structural assumption behind cell_coeffs in Model/Maps.v."""
    import ast
    import os
    src = open(os.path.join(V.REPO, 'emg3d', 'models.py')).read()
    mod = ast.parse(src)
    cls = [n for n in mod.body if isinstance(n, ast.ClassDef) and n.name == 'VolumeModel']
    if len(cls) != 1:
        raise MG.MapsUntranslatable('models.py: class VolumeModel not found')
    init = [n for n in cls[0].body if isinstance(n, ast.FunctionDef) and n.name == '__init__']
    if len(init) != 1:
        raise MG.MapsUntranslatable('models.py: VolumeModel.__init__ not found')
    mname = init[0].args.args[1].arg                      # the `model` parameter
    loops = [n for n in ast.walk(init[0]) if isinstance(n, ast.For)]
    ok = False
    calls = []
    for lp in loops:
        current = set()                                   # names bound to getattr(model, <loop var>)
        for n in ast.walk(lp):
            if (isinstance(n, ast.Assign) and len(n.targets) == 1 and isinstance(n.targets[0], ast.Name)
                    and isinstance(n.value, ast.Call) and isinstance(n.value.func, ast.Name)
                    and n.value.func.id == 'getattr' and len(n.value.args) >= 2
                    and isinstance(n.value.args[0], ast.Name) and n.value.args[0].id == mname):
                current.add(n.targets[0].id)
        for n in ast.walk(lp):
            if (isinstance(n, ast.Call) and isinstance(n.func, ast.Attribute) and n.func.attr == 'backward'
                    and isinstance(n.func.value, ast.Attribute) and n.func.value.attr == 'map'
                    and isinstance(n.func.value.value, ast.Name) and n.func.value.value.id == mname):
                calls.append(n.lineno)
                a = n.args[0] if len(n.args) == 1 and not n.keywords else None
                if isinstance(a, ast.Name) and a.id in current:
                    ok = True
                if (isinstance(a, ast.Call) and isinstance(a.func, ast.Name) and a.func.id == 'getattr'
                        and isinstance(a.args[0], ast.Name) and a.args[0].id == mname):
                    ok = True
    if not ok:
        raise MG.MapsUntranslatable(
            'models.py: VolumeModel.__init__ does not compute the conductivities as '
            f'{mname}.map.backward(<property read from {mname} in the same loop>) '
            f'(map.backward calls found at lines {calls}); the coefficient model of C14 is not anchored')


def anchor_gradient_glue(ctx):
    """PREBUILD (fail closed, round 7): in emg3d/simulations.py every call of `map.derivative_chain` must
    sit directly in Simulation.gradient or Simulation.jvec, act on a row `<array>[<k>, ...]` and name the
    property array of that row explicitly as `self.model.property_<d>` (the structural assumption of
    glue_by_name in Model/GradGlue.v: the property is selected BY NAME, not by position); each of the two
    methods must do so for x, y and z.  The behaviour (which row is which direction) is then compared with
    real Simulations for all four anisotropy cases by stream (h)."""
    import ast
    import os
    src = open(os.path.join(V.REPO, 'emg3d', 'simulations.py')).read()
    mod = ast.parse(src)
    where = {}                                             # lineno -> (function name, direction or None)
    for cls in [n for n in mod.body if isinstance(n, ast.ClassDef)]:
        for fn in [n for n in cls.body if isinstance(n, ast.FunctionDef)]:
            for n in ast.walk(fn):
                if (isinstance(n, ast.Call) and isinstance(n.func, ast.Attribute)
                        and n.func.attr == 'derivative_chain'):
                    d = None
                    if len(n.args) == 2 and not n.keywords:
                        a, b = n.args
                        row = (isinstance(a, ast.Subscript) and isinstance(a.slice, ast.Tuple)
                               and len(a.slice.elts) == 2 and isinstance(a.slice.elts[0], (ast.Constant, ast.Name))
                               and isinstance(a.slice.elts[1], ast.Constant) and a.slice.elts[1].value is Ellipsis)
                        named = (isinstance(b, ast.Attribute) and b.attr in ('property_x', 'property_y', 'property_z')
                                 and isinstance(b.value, ast.Attribute) and b.value.attr == 'model'
                                 and isinstance(b.value.value, ast.Name) and b.value.value.id == 'self')
                        if row and named:
                            d = b.attr[-1]
                    where[n.lineno] = (cls.name + '.' + fn.name, d)
    for n in ast.walk(mod):                                # calls outside of classes (module-level helpers)
        if (isinstance(n, ast.Call) and isinstance(n.func, ast.Attribute) and n.func.attr == 'derivative_chain'
                and n.lineno not in where):
            where[n.lineno] = ('<module level>', None)
    bad = {ln: w for ln, w in where.items()
           if w[1] is None or w[0] not in ('Simulation.gradient', 'Simulation.jvec')}
    per = {f: sorted(w[1] for w in where.values() if w[0] == f and w[1])
           for f in ('Simulation.gradient', 'Simulation.jvec')}
    if bad or any(v != ['x', 'y', 'z'] for v in per.values()):
        raise MG.MapsUntranslatable(
            'simulations.py: the gradient conversion no longer applies map.derivative_chain to a row '
            '`<array>[k, ...]` together with `self.model.property_<d>` named explicitly, once per direction, '
            f'inside Simulation.gradient and Simulation.jvec (found {sorted(where.items())}); the per-row pairing '
            'model of C14 (Model/GradGlue.v, glue_by_name) is not anchored')


SETTER_PARAMS = ['property_x', 'property_y', 'property_z', 'mu_r', 'epsilon_r']
SETTER_COQ = {'property_x': 'PX', 'property_y': 'PY', 'property_z': 'PZ', 'mu_r': 'PMu', 'epsilon_r': 'PEps'}


def extract_setter_orders(repo):
    """Read the ORDER of events of the five setters of `Model` off models.py with `ast`
    (fail closed: anything that is not one of the recognised statements raises).

    Recognised statements (the setter body, and the body of ONE level of helper methods
    `self.<helper>(<value>, '<name>')` which is inlined):
      * docstring; `return` without value at the very end
      * `self._check_positive_finite(<value>|<stored>, <name>)`     -> EvCheckValues | EvCheckStored
      * `<stored>[:] = <cast>(<value>, ...)` / `= <value>`           -> EvStore
      * `<alias> = getattr(self, '_' + <name>)` / `= self._<name>`   (binds an alias of the stored array)
      * `if <stored> is None: raise ...`                             -> EvGuardNone
    where <stored> is `self._<name>` or such an alias.  Returns {param: [event, ...]}."""
    import ast
    import os
    src = open(os.path.join(repo, 'emg3d', 'models.py')).read()
    mod = ast.parse(src)
    cls = [n for n in mod.body if isinstance(n, ast.ClassDef) and n.name == 'Model']
    if len(cls) != 1:
        raise MG.MapsUntranslatable('models.py: class Model not found')
    methods = {}
    setters = {}
    for n in cls[0].body:
        if not isinstance(n, ast.FunctionDef):
            continue
        is_setter = [d for d in n.decorator_list
                     if isinstance(d, ast.Attribute) and d.attr == 'setter' and isinstance(d.value, ast.Name)]
        if is_setter:
            pn = is_setter[0].value.id
            if pn in SETTER_PARAMS:
                if pn in setters:
                    raise MG.MapsUntranslatable(f'models.py:{n.lineno}: second setter of {pn}')
                setters[pn] = n
        elif not n.decorator_list:
            methods[n.name] = n
    if sorted(setters) != sorted(SETTER_PARAMS):
        raise MG.MapsUntranslatable(f'models.py: setters found for {sorted(setters)}, expected {SETTER_PARAMS}')

    def fail(node, what):
        raise MG.MapsUntranslatable(f"models.py:{getattr(node, 'lineno', '?')}: setter order not readable: {what}")

    def is_self_attr(node, attr=None):
        return (isinstance(node, ast.Attribute) and isinstance(node.value, ast.Name) and node.value.id == 'self'
                and (attr is None or node.attr == attr))

    def walk_body(fn, pname, vname, nname, depth):
        """events of function body `fn`; vname = local name of the assigned values, nname = local
        name holding the parameter name string (None: the literal is used)."""
        events = []
        aliases = set()

        def is_name_ref(node):
            if isinstance(node, ast.Constant) and node.value == pname:
                return True
            return nname is not None and isinstance(node, ast.Name) and node.id == nname

        def is_stored(node):
            if is_self_attr(node, '_' + pname):
                return True
            if isinstance(node, ast.Name) and node.id in aliases:
                return True
            return is_stored_expr(node)

        def is_stored_expr(node):
            # getattr(self, '_' + name)  /  getattr(self, '_<pname>')
            if (isinstance(node, ast.Call) and isinstance(node.func, ast.Name) and node.func.id == 'getattr'
                    and len(node.args) == 2 and isinstance(node.args[0], ast.Name) and node.args[0].id == 'self'):
                a = node.args[1]
                if isinstance(a, ast.Constant) and a.value == '_' + pname:
                    return True
                if (isinstance(a, ast.BinOp) and isinstance(a.op, ast.Add) and isinstance(a.left, ast.Constant)
                        and a.left.value == '_' and is_name_ref(a.right)):
                    return True
                if (isinstance(a, ast.JoinedStr) and len(a.values) == 2 and isinstance(a.values[0], ast.Constant)
                        and a.values[0].value == '_' and isinstance(a.values[1], ast.FormattedValue)
                        and is_name_ref(a.values[1].value)):
                    return True
            return False

        def is_value(node):
            return isinstance(node, ast.Name) and node.id == vname

        body = list(fn.body)
        if body and isinstance(body[0], ast.Expr) and isinstance(body[0].value, ast.Constant) \
                and isinstance(body[0].value.value, str):
            body = body[1:]
        for k, st in enumerate(body):
            if isinstance(st, ast.Return) and st.value is None and k == len(body) - 1:
                continue
            if isinstance(st, ast.Expr) and isinstance(st.value, ast.Call) and is_self_attr(st.value.func):
                call = st.value
                if call.keywords or len(call.args) != 2 or not is_name_ref(call.args[1]):
                    fail(st, 'call with unexpected arguments')
                if call.func.attr == '_check_positive_finite':
                    if is_value(call.args[0]):
                        events.append('EvCheckValues')
                    elif is_stored(call.args[0]):
                        events.append('EvCheckStored')
                    else:
                        fail(st, 'check of something that is neither the assigned values nor the stored array')
                    continue
                helper = methods.get(call.func.attr)
                if helper is None or depth >= 1 or not is_value(call.args[0]):
                    fail(st, f'call of self.{call.func.attr}')
                hargs = [a.arg for a in helper.args.args]
                if (len(hargs) != 3 or helper.args.vararg or helper.args.kwarg or helper.args.kwonlyargs
                        or helper.args.defaults):
                    fail(helper, 'helper signature')
                events += walk_body(helper, pname, hargs[1], hargs[2], depth + 1)
                continue
            if (isinstance(st, ast.Assign) and len(st.targets) == 1 and isinstance(st.targets[0], ast.Name)
                    and is_stored_expr(st.value) or
                    isinstance(st, ast.Assign) and len(st.targets) == 1 and isinstance(st.targets[0], ast.Name)
                    and is_self_attr(st.value, '_' + pname)):
                if st.targets[0].id == vname:
                    fail(st, 'the assigned values are rebound')
                aliases.add(st.targets[0].id)
                continue
            if isinstance(st, ast.Assign) and len(st.targets) == 1 and isinstance(st.targets[0], ast.Subscript):
                tg = st.targets[0]
                sl = tg.slice
                full = isinstance(sl, ast.Slice) and sl.lower is None and sl.upper is None and sl.step is None
                if not (full and is_stored(tg.value)):
                    fail(st, 'store into something else than <stored>[:]')
                v = st.value
                ok = is_value(v) or (isinstance(v, ast.Call) and v.args and is_value(v.args[0])
                                     and isinstance(v.func, ast.Attribute) and isinstance(v.func.value, ast.Name)
                                     and v.func.value.id == 'np'
                                     and v.func.attr in ('asfortranarray', 'asarray', 'array', 'ascontiguousarray'))
                if not ok:
                    fail(st, 'stored expression is not a cast of the assigned values')
                events.append('EvStore')
                continue
            if (isinstance(st, ast.If) and not st.orelse and isinstance(st.test, ast.Compare)
                    and len(st.test.ops) == 1 and isinstance(st.test.ops[0], ast.Is)
                    and isinstance(st.test.comparators[0], ast.Constant) and st.test.comparators[0].value is None
                    and is_stored(st.test.left) and len(st.body) == 1 and isinstance(st.body[0], ast.Raise)):
                events.append('EvGuardNone')
                continue
            fail(st, f'unexpected statement {type(st).__name__}')
        return events

    out = {}
    for pn in SETTER_PARAMS:
        fn = setters[pn]
        args = [a.arg for a in fn.args.args]
        if len(args) != 2 or args[0] != 'self':
            fail(fn, 'setter signature')
        ev = walk_body(fn, pn, args[1], None, 0)
        if ev.count('EvStore') != 1:
            fail(fn, f'{ev.count("EvStore")} stores in the setter of {pn}')
        out[pn] = ev
    return out


def gen_setter_order(ctx):
    """PREBUILD: regenerate Gen/MapsSetter.v (order of check / store in the five setters of Model)
    from the current models.py; fail closed."""
    import os
    orders = extract_setter_orders(V.REPO)
    _MAPS['setter_orders'] = orders
    lines = ["(* Gen/MapsSetter.v -- GENERATED on every run from emg3d/models.py by py/props/c14.py",
             "   (gen_setter_order; do not edit): the events of each setter of Model in source order. *)",
             "From Coq Require Import List.", "From V Require Import Model.Maps.", "Import ListNotations.", "",
             "Definition setter_order (p : pname) : list setter_event :=", "  match p with"]
    for pn in SETTER_PARAMS:
        lines.append(f"  | {SETTER_COQ[pn]} => [{'; '.join(orders[pn])}]")
    lines += ["  end.", ""]
    text = '\n'.join(lines)
    path = os.path.join(V.COQ, 'Gen', 'MapsSetter.v')
    old = open(path).read() if os.path.exists(path) else None
    if old != text:
        os.makedirs(os.path.dirname(path), exist_ok=True)
        with open(path, 'w') as f:
            f.write(text)


PREBUILD = [gen_maps, anchor_volume_model, gen_setter_order, anchor_gradient_glue]


def trees():
    if 'maps' not in _MAPS:
        _MAPS['maps'] = MG.extract(V.REPO)
    return _MAPS['maps']


def impl_map(name):
    from emg3d import maps
    return getattr(maps, 'Map' + name)()


def logu(rng, lo=-6.0, hi=6.0):
    """log-uniform positive float over twelve decades."""
    return 10.0 ** rng.uniform(lo, hi)


def relclose(a, b, tol=1e-12):
    return abs(a - b) <= tol * max(1.0, abs(a), abs(b))


# ------------------------------------------------------ (a) methods vs trees
def check_methods(ctx, n, dis, hist):
    rng = ctx.rng
    tr = trees()
    count = 0
    for name in NAMES:
        mp = impl_map(name)
        t = tr[name]
        sig = [logu(rng) for _ in range(n)] + [1e-6, 1.0, 1e6, 10.0, 0.1]
        arr = np.array(sig)
        with np.errstate(all='ignore'):
            fw = np.asarray(mp.forward(arr.copy()), float)
            x = np.array([MG.evaluate(t['forward'], s, t) for s in sig])
            bw = np.asarray(mp.backward(x.copy()), float)
            g0 = np.array([rng.uniform(-3, 3) for _ in sig])
            g = g0.copy()
            ret = mp.derivative_chain(g, x.copy())
        if ret is not None:
            dis.append({'what': f'Map{name}.derivative_chain returns a value instead of acting in place'})
        for i, s in enumerate(sig):
            count += 3
            m_fw = x[i]
            m_bw = MG.evaluate(t['backward'], x[i], t)
            m_ch = g0[i] * MG.evaluate(t['chain'], x[i], t)
            for what, iv, mv in (('forward', fw[i], m_fw), ('backward', bw[i], m_bw),
                                 ('derivative_chain', g[i], m_ch)):
                if not (np.isfinite(iv) and relclose(float(iv), mv)):
                    dis.append({'what': f'Map{name}.{what} differs from the extracted expression',
                                'case': {'map': name, 'sigma': float.hex(s), 'mapped': float.hex(float(x[i])),
                                         'gradient_in': float.hex(float(g0[i]))},
                                'impl': repr(float(iv)), 'model': repr(mv)})
                    break
        # scalars and 3-D Fortran arrays go through the same code
        s = logu(rng)
        with np.errstate(all='ignore'):
            a3 = np.asfortranarray(np.full((2, 1, 2), s))
            f3 = mp.forward(a3)
        if not relclose(float(np.asarray(f3).ravel()[0]), MG.evaluate(t['forward'], s, t)):
            dis.append({'what': f'Map{name}.forward on a 3-D array differs', 'case': {'sigma': float.hex(s)}})
        hist['methods:' + name] = len(sig)
    return count


# ------------------------------------------- (b) rational maps vs their Q twin
def check_twins(ctx, n, dis):
    rng = ctx.rng
    tr = trees()
    rat = MG.rational_maps(tr)
    if sorted(rat) != ['Conductivity', 'Resistivity']:
        dis.append({'what': 'set of rational maps changed', 'impl': rat,
                    'model': ['Conductivity', 'Resistivity']})
        return 0
    vals = [rng.randint(1, 2 ** 12) / 2 ** rng.randint(0, 10) * rng.choice([1, -1]) for _ in range(n)]
    items = []
    for name in rat:
        for v in vals:
            items.append(f"out_q (forwardF_{name} ({V.q(v)} : Q)); out_q (backwardF_{name} ({V.q(v)} : Q)); "
                         f"out_q (chainF_{name} ({V.q(v)} : Q))")
    text = (K.CASE_HEADER + "From V Require Import Gen.MapsMap.\n"
            "Eval vm_compute in [" + ';\n '.join(items) + "].\n")
    rc, out = V.coq_eval('c14_twin', text)
    if rc != 0:
        dis.append({'what': 'Q twins of the rational maps do not evaluate', 'log': out[-1500:]})
        return 0
    got = V.parse_pairs(V.eval_answers(out)[0])
    k = 0
    for name in rat:
        mp = impl_map(name)
        for v in vals:
            g = np.array([1.0])
            mp.derivative_chain(g, np.array([v]))
            impl = [float(mp.forward(np.array([v]))[0]), float(mp.backward(np.array([v]))[0]), float(g[0])]
            for j, what in enumerate(('forward', 'backward', 'derivative_chain')):
                mv = float(got[k])
                k += 1
                if not relclose(impl[j], mv, 1e-14):
                    dis.append({'what': f'Map{name}.{what} differs from its Q twin',
                                'case': {'x': float.hex(v)}, 'impl': repr(impl[j]), 'model': repr(mv)})
    return k


# ------------------------------- (c) VolumeModel coefficients across the maps
def check_coefficients(ctx, n, dis, hist, samples):
    import emg3d
    import scipy.constants as sc
    rng = ctx.rng
    tr = trees()
    cases, texts = [], []
    for ci in range(n):
        shape = (rng.randint(1, 2), rng.randint(1, 2), rng.randint(1, 2))
        hs = [[K.dy_pos(rng) for _ in range(m)] for m in shape]
        grid = emg3d.TensorMesh(hs, (0, 0, 0))
        aniso = ci % 4
        has_mu, has_eps = rng.random() < 0.5, rng.random() < 0.5
        lap = rng.random() < 0.4
        freq = -K.dy_pos(rng) if lap else K.dy_pos(rng)

        def cond():
            # dyadic mantissa times a power of two spread over twelve decades
            a = np.zeros(shape)
            for idx in itertools.product(*[range(m) for m in shape]):
                a[idx] = rng.randint(1, 255) / 16.0 * 2.0 ** rng.randint(-20, 20)
            return a
        sx = cond()
        sy = cond() if aniso in (1, 3) else None
        sz = cond() if aniso in (2, 3) else None
        mu = np.array(K.rand_arr(rng, shape, False, pos=True), float) if has_mu else None
        eps = np.array(K.rand_arr(rng, shape, False, pos=True), float) if has_eps else None
        sfield = emg3d.Field(grid, frequency=freq)
        vol = np.multiply.outer(np.multiply.outer(hs[0], hs[1]), hs[2])
        sval, smu0 = complex(sfield.sval), complex(sfield.smu0)
        items = []
        for idx in itertools.product(*[range(m) for m in shape]):
            cx = sx[idx]
            cy = (sy if sy is not None else sx)[idx]
            cz = (sz if sz is not None else sx)[idx]
            er = eps[idx] if has_eps else 1.0
            mr = mu[idx] if has_mu else 1.0
            args = (f"{V.qc(smu0)} {V.qc(sval)} {V.qc(sc.epsilon_0)} {V.coq_bool(has_eps)} "
                    f"{V.qc(vol[idx])}")
            ex = f"(eta_of {args} {V.qc(cx)} {V.qc(er)})"
            ey = f"(eta_of {args} {V.qc(cy)} {V.qc(er)})"
            ez = f"(eta_of {args} {V.qc(cz)} {V.qc(er)})"
            items.append(f"out_c {ex}; out_c (eta_y_sel {aniso}%Z {ex} {ey}); "
                         f"out_c (eta_z_sel {aniso}%Z {ex} {ez}); "
                         f"out_c (zeta_of {V.coq_bool(has_mu)} {V.qc(vol[idx])} {V.qc(mr)})")
        texts.append((f"c14_vm_{ci}", K.CASE_HEADER + "From V Require Import Model.VolumeModel.\n"
                      "Eval vm_compute in [" + ';\n '.join(items) + "].\n"))
        cases.append(dict(shape=shape, hs=hs, aniso=aniso, has_mu=has_mu, has_eps=has_eps, freq=freq,
                          sx=sx, sy=sy, sz=sz, mu=mu, eps=eps, grid=grid, sfield=sfield))
    res = V.coq_eval_many(texts)
    nev = 0
    for ci, c in enumerate(cases):
        rc, out = res[f"c14_vm_{ci}"]
        brief = dict(shape=list(c['shape']), aniso=c['aniso'], has_mu=c['has_mu'], has_eps=c['has_eps'],
                     freq=c['freq'], sigma_x=[float.hex(v) for v in c['sx'].ravel()])
        if ci < 2:
            samples.append(brief)
        if rc != 0:
            dis.append({'what': 'VolumeModel model evaluation failed', 'log': out[-1500:]})
            continue
        vals = V.parse_cpairs(V.eval_answers(out)[0])
        ref = [complex(float(a), float(b)) for a, b in vals]
        for name in NAMES:
            t = tr[name]

            def mapped(a):
                if a is None:
                    return None
                return np.vectorize(lambda s: MG.evaluate(t['forward'], float(s), t))(a)
            kw = dict(property_x=mapped(c['sx']), property_y=mapped(c['sy']),
                      property_z=mapped(c['sz']), mapping=name)
            if c['has_mu']:
                kw['mu_r'] = c['mu'].copy()
            if c['has_eps']:
                kw['epsilon_r'] = c['eps'].copy()
            try:
                with warnings.catch_warnings():
                    warnings.simplefilter('ignore')
                    model = emg3d.Model(c['grid'], **kw)
                    vm = emg3d.models.VolumeModel(model, c['sfield'])
            except Exception as e:      # a valid model must construct
                dis.append({'what': f'valid model rejected / VolumeModel failed under map {name}',
                            'case': brief, 'impl': repr(e), 'model': 'accepted'})
                continue
            nev += 1
            hist['coeff:' + name] = hist.get('coeff:' + name, 0) + 1
            k = 0
            bad = None
            for idx in itertools.product(*[range(m) for m in c['shape']]):
                impl = [vm.eta_x[idx], vm.eta_y[idx], vm.eta_z[idx], vm.zeta[idx]]
                for j in range(4):
                    m = ref[k]
                    k += 1
                    if bad is None and abs(complex(impl[j]) - m) > 1e-12 * max(abs(m), 1e-300):
                        bad = (idx, j, impl[j], m)
            if bad:
                idx, j, iv, m = bad
                dis.append({'what': f'VolumeModel coefficient under map {name} differs from the '
                                    f'coefficient of the conductivity',
                            'case': brief, 'cell': list(idx),
                            'which': ['eta_x', 'eta_y', 'eta_z', 'zeta'][j],
                            'impl': str(iv), 'model': str(m)})
    return nev


# ------------- (c2) VolumeModel along histories on ONE Model object per mapping
def _coeff_items(shape, vol, smu0, sval, aniso, st):
    """Coq terms for eta_x, eta_y, eta_z, zeta of every cell from the CURRENT conductivities."""
    import scipy.constants as sc
    has_mu, has_eps = st['mu'] is not None, st['eps'] is not None
    items = []
    for idx in itertools.product(*[range(m) for m in shape]):
        cx = st['x'][idx]
        cy = (st['y'] if st['y'] is not None else st['x'])[idx]
        cz = (st['z'] if st['z'] is not None else st['x'])[idx]
        er = st['eps'][idx] if has_eps else 1.0
        mr = st['mu'][idx] if has_mu else 1.0
        args = (f"{V.qc(smu0)} {V.qc(sval)} {V.qc(sc.epsilon_0)} {V.coq_bool(has_eps)} {V.qc(vol[idx])}")
        ex = f"(eta_of {args} {V.qc(cx)} {V.qc(er)})"
        ey = f"(eta_of {args} {V.qc(cy)} {V.qc(er)})"
        ez = f"(eta_of {args} {V.qc(cz)} {V.qc(er)})"
        items.append(f"out_c {ex}; out_c (eta_y_sel {aniso}%Z {ex} {ey}); "
                     f"out_c (eta_z_sel {aniso}%Z {ex} {ez}); "
                     f"out_c (zeta_of {V.coq_bool(has_mu)} {V.qc(vol[idx])} {V.qc(mr)})")
    return "Eval vm_compute in [" + ';\n '.join(items) + "]."


def _dyadic_cond(rng, shape):
    a = np.zeros(shape)
    for idx in itertools.product(*[range(m) for m in shape]):
        a[idx] = rng.randint(1, 255) / 16.0 * 2.0 ** rng.randint(-20, 20)
    return a


def _rand_block(rng, shape):
    blk = []
    for m in shape:
        lo = rng.randint(0, m - 1)
        hi = rng.randint(lo + 1, m)
        blk.append(slice(lo, hi))
    return tuple(blk)


def gen_vm_history(rng, ci):
    """(map, anisotropy case) cycle through all 24 combinations; one Model object; ops edit it
    in place through the getter view ('view'), through the setter ('setter'), or the mu_r /
    epsilon_r arrays; a VolumeModel is built before the first and after every op."""
    name = NAMES[ci % 6]
    aniso = (ci // 6) % 4
    shape = rng.choice([(2, 1, 2), (2, 2, 1), (1, 2, 2), (2, 2, 2), (3, 1, 1)])
    st = {'x': _dyadic_cond(rng, shape),
          'y': _dyadic_cond(rng, shape) if aniso in (1, 3) else None,
          'z': _dyadic_cond(rng, shape) if aniso in (2, 3) else None,
          'mu': np.array(K.rand_arr(rng, shape, False, pos=True), float) if rng.random() < 0.5 else None,
          'eps': np.array(K.rand_arr(rng, shape, False, pos=True), float) if rng.random() < 0.5 else None}
    defined = [k for k in ('x', 'y', 'z') if st[k] is not None]
    ops = []
    nops = rng.randint(2, 4)
    for k in range(nops):
        if k == 0:
            kind, key = 'view', rng.choice(defined)
        else:
            kind = rng.choice(['view', 'view', 'setter', 'setter_scalar', 'view_other'])
            key = rng.choice(defined)
            if kind == 'view_other':
                other = [q for q in ('mu', 'eps') if st[q] is not None]
                if not other:
                    kind = 'view'
                else:
                    key = rng.choice(other)
        blk = _rand_block(rng, shape)
        if key in ('mu', 'eps'):
            new = np.array(K.rand_arr(rng, shape, False, pos=True), float)
        else:
            new = _dyadic_cond(rng, shape)
        if kind == 'setter_scalar':
            new = np.full(shape, new.ravel()[0])
        ops.append((kind, key, blk, new))
    lap = rng.random() < 0.4
    freq = -K.dy_pos(rng) if lap else K.dy_pos(rng)
    hs = [[K.dy_pos(rng) for _ in range(m)] for m in shape]
    return dict(map=name, aniso=aniso, shape=shape, st=st, ops=ops, freq=freq, hs=hs)


PKEY = {'x': 'property_x', 'y': 'property_y', 'z': 'property_z', 'mu': 'mu_r', 'eps': 'epsilon_r'}


def describe_history(h):
    return {'mapping': h['map'], 'aniso': h['aniso'], 'shape': list(h['shape']), 'freq': h['freq'],
            'hs': h['hs'],
            'initial_conductivity': {k: (None if v is None else [float.hex(float(x)) for x in v.ravel()])
                                     for k, v in h['st'].items()},
            'ops': [{'kind': kd, 'property': PKEY[key],
                     'block': [[b.start, b.stop] for b in blk],
                     'new_conductivity_or_value': [float.hex(float(x)) for x in new[blk].ravel()]}
                    for kd, key, blk, new in h['ops']]}


def run_vm_history(h, fresh=False):
    """Run the history on ONE Model object; return the list of coefficient arrays after
    construction and after each op, plus the states (current conductivities).  With fresh=True
    every VolumeModel is instead built from a NEW Model holding copies of the current arrays."""
    import emg3d
    t = trees()[h['map']]
    fwd = np.vectorize(lambda s: MG.evaluate(t['forward'], float(s), t))
    grid = emg3d.TensorMesh(h['hs'], (0, 0, 0))
    sfield = emg3d.Field(grid, frequency=h['freq'])
    st = {k: (None if v is None else v.copy()) for k, v in h['st'].items()}

    def build():
        return emg3d.Model(grid, property_x=fwd(st['x']),
                           property_y=None if st['y'] is None else fwd(st['y']),
                           property_z=None if st['z'] is None else fwd(st['z']),
                           mu_r=None if st['mu'] is None else st['mu'].copy(),
                           epsilon_r=None if st['eps'] is None else st['eps'].copy(),
                           mapping=h['map'])

    def coeffs(m):
        vm = emg3d.models.VolumeModel(m, sfield)
        return [np.array(vm.eta_x), np.array(vm.eta_y), np.array(vm.eta_z), np.array(vm.zeta)]
    outs, states = [], []
    with warnings.catch_warnings(), np.errstate(all='ignore'):
        warnings.simplefilter('ignore')
        model = build()
        outs.append(coeffs(build() if fresh else model))
        states.append({k: (None if v is None else v.copy()) for k, v in st.items()})
        for kind, key, blk, new in h['ops']:
            vals = new if key in ('mu', 'eps') else fwd(new)
            if kind in ('view', 'view_other'):
                st[key][blk] = new[blk]
                getattr(model, PKEY[key])[blk] = vals[blk]          # in place, through the getter
            elif kind == 'setter':
                st[key] = new.copy()
                setattr(model, PKEY[key], vals.copy())
            else:                                                   # setter_scalar
                st[key] = new.copy()
                setattr(model, PKEY[key], float(vals.ravel()[0]))
            outs.append(coeffs(build() if fresh else model))
            states.append({k: (None if v is None else v.copy()) for k, v in st.items()})
    return outs, states, sfield


def check_vm_histories(ctx, n, dis, hist, samples):
    rng = ctx.rng
    hs = [gen_vm_history(rng, ci) for ci in range(n)]
    runs, texts = [], []
    for ci, h in enumerate(hs):
        try:
            outs, states, sfield = run_vm_history(h)
        except Exception as e:
            dis.append({'what': 'history on one Model object raised', 'case': describe_history(h),
                        'impl': repr(e), 'model': 'all values valid'})
            runs.append(None)
            continue
        vol = np.multiply.outer(np.multiply.outer(h['hs'][0], h['hs'][1]), h['hs'][2])
        sval, smu0 = complex(sfield.sval), complex(sfield.smu0)
        lines = [K.CASE_HEADER, "From V Require Import Model.VolumeModel."]
        for st in states:
            lines.append(_coeff_items(h['shape'], vol, smu0, sval, h['aniso'], st))
        texts.append((f"c14_vh_{ci}", '\n'.join(lines) + '\n'))
        runs.append(outs)
    res = V.coq_eval_many(texts)
    nev = 0
    for ci, h in enumerate(hs):
        if runs[ci] is None:
            continue
        rc, out = res[f"c14_vh_{ci}"]
        if rc != 0:
            dis.append({'what': 'VolumeModel model evaluation failed (history)', 'log': out[-1500:]})
            continue
        answers = V.eval_answers(out)
        if ci < 2:
            samples.append(describe_history(h))
        for step, (ans, impl) in enumerate(zip(answers, runs[ci])):
            nev += 1
            kd = 'construct' if step == 0 else h['ops'][step - 1][0]
            hist['vm-history:' + kd] = hist.get('vm-history:' + kd, 0) + 1
            ref = [complex(float(a), float(b)) for a, b in V.parse_cpairs(ans)]
            k = 0
            bad = None
            for idx in itertools.product(*[range(m) for m in h['shape']]):
                for j in range(4):
                    m = ref[k]
                    k += 1
                    iv = complex(impl[j][idx])
                    if bad is None and abs(iv - m) > 1e-12 * max(abs(m), 1e-300):
                        bad = (idx, j, iv, m)
            if bad:
                idx, j, iv, m = bad
                dis.append({'what': 'VolumeModel built after step %d (%s) of a history on one Model object '
                                    'differs from the coefficients of the CURRENT conductivities' % (step, kd),
                            'case': describe_history(h), 'step': step, 'cell': list(idx),
                            'which': ['eta_x', 'eta_y', 'eta_z', 'zeta'][j],
                            'impl': str(iv), 'model': str(m)})
                break
    return nev


# ----------------------------------------- (d) construct / assign histories
PNAMES = ['property_x', 'property_y', 'property_z', 'mu_r', 'epsilon_r']
PCOQ = ['PX', 'PY', 'PZ', 'PMu', 'PEps']
SPECIALS = ['negzero', 'pinf', 'ninf', 'nan']


def gen_value(rng, name, pidx, bad):
    """One cell value as ('fin', float) or (special,).  Good values denote a
    positive conductivity / mu_r / eps_r; bad ones do not."""
    lin = (pidx >= 3) or name in ('Conductivity', 'Resistivity')
    if not bad:
        if lin:
            return ('fin', rng.randint(1, 255) / 16.0 * 2.0 ** rng.randint(-12, 12))
        return ('fin', rng.randint(-96, 96) / 16.0)      # log maps: any finite value in range
    kind = rng.choice(['zero', 'neg', 'negzero', 'pinf', 'ninf', 'nan', 'range', 'range'])
    if kind == 'range':
        # finite values near / beyond the float range of 10**x (|x| ~ 308..324) and exp(x)
        # (|x| ~ 710..746); the generator stays 2 away from the thresholds of ovf_exec
        if lin:
            return ('fin', rng.choice([1.0, -1.0]) * 2.0 ** rng.choice([-900, -600, 600, 900]))
        if name.startswith('Lg'):
            mag = rng.choice([rng.randint(200, 306), rng.randint(312, 321), rng.randint(327, 2000)])
        else:
            mag = rng.choice([rng.randint(500, 707), rng.randint(713, 743), rng.randint(749, 3000)])
        return ('fin', float(mag) * rng.choice([1, -1]))
    if kind == 'zero':
        return ('fin', 0.0)
    if kind == 'neg':
        return ('fin', -rng.randint(1, 255) / 16.0)
    return (kind,)


def to_float(v):
    return {'fin': lambda: v[1], 'negzero': lambda: -0.0, 'pinf': lambda: float('inf'),
            'ninf': lambda: float('-inf'), 'nan': lambda: float('nan')}[v[0]]()


def to_coq(v):
    if v[0] == 'fin':
        return f"(Fin {V.q(v[1])})"
    return {'negzero': 'NegZero', 'pinf': 'PInf', 'ninf': 'NInf', 'nan': 'NaN'}[v[0]]


def gen_array(rng, name, pidx, ncell, bad):
    vals = [gen_value(rng, name, pidx, False) for _ in range(ncell)]
    if bad:
        for k in rng.sample(range(ncell), rng.randint(1, min(2, ncell))):
            vals[k] = gen_value(rng, name, pidx, True)
    if rng.random() < 0.15:          # constant array: given as a scalar to the implementation
        vals = [vals[0]] * ncell
    return vals


def gen_history(rng, idx):
    name = NAMES[idx % 6]
    mapping = name
    if rng.random() < 0.05:
        mapping = rng.choice(['resistivity', 'Lg', 'LogConductivity', 'Conductivit'])
    shape = rng.choice([(1, 1, 1), (2, 1, 1), (1, 2, 2), (2, 1, 2)])
    ncell = shape[0] * shape[1] * shape[2]
    init = []
    for p in range(5):
        present = True if p == 0 else rng.random() < 0.5
        if not present:
            init.append(None)
        else:
            init.append(gen_array(rng, name, p, ncell, rng.random() < 0.06))
    ops = []
    for _ in range(rng.randint(0, 5)):
        p = rng.randint(0, 4)
        if rng.random() < 0.35:
            # augmented assignment  model.<p> op= k
            opname = rng.choice(AUG_OPS)
            k = rng.choice([2.0, 0.5, 3.0, -1.0, 0.0, 1.0, float('nan'), float('inf'), 1e4, -1e4, 400.0,
                            2.0 ** -900, rng.randint(-64, 64) / 8.0])
            ops.append(('aug', p, opname, k))
        else:
            ops.append(('set', p, gen_array(rng, name, p, ncell, rng.random() < 0.4)))
    return dict(map=name, mapping=mapping, shape=shape, init=init, ops=ops)


AUG_OPS = ['*=', '+=', '-=', '/=']


def aug_apply(a, opname, k):
    """numpy's in-place operator, as `a op= k` performs it (returns the same object)."""
    import operator
    f = {'*=': operator.imul, '+=': operator.iadd, '-=': operator.isub, '/=': operator.itruediv}[opname]
    return f(a, k)


def float_to_val(x):
    import math as _m
    x = float(x)
    if x != x:
        return ('nan',)
    if x == float('inf'):
        return ('pinf',)
    if x == float('-inf'):
        return ('ninf',)
    if x == 0.0 and _m.copysign(1.0, x) < 0:
        return ('negzero',)
    return ('fin', x)


def np_vals(vals, shape):
    fl = [to_float(v) for v in vals]
    if len(set(map(repr, fl))) == 1 and len(fl) > 1:
        return fl[0]                                  # scalar, broadcast by the model
    return np.array(fl).reshape(shape, order='F')


def err_code(e):
    msg = str(e)
    if isinstance(e, AttributeError):
        return 4
    if isinstance(e, TypeError):
        return 5
    if isinstance(e, ValueError):
        if 'was initiated without' in msg:
            return 1
        if 'bigger than zero' in msg:
            return 2
        if 'must be all finite' in msg:
            return 3
    return ('other', type(e).__name__, msg[:80])


def cell_code(x):
    x = float(x)
    if x != x:
        return (4, 0, 1)
    if x == float('inf'):
        return (2, 0, 1)
    if x == float('-inf'):
        return (3, 0, 1)
    if x == 0.0 and math.copysign(1.0, x) < 0:
        return (1, 0, 1)
    f = V.frac(x)
    return (0, f.numerator, f.denominator)


def run_history_impl(h):
    import emg3d
    grid = emg3d.TensorMesh([[1.0] * h['shape'][0], [2.0] * h['shape'][1], [0.5] * h['shape'][2]],
                            (0, 0, 0))
    kw = {PNAMES[p]: (None if v is None else np_vals(v, h['shape'])) for p, v in enumerate(h['init'])}
    with warnings.catch_warnings(), np.errstate(all='ignore'):
        warnings.simplefilter('ignore')
        try:
            model = emg3d.Model(grid, mapping=h['mapping'], **kw)
        except Exception as e:
            h['rops'] = []
            return (err_code(e), [], None)
        steps = []
        rops = []        # resolved ops for the model: (augmented?, p, cell values handed to the setter)
        for op in h['ops']:
            p = op[1]
            try:
                if op[0] == 'set':
                    rops.append((False, p, op[2]))
                    setattr(model, PNAMES[p], np_vals(op[2], h['shape']))
                else:
                    stored = getattr(model, PNAMES[p])
                    if stored is None:
                        rops.append((True, p, []))
                    else:
                        res = aug_apply(np.array(stored, order='F', copy=True), op[2], op[3])
                        rops.append((True, p, [float_to_val(x) for x in res.ravel('F')]))
                    # exactly what `model.<p> op= k` does: read, operate in place, assign back
                    setattr(model, PNAMES[p], aug_apply(getattr(model, PNAMES[p]), op[2], op[3]))
                steps.append(0)
            except Exception as e:
                steps.append(err_code(e))
        h['rops'] = rops
    case = {'isotropic': 0, 'HTI': 1, 'VTI': 2, 'triaxial': 3}.get(model.case, model.case)
    state = []
    for pn in PNAMES:
        a = getattr(model, pn)
        state.append(None if a is None else [cell_code(x) for x in np.asarray(a).ravel('F')])
    return (0, steps, (case, state))


def show_ops(h):
    out = []
    for op in h['ops']:
        if op[0] == 'set':
            out.append(['set', PNAMES[op[1]], [list(x) for x in op[2]]])
        else:
            out.append(['aug', PNAMES[op[1]], op[2], repr(op[3])])
    return out


def history_coq(h):
    def opt(v):
        return 'None' if v is None else '(Some [' + '; '.join(to_coq(x) for x in v) + '])'
    ops = '; '.join(f"({V.coq_bool(aug)}, {PCOQ[p]}, [" + '; '.join(to_coq(x) for x in vals) + "])"
                    for aug, p, vals in h['rops'])
    init = ' '.join(opt(v) for v in h['init'])
    return f"Eval vm_compute in run_history {V.coq_str(h['mapping'])} {init} [{ops}]."


def parse_history(ans, h):
    """(init code, [step codes], (case, [cells or None]*5)) from the printed term."""
    import re
    ints = [int(x) for x in re.findall(r'-?\d+', ans)]
    pos = 0
    init = ints[pos]
    pos += 1
    if init != 0:
        return (init, [], None)
    nops = len(h['rops'])
    steps = ints[pos:pos + nops]
    pos += nops
    case = ints[pos]
    pos += 1
    state = []
    rest = ints[pos:]
    # the remaining ints are: flag, then triples ... ; cells per property = ncell when flag = 1
    ncell = h['shape'][0] * h['shape'][1] * h['shape'][2]
    k = 0
    for _ in range(5):
        flag = rest[k]
        k += 1
        if flag == 0:
            state.append(None)
        else:
            cells = []
            for _c in range(ncell):
                cells.append(tuple(rest[k:k + 3]))
                k += 3
            state.append(cells)
    if k != len(rest):
        raise ValueError('unparsed output: ' + ans[:200])
    return (0, steps, (case, state))


def check_histories(ctx, n, dis, hist, samples):
    rng = ctx.rng
    hs = [gen_history(rng, i) for i in range(n)]
    impls = {id(h): run_history_impl(h) for h in hs}      # also resolves augmented ops (h['rops'])
    chunks = [hs[i:i + 100] for i in range(0, len(hs), 100)]
    texts = []
    for ci, ch in enumerate(chunks):
        texts.append((f"c14_hist_{ci}",
                      K.CASE_HEADER + "From Coq Require Import String.\n"
                      "From V Require Import Model.Maps.\n"
                      + '\n'.join(history_coq(h) for h in ch) + '\n'))
    res = V.coq_eval_many(texts)
    nontriv = set()
    nev = 0
    for ci, ch in enumerate(chunks):
        rc, out = res[f"c14_hist_{ci}"]
        if rc != 0:
            dis.append({'what': 'validation model does not evaluate', 'log': out[-1500:]})
            continue
        answers = V.eval_answers(out)
        if len(answers) != len(ch):
            dis.append({'what': 'validation model: answer count mismatch', 'log': out[-800:]})
            continue
        for h, ans in zip(ch, answers):
            nev += 1
            model = parse_history(ans, h)
            impl = impls[id(h)]
            key = f"init={impl[0]} steps={sorted(set(map(str, impl[1])))}"
            hist[key] = hist.get(key, 0) + 1
            for op, st in zip(h['ops'], impl[1]):
                if op[0] == 'aug':
                    kk = f"aug {op[2]} -> {st}"
                    hist[kk] = hist.get(kk, 0) + 1
            if impl[0] != 0 or any(s != 0 for s in impl[1]):
                nontriv.add((h['map'], str(impl[0]), tuple(map(str, impl[1])),
                             tuple(v is None for v in h['init'])))
            if len(samples) < 6 and (impl[0] != 0 or impl[1]):
                samples.append({'mapping': h['mapping'], 'shape': list(h['shape']),
                                'init': [None if v is None else [list(x) for x in v] for v in h['init']],
                                'ops': show_ops(h),
                                'outcome': [impl[0], impl[1]]})
            same = (impl[0] == model[0] and list(impl[1]) == list(model[1]))
            if same and impl[2] is not None:
                ic, ist = impl[2]
                mc, mst = model[2]
                same = (ic == mc) and all(
                    (a is None and b is None) or
                    (a is not None and b is not None and [tuple(x) for x in a] == [tuple(x) for x in b])
                    for a, b in zip(ist, mst))
            if not same:
                dis.append({'what': 'construct/assign history: implementation and validation model disagree',
                            'case': {'mapping': h['mapping'], 'shape': list(h['shape']),
                                     'init': [None if v is None else [list(x) for x in v] for v in h['init']],
                                     'ops': show_ops(h)},
                            'impl': repr(impl)[:600], 'model': repr(model)[:600]})
    return nev, len(nontriv)


# ------------- (f) fault paths: refused assignments on ONE Model object, then continued use
INF = float('inf')
NAN = float('nan')
FAULT_LIN = [('zero', 0.0), ('negzero', -0.0), ('negative', -1.5), ('inf', INF), ('ninf', -INF), ('nan', NAN)]
FAULT_LG = [('inf', INF), ('ninf', -INF), ('nan', NAN), ('lg>308', 400.0), ('lg<-308', -400.0)]
FAULT_LN = [('inf', INF), ('ninf', -INF), ('nan', NAN), ('ln>709', 800.0), ('ln<-745', -800.0)]


def fault_candidates(name, p):
    """Raw cell values whose conductivity (mu_r / epsilon_r: the value) is zero, negative, inf or
    nan -- every way the slot can express them (Resistivity: rho = 0 is sigma = inf, rho = inf is
    sigma = 0; log maps: +-inf and finite values beyond the float range of 10**x / exp(x))."""
    if p >= 3 or name in ('Conductivity', 'Resistivity'):
        return FAULT_LIN
    return FAULT_LG if name.startswith('Lg') else FAULT_LN


def cond_class(name, p, raw):
    """Class of the back-mapped conductivity of a raw value (implementation's own backward)."""
    if p < 3:
        try:
            with np.errstate(all='ignore'):
                c = float(impl_map(name).backward(np.array([raw]))[0])
        except Exception:
            c = NAN
    else:
        c = raw
    if c != c:
        return 'nan'
    if c == INF:
        return 'inf'
    if c == 0:
        return 'zero'
    return 'negative' if c < 0 else 'positive'


def gen_fault_history(rng, ci):
    """Deterministic classes: mapping = ci mod 6, anisotropy case = (ci div 6) mod 4; the triaxial
    case carries mu_r and epsilon_r (so every mapping meets all five parameters), the others a
    random subset (assignments to the missing ones are refused with 'initiated without').  Ops:
    for every parameter every refused kind (one cell of the current values replaced), in random
    order, and ONE accepted assignment somewhere in between."""
    name = NAMES[ci % 6]
    aniso = (ci // 6) % 4
    shape = [(2, 1, 1), (1, 2, 1), (1, 1, 2)][(ci // 2) % 3]
    if aniso == 3:
        hm, he = True, True
    else:
        hm, he = rng.random() < 0.5, rng.random() < 0.5
    present = [True, aniso in (1, 3), aniso in (2, 3), hm, he]
    init = [gen_array(rng, name, p, 2, False) if present[p] else None for p in range(5)]
    cur = [None if v is None else list(v) for v in init]
    plan = []
    for p in range(5):
        if present[p]:
            plan += [(p, kind, raw) for kind, raw in fault_candidates(name, p)]
        else:
            plan += [(p, 'none-valid', None), (p, 'none-' + fault_candidates(name, p)[0][0],
                                               fault_candidates(name, p)[0][1])]
    rng.shuffle(plan)
    pos_ok = rng.randint(1, len(plan) - 1)
    ops = []
    for k, (p, kind, raw) in enumerate(plan):
        if k == pos_ok:
            q = rng.choice([i for i in range(5) if present[i]])
            vals = gen_array(rng, name, q, 2, False)
            ops.append((q, vals, 'valid'))
            cur[q] = list(vals)
        base = list(cur[p]) if cur[p] is not None else gen_array(rng, name, p, 2, False)
        if raw is not None:
            cell = rng.randint(0, 1)
            base[cell] = float_to_val(raw)
            if rng.random() < 0.15:
                base = [base[cell]] * 2           # handed over as a scalar
        ops.append((p, base, kind))
    freq = -K.dy_pos(rng) if rng.random() < 0.4 else K.dy_pos(rng)
    hs = [[K.dy_pos(rng) for _ in range(m)] for m in shape]
    return dict(map=name, aniso=aniso, shape=shape, init=init, ops=ops, freq=freq, hs=hs)


def describe_fault(h, upto=None):
    ops = h['ops'] if upto is None else h['ops'][:upto + 1]
    return {'mapping': h['map'], 'aniso': h['aniso'], 'shape': list(h['shape']), 'freq': h['freq'], 'hs': h['hs'],
            'init': {PNAMES[p]: (None if v is None else [repr(to_float(x)) for x in v])
                     for p, v in enumerate(h['init'])},
            'ops': [{'assign': PNAMES[p], 'values': [repr(to_float(x)) for x in vals], 'kind': kind}
                    for p, vals, kind in ops]}


def _state_codes(model):
    st = []
    for pn in PNAMES:
        a = getattr(model, pn)
        st.append(None if a is None else [cell_code(x) for x in np.asarray(a).ravel('F')])
    return st


def _coeff_arrays(model, sfield):
    import emg3d
    vm = emg3d.models.VolumeModel(model, sfield)
    return [np.array(vm.eta_x), np.array(vm.eta_y), np.array(vm.eta_z), np.array(vm.zeta)]


def run_fault_impl(h):
    """The history on ONE Model object: every assignment inside try/except, and after EACH op the
    stored arrays and a VolumeModel built from the very same object."""
    import emg3d
    grid = emg3d.TensorMesh(h['hs'], (0, 0, 0))
    sfield = emg3d.Field(grid, frequency=h['freq'])
    kw = {PNAMES[p]: (None if v is None else np_vals(v, h['shape'])) for p, v in enumerate(h['init'])}
    steps, states, coeffs = [], [], []
    with warnings.catch_warnings(), np.errstate(all='ignore'):
        warnings.simplefilter('ignore')
        model = emg3d.Model(grid, mapping=h['map'], **kw)
        for p, vals, kind in h['ops']:
            try:
                setattr(model, PNAMES[p], np_vals(vals, h['shape']))
                steps.append(0)
            except Exception as e:
                steps.append(err_code(e))
            states.append(_state_codes(model))
            try:
                coeffs.append(_coeff_arrays(model, sfield))
            except Exception as e:
                coeffs.append(repr(e))
    return steps, states, coeffs, sfield


def _vals_codes(vals):
    return [cell_code(to_float(v)) for v in vals]


def _cond_state(name, vals5, shape):
    """conductivities (by the extracted backward tree) / mu_r / epsilon_r arrays of a state"""
    t = trees()[name]
    out = {}
    for key, p in (('x', 0), ('y', 1), ('z', 2), ('mu', 3), ('eps', 4)):
        v = vals5[p]
        if v is None:
            out[key] = None
            continue
        fl = [to_float(c) for c in v]
        if p < 3:
            fl = [MG.evaluate(t['backward'], x, t) for x in fl]
        out[key] = np.array(fl).reshape(shape, order='F')
    return out


def parse_history_sp(ans, nops):
    import re
    ints = [int(x) for x in re.findall(r'-?\d+', ans)]
    if ints[0] != 0:
        return ints[0], [], []
    steps = ints[1:1 + nops]
    rest = ints[1 + nops:]
    states = []
    k = 0
    for _ in range(nops):
        k += 1                                   # anisotropy case
        st = []
        for _p in range(5):
            flag = rest[k]
            k += 1
            if flag == 0:
                st.append(None)
            else:
                st.append([tuple(rest[k + 3 * c:k + 3 * c + 3]) for c in range(2)])
                k += 6
        states.append(st)
    if k != len(rest):
        raise ValueError('unparsed output: ' + ans[:200])
    return 0, steps, states


def check_fault_paths(ctx, n, dis, hist, samples):
    rng = ctx.rng
    hs = [gen_fault_history(rng, ci) for ci in range(n)]
    texts, runs = [], []
    for ci, h in enumerate(hs):
        try:
            run = run_fault_impl(h)
        except Exception as e:
            dis.append({'what': 'fault-path history: a valid model could not be constructed', 'case': describe_fault(h),
                        'impl': repr(e), 'model': 'accepted'})
            runs.append(None)
            continue
        runs.append(run)
        sfield = run[3]
        vol = np.multiply.outer(np.multiply.outer(h['hs'][0], h['hs'][1]), h['hs'][2])
        sval, smu0 = complex(sfield.sval), complex(sfield.smu0)
        # the two states the SPECIFICATION allows: initial, and after the one accepted assignment
        s0 = [None if v is None else list(v) for v in h['init']]
        s1 = [None if v is None else list(v) for v in s0]
        for p, vals, kind in h['ops']:
            if kind == 'valid':
                s1[p] = list(vals)
        h['spec_states'] = (s0, s1)

        def opt(v):
            return 'None' if v is None else '(Some [' + '; '.join(to_coq(x) for x in v) + '])'
        ops = '; '.join(f"(@OpSet Q {PCOQ[p]} [" + '; '.join(to_coq(x) for x in vals) + "])" for p, vals, _ in h['ops'])
        lines = [f"Eval vm_compute in run_history_sp {V.coq_str(h['map'])} {' '.join(opt(v) for v in h['init'])} [{ops}].",
                 _coeff_items(h['shape'], vol, smu0, sval, h['aniso'], _cond_state(h['map'], s0, h['shape'])),
                 _coeff_items(h['shape'], vol, smu0, sval, h['aniso'], _cond_state(h['map'], s1, h['shape']))]
        texts.append((ci, '\n'.join(lines) + '\n'))
    # six histories per file (loading the libraries dominates the cost of a file)
    head = (K.CASE_HEADER + "From Coq Require Import String.\n"
            "From V Require Import Model.VolumeModel Model.Maps Model.MapsSetter.\n")
    files, where = [], {}
    for k in range(0, len(texts), 6):
        grp = texts[k:k + 6]
        for j, (ci, _) in enumerate(grp):
            where[ci] = (f"c14_fp_{k // 6}", j)
        files.append((f"c14_fp_{k // 6}", head + ''.join(t for _, t in grp)))
    res = V.coq_eval_many(files)
    split = {}
    for fname, _ in files:
        rc, out = res[fname]
        split[fname] = (rc, out, V.eval_answers(out) if rc == 0 else [])
    nev = 0
    for ci, h in enumerate(hs):
        if runs[ci] is None:
            continue
        fname, j = where[ci]
        rc, out, allans = split[fname]
        if rc != 0 or len(allans) < 3 * j + 3:
            dis.append({'what': 'fault-path model evaluation failed', 'log': out[-1500:]})
            continue
        answers = allans[3 * j:3 * j + 3]
        m_init, m_steps, m_states = parse_history_sp(answers[0], len(h['ops']))
        refs = [[complex(float(a), float(b)) for a, b in V.parse_cpairs(answers[k])] for k in (1, 2)]
        spec_codes = [[None if v is None else _vals_codes(v) for v in s] for s in h['spec_states']]
        steps, states, coeffs, _ = runs[ci]
        if ci < 2:
            samples.append({'fault_path_history': describe_fault(h), 'outcomes': [str(x) for x in steps]})
        if m_init != 0:
            dis.append({'what': 'fault-path history: the model refuses a valid construction',
                        'case': describe_fault(h), 'impl': 'accepted', 'model': m_init})
            continue
        for k, (p, vals, kind) in enumerate(h['ops']):
            nev += 1
            key = f"fault:{'log' if (p < 3 and h['map'][0] == 'L') else 'lin'}:{kind} -> {steps[k]}"
            hist[key] = hist.get(key, 0) + 1
            case = None
            if steps[k] != m_steps[k]:
                case = ('outcome of the assignment differs', str(steps[k]), str(m_steps[k]))
            elif states[k] != m_states[k]:
                case = ('stored arrays after the assignment differ from the model state',
                        repr(states[k]), repr(m_states[k]))
            else:
                which = [j for j in (0, 1) if m_states[k] == spec_codes[j]]
                want = 1 if any(kd == 'valid' for _, _, kd in h['ops'][:k + 1]) else 0
                if want not in which:
                    case = ('setters as generated from the source: the model state after a REFUSED assignment is not '
                            'the state before it (model and implementation agree with each other)',
                            repr(states[k]), 'specification: ' + repr(spec_codes[want]))
                elif isinstance(coeffs[k], str):
                    case = ('VolumeModel after the assignment raised', coeffs[k], 'coefficients')
                else:
                    ref = refs[want]
                    j = 0
                    for idx in itertools.product(*[range(m) for m in h['shape']]):
                        for c in range(4):
                            m = ref[j]
                            j += 1
                            iv = complex(coeffs[k][c][idx])
                            if case is None and not abs(iv - m) <= 1e-12 * max(abs(m), 1e-300):
                                case = ('VolumeModel.%s built after the assignment differs from the coefficients '
                                        'of the model state' % ['eta_x', 'eta_y', 'eta_z', 'zeta'][c], str(iv), str(m))
            if case:
                dis.append({'what': 'fault-path history (step %d, %s %s): %s' % (k, PNAMES[p], kind, case[0]),
                            'case': describe_fault(h, k), 'step': k, 'impl': case[1][:600], 'model': case[2][:600]})
                break
    return nev


# --------------------------------------------------------- (e) map selection
# ------------------------------------------- (h) gradient glue: map.derivative_chain per ROW (round 7)
# Simulation.gradient / jtvec / jvec convert between d/d(sigma) and d/d(mapped parameter) by applying
# map.derivative_chain to the rows of a (ndir, nx, ny, nz) array.  Row k belongs to the k-th INDEPENDENT
# direction of the anisotropy case (isotropic: x; HTI: x, y; VTI: x, z; triaxial: x, y, z) and must be
# scaled by d sigma / d m evaluated at the property array OF THAT direction.
GLUE_CASES = ['isotropic', 'HTI', 'VTI', 'triaxial']
GLUE_DIRS = {'isotropic': 'x', 'HTI': 'xy', 'VTI': 'xz', 'triaxial': 'xyz'}
GLUE_QUICK = ['Resistivity', 'LgConductivity', 'LnResistivity']
GLUE_HS = [[80.0, 100.0, 125.0, 100.0], [100.0, 125.0, 80.0, 100.0], [125.0, 80.0, 100.0, 100.0]]
GLUE_TOL = 1e-6           # measured on the unchanged tree: <= 1e-13 (fields identical across mappings)
_LN10 = float(np.log(10.0))
# independent of emg3d.maps AND of the extracted trees: m(sigma) and d sigma / d m written out by hand
GLUE_ORACLE = {
    'Conductivity': (lambda s: s, lambda m: np.ones_like(m)),
    'LgConductivity': (lambda s: np.log10(s), lambda m: _LN10 * 10.0 ** m),
    'LnConductivity': (lambda s: np.log(s), lambda m: np.exp(m)),
    'Resistivity': (lambda s: 1.0 / s, lambda m: -1.0 / m ** 2),
    'LgResistivity': (lambda s: -np.log10(s), lambda m: -_LN10 * 10.0 ** (-m)),
    'LnResistivity': (lambda s: -np.log(s), lambda m: -np.exp(-m)),
}


def glue_inputs(case, seed):
    """Everything random of one case, drawn in a fixed order (independent of the mapping)."""
    npr = np.random.RandomState(seed)
    sig = {d: 10.0 ** npr.uniform(-1.0, 0.5, (4, 4, 4)) for d in 'xyz'}   # cell-wise, x != y != z
    pert = npr.uniform(-1, 1, (1, 2, 1)) + 1j * npr.uniform(-1, 1, (1, 2, 1))
    dvec = npr.uniform(-1, 1, (1, 2, 1)) + 1j * npr.uniform(-1, 1, (1, 2, 1))
    mvec = npr.uniform(0.25, 1, (3, 4, 4, 4)) * npr.choice([-1.0, 1.0], (3, 4, 4, 4))
    return sig, pert, dvec, mvec


def glue_run(case, name, seed, obs=None):
    """ONE real Simulation (4x4x4 cells, 1 source, 2 receivers, gridding='same', one multigrid cycle per
    solve -- the relations tested are exact for any deterministic linear solve) with the conductivities of
    `seed` expressed in mapping `name`: data, gradient, jtvec(dvec), and jvec as a function."""
    import emg3d
    dirs = GLUE_DIRS[case]
    sig, pert, dvec, mvec = glue_inputs(case, seed)
    grid = emg3d.TensorMesh(GLUE_HS, (0, 0, 0))
    props = {d: GLUE_ORACLE[name][0](sig[d]) for d in dirs}
    with np.errstate(all='ignore'), warnings.catch_warnings():
        warnings.simplefilter('ignore')
        model = emg3d.Model(grid, mapping=name, **{'property_' + d: props[d].copy() for d in dirs})
        survey = emg3d.Survey(sources=emg3d.TxElectricDipole((110, 150, 120, 30, 10)),
                              receivers=[emg3d.RxElectricPoint((290, 250, 200, 10, 10)),
                                         emg3d.RxElectricPoint((250, 140, 260, 40, -5))],
                              frequencies=1.0, relative_error=0.02, noise_floor=1e-18)
        sim = emg3d.Simulation(survey, model, gridding='same', max_workers=1, receiver_interpolation='linear',
                               verb=-1, tqdm_opts=False,
                               solver_opts={'tol': 1e-12, 'maxit': 1, 'sslsolver': False,
                                            'semicoarsening': False, 'linerelaxation': False})
        sim.compute()
        syn = np.array(sim.data.synthetic.data, copy=True)
        if obs is None:
            obs = syn * (1 + 0.3 * pert)
        sim.survey.data['observed'][...] = obs
        nd = len(dirs)
        grad = np.array(sim.gradient, copy=True).reshape(nd, 4, 4, 4)
        jt = np.array(sim.jtvec(dvec * np.abs(syn)), copy=True).reshape(nd, 4, 4, 4)
        grad2 = np.array(sim.gradient, copy=True).reshape(nd, 4, 4, 4)     # gradient after a jtvec
        return {'dirs': dirs, 'props': props, 'syn': syn, 'obs': obs, 'grad': grad, 'jt': jt, 'grad2': grad2,
                'jvec': (lambda v: np.array(sim.jvec(v), copy=True)), 'mvec': mvec[:nd], 'sig': sig}


def _relmax(a, b):
    """(max |a - b| / max |b|, flat index of the worst entry); nan-safe (nan counts as infinite)."""
    d = np.abs(np.asarray(a) - np.asarray(b)).ravel()
    d = np.where(np.isfinite(d), d, np.inf)
    scale = float(np.max(np.abs(b)))
    i = int(np.argmax(d))
    return (float(d[i]) / scale if scale > 0 and np.isfinite(scale) else float('inf')), i


def glue_compare(case, name, seed, factor, tol=GLUE_TOL):
    """Compare mapping `name` with mapping 'Conductivity' on the same conductivities.  `factor(name, prop)`
    gives d sigma / d m cell-wise.  Returns (list of findings, worst relative deviation, n comparisons)."""
    ref = glue_run(case, 'Conductivity', seed)
    cur = glue_run(case, name, seed, obs=ref['obs'])
    dirs = ref['dirs']
    out, worst, n = [], 0.0, 0

    def note(what, row, idx, observed, required, err):
        out.append({'what': what, 'case': case, 'mapping': name, 'np_seed': seed,
                    'row': row, 'direction': (dirs[row] if row is not None else None),
                    'index': idx, 'observed': repr(observed), 'required': repr(required), 'rel_err': err})

    for k, d in enumerate(dirs):
        if not (np.max(np.abs(ref['grad'][k])) > 0 and np.max(np.abs(ref['jt'][k])) > 0):
            note('degenerate case: conductivity gradient row is zero', k, None, 0.0, 'non-zero', float('inf'))
    e, i = _relmax(cur['syn'], ref['syn'])
    n += 1
    worst = max(worst, e)
    if not e <= tol:
        note('synthetic data depend on the mapping', None, i, complex(cur['syn'].ravel()[i]),
             complex(ref['syn'].ravel()[i]), e)
    fac = [np.asarray(factor(name, cur['props'][d]), float) for d in dirs]
    for what, key in (('gradient', 'grad'), ('jtvec', 'jt'), ('gradient after jtvec', 'grad2')):
        for k, d in enumerate(dirs):
            req = ref[key][k] * fac[k]
            e, i = _relmax(cur[key][k], req)
            n += 1
            worst = max(worst, e)
            if not e <= tol:
                idx = [int(x) for x in np.unravel_index(i, (4, 4, 4))]
                note(f'{what}: row {k} (direction {d}) of d/d{name} != row {k} of d/dConductivity * '
                     f'dsigma/dm(property_{d})', k, idx, float(cur[key][k].ravel()[i]), float(req.ravel()[i]), e)
                out[-1]['mapped_properties_at_cell'] = {dd: float(cur['props'][dd][tuple(idx)]) for dd in dirs}
                out[-1]['conductivity_gradient_row_at_cell'] = float(ref[key][k][tuple(idx)])
                out[-1]['required_factor_at_cell'] = float(fac[k][tuple(idx)])
    # jvec: J_m v == J_sigma (dsigma/dm(property of the row) * v), v with one non-zero ROW at a time and all rows
    nd = len(dirs)
    for rows in [list(range(nd))] + ([[k] for k in range(nd)] if nd > 1 else []):
        v = np.zeros_like(cur['mvec'])
        v[rows] = cur['mvec'][rows]
        jm = cur['jvec'](v.copy())
        js = ref['jvec'](np.array([fac[k] * v[k] for k in range(nd)]))
        e, i = _relmax(jm, js)
        n += 1
        worst = max(worst, e)
        if not (e <= tol and np.max(np.abs(js)) > 0):
            row = rows[0] if len(rows) == 1 else None
            out.append({'what': f'jvec: J_{name} v != J_Conductivity (dsigma/dm(property of the row) * v), '
                                f'v non-zero in rows {rows} (directions {[dirs[k] for k in rows]})',
                        'case': case, 'mapping': name, 'np_seed': seed, 'row': row,
                        'direction': (dirs[row] if row is not None else None), 'index': i,
                        'observed': repr(complex(jm.ravel()[i])), 'required': repr(complex(js.ravel()[i])),
                        'rel_err': e})
    return out, worst, n


def check_gradient_glue(ctx, dis, hist, samples):
    """Stream (h): required factor = the chain expression EXTRACTED from maps.py (the same tree the Coq
    theorems `chain_is_derivative` are about), applied to the property of the row's own direction."""
    tr = trees()

    def factor(name, prop):
        t = tr[name]
        return np.array([MG.evaluate(t['chain'], float(x), t) for x in prop.ravel()]).reshape(prop.shape)

    names = [n for n in NAMES if n != 'Conductivity'] if ctx.thorough else GLUE_QUICK
    count, worst = 0, 0.0
    # the rows per case used below are those of the Coq model (rows_of, Model/GradGlue.v)
    rc, out = V.coq_eval('c14_glue', K.CASE_HEADER + "From V Require Import Model.GradGlue.\n"
                         "Eval vm_compute in map (fun c => map dcode (rows_of c)) all_cases.\n")
    import re
    rows = ([[int(x) for x in re.findall(r'\d+', grp)] for grp in re.findall(r'\[([^\[\]]*)\]', V.eval_answers(out)[0])]
            if rc == 0 else None)
    if rows != [['xyz'.index(d) for d in GLUE_DIRS[c]] for c in GLUE_CASES]:
        dis.append({'what': 'rows_of (Model/GradGlue.v) differs from the rows driven by the stream',
                    'model': repr(rows), 'log': out[-800:] if rc else ''})
    for case in GLUE_CASES:
        for name in names:
            seed = ctx.rng.randint(0, 2 ** 31 - 1)
            try:
                found, w, n = glue_compare(case, name, seed, factor)
            except Exception as e:
                dis.append({'what': f'gradient glue stream raised {e!r}', 'case': {'case': case, 'mapping': name,
                                                                                  'np_seed': seed}})
                continue
            count += n
            worst = max(worst, w) if not found else worst
            hist[f'glue:{case}'] = hist.get(f'glue:{case}', 0) + n
            for f in found[:2]:
                dis.append({'what': 'Simulation glue: ' + f['what'],
                            'case': {k: f[k] for k in ('case', 'mapping', 'np_seed', 'row', 'direction', 'index')},
                            'impl': f['observed'], 'model': f['required']})
            if len(samples) < 8 and case == 'VTI' and name == names[0]:
                samples.append({'stream': 'gradient glue', 'case': case, 'mapping': name, 'np_seed': seed,
                                'comparisons': n, 'worst_rel_dev': w})
    hist['glue:worst_rel_dev'] = worst
    return count


def search_gradient_glue(rng, thorough):
    """Oracle independent of emg3d.maps and of the Coq model: hand-written m(sigma) and dsigma/dm."""
    names = [n for n in NAMES if n != 'Conductivity'] if thorough else GLUE_QUICK
    for case in GLUE_CASES:
        for name in names:
            seed = rng.randint(0, 2 ** 31 - 1)
            try:
                found, _, _ = glue_compare(case, name, seed, lambda nm, p: GLUE_ORACLE[nm][1](p))
            except Exception as e:
                glue_run(case, 'Conductivity', seed)       # raises too: not a matter of the mapping -> propagate
                found = [{'what': f'data / gradient / jtvec / jvec raises under mapping {name} but not under '
                                  'Conductivity for the same conductivities', 'case': case, 'mapping': name,
                          'np_seed': seed, 'observed': repr(e), 'required': 'the values under Conductivity '
                          'times dsigma/dm(property of the row)'}]
            if found:
                f = found[0]
                return dict(f, kind='gradient_glue',
                            signature=f"Simulation ({case}, mapping {name}): {f['what']}",
                            setup="TensorMesh(h=%r, origin 0); property_<d> = m(sigma_d), sigma_d = 10**RandomState("
                                  "np_seed).uniform(-1, .5, (4,4,4)) drawn for x, y, z in this order; "
                                  "TxElectricDipole(110,150,120,30,10), RxElectricPoint(290,250,200,10,10) and "
                                  "(250,140,260,40,-5), 1 Hz, gridding='same', one MG cycle (see glue_run)" % (GLUE_HS,))
    return None


def check_selection(ctx, dis):
    import emg3d
    grid = emg3d.TensorMesh([[1.0], [1.0], [1.0]], (0, 0, 0))
    names = NAMES + ['Foo', 'conductivity', '', 'LgLgResistivity', 'Resistivity ']
    text = (K.CASE_HEADER + "From Coq Require Import String.\nFrom V Require Import Model.Maps.\n"
            "Definition code (o : option mapid) : Z := match o with None => (-1) | Some m => "
            "match m with MConductivity => 0 | MLgConductivity => 1 | MLnConductivity => 2 "
            "| MResistivity => 3 | MLgResistivity => 4 | MLnResistivity => 5 end end.\n"
            "Eval vm_compute in [" + '; '.join(f"code (map_of_name {V.coq_str(n)})" for n in names) + "].\n"
            "Eval vm_compute in map (fun m => if map_is_log m then 1 else 0) all_maps.\n")
    rc, out = V.coq_eval('c14_sel', text)
    if rc != 0:
        dis.append({'what': 'map selection model does not evaluate', 'log': out[-1500:]})
        return 0
    import re
    ans = V.eval_answers(out)
    codes = [int(x) for x in re.findall(r'-?\d+', ans[0])]
    logs = [int(x) for x in re.findall(r'-?\d+', ans[1])]
    for n, c in zip(names, codes):
        try:
            m = emg3d.Model(grid, 1.0, mapping=n)
            got = NAMES.index(m.map.name) if (m.map.name in NAMES and
                                               type(m.map).__name__ == 'Map' + n) else -2
        except AttributeError:
            got = -1
        if got != c:
            dis.append({'what': 'map selection by name differs', 'case': {'mapping': n},
                        'impl': got, 'model': c})
    for n, lg in zip(NAMES, logs):
        if int(impl_map(n).name.startswith('L')) != lg:
            dis.append({'what': 'map_is_log differs from name.startswith("L")', 'case': {'map': n}})
    # default mapping of Model is Resistivity
    if emg3d.Model(grid).map.name != 'Resistivity':
        dis.append({'what': 'default mapping is not Resistivity', 'impl': emg3d.Model(grid).map.name})
    return len(names) + 6


def correspondence(ctx):
    dis, hist, samples = [], {}, []
    n_m = check_methods(ctx, 400 if ctx.thorough else 60, dis, hist)
    n_t = check_twins(ctx, 200 if ctx.thorough else 40, dis)
    n_c = check_coefficients(ctx, 32 if ctx.thorough else 8, dis, hist, samples)
    n_c += check_vm_histories(ctx, 96 if ctx.thorough else 24, dis, hist, samples)
    n_h, nt = check_histories(ctx, 3000 if ctx.thorough else 400, dis, hist, samples)
    n_f = check_fault_paths(ctx, 72 if ctx.thorough else 24, dis, hist, samples)
    n_s = check_selection(ctx, dis)
    n_g = check_gradient_glue(ctx, dis, hist, samples)
    return {
        'evaluations': n_m + n_t + n_c + n_h + n_f + n_s + n_g,
        'distinct_nontrivial': nt,
        'rule': "methods: sigma log-uniform over 1e-6..1e6 plus decade points, six maps, forward/backward/"
                "derivative_chain vs evaluation of the extracted tree (1e-12); twins: dyadic +- values vs "
                "vm_compute on Q; coefficients: random 1..2^3 grids, anisotropy case cycling, mu_r/eps_r/"
                "frequency-or-Laplace random, conductivities = 8-bit mantissa * 2^(-20..20), six maps each, "
                "vs eta_of/zeta_of on Q (1e-12 rel); VolumeModel histories: ONE Model object per (map, anisotropy "
                "case) [all 24 combinations], VolumeModel built after construction and after each of 2..4 edits "
                "(in place through the getter view on a random block -- always the first edit --, setter with "
                "array / scalar, in-place mu_r/epsilon_r), every build compared with eta_of/zeta_of on the "
                "CURRENT conductivities; histories: construct (5% unknown map name, each given "
                "property malformed with p=0.12) then 0..5 assignments (malformed with p=0.4: zero, -0.0, "
                "negative, nan, +-inf, values beyond the float range of 10**x/exp(x); assignments to None "
                "properties; 35% of the ops are augmented assignments `model.p op= k`, op in *= += -= /=, k in "
                "{2, .5, 3, -1, 0, 1, nan, inf, +-1e4, 400, 2^-900, random}, performed exactly as Python does: "
                "in-place numpy operator on the stored array, then the setter with that array); fault paths: 24 (thorough "
                "72) histories on ONE Model object, (mapping, anisotropy case) enumerated, triaxial with mu_r and "
                "epsilon_r: for every parameter every refused kind (lin: 0, -0.0, -1.5, +-inf, nan; Lg*: +-inf, nan, "
                "+-400; Ln*: +-inf, nan, +-800; None property: a valid and an invalid value) in one cell or as a "
                "scalar, random order, one accepted assignment in between; after EACH op outcome, the five stored "
                "arrays and the VolumeModel of the same object vs run_history_sp (setter order as generated) and "
                "eta_of/zeta_of on the model state; gradient glue (h): real Simulations (4x4x4 cells, 1 source, 2 "
                "receivers, gridding='same', one multigrid cycle per solve), anisotropy case {isotropic, HTI, VTI, "
                "triaxial} x mapping {Resistivity, LgConductivity, LnResistivity} (thorough: all five non-identity "
                "maps), cell-wise random sigma_x != sigma_y != sigma_z: data, every row of gradient / jtvec(v) / "
                "gradient-after-jtvec vs the same row under mapping Conductivity times the EXTRACTED chain expression "
                "at the property of the row's own direction (rows as rows_of in Model/GradGlue.v), jvec with all rows "
                "and with one non-zero row at a time, 1e-6 relative; distinct non-trivial = distinct "
                "(map, outcome sequence, None pattern) with at least one rejection",
        'samples': samples[:8],
        'traces_validated_against_impl': n_h + n_f,
        'histogram': hist,
        'disagreements': dis,
    }


# ------------------------------------------------------------------ searcher
def search_maps(rng, n):
    """Round trip and derivative factor, directly on the implementation
    (complex-step derivative: no model involved)."""
    for name in NAMES:
        mp = impl_map(name)
        for _ in range(n):
            s = logu(rng)
            with np.errstate(all='ignore'):
                x = float(mp.forward(np.array([s]))[0])
                back = float(mp.backward(np.array([x]))[0])
            if not (abs(back - s) <= 1e-10 * s):
                return {'signature': f'Map{name}: backward(forward(sigma)) != sigma',
                        'kind': 'roundtrip', 'map': name, 'sigma': float.hex(s),
                        'observed': repr(back), 'required': repr(s)}
            h = 1e-30
            with np.errstate(all='ignore'):
                d = complex(mp.backward(np.array([complex(x, h)]))[0]).imag / h
                g = np.array([1.0])
                mp.derivative_chain(g, np.array([x]))
            if not (abs(g[0] - d) <= 1e-9 * max(abs(d), 1e-300)):
                return {'signature': f'Map{name}: derivative_chain factor != d backward / d mapped',
                        'kind': 'chain', 'map': name, 'mapped': float.hex(x),
                        'observed': repr(float(g[0])), 'required': repr(d)}
    return None


def search_coeffs(rng, n, solve=False):
    import emg3d
    for _ in range(n):
        shape = (rng.randint(1, 3), rng.randint(1, 3), rng.randint(1, 3))
        if solve:
            shape = (4, 4, 4)
        hs = [[rng.uniform(0.5, 3) for _ in range(m)] for m in shape]
        if solve:
            hs = [[0.8, 1.0, 1.25, 1.0], [1.0, 1.25, 0.8, 1.0], [1.25, 0.8, 1.0, 1.0]]
        grid = emg3d.TensorMesh(hs, (0, 0, 0))
        aniso = rng.randint(0, 3)
        seed = rng.randint(0, 2 ** 31 - 1)
        npr = np.random.RandomState(seed)
        lohi = (-2, 1) if solve else (-6, 6)
        sx = 10 ** npr.uniform(*lohi, shape)
        sy = 10 ** npr.uniform(*lohi, shape) if aniso in (1, 3) else None
        sz = 10 ** npr.uniform(*lohi, shape) if aniso in (2, 3) else None
        mu = npr.uniform(0.5, 2, shape) if rng.random() < 0.5 else None
        eps = npr.uniform(0.5, 5, shape) if rng.random() < 0.5 else None
        freq = rng.choice([1.0, 0.25, -3.0])
        sfield = emg3d.Field(grid, frequency=freq)
        if solve:
            sfield = emg3d.get_source_field(grid, (1.7, 2.1, 1.9, 30, 10), frequency=abs(freq))
        ref, refname, reffield = None, None, None
        for name in NAMES:
            mp = impl_map(name)
            with np.errstate(all='ignore'), warnings.catch_warnings():
                warnings.simplefilter('ignore')
                kw = {k: (None if v is None else mp.forward(v.copy()))
                      for k, v in (('property_x', sx), ('property_y', sy), ('property_z', sz))}
                model = emg3d.Model(grid, mapping=name, mu_r=mu, epsilon_r=eps, **kw)
                vm = emg3d.models.VolumeModel(model, sfield)
            cur = [np.array(vm.eta_x), np.array(vm.eta_y), np.array(vm.eta_z), np.array(vm.zeta)]
            if ref is None:
                ref, refname = cur, name
            else:
                for which, a, b in zip(('eta_x', 'eta_y', 'eta_z', 'zeta'), cur, ref):
                    if np.max(np.abs(a - b) / np.abs(b)) > 1e-10:
                        return {'signature': f'VolumeModel.{which} depends on the parametrisation '
                                             f'({name} vs {refname})',
                                'kind': 'coeffs', 'np_seed': seed, 'shape': list(shape),
                                'hs': [[float.hex(x) for x in h] for h in hs], 'aniso': aniso,
                                'has_mu': mu is not None, 'has_eps': eps is not None, 'freq': freq,
                                'observed': repr(complex(a.ravel()[0])),
                                'required': repr(complex(b.ravel()[0]))}
            if solve:
                with warnings.catch_warnings():
                    warnings.simplefilter('ignore')
                    ef = emg3d.solve(model, sfield, tol=1e-8, verb=-1)
                if reffield is None:
                    reffield = ef.field.copy()
                elif (not np.linalg.norm(reffield) > 0 or
                      np.linalg.norm(ef.field - reffield) > 1e-6 * np.linalg.norm(reffield)):
                    return {'signature': f'solved field depends on the parametrisation ({name})',
                            'kind': 'solve', 'np_seed': seed}
    return None


def search_validation(rng, n):
    import emg3d
    grid = emg3d.TensorMesh([[1.0, 1.0], [1.0], [1.0]], (0, 0, 0))
    bad_cond = [0.0, -1.0, float('nan'), float('inf'), float('-inf')]
    for _ in range(n):
        name = rng.choice(NAMES)
        mp = impl_map(name)
        good = np.array([logu(rng), logu(rng)]).reshape(2, 1, 1)
        p = rng.randint(0, 4)
        with np.errstate(all='ignore'), warnings.catch_warnings():
            warnings.simplefilter('ignore')
            gm = mp.forward(good.copy())
            # (1) a valid model must be accepted, at construction and on assignment
            try:
                kw = {pn: (gm.copy() if i < 3 else good.copy()) for i, pn in enumerate(PNAMES)}
                model = emg3d.Model(grid, mapping=name, **kw)
                setattr(model, PNAMES[p], (gm if p < 3 else good).copy())
            except Exception as e:
                return {'signature': 'valid positive finite model rejected', 'kind': 'validation',
                        'map': name, 'prop': PNAMES[p], 'sigma': [float.hex(x) for x in good.ravel()],
                        'observed': repr(e), 'required': 'accepted'}
            # (2) a non-positive / non-finite conductivity (mu_r, eps_r) must be rejected
            b = rng.choice(bad_cond)
            cond = good.copy()
            cond[rng.randint(0, 1), 0, 0] = b
            vals = mp.forward(cond.copy()) if p < 3 else cond
            if p < 3:
                back = mp.backward(np.asarray(vals).copy())
                if np.all(np.isfinite(back)) and np.all(back > 0):
                    continue       # this map cannot express that conductivity (e.g. forward(-1) = nan -> ok)
            for how in ('construct', 'assign'):
                try:
                    if how == 'construct':
                        kw2 = dict(kw)
                        kw2[PNAMES[p]] = vals.copy()
                        emg3d.Model(grid, mapping=name, **kw2)
                    else:
                        setattr(model, PNAMES[p], vals.copy())
                    return {'signature': f'{how}: non-positive or non-finite {"conductivity" if p < 3 else PNAMES[p]} accepted',
                            'kind': 'validation', 'map': name, 'prop': PNAMES[p], 'how': how,
                            'values': [repr(float(x)) for x in np.asarray(vals).ravel()],
                            'observed': 'accepted', 'required': 'ValueError'}
                except ValueError:
                    pass
            # (3) a property that was None cannot be set
            m2 = emg3d.Model(grid, property_x=gm.copy(), mapping=name)
            q = rng.randint(1, 4)
            try:
                setattr(m2, PNAMES[q], (gm if q < 3 else good).copy())
                return {'signature': 'a property that was None could be set', 'kind': 'validation',
                        'map': name, 'prop': PNAMES[q], 'observed': 'accepted', 'required': 'ValueError'}
            except ValueError:
                pass
    return None


def search_history_case(seed):
    """History independence, implementation only: VolumeModel built from ONE Model object along
    a history of edits must equal VolumeModel built from a FRESH Model holding the same values."""
    import random
    rng = random.Random(seed)
    h = gen_vm_history(rng, rng.randint(0, 23))
    try:
        a, _, _ = run_vm_history(h, fresh=False)
        b, _, _ = run_vm_history(h, fresh=True)
    except Exception as e:
        return {'signature': 'history on one Model object with valid values raised', 'kind': 'history',
                'seed': seed, 'history': describe_history(h), 'observed': repr(e)}
    for step, (ca, cb) in enumerate(zip(a, b)):
        for which, x, y in zip(('eta_x', 'eta_y', 'eta_z', 'zeta'), ca, cb):
            if np.max(np.abs(x - y) / np.abs(y)) > 1e-12:
                kd = 'construct' if step == 0 else h['ops'][step - 1][0]
                k = int(np.argmax(np.abs(x - y) / np.abs(y)))
                return {'signature': f'VolumeModel.{which} after an edit ({kd}) differs from that of a fresh '
                                     f'model with the same values',
                        'kind': 'history', 'seed': seed, 'step': step, 'history': describe_history(h),
                        'flat_index': k, 'observed': repr(complex(x.ravel()[k])),
                        'required': repr(complex(y.ravel()[k]))}
    return None


def search_history(rng, n):
    for _ in range(n):
        h = search_history_case(rng.randint(0, 2 ** 40))
        if h:
            return h
    return None


def _verdict(name, slot, how, value, good):
    """'accept' / 'reject' of the implementation for ONE cell value placed in slot (0,1,2 = x,y,z)
    of mapping `name`, at construction or on assignment (other cells / slots hold `good`)."""
    import emg3d
    grid = emg3d.TensorMesh([[1.0, 1.0], [1.0], [1.0]], (0, 0, 0))
    arr = np.array([good, value]).reshape(2, 1, 1)
    base = np.array([good, good]).reshape(2, 1, 1)
    kw = {PNAMES[i]: base.copy() for i in range(3)}
    with np.errstate(all='ignore'), warnings.catch_warnings():
        warnings.simplefilter('ignore')
        try:
            if how == 'construct':
                kw[PNAMES[slot]] = arr
                emg3d.Model(grid, mapping=name, **kw)
            else:
                m = emg3d.Model(grid, mapping=name, **kw)
                setattr(m, PNAMES[slot], arr)
            return 'accept'
        except ValueError:
            return 'reject'


ACCEPT_CANDIDATES = [0.0, -0.0, -1.0, float('nan'), float('inf'), float('-inf'), 1e-320, -1e-320,
                     1e300, 1e-300, 2.5, -2.5, 250.0, -250.0, 305.0, -305.0, 312.0, -312.0, 320.0,
                     -320.0, 330.0, -330.0, 400.0, -400.0, 700.0, -700.0, 715.0, -715.0, 740.0,
                     -740.0, 750.0, -750.0, 800.0, -800.0, 5000.0, -5000.0]


def search_acceptance(rng, n_extra):
    """The accepted set must not depend on the mapping: a property value p is accepted under
    mapping M exactly when its back-mapped conductivity M.backward(p) (as the solver would use
    it) is accepted under mapping Conductivity -- i.e. iff it is finite and > 0.  Every mapping,
    x/y/z slot, construction and assignment; values whose backward is 0, inf, nan, negative or
    over-/underflows."""
    cands = list(ACCEPT_CANDIDATES)
    for _ in range(n_extra):
        cands.append(rng.choice([1, -1]) * rng.choice([rng.uniform(0, 10), rng.uniform(280, 340),
                                                       rng.uniform(690, 760), 10 ** rng.uniform(-330, 308)]))
    for name in NAMES:
        mp = impl_map(name)
        with np.errstate(all='ignore'):
            good = float(mp.forward(np.array([2.0]))[0])
        for p in cands:
            with np.errstate(all='ignore'), warnings.catch_warnings():
                warnings.simplefilter('ignore')
                cond = float(mp.backward(np.array([p]))[0])
            required = 'accept' if (np.isfinite(cond) and cond > 0) else 'reject'
            for slot in range(3):
                for how in ('construct', 'assign'):
                    got = _verdict(name, slot, how, p, good)
                    equiv = _verdict('Conductivity', slot, how, cond, 2.0)
                    if got != equiv or got != required:
                        return {'signature': f'{how}: {PNAMES[slot]} value accepted/rejected differently from '
                                             f'its conductivity ({name})',
                                'kind': 'acceptance', 'map': name, 'slot': PNAMES[slot], 'how': how,
                                'value': repr(p), 'value_hex': float.hex(p) if p == p else 'nan',
                                'conductivity': repr(cond), 'observed': got,
                                'conductivity_mapped_equivalent': equiv, 'required': required}
    return None


AUG_KS = [2.0, 0.5, -1.0, 0.0, float('nan'), float('inf'), float('-inf'), 1e4, -1e4, 400.0, -400.0,
          1e-320, 1e300, 3.0]


def search_acceptance_aug(rng, n_extra):
    """Augmented assignment `model.<slot> op= k` for every mapping, slot (x, y, z, mu_r,
    epsilon_r) and operator: accepted exactly when plain assignment of the resulting values would
    be, i.e. iff the back-mapped conductivity (mu_r / epsilon_r: the value) of every resulting
    cell is finite and > 0."""
    import emg3d
    grid = emg3d.TensorMesh([[1.0, 1.0], [1.0], [1.0]], (0, 0, 0))
    ks = list(AUG_KS) + [rng.choice([1, -1]) * 10 ** rng.uniform(-3, 3) for _ in range(n_extra)]
    for name in NAMES:
        mp = impl_map(name)
        with np.errstate(all='ignore'):
            good = mp.forward(np.array([2.0, 0.25]).reshape(2, 1, 1))
        for slot in range(5):
            for opname in AUG_OPS:
                for k in ks:
                    kw = {PNAMES[i]: (good.copy() if i < 3 else np.array([1.5, 3.0]).reshape(2, 1, 1))
                          for i in range(5)}
                    with np.errstate(all='ignore'), warnings.catch_warnings():
                        warnings.simplefilter('ignore')
                        model = emg3d.Model(grid, mapping=name, **kw)
                        before = np.array(getattr(model, PNAMES[slot]), copy=True)
                        res = aug_apply(before.copy(), opname, k)
                        chk = mp.backward(res.copy()) if slot < 3 else res
                        required = 'accept' if bool(np.all(np.isfinite(chk)) and np.all(chk > 0)) else 'reject'
                        try:
                            setattr(model, PNAMES[slot], aug_apply(getattr(model, PNAMES[slot]), opname, k))
                            got = 'accept'
                        except ValueError:
                            got = 'reject'
                        # the same values through plain assignment on a fresh model
                        try:
                            m2 = emg3d.Model(grid, mapping=name, **kw)
                            setattr(m2, PNAMES[slot], res.copy())
                            plain = 'accept'
                        except ValueError:
                            plain = 'reject'
                    if got != required or got != plain:
                        return {'signature': f'augmented assignment {opname} on {PNAMES[slot]} accepted/rejected '
                                             f'differently from plain assignment of the same values ({name})',
                                'kind': 'acceptance_aug', 'map': name, 'slot': PNAMES[slot], 'op': opname,
                                'k': repr(k), 'k_hex': float.hex(k) if k == k else 'nan',
                                'stored_before': [repr(float(x)) for x in before.ravel()],
                                'resulting_values': [repr(float(x)) for x in res.ravel()],
                                'observed': got, 'plain_assignment': plain, 'required': required}
    return None


def fault_case(name, aniso, p, raw, cell, scalar=False, seed=0):
    """ONE fault path, implementation only: a valid model (mapping `name`, anisotropy case
    `aniso`; the triaxial case carries mu_r and epsilon_r) -> assignment `model.<p> = values` with
    `raw` in cell `cell` (raw = 'shape': an array that cannot be broadcast; raw = 'type': a
    string) -> if the assignment RAISES, every stored array and the VolumeModel built from the
    same object afterwards must be bitwise what they were before.  Returns None or the hit."""
    import random
    import emg3d
    rng = random.Random(seed)
    shape = (2, 1, 1)
    grid = emg3d.TensorMesh([[1.0, 2.0], [0.5], [4.0]], (0, 0, 0))
    sfield = emg3d.Field(grid, frequency=[1.0, -2.0][seed % 2])
    present = [True, aniso in (1, 3), aniso in (2, 3), aniso in (0, 3), aniso in (1, 3)]
    mp = impl_map(name)
    with warnings.catch_warnings(), np.errstate(all='ignore'):
        warnings.simplefilter('ignore')
        good = []
        for q in range(5):
            c = np.array([logu(rng, -4, 4), logu(rng, -4, 4)]).reshape(shape)
            good.append(np.asarray(mp.forward(c), float) if q < 3 else c)
        kw = {PNAMES[q]: (good[q].copy() if present[q] else None) for q in range(5)}
        model = emg3d.Model(grid, mapping=name, **kw)
        before = [None if getattr(model, pn) is None else np.array(getattr(model, pn), copy=True) for pn in PNAMES]
        cbefore = _coeff_arrays(model, sfield)
        if isinstance(raw, str) and raw == 'shape':
            vals = np.ones((3, 1, 1))
        elif isinstance(raw, str) and raw == 'type':
            vals = 'abc'
        else:
            vals = (good[p] if present[p] else np.ones(shape)).copy()
            vals[cell, 0, 0] = raw
            if scalar:
                vals = float(raw)
        try:
            setattr(model, PNAMES[p], vals)
            return None                      # accepted: not a fault path (acceptance has its own oracles)
        except Exception as e:
            exc = f'{type(e).__name__}: {e}'
        after = [None if getattr(model, pn) is None else np.array(getattr(model, pn), copy=True) for pn in PNAMES]
        try:
            cafter = _coeff_arrays(model, sfield)
        except Exception as e:
            cafter = repr(e)

    def same(a, b):
        if a is None or b is None:
            return a is None and b is None
        return a.shape == b.shape and a.tobytes() == b.tobytes()
    changed = [PNAMES[q] for q in range(5) if not same(before[q], after[q])]
    cchanged = (['VolumeModel raised: ' + cafter] if isinstance(cafter, str) else
                [nm for nm, a, b in zip(('eta_x', 'eta_y', 'eta_z', 'zeta'), cbefore, cafter) if not same(a, b)])
    if not changed and not cchanged:
        return None

    def show(a):
        return None if a is None else [repr(float(x)) for x in np.asarray(a).ravel('F')]
    left = {}
    for q in range(5):
        if PNAMES[q] in changed:
            left[PNAMES[q]] = {'before': show(before[q]), 'after_refused_assignment': show(after[q])}
    if not isinstance(cafter, str):
        for nm, a, b in zip(('eta_x', 'eta_y', 'eta_z', 'zeta'), cbefore, cafter):
            if nm in cchanged:
                left['VolumeModel.' + nm] = {'before': [repr(complex(x)) for x in a.ravel('F')],
                                             'after_refused_assignment': [repr(complex(x)) for x in b.ravel('F')]}
    return {'signature': f'refused assignment to {PNAMES[p]} is not without effect: the model holds different '
                         f'values afterwards ({name})',
            'kind': 'fault_path', 'map': name, 'aniso': aniso, 'prop': PNAMES[p],
            'raw': raw if isinstance(raw, str) else ('nan' if raw != raw else float.hex(raw)),
            'cell': cell, 'scalar': scalar, 'seed': seed,
            'history': {'1_construct': {'mapping': name, 'grid_widths': [[1.0, 2.0], [0.5], [4.0]],
                                        **{PNAMES[q]: show(before[q]) for q in range(5)}},
                        '2_assign': {'parameter': PNAMES[p],
                                     'values': vals if isinstance(vals, str) else show(np.asarray(vals, float)),
                                     'raised': exc},
                        '3_same_object_afterwards': left},
            'observed': f'changed: {changed + cchanged}',
            'required': 'a refused assignment leaves every stored parameter and the coefficients unchanged'}


def search_fault_paths(rng, thorough):
    """Every mapping x {triaxial with mu_r, epsilon_r; one other anisotropy case} x the five
    parameters x every refused kind (+ a non-broadcastable array and a string): see fault_case."""
    n = 0
    for name in NAMES:
        for aniso in ([3, 0, 1, 2] if thorough else [3, rng.choice([0, 1, 2])]):
            for p in range(5):
                cands = [raw for _, raw in fault_candidates(name, p)] + ['shape', 'type', 2.5]
                for raw in cands:
                    cell = rng.randint(0, 1)
                    for scalar in ((False, True) if thorough else (rng.random() < 0.2,)):
                        if isinstance(raw, str) and scalar:
                            continue
                        n += 1
                        h = fault_case(name, aniso, p, raw, cell, scalar, seed=rng.randint(0, 2 ** 30))
                        if h:
                            return h
    return None


def search(ctx, broken):
    rng = ctx.rng
    hits = []
    for f, args in ((search_gradient_glue, (rng, ctx.thorough)),
                    (search_fault_paths, (rng, ctx.thorough)),
                    (search_history, (rng, 200 if ctx.thorough else 60)),
                    (search_acceptance, (rng, 40 if ctx.thorough else 6)),
                    (search_acceptance_aug, (rng, 10 if ctx.thorough else 2)),
                    (search_validation, (rng, 300 if ctx.thorough else 80)),
                    (search_maps, (rng, 200 if ctx.thorough else 60)),
                    (search_coeffs, (rng, 40 if ctx.thorough else 12))):
        try:
            h = f(*args)
        except Exception as e:          # one oracle failing must not hide the others
            ctx.notes.append(f'searcher {f.__name__} raised {e!r}')
            h = None
        if h:
            hits.append(h)
    if ctx.thorough and not hits:
        h = search_coeffs(rng, 1, solve=True)
        if h:
            hits.append(h)
    ctx.notes.append("searcher: round trip + complex-step derivative of backward vs derivative_chain on the "
                     "implementation; VolumeModel coefficients across the six maps; accept/reject of "
                     "constructor and setters" + ("; one 4x4x4 solve per map" if ctx.thorough else ""))
    return hits


def replay(ctx, payload):
    fi = payload.get('failing_input') or {}
    kind = fi.get('kind')
    rng = ctx.rng
    if kind in ('roundtrip', 'chain'):
        name = fi['map']
        mp = impl_map(name)
        if kind == 'roundtrip':
            s = float.fromhex(fi['sigma'])
            back = float(mp.backward(mp.forward(np.array([s])))[0])
            return abs(back - s) <= 1e-10 * s
        x = float.fromhex(fi['mapped'])
        d = complex(mp.backward(np.array([complex(x, 1e-30)]))[0]).imag / 1e-30
        g = np.array([1.0])
        mp.derivative_chain(g, np.array([x]))
        return abs(g[0] - d) <= 1e-9 * max(abs(d), 1e-300)
    if kind in ('coeffs', 'solve'):
        return search_coeffs(rng, 12, solve=(kind == 'solve')) is None
    if kind == 'gradient_glue':
        return not glue_compare(fi['case'], fi['mapping'], int(fi['np_seed']),
                                lambda nm, p: GLUE_ORACLE[nm][1](p))[0]
    if kind == 'history':
        return search_history_case(int(fi['seed'])) is None
    if kind == 'fault_path':
        raw = fi['raw']
        if raw not in ('shape', 'type'):
            raw = NAN if raw == 'nan' else float.fromhex(raw)
        return fault_case(fi['map'], int(fi['aniso']), PNAMES.index(fi['prop']), raw, int(fi['cell']),
                          bool(fi['scalar']), int(fi['seed'])) is None
    if kind == 'acceptance_aug':
        import emg3d
        k = float('nan') if fi['k_hex'] == 'nan' else float.fromhex(fi['k_hex'])
        mp = impl_map(fi['map'])
        slot = PNAMES.index(fi['slot'])
        grid = emg3d.TensorMesh([[1.0, 1.0], [1.0], [1.0]], (0, 0, 0))
        with np.errstate(all='ignore'), warnings.catch_warnings():
            warnings.simplefilter('ignore')
            good = mp.forward(np.array([2.0, 0.25]).reshape(2, 1, 1))
            kw = {PNAMES[i]: (good.copy() if i < 3 else np.array([1.5, 3.0]).reshape(2, 1, 1))
                  for i in range(5)}
            model = emg3d.Model(grid, mapping=fi['map'], **kw)
            res = aug_apply(np.array(getattr(model, fi['slot']), copy=True), fi['op'], k)
            chk = mp.backward(res.copy()) if slot < 3 else res
            required = 'accept' if bool(np.all(np.isfinite(chk)) and np.all(chk > 0)) else 'reject'
            try:
                setattr(model, fi['slot'], aug_apply(getattr(model, fi['slot']), fi['op'], k))
                got = 'accept'
            except ValueError:
                got = 'reject'
        return got == required
    if kind == 'acceptance':
        p = float('nan') if fi['value_hex'] == 'nan' else float.fromhex(fi['value_hex'])
        mp = impl_map(fi['map'])
        with np.errstate(all='ignore'), warnings.catch_warnings():
            warnings.simplefilter('ignore')
            cond = float(mp.backward(np.array([p]))[0])
            good = float(mp.forward(np.array([2.0]))[0])
        required = 'accept' if (np.isfinite(cond) and cond > 0) else 'reject'
        slot = PNAMES.index(fi['slot'])
        return _verdict(fi['map'], slot, fi['how'], p, good) == required
    if kind == 'validation':
        return search_validation(rng, 300) is None
    return False
