"""C15 -- volume averaging between grids conserves the integrated property.

Theorems: coq/Props/C15.v about the hand model coq/Model/VolAvg.v
(_volume_average_weights with its two carried while-scans, interp_volume_average,
the linear map and its explicit transpose, log mode over the reals).

Correspondence (model executed on exact rationals with vm_compute):
  1-D  emg3d.maps._volume_average_weights (compiled and .py_func) == va_weights
       (weights exactly, indices exactly) on random pairs of 1..12-cell grids;
  3-D  interp_volume_average (zero and non-zero initial output),
       maps.interpolate(method='volume', log=False/True),
       Model.interpolate_to_grid for the six maps (log chosen from the map name),
       _interp_volume_average_adj (discretize's matrix transposed) == explicit
       transpose of the model.
Searcher: conservation, log-conservation, range, identity, nearest fill,
adjoint pairing and rho/sigma symmetry evaluated directly on the implementation.
"""
import itertools
import re
import warnings

import numpy as np

from vlib import core as V
from vlib import kernels as K

ID = 'C15'
LEVEL_TEXT = ("Theorems (Props/C15.v) about the hand model of _volume_average_weights / "
              "interp_volume_average over the reals, for strictly increasing node lists of ANY length "
              "(induction): the stateful loop with its carried while-scans equals a stateless description "
              "(cell of the interval centre); weights > 0; cells outside the source grid read the nearest "
              "cell; the merged intervals tile every output cell (and every input cell when the grids cover "
              "the same region); equal grids give identity weights; in 3-D every new value is a convex "
              "combination (range preserved), volume*value is conserved (linear and log10 mode), the map is "
              "linear with an explicit matrix whose transpose satisfies the adjoint identity, and in log "
              "mode resistivity/conductivity give reciprocal results. Option resolution in front of the "
              "averaging (Model/I2GOpts.v: state = the tables of defaults of Model/Field.interpolate_to_grid; "
              "a call is a step state -> call -> state * route): for EVERY history of calls with arbitrary "
              "options (Model / Field / Simulation.get_model / maps.interpolate, raising calls included) the "
              "defaults are unchanged, every call is routed as if it were the first of the process, and a "
              "later call without options returns the volume-average map of its own model (so range / "
              "conservation / log-conservation hold for it after any history).")
LEVEL_NOTE = ("Hand model tied to the code by correspondence only (weights and indices compared exactly on "
              "dyadic grids, compiled and .py_func). Exact field arithmetic: rounding not modelled; "
              "discretize.utils.volume_average is third party: its matrix is compared with the model's "
              "explicit transpose through _interp_volume_average_adj (1e-9). np.unique is modelled as "
              "sort + dedupe. The option-resolution model is a hand model: that the code has no memory "
              "between calls is established by the option-history correspondence stream (sequences of calls "
              "with every documented option class on one process, each answer compared with the model on the "
              "current state), not by the theorems alone; scipy's RegularGridInterpolator and "
              "interp_spline_3d (other methods) are third party: reference = the same routine called with "
              "the explicit options the model resolves.")
TECHNIQUE = ("Coq proof (induction over node lists, lra/field) over a hand model + differential "
             "correspondence (vm_compute on Q)")
DESIGN_REF = "DESIGN.md section 6 C15"
GEN = []
PROPS = 'Props/C15.v'
TRUSTED = ["Model/VolAvg.v: hand model of _volume_average_weights / interp_volume_average "
           "(tied by exact correspondence of weights and indices)",
           "discretize.utils.volume_average (third party): validated against the model's transpose",
           "Model/I2GOpts.v: hand model of the option resolution of Model/Field.interpolate_to_grid, "
           "Simulation.get_model and maps.interpolate (tied by the option-history correspondence)"]
ASSUMES = ["node vectors are strictly increasing with at least two nodes (TensorMesh guarantees it)",
           "exact arithmetic: rounding of the merged-node differences and of the centre test is not modelled"]

NAMES6 = ['Conductivity', 'LgConductivity', 'LnConductivity', 'Resistivity', 'LgResistivity',
          'LnResistivity']
PROPS5 = ['property_x', 'property_y', 'property_z', 'mu_r', 'epsilon_r']

HEADER = (K.CASE_HEADER + "From V Require Import Model.VolAvg.\n"
          "Definition o3 (t : Q * nat * nat) := (out_q (fst (fst t)), Z.of_nat (snd (fst t)), Z.of_nat (snd t)).\n"
          "Definition zi (o : idx3) := (Z.of_nat (fst (fst o)), Z.of_nat (snd (fst o)), Z.of_nat (snd o)).\n"
          "Definition o33 (t : Q * idx3 * idx3) := (out_q (fst (fst t)), zi (snd (fst t)), zi (snd t)).\n"
          "Definition arr3n (l : list (list (list Q))) : idx3 -> Q := fun o =>\n"
          "  nth (snd o) (nth (snd (fst o)) (nth (fst (fst o)) l []) []) 0%Q.\n")


def ql(l):
    return '[' + '; '.join(V.q(float(x)) for x in l) + ']'


def q3(a):
    a = np.asarray(a)
    return '[' + '; '.join('[' + '; '.join(ql(a[i, j]) for j in range(a.shape[1])) + ']'
                           for i in range(a.shape[0])) + ']'


# ---------------------------------------------------------------- generators
KINDS = ['equal', 'refine', 'coarsen', 'shift', 'overlap', 'inside', 'outside', 'same_region',
         'disjoint', 'touching', 'eqcount', 'eqcount_shift']
NEAR = ['eqcount', 'eqcount_shift', 'equal']       # same cell count, nodes equal or metres apart


def rand_nodes(rng, n, x0=None, den=8):
    """n cells, dyadic nodes."""
    if x0 is None:
        x0 = rng.randint(-40, 40) / den
    xs = [x0]
    for _ in range(n):
        xs.append(xs[-1] + rng.randint(1, 24) / den)
    return xs


BIG_ORIGINS = [2.0 ** 19, 6.0 * 2.0 ** 20, 500000.0, 6000000.0, 131072.0, 9437184.0]


def big_offset(rng):
    """Large absolute coordinate (projected / UTM-like), exact in floats
    together with the 1/16 m node grid: 1e5 .. 1e7."""
    if rng.random() < 0.5:
        return rng.choice(BIG_ORIGINS)
    return float(rng.randint(100, 9700) * 1024)


def pair_eqcount(rng, nmax, shift=False):
    """Two DIFFERENT grids with the SAME number of cells whose corresponding
    nodes differ by metres or less (metre-scale cell widths 10..60 m).  With
    shift=True the second grid is the first one moved by a few metres (plus
    moved interior nodes)."""
    n = rng.randint(2, max(2, nmax))
    a = [0.0]
    for _ in range(n):
        a.append(a[-1] + rng.randint(10, 60))
    deltas = [0.125, 0.5, 1.0, 2.0, 4.0]
    d0 = rng.choice(deltas) * rng.choice([1, -1]) if shift else 0.0
    b = [x + d0 for x in a]
    moved = False
    for k in range(1, n):
        if rng.random() < 0.7 or (not moved and k == n - 1 and not shift):
            b[k] += rng.choice(deltas) * rng.choice([1, -1])
            moved = True
    return a, b


def pair_1d(rng, kind, nmax=12, offset=0.0):
    a, b = _pair_1d(rng, kind, nmax)
    if offset:
        a = [x + offset for x in a]
        b = [x + offset for x in b]
    return a, b


def _pair_1d(rng, kind, nmax=12):
    if kind == 'eqcount':
        return pair_eqcount(rng, nmax, shift=False)
    if kind == 'eqcount_shift':
        return pair_eqcount(rng, nmax, shift=True)
    n1 = rng.randint(1, nmax)
    a = rand_nodes(rng, n1)
    if kind == 'equal':
        b = list(a)
    elif kind == 'refine':            # new nodes contain the old ones
        b = sorted(set(a + [a[0] + rng.randint(0, int((a[-1] - a[0]) * 16)) / 16 for _ in range(rng.randint(0, nmax - n1))]))[:nmax + 1]
        if len(b) < 2:
            b = list(a)
    elif kind == 'coarsen':           # new nodes are a subset of the old ones (same ends)
        inner = [x for x in a[1:-1] if rng.random() < 0.5]
        b = [a[0]] + inner + [a[-1]]
    elif kind == 'shift':
        d = rng.randint(-12, 12) / 16
        b = [x + d for x in a]
    elif kind == 'inside':            # new grid strictly inside the old one
        lo = a[0] + rng.randint(0, 4) / 16
        b = rand_nodes(rng, rng.randint(1, nmax), lo, den=16)
        b = [x for x in b if x <= a[-1]] or [lo]
        if len(b) < 2:
            b = [a[0], a[-1]]
    elif kind == 'outside':           # new grid extends beyond the old one on both sides
        b = rand_nodes(rng, rng.randint(2, nmax), a[0] - rng.randint(1, 40) / 8)
        while b[-1] <= a[-1] and len(b) < nmax + 1:
            b.append(b[-1] + rng.randint(8, 40) / 8)
    elif kind == 'same_region':       # another partition of the same interval
        L = int(round((a[-1] - a[0]) * 16))
        cuts = sorted(set(rng.randint(1, max(L - 1, 1)) for _ in range(rng.randint(0, nmax - 1))))
        b = [a[0]] + [a[0] + c / 16 for c in cuts if 0 < c < L] + [a[-1]]
    elif kind == 'disjoint':
        off = (a[-1] - a[0]) + rng.randint(1, 16) / 8
        b = rand_nodes(rng, rng.randint(1, nmax), a[0] + off if rng.random() < 0.5 else a[0] - off - 50)
    elif kind == 'touching':          # new grid starts where the old one ends (or vice versa)
        b = rand_nodes(rng, rng.randint(1, nmax), a[-1])
    else:                             # overlap: unrelated random grid nearby
        b = rand_nodes(rng, rng.randint(1, nmax), a[0] + rng.randint(-24, 24) / 8, den=rng.choice([4, 8, 16]))
    b = sorted(set(b))
    if len(b) < 2:
        b = [b[0], b[0] + 1.0]
    return a, b[:nmax + 1]


def classify(a, b):
    sa, sb = set(a), set(b)
    tags = []
    if a == b:
        tags.append('equal')
    if sa <= sb and a != b:
        tags.append('refine')
    if sb <= sa and a != b:
        tags.append('coarsen')
    if a[0] == b[0] and a[-1] == b[-1]:
        tags.append('same_region')
    if b[0] < a[0] or b[-1] > a[-1]:
        tags.append('extends_outside')
    if sa & sb:
        tags.append('shared_nodes')
    if sa - sb and sb - sa:
        tags.append('nonshared_nodes')
    if b[0] >= a[-1] or b[-1] <= a[0]:
        tags.append('disjoint')
    return tags


def values8(rng, shape):
    """positive dyadic values over eight decades."""
    a = np.zeros(shape)
    for idx in itertools.product(*[range(m) for m in shape]):
        a[idx] = rng.randint(1, 255) / 16.0 * 2.0 ** rng.randint(-13, 13)
    return a


# ------------------------------------------------------------- 1-D weights
def impl_weights(a, b, pyfunc):
    from emg3d import maps
    f = maps._volume_average_weights.py_func if pyfunc else maps._volume_average_weights
    w, ii, io = f(np.array(a, float), np.array(b, float))
    return [V.frac(float(x)) for x in w], [int(x) for x in ii], [int(x) for x in io]


def parse_trips(ans):
    ints = [int(x) for x in re.findall(r'-?\d+', ans)]
    out = []
    for k in range(0, len(ints), 4):
        out.append((V.frac(ints[k]) / ints[k + 1], ints[k + 2], ints[k + 3]))
    return out


def check_weights(ctx, n, dis, hist, samples):
    rng = ctx.rng
    cases = []
    for c in range(n):
        kind = KINDS[c % len(KINDS)]
        off = big_offset(rng) if rng.random() < 0.4 else 0.0
        a, b = pair_1d(rng, kind, offset=off)
        if off:
            hist['1d:large origin'] = hist.get('1d:large origin', 0) + 1
        cases.append((kind, a, b))
    chunks = [cases[i:i + 125] for i in range(0, len(cases), 125)]
    texts = []
    for ci, ch in enumerate(chunks):
        lines = [HEADER]
        for kind, a, b in ch:
            lines.append(f"Eval vm_compute in map o3 (va_weights Qle_bool {ql(a)} {ql(b)}).")
            lines.append(f"Eval vm_compute in map o3 (va_pairs Qle_bool {ql(a)} {ql(b)} {V.q(b[0])} {V.q(b[-1])} "
                         f"(usort Qle_bool ({ql(a)} ++ {ql(b)}))).")
        texts.append((f"c15_w_{ci}", '\n'.join(lines) + '\n'))
    res = V.coq_eval_many(texts)
    seen = set()
    nev = 0
    for ci, ch in enumerate(chunks):
        rc, out = res[f"c15_w_{ci}"]
        if rc != 0:
            dis.append({'what': 'va_weights model does not evaluate', 'log': out[-1500:]})
            continue
        ans = V.eval_answers(out)
        for k, (kind, a, b) in enumerate(ch):
            model = parse_trips(ans[2 * k])
            stateless = parse_trips(ans[2 * k + 1])
            tags = classify(a, b)
            for t in tags:
                hist[t] = hist.get(t, 0) + 1
            hist[f'n_in={len(a) - 1}'] = hist.get(f'n_in={len(a) - 1}', 0) + 1
            case = {'kind': kind, 'x_i': [float(x) for x in a], 'x_o': [float(x) for x in b]}
            if len(samples) < 4 and len(a) > 2 and len(b) > 2:
                samples.append(case)
            if model != stateless:
                dis.append({'what': 'model: stateful loop differs from its stateless description',
                            'case': case, 'impl': repr(model)[:400], 'model': repr(stateless)[:400]})
            for pyf in (False, True):
                nev += 1
                w, ii, io = impl_weights(a, b, pyf)
                impl = list(zip(w, ii, io))
                if impl != model:
                    dis.append({'what': '_volume_average_weights' + ('.py_func' if pyf else '')
                                        + ' differs from va_weights',
                                'case': case, 'impl': repr([(float(x), i, o) for x, i, o in impl])[:600],
                                'model': repr([(float(x), i, o) for x, i, o in model])[:600]})
                    break
            if set(tags) - {'equal'}:
                seen.add((tuple(tags), len(a), len(b)))
    return nev, len(seen)


# ------------------------------------------------------------------- 3-D
def case_3d(rng, idx, nmax):
    import emg3d
    kinds = [KINDS[(idx + d) % len(KINDS)] for d in range(3)]
    offs = [0.0, 0.0, 0.0]
    family = 'local'
    if idx % 5 == 0:
        kinds = ['same_region'] * 3
    if idx % 3 == 1:
        # survey at projected (UTM-like) coordinates: equal cell counts, corresponding
        # nodes metres apart (or equal) in every direction, at least one direction differs
        family = 'utm-near'
        offs = [big_offset(rng), big_offset(rng), big_offset(rng) if rng.random() < 0.5 else 0.0]
        kinds = [rng.choice(NEAR) for _ in range(3)]
        if offs[2] == 0.0:
            kinds[2] = 'equal'            # depth axis in local coordinates: identical nodes
        if all(k == 'equal' for k in kinds):
            kinds[rng.randint(0, 1)] = 'eqcount'
    elif idx % 3 == 2:
        family = 'utm'                # the usual families moved to large origins
        offs = [big_offset(rng), big_offset(rng), 0.0 if rng.random() < 0.5 else big_offset(rng)]
    nodes, nnodes = [], []
    for kd, off in zip(kinds, offs):
        a, b = pair_1d(rng, kd, nmax, offset=off)
        nodes.append(a)
        nnodes.append(b)
    g = emg3d.TensorMesh([np.diff(x) for x in nodes], [x[0] for x in nodes])
    ng = emg3d.TensorMesh([np.diff(x) for x in nnodes], [x[0] for x in nnodes])
    v = values8(rng, tuple(len(x) - 1 for x in nodes))
    u = values8(rng, tuple(len(x) - 1 for x in nnodes)) * rng.choice([1, -1])
    init = np.array(K.rand_arr(rng, tuple(len(x) - 1 for x in nnodes), False), float) \
        if rng.random() < 0.5 else np.zeros(tuple(len(x) - 1 for x in nnodes))
    return dict(kinds=kinds, family=family, nodes=nodes, nnodes=nnodes, grid=g, ngrid=ng, v=v, u=u,
                init=init)


def coq_3d(c, header=True, only=None):
    n, m = c['nodes'], c['nnodes']
    L = [HEADER] if header else []
    for nm, x in zip(('nx', 'ny', 'nz'), n):
        L.append(f"Definition {nm} : list Q := {ql(x)}.")
    for nm, x in zip(('mx', 'my', 'mz'), m):
        L.append(f"Definition {nm} : list Q := {ql(x)}.")
    L.append("Definition T := Eval vm_compute in trip3 (va_weights Qle_bool nx mx) "
             "(va_weights Qle_bool ny my) (va_weights Qle_bool nz mz).")
    L.append(f"Definition v := arr3n {q3(c['v'])}.")
    L.append(f"Definition u := arr3n {q3(c['u'])}.")
    L.append(f"Definition ini := arr3n {q3(c['init'])}.")
    L.append("Definition vol := vol3 mx my mz.")
    evals = [
        "Eval vm_compute in map (fun o => out_q (apply_va idx3_eqb T vol (fun _ => 0%Q) v o)) (cells3 mx my mz).",
        "Eval vm_compute in map (fun o => out_q (apply_va idx3_eqb T vol ini v o)) (cells3 mx my mz).",
        "Eval vm_compute in map (fun i => out_q (apply_va_T idx3_eqb T vol u i)) (cells3 nx ny nz).",
        "Eval vm_compute in map o33 T.",
        "Eval vm_compute in out_q (interp_va Qle_bool nx ny nz mx my mz vol ini v (0, 0, 0)%nat)."]
    for k, e in enumerate(evals):
        # `only`: the answers this case is going to be compared with (the others are placeholders
        # so that every case has NANS_3D answers)
        L.append(e if only is None or k in only else "Eval vm_compute in 0%Z.")
    return '\n'.join(L) + '\n'


NANS_3D = 5          # answers (Eval) per 3-D case


def coq_3d_batches(prefix, cases, per_file):
    """Several 3-D cases per generated file (each inside its own Module): loading the libraries costs
    about 2 s of CPU per coqc process, more than evaluating a case.  Returns the (name, text) list
    and, per case, (file name, index of its first answer)."""
    texts, where = [], []
    for f0 in range(0, len(cases), per_file):
        name = f"{prefix}_{f0 // per_file}"
        L = [HEADER]
        for k, c in enumerate(cases[f0:f0 + per_file]):
            L.append(f"Module K{k}.")
            L.append(coq_3d(c, header=False, only=c.get('only')))
            L.append(f"End K{k}.")
            where.append((name, k * NANS_3D))
        texts.append((name, '\n'.join(L) + '\n'))
    return texts, where


def batch_answers(res, where, i):
    """Answers of case i of a batched run, or (None, log) when its file did not evaluate."""
    name, k0 = where[i]
    rc, out = res[name]
    if rc != 0:
        return None, out
    ans = V.eval_answers(out)
    if len(ans) < k0 + NANS_3D:
        return None, out
    return ans[k0:k0 + NANS_3D], out


def model_apply_py(T, vol, v, shape_out):
    """(A v) with the MODEL's weight triples, in float (for log mode)."""
    out = np.zeros(shape_out)
    for w, i, o in T:
        out[o] += float(w) * v[i]
    return out / vol


def parse_T(ans):
    ints = [int(x) for x in re.findall(r'-?\d+', ans)]
    T = []
    for k in range(0, len(ints), 8):
        T.append((V.frac(ints[k]) / ints[k + 1], tuple(ints[k + 2:k + 5]), tuple(ints[k + 5:k + 8])))
    return T


def closev(impl, model, tol=1e-9):
    impl = np.asarray(impl, float).ravel()
    model = np.asarray(model, float).ravel()
    if impl.shape != model.shape:
        return 0
    scale = np.maximum(np.abs(model), np.max(np.abs(model)) * 1e-3 if model.size else 1.0)
    bad = np.flatnonzero(~(np.abs(impl - model) <= tol * np.maximum(scale, 1e-300)))
    return None if bad.size == 0 else int(bad[0])


def check_3d(ctx, n, nmax, dis, hist, samples):
    import emg3d
    from emg3d import maps
    rng = ctx.rng
    cases = [case_3d(rng, i, nmax) for i in range(n)]
    texts, where = coq_3d_batches('c15_v', cases, 4 if ctx.thorough else 3)
    res = V.coq_eval_many(texts)
    nev = 0
    for i, c in enumerate(cases):
        ans, out = batch_answers(res, where, i)
        brief = {'kinds': c['kinds'], 'family': c['family'], 'nodes': [[float(x) for x in a] for a in c['nodes']],
                 'new_nodes': [[float(x) for x in a] for a in c['nnodes']],
                 'values': [float.hex(float(x)) for x in c['v'].ravel()[:8]]}
        if i < 2:
            samples.append(brief)
        if ans is None:
            dis.append({'what': 'interp_va model does not evaluate', 'log': out[-1500:]})
            continue
        m_out = np.array([float(x) for x in V.parse_pairs(ans[0])])
        m_out_init = np.array([float(x) for x in V.parse_pairs(ans[1])])
        m_adj = np.array([float(x) for x in V.parse_pairs(ans[2])])
        T = parse_T(ans[3])
        m_first = float(V.parse_pairs(ans[4])[0])
        g, ng, v = c['grid'], c['ngrid'], c['v']
        shape_o = tuple(ng.shape_cells)
        vol = ng.cell_volumes.reshape(shape_o, order='F')
        if abs(m_first - m_out_init[0]) > 1e-12 * max(1.0, abs(m_first)):
            dis.append({'what': 'model: interp_va differs from apply_va over its triples', 'case': brief})
        hist['3d:' + c['family']] = hist.get('3d:' + c['family'], 0) + 1

        def report(what, impl, model, k):
            dis.append({'what': what, 'case': brief, 'flat_index': k,
                        'impl': repr(float(np.asarray(impl).ravel()[k])) if k < np.asarray(impl).size else 'shape',
                        'model': repr(float(np.asarray(model).ravel()[k])) if k < np.asarray(model).size else 'shape'})
        # (i) the numba routine, zero and non-zero initial output
        for init, mod, tag in ((np.zeros(shape_o), m_out, 'zero init'), (c['init'], m_out_init, 'non-zero init')):
            nv = np.array(init, float, order='F')
            maps.interp_volume_average(g.nodes_x, g.nodes_y, g.nodes_z, np.asfortranarray(v),
                                       ng.nodes_x, ng.nodes_y, ng.nodes_z, nv, vol.copy(order='F'))
            nev += 1
            k = closev(nv, mod)
            if k is not None:
                report(f'interp_volume_average ({tag}) differs from interp_va', nv, mod, k)
        # (ii) maps.interpolate(method='volume'), linear and log
        lin = maps.interpolate(g, v, ng, method='volume')
        nev += 1
        k = closev(lin, m_out)
        if k is not None:
            report("interpolate(method='volume') differs from interp_va", lin, m_out, k)
        m_log = 10 ** model_apply_py(T, vol, np.log10(v), shape_o)
        lg = maps.interpolate(g, v, ng, method='volume', log=True)
        nev += 1
        k = closev(lg, m_log)
        if k is not None:
            report("interpolate(method='volume', log=True) differs from 10**(A log10 v)", lg, m_log, k)
        # (iii) Model.interpolate_to_grid: six maps (log from the map name) x 4 anisotropy cases x
        #       mu_r none/given x epsilon_r none/given; every property compared BY NAME
        name = NAMES6[i % 6]
        aniso, has_mu, has_eps = i % 4, (i // 4) % 2 == 1, (i // 8) % 2 == 1
        mp = getattr(maps, 'Map' + name)()
        with np.errstate(all='ignore'), warnings.catch_warnings():
            warnings.simplefilter('ignore')
            props = {'property_x': mp.forward(v.copy()),
                     'property_y': mp.forward(values8(rng, v.shape)) if aniso in (1, 3) else None,
                     'property_z': mp.forward(values8(rng, v.shape)) if aniso in (2, 3) else None,
                     'mu_r': values8(rng, v.shape) if has_mu else None,
                     'epsilon_r': values8(rng, v.shape) if has_eps else None}
            model = emg3d.Model(g, mapping=name, **{k_: (None if a_ is None else a_.copy())
                                                    for k_, a_ in props.items()})
            combo = f"i2g:aniso={aniso} mu={int(has_mu)} eps={int(has_eps)}"
            if g == ng:
                hist['i2g:identical grid'] = hist.get('i2g:identical grid', 0) + 1
                if model.interpolate_to_grid(ng) is not model:
                    dis.append({'what': 'interpolate_to_grid on an identical grid does not return the model',
                                'case': brief})
            else:
                hist[combo] = hist.get(combo, 0) + 1
                try:
                    m2 = model.interpolate_to_grid(ng)
                except Exception as e:
                    dis.append({'what': f'Model.interpolate_to_grid raised ({name}, {combo})', 'case': brief,
                                'impl': repr(e)})
                    m2 = None
                log = not name.startswith('L')

                def expect(p):
                    return (10 ** model_apply_py(T, vol, np.log10(p), shape_o) if log
                            else model_apply_py(T, vol, p, shape_o))
                nev += 1
                for pn, arr in (props.items() if m2 is not None else []):
                    got = getattr(m2, pn)
                    if (arr is None) != (got is None):
                        dis.append({'what': f'Model.interpolate_to_grid ({name}, {combo}): {pn} is '
                                            f'{"defined" if got is not None else "None"} in the result but '
                                            f'{"defined" if arr is not None else "None"} in the input',
                                    'case': brief})
                        continue
                    if arr is None:
                        continue
                    k = closev(got, expect(arr))
                    if k is not None:
                        report(f'Model.interpolate_to_grid ({name}, {combo}) {pn} differs from the model '
                               f'applied to {pn}', got, expect(arr), k)
                if m2 is not None and m2.case != model.case:
                    dis.append({'what': f'interpolate_to_grid changed the anisotropy case '
                                        f'{model.case} -> {m2.case} ({combo})', 'case': brief})
                if m2 is not None and m2.map.name != name:
                    dis.append({'what': 'interpolate_to_grid changed the mapping', 'case': brief})
        # (iv) the adjoint used by the gradient vs the model's explicit transpose
        oval = np.zeros((3, *g.shape_cells))
        nval = np.stack([c['u'], 2 * c['u'], -c['u']])
        maps._interp_volume_average_adj(oval, g, nval, ng)
        nev += 1
        for comp, fac in enumerate((1.0, 2.0, -1.0)):
            k = closev(oval[comp], fac * m_adj.reshape(g.shape_cells))
            if k is not None:
                report('_interp_volume_average_adj differs from the explicit transpose of the model',
                       oval[comp], fac * m_adj, k)
                break
    return nev


# --------------------- call histories that RE-USE the same grid objects


def gen_pool(rng, nmax=3):
    """Node triples of a small pool of grids: G0; G1 = G0 shifted; G2 = same cell counts, other
    widths; G3 = G0's directions permuted (same n_cells, other shape); G4 = other cell counts;
    T0, T1 = targets (T1 has T0's cell counts)."""
    def nodes(n, x0=None):
        return rand_nodes(rng, n, x0)
    cnt = [rng.randint(1, nmax) for _ in range(3)]
    if cnt[0] * cnt[1] * cnt[2] == 1:
        cnt[rng.randint(0, 2)] = 2
    g0 = [nodes(n) for n in cnt]
    d = [rng.randint(1, 12) / 8 * rng.choice([1, -1]) for _ in range(3)]
    g1 = [[x + dd for x in a] for a, dd in zip(g0, d)]
    g2 = [nodes(n, a[0]) for n, a in zip(cnt, g0)]
    perm = rng.choice([(1, 0, 2), (2, 1, 0), (0, 2, 1), (1, 2, 0)])
    g3 = [list(g0[k]) for k in perm]
    g4 = [nodes(rng.randint(1, nmax), a[0] + rng.randint(-8, 8) / 8) for a in g0]
    tc = [rng.randint(1, nmax) for _ in range(3)]
    t0 = [nodes(n, a[0] + rng.randint(-8, 8) / 8) for n, a in zip(tc, g0)]
    t1 = [nodes(n, a[0] + rng.randint(-8, 8) / 8) for n, a in zip(tc, g0)]
    return {'G0': g0, 'G1': g1, 'G2': g2, 'G3': g3, 'G4': g4, 'T0': t0, 'T1': t1}


def gen_call_history(rng, ncalls, nmax=3):
    pool = gen_pool(rng, nmax)
    names = list(pool)
    calls = [('adj', 'G0', 'T0'), ('adj', 'G1', 'T0'), ('adj', 'G3', 'T0'), ('fwd', 'G2', 'T0')]
    while len(calls) < ncalls:
        op = rng.choice(['adj', 'adj', 'fwd', 'fwd_log', 'i2g'])
        a, b = rng.sample(names, 2)
        calls.append((op, a, b))
    rng.shuffle(calls[3:])
    out = []
    for k, (op, a, b) in enumerate(calls):
        shp_a = tuple(len(x) - 1 for x in pool[a])
        shp_b = tuple(len(x) - 1 for x in pool[b])
        out.append(dict(op=op, src=a, tgt=b, v=values8(rng, shp_a),
                        u=values8(rng, shp_b) * rng.choice([1, -1]), map=NAMES6[rng.randint(0, 5)]))
    return pool, out


def mesh_of(nodes):
    import emg3d
    return emg3d.TensorMesh([np.diff(x) for x in nodes], [x[0] for x in nodes])


def run_call(call, g, ng):
    """One call on the given grid OBJECTS; returns the flat answer."""
    import emg3d
    from emg3d import maps
    op = call['op']
    with np.errstate(all='ignore'), warnings.catch_warnings():
        warnings.simplefilter('ignore')
        if op == 'fwd':
            return np.asarray(maps.interpolate(g, call['v'], ng, method='volume')).ravel()
        if op == 'fwd_log':
            return np.asarray(maps.interpolate(g, call['v'], ng, method='volume', log=True)).ravel()
        if op == 'adj':
            oval = np.zeros((3, *g.shape_cells))
            maps._interp_volume_average_adj(oval, g, np.stack([call['u'], 2 * call['u'], -call['u']]), ng)
            return oval.ravel()
        mp = getattr(maps, 'Map' + call['map'])()
        model = emg3d.Model(g, property_x=mp.forward(call['v'].copy()), mapping=call['map'])
        m2 = model.interpolate_to_grid(ng)
        return np.asarray(mp.backward(np.asarray(m2.property_x))).ravel()


def brief_call(pool, call, k):
    return {'call': k, 'op': call['op'], 'src': call['src'], 'tgt': call['tgt'], 'map': call['map'],
            'src_nodes': [[float(x) for x in a] for a in pool[call['src']]],
            'tgt_nodes': [[float(x) for x in a] for a in pool[call['tgt']]]}


def check_call_histories(ctx, nhist, ncalls, dis, hist, samples):
    """Sequences of calls on SHARED grid objects; every answer is compared with the Coq model
    evaluated on the grids of that call (history independence)."""
    rng = ctx.rng
    hs = [gen_call_history(rng, ncalls) for _ in range(nhist)]
    ccs = []
    for hi, (pool, calls) in enumerate(hs):
        for k, c in enumerate(calls):
            ccs.append(dict(nodes=pool[c['src']], nnodes=pool[c['tgt']], v=c['v'], u=c['u'],
                            init=np.zeros(c['u'].shape),
                            only={'fwd': (0,), 'adj': (2,)}.get(c['op'], (3,))))
    texts, where = coq_3d_batches('c15_h', ccs, 6 if ctx.thorough else 5)
    res = V.coq_eval_many(texts)
    nev = 0
    flat = -1
    for hi, (pool, calls) in enumerate(hs):
        objs = {nm: mesh_of(nd) for nm, nd in pool.items()}        # ONE object per grid, re-used
        done = []
        for k, c in enumerate(calls):
            flat = hi * len(calls) + k
            ans, out = batch_answers(res, where, flat)
            done.append((c['op'], c['src'], c['tgt']))
            if ans is None:
                dis.append({'what': 'interp_va model does not evaluate (history)', 'log': out[-1200:]})
                continue
            g, ng = objs[c['src']], objs[c['tgt']]
            shape_o = tuple(ng.shape_cells)
            vol = ng.cell_volumes.reshape(shape_o, order='F')
            if c['op'] == 'fwd':
                model = np.array([float(x) for x in V.parse_pairs(ans[0])])
            elif c['op'] == 'adj':
                m_adj = np.array([float(x) for x in V.parse_pairs(ans[2])])
                model = np.concatenate([m_adj, 2 * m_adj, -m_adj])
            else:                                   # log mode / interpolate_to_grid (conductivities)
                T = parse_T(ans[3])
                model = (10 ** model_apply_py(T, vol, np.log10(c['v']), shape_o)).ravel()
            if c['op'] == 'i2g' and g == ng:
                continue                            # emg3d calls the grids equal: returns the model itself
            try:
                impl = run_call(c, g, ng)
            except Exception as e:
                dis.append({'what': 'call in a history raised', 'case': brief_call(pool, c, k),
                            'impl': repr(e)})
                continue
            nev += 1
            hist['hist:' + c['op']] = hist.get('hist:' + c['op'], 0) + 1
            kbad = closev(impl, model, 1e-8 if c['op'] == 'i2g' else 1e-9)
            if kbad is not None:
                dis.append({'what': f"{c['op']} in a history that re-uses grid objects differs from the model "
                                    f"on the grids of that call",
                            'case': brief_call(pool, c, k), 'history_so_far': done,
                            'flat_index': kbad,
                            'impl': repr(float(impl[kbad])) if kbad < impl.size else 'shape',
                            'model': repr(float(model[kbad])) if kbad < model.size else 'shape'})
                break
        if hi < 1:
            samples.append({'history': [(c['op'], c['src'], c['tgt']) for c in calls],
                            'pool': {nm: [[float(x) for x in a] for a in nd] for nm, nd in pool.items()}})
    return nev


# ------------- option histories (round 6): does a call's option set leak into later calls?
# Model of the option resolution: coq/Model/I2GOpts.v (state = the tables of defaults).
OPT_CLASSES = [
    ('linear', {'method': 'linear'}),
    ('nearest', {'method': 'nearest'}),
    ('cubic', {'method': 'cubic'}),
    ('volume', {'method': 'volume'}),
    ('linear,extrapolate=False', {'method': 'linear', 'extrapolate': False}),
    ('nearest,extrapolate=False', {'method': 'nearest', 'extrapolate': False}),
    ('cubic,extrapolate=True', {'method': 'cubic', 'extrapolate': True}),
    ('extrapolate=False', {'extrapolate': False}),
    ('log=False', {'log': False}),
    ('log=True', {'log': True}),
    ('linear,log=True', {'method': 'linear', 'log': True}),
    ('volume,log=False,extrapolate=False', {'method': 'volume', 'log': False, 'extrapolate': False}),
    ('linear,fill_value', {'method': 'linear', 'fill_value': 3, 'bounds_error': False}),
    ('nearest,bounds_error', {'method': 'nearest', 'bounds_error': True}),
    ('cubic,mode,cval', {'method': 'cubic', 'mode': 'constant', 'cval': 2}),
    ('cubic,order', {'method': 'cubic', 'order': 1}),
    ('unknown method', {'method': 'bogus'}),
    ('method=None', {'method': None}),
    ('linear,unknown keyword', {'method': 'linear', 'foo': 1}),
    ('volume,unknown keyword', {'method': 'volume', 'foo': 1}),
    ('xi given', {'method': 'nearest', 'xi': 'GRID:T1'}),
    ('values given', {'values': None}),
]
OPT_ENTRIES = ['model:Resistivity', 'model:LgConductivity', 'field', 'direct']
DEFAULT_ENTRIES = ['model', 'get_model', 'model', 'field', 'model', 'direct']
GRID_IDS = {'G': 0, 'T0': 1, 'T1': 2}


def gen_opt_pool(rng):
    """G: 4..5 cells per direction (so that the spline routine accepts it); T0: another partition
    of the SAME region; T1: an unrelated overlapping grid (cells outside G)."""
    g = [rand_nodes(rng, rng.randint(4, 5)) for _ in range(3)]
    t0 = [pair_1d_from(rng, a, 'same_region', 4) for a in g]
    t1 = [pair_1d_from(rng, a, rng.choice(['overlap', 'outside', 'shift']), 3) for a in g]
    if all(a == b for a, b in zip(g, t0)):
        t0[0] = [g[0][0], g[0][-1]]
    return {'G': g, 'T0': t0, 'T1': t1}


def pair_1d_from(rng, a, kind, nmax):
    """Second grid of the given relation to the GIVEN node list a."""
    if kind == 'same_region':
        L = int(round((a[-1] - a[0]) * 16))
        cuts = sorted(set(rng.randint(1, max(L - 1, 1)) for _ in range(rng.randint(1, nmax - 1))))
        b = [a[0]] + [a[0] + c / 16 for c in cuts if 0 < c < L] + [a[-1]]
    elif kind == 'shift':
        d = rng.choice([-1, 1]) * rng.randint(1, 12) / 16
        b = [x + d for x in a]
    elif kind == 'outside':
        b = rand_nodes(rng, rng.randint(2, nmax), a[0] - rng.randint(1, 40) / 8)
        while b[-1] <= a[-1]:
            b.append(b[-1] + rng.randint(8, 40) / 8)
    else:
        b = rand_nodes(rng, rng.randint(2, nmax), a[0] + rng.randint(-24, 24) / 8, den=rng.choice([4, 8, 16]))
    return sorted(set(b))


def gen_opt_history(rng, hi, nclasses, shuffle):
    """Calls with options (classes x entry points enumerated deterministically, rotated by hi), each
    followed by a call WITHOUT options; the first call of a history is a default call."""
    pool = gen_opt_pool(rng)
    shp = tuple(len(x) - 1 for x in pool['G'])
    combos = [(ci, ei) for ci in range(len(OPT_CLASSES)) for ei in range(len(OPT_ENTRIES))]
    if shuffle:
        rng.shuffle(combos)
    else:
        combos = combos[hi::max(1, (len(combos) + nclasses - 1) // nclasses)] if nclasses < len(combos) else combos
    calls = [dict(entry='model', map='Resistivity', tgt='T0', user={}, label='default', default=True)]
    for k, (ci, ei) in enumerate(combos):
        label, user = OPT_CLASSES[ci]
        ent = OPT_ENTRIES[ei]
        if ent == 'direct' and 'xi' in user:
            continue                        # a Python-level TypeError (xi twice), not an option
        tgt = 'T0' if (k + hi) % 3 else 'T1'
        c = dict(entry=ent.split(':')[0], map=ent.split(':')[1] if ':' in ent else 'Conductivity',
                 tgt=tgt, user=dict(user), label=f'{ent}({label})', default=False)
        calls.append(c)
        de = DEFAULT_ENTRIES[(k + hi) % len(DEFAULT_ENTRIES)]
        calls.append(dict(entry=de, map=NAMES6[(k + 2 * hi) % 6], tgt='T0' if (k + hi) % 2 else 'T1',
                          user={}, label=f'{de}(default)', default=True))
    for c in calls:
        c['v'] = values8(rng, shp)
    return pool, calls


def coq_oval(x):
    if isinstance(x, str) and x.startswith('GRID:'):
        return f"(OGrid {GRID_IDS[x[5:]]})"
    if isinstance(x, bool):
        return f"(OBool {'true' if x else 'false'})"
    if x is None:
        return "ONone"
    if isinstance(x, int):
        return f"(ONum ({x}))"
    return f"(OStr {V.coq_str(x)})"


def coq_call(c):
    ent = {'model': None, 'get_model': None, 'field': 'FieldI2G', 'direct': 'Direct'}[c['entry']]
    if ent is None:
        ent = f"(ModelI2G {'false' if c['map'].startswith('L') else 'true'})"
    user = '; '.join(f"({V.coq_str(k)}, {coq_oval(v)})" for k, v in c['user'].items())
    return (f"{{| c_entry := {ent}; c_src := 0; c_tgt := {GRID_IDS[c['tgt']]}; "
            f"c_user := [{user}] |}}")


OPT_HEADER = (
    "From Coq Require Import String DecimalString.\n"
    "From V Require Import Model.I2GOpts.\n"
    "Local Open Scope string_scope.\n"
    "Definition zs (z : Z) : string := NilEmpty.string_of_int (Z.to_int z).\n"
    "Definition sv (v : oval) : string := match v with OStr s => \"s:\" ++ s | OBool true => \"b:1\" "
    "| OBool false => \"b:0\" | ONone => \"n:\" | ONum z => \"z:\" ++ zs z | OGrid n => \"g:\" ++ zs (Z.of_nat n) end.\n"
    "Definition sb (b : bool) : string := if b then \"1\" else \"0\".\n"
    "Definition sr (r : route) : list (string * string) := match r with\n"
    "  | RVolume lg => [(\"route\", \"volume\"); (\"log\", sb lg)]\n"
    "  | ROther m e lg kw => [(\"route\", \"other\"); (\"method\", sv m); (\"extrapolate\", sb e); (\"log\", sb lg)]\n"
    "                        ++ map (fun kv => (\"kw:\" ++ fst kv, sv (snd kv))) kw\n"
    "  | RTypeError => [(\"route\", \"typeerror\")] end ++ [(\"end\", \"\")].\n"
    "Definition show (e : entry) (r : route) : list (string * string) :=\n"
    "  (\"accepts\", sb (entry_accepts e r)) :: sr r.\n"
    "Definition shows (st : defaults) (cs : list call) : list (string * string) :=\n"
    "  let res := run st cs in\n"
    "  (\"state_kept\", sb (match fst res with {| d_model := m; d_field := f |} =>\n"
    "       (Nat.eqb (List.length m) 2 && Nat.eqb (List.length f) 3)%bool end))\n"
    "  :: flat_map (fun cr => show (c_entry (fst cr)) (snd cr)) (combine cs (snd res)).\n")


def parse_routes(ans):
    """Answer of `shows`: flat list of (key, value) string pairs, one block per call closed by 'end'."""
    pairs = re.findall(r'\("([^"]*)"(?:%string)?\s*,\s*"([^"]*)"(?:%string)?\)', ans)
    blocks, cur = [], {}
    for k, v in pairs:
        if k == 'state_kept':
            continue
        if k == 'end':
            blocks.append(cur)
            cur = {}
        else:
            cur[k] = v
    return blocks


def py_oval(s, objs):
    t, _, rest = s.partition(':')
    if t == 's':
        return rest
    if t == 'b':
        return rest == '1'
    if t == 'n':
        return None
    if t == 'z':
        return int(rest)
    return objs[{v: k for k, v in GRID_IDS.items()}[int(rest)]]


def outcome(fn):
    """('ok', flat array) or ('err', exception type name)."""
    with np.errstate(all='ignore'), warnings.catch_warnings():
        warnings.simplefilter('ignore')
        try:
            return 'ok', np.asarray(fn()).ravel()
        except Exception as e:          # noqa: BLE001 -- fault paths are part of the stream
            return 'err', type(e).__name__


def _survey():
    import emg3d
    return emg3d.surveys.Survey(sources=emg3d.TxElectricDipole((0.5, 0.5, 0.5, 0, 0)),
                                receivers=emg3d.RxElectricPoint((1, 1, 1, 0, 0)), frequencies=1.0)


def user_opts(c, objs):
    return {k: (objs[v[5:]] if isinstance(v, str) and v.startswith('GRID:') else v) for k, v in c['user'].items()}


def field_data(c, g):
    n = g.n_edges
    base = np.resize(c['v'].ravel(), n)
    return base * (1 + 0.5j)


def run_opt_call(c, objs):
    """The call on the implementation (shared grid objects)."""
    import emg3d
    from emg3d import maps
    g, ng = objs['G'], objs[c['tgt']]
    kw = user_opts(c, objs)
    if c['entry'] in ('model', 'get_model'):
        mp = getattr(maps, 'Map' + c['map'])()

        def fn():
            model = emg3d.Model(g, property_x=mp.forward(c['v'].copy()), mapping=c['map'])
            if c['entry'] == 'get_model':
                sim = emg3d.Simulation(_survey(), model, gridding='input', gridding_opts=ng, name='c15')
                return sim.get_model('TxED-1', 'f-1').property_x
            return model.interpolate_to_grid(ng, **kw).property_x
    elif c['entry'] == 'field':
        def fn():
            return emg3d.Field(g, field_data(c, g), frequency=1.0).interpolate_to_grid(ng, **kw).field
    else:
        def fn():
            return maps.interpolate(g, c['v'].copy(), ng, **kw)
    return outcome(fn)


def expected_opt_call(c, route, pool, objs, Ts):
    """What the Coq model says: the volume-average map with the model's weights, or the third-party
    routine called with EXPLICIT (method, extrapolate, log, kwargs) on fresh grid objects."""
    import emg3d
    from emg3d import maps
    if route['route'] == 'typeerror':
        return 'err', 'TypeError'
    if route.get('accepts') == '0':
        return 'err', 'ValueError'
    lg = route['log'] == '1'
    g, ng = mesh_of(pool['G']), mesh_of(pool[c['tgt']])
    is_model = c['entry'] in ('model', 'get_model')
    mp = getattr(maps, 'Map' + c['map'])()
    if route['route'] == 'volume':
        T, vol, shape_o = Ts[c['tgt']]
        vals = mp.forward(c['v'].copy()) if is_model else c['v']
        with np.errstate(all='ignore'):
            res = (10 ** model_apply_py(T, vol, np.log10(vals), shape_o) if lg
                   else model_apply_py(T, vol, vals, shape_o))
        if is_model:
            return outcome(lambda: emg3d.Model(ng, property_x=res, mapping=c['map']).property_x)
        return 'ok', res.ravel()
    fresh = {'G': g, 'T0': mesh_of(pool['T0']), 'T1': mesh_of(pool['T1'])}
    ex = dict(method=py_oval(route['method'], fresh), extrapolate=route['extrapolate'] == '1', log=lg)
    ex.update({k[3:]: py_oval(v, fresh) for k, v in route.items() if k.startswith('kw:')})
    if is_model:
        return outcome(lambda: emg3d.Model(
            ng, property_x=maps.interpolate(g, mp.forward(c['v'].copy()), ng, **ex), mapping=c['map']).property_x)
    if c['entry'] == 'field':
        f = emg3d.Field(g, field_data(c, g), frequency=1.0)
        return outcome(lambda: emg3d.Field(ng, np.r_[
            maps.interpolate(g, f.fx, ng, **ex).ravel('F'), maps.interpolate(g, f.fy, ng, **ex).ravel('F'),
            maps.interpolate(g, f.fz, ng, **ex).ravel('F')], frequency=1.0).field)
    return outcome(lambda: maps.interpolate(g, c['v'].copy(), ng, **ex))


def same_outcome(a, b, tol=1e-9):
    if a[0] != b[0]:
        return False
    if a[0] == 'err':
        return a[1] == b[1]
    x, y = a[1], b[1]
    if x.shape != y.shape:
        return False
    if np.iscomplexobj(x) or np.iscomplexobj(y):
        sc = max(float(np.max(np.abs(y))) if y.size else 0.0, 1e-300)
        return bool(np.all(np.abs(x - y) <= tol * np.maximum(np.abs(y), sc * 1e-3)))
    ok = np.isfinite(y)
    if not np.array_equal(ok, np.isfinite(x)):
        return False
    return closev(x[ok], y[ok], tol) is None


def brief_outcome(o):
    return o[1] if o[0] == 'err' else [float(np.real(z)) for z in o[1][:4]]


def check_option_histories(ctx, nhist, nclasses, dis, hist, samples):
    """Histories of calls WITH options on one process (every documented method, extrapolate, log,
    extra keyword arguments, calls that raise; Model / Field / maps.interpolate), each followed by a
    call WITHOUT options (Model.interpolate_to_grid, Simulation.get_model, Field, maps.interpolate);
    every answer is compared with the Coq model run on the current state (Model/I2GOpts.v routes the
    call; volume routes are evaluated with the weights of Model/VolAvg.v)."""
    rng = ctx.rng
    hs = [gen_opt_history(rng, hi, nclasses, shuffle=ctx.thorough and hi > 0) for hi in range(nhist)]
    L = [HEADER, OPT_HEADER]
    for hi, (pool, calls) in enumerate(hs):
        shp = tuple(len(x) - 1 for x in pool['G'])
        for tg in ('T0', 'T1'):
            sho = tuple(len(x) - 1 for x in pool[tg])
            L.append(f"Module H{hi}{tg}.")
            L.append(coq_3d(dict(nodes=pool['G'], nnodes=pool[tg], v=np.zeros(shp), u=np.zeros(sho),
                                 init=np.zeros(sho)), header=False, only=(3,)))
            L.append(f"End H{hi}{tg}.")
    # ONE state threaded through all histories of the run, as on the process
    allcalls = [c for _, calls in hs for c in calls]
    L.append("Eval vm_compute in shows defaults0 [" + ';\n  '.join(coq_call(c) for c in allcalls) + "].")
    rc, out = V.coq_eval('c15_o_0', '\n'.join(L) + '\n')
    if rc != 0:
        dis.append({'what': 'option-resolution model does not evaluate', 'log': out[-1500:]})
        return 0
    ans = V.eval_answers(out)
    routes = parse_routes(ans[-1])
    if len(routes) != len(allcalls) or '("state_kept", "1")' not in ans[-1].replace('%string', ''):
        dis.append({'what': 'option-resolution model: unexpected answer', 'log': ans[-1][:800]})
        return 0
    nev, ri = 0, 0
    for hi, (pool, calls) in enumerate(hs):
        objs = {nm: mesh_of(nd) for nm, nd in pool.items()}
        Ts = {}
        for ti, tg in enumerate(('T0', 'T1')):
            a = ans[(2 * hi + ti) * NANS_3D + 3]
            sho = tuple(objs[tg].shape_cells)
            Ts[tg] = (parse_T(a), objs[tg].cell_volumes.reshape(sho, order='F'), sho)
        done = []
        for k, c in enumerate(calls):
            route = routes[ri]
            ri += 1
            done.append(c['label'] + '->' + c['tgt'])
            impl = run_opt_call(c, objs)
            want = expected_opt_call(c, route, pool, objs, Ts)
            nev += 1
            key = ('opt:default ' if c['default'] else 'opt:') + c['entry'] + ':' + route['route'] \
                + (':raises' if want[0] == 'err' else '')
            hist[key] = hist.get(key, 0) + 1
            if not same_outcome(impl, want):
                dis.append({'what': (f"{c['label']} after a history of calls with other options differs from the "
                                     f"model on the current state" if c['default'] else
                                     f"{c['label']} differs from the model of the option resolution"),
                            'case': {'history': done[-12:], 'calls_before': len(done) - 1, 'map': c['map'],
                                     'target': c['tgt'], 'user_options': repr(c['user']),
                                     'route': route,
                                     'nodes': {nm: [[float(x) for x in a] for a in nd] for nm, nd in pool.items()}},
                            'impl': brief_outcome(impl), 'model': brief_outcome(want)})
                if len([d for d in dis if 'option' in d['what']]) >= 4:
                    return nev
        if hi < 1:
            samples.append({'option_history': [c['label'] + '->' + c['tgt'] for c in calls[:9]]})
    return nev


def correspondence(ctx):
    dis, hist, samples = [], {}, []
    n1, nt = check_weights(ctx, 3000 if ctx.thorough else 360, dis, hist, samples)
    n3 = check_3d(ctx, 120 if ctx.thorough else 18, 4 if ctx.thorough else 3, dis, hist, samples)
    n3 += check_call_histories(ctx, 12 if ctx.thorough else 3, 12 if ctx.thorough else 9, dis, hist, samples)
    n3 += check_option_histories(ctx, 4 if ctx.thorough else 2, 10 ** 9 if ctx.thorough else 44, dis, hist, samples)
    return {
        'evaluations': n1 + n3,
        'distinct_nontrivial': nt,
        'rule': "1-D (360 pairs quick, 3000 thorough; 3-D 18 / 120 cases, several per generated file): grid pairs cycling through equal/refine/coarsen/shift/overlap/inside/outside/same_region/"
                "disjoint/touching/eqcount/eqcount_shift (equal cell counts, 10..60 m cells, corresponding "
                "nodes 1/8..4 m apart), 1..12 cells, dyadic nodes (1/4..1/16), 40% of the pairs translated to "
                "a large absolute origin (1e5..1e7, exact in floats); 3-D families: local / utm (same families "
                "at large origins) / utm-near (equal counts, nodes equal or metres apart in EVERY direction, "
                "large origins); each run through the compiled "
                "routine and its .py_func, weights and indices compared EXACTLY with va_weights on Q; "
                "distinct non-trivial = distinct (relation tags, sizes) other than equal grids. 3-D: per "
                "direction a pair of 1..3 (thorough 4) cells, values 8-bit mantissa * 2^(-13..13); "
                "interp_volume_average with zero/non-zero initial output, interpolate linear/log, "
                "Model.interpolate_to_grid (map cycling; anisotropy case x mu_r x epsilon_r cycling through all "
                "16 combinations, every property compared by name, None status / case / mapping preserved), "
                "adjoint; 1e-9 relative. Call "
                "histories: a pool of grid OBJECTS (G0, G0 shifted, same counts/other widths, permuted shape, "
                "other counts, two targets) re-used as source and target through 9 (thorough 12) calls "
                "(adjoint, interpolate linear/log, Model.interpolate_to_grid), starting with adjoints of three "
                "equal-n_cells sources onto the same target object; each answer vs the model on that call's grids. "
                "Option histories (one process, one model state threaded through all of them): 22 option "
                "classes (each documented method, extrapolate, log, extra keyword arguments of the third-party "
                "routines, unknown method / keyword, 'xi' / 'values' given) x 4 entry points "
                "(Model Resistivity / LgConductivity, Field, maps.interpolate) enumerated deterministically, "
                "each followed by a call WITHOUT options (Model.interpolate_to_grid with the six maps, "
                "Simulation.get_model, Field, maps.interpolate); routes from Model/I2GOpts.v (vm_compute), "
                "volume routes evaluated with the weights of Model/VolAvg.v, other routes with the routine "
                "called with the resolved options spelled out; errors compared by type",
        'samples': samples[:6],
        'traces_validated_against_impl': n1 + n3,
        'histogram': hist,
        'disagreements': dis,
    }


# ------------------------------------------------------------------ searcher
def search_case(seed, log):
    """Property clauses evaluated directly on the implementation."""
    import random
    import emg3d
    from emg3d import maps
    rng = random.Random(seed)
    mode = rng.choice(['same', 'mixed', 'near'])
    big = mode == 'near' or rng.random() < 0.5
    offs = [big_offset(rng) if big else 0.0 for _ in range(3)]
    if big and rng.random() < 0.5:
        offs[2] = 0.0
    nodes, nnodes = [], []
    for d in range(3):
        kind = {'same': 'same_region', 'mixed': rng.choice(KINDS), 'near': rng.choice(NEAR)}[mode]
        if mode == 'near' and offs[d] == 0.0:
            kind = 'equal'
        if mode == 'near' and d == 1 and kind == 'equal' and nodes[0] == nnodes[0]:
            kind = 'eqcount'
        a, b = pair_1d(rng, kind, 12 if d == 0 else 5, offset=offs[d])
        nodes.append(a)
        nnodes.append(b)
    g = emg3d.TensorMesh([np.diff(x) for x in nodes], [x[0] for x in nodes])
    ng = emg3d.TensorMesh([np.diff(x) for x in nnodes], [x[0] for x in nnodes])
    npr = np.random.RandomState(seed % (2 ** 31))
    v = 10 ** npr.uniform(-4, 4, g.shape_cells)
    base = {'seed': seed, 'log': log, 'mode': mode, 'offsets': offs,
            'nodes': [[float.hex(x) for x in a] for a in nodes],
            'new_nodes': [[float.hex(x) for x in a] for a in nnodes]}
    out = maps.interpolate(g, v, ng, method='volume', log=log)
    # translation invariance: the same two grids moved to local coordinates
    if any(offs):
        g0 = emg3d.TensorMesh(g.h, [x[0] - o for x, o in zip(nodes, offs)])
        ng0 = emg3d.TensorMesh(ng.h, [x[0] - o for x, o in zip(nnodes, offs)])
        out0 = maps.interpolate(g0, v, ng0, method='volume', log=log)
        if not np.all(np.abs(out - out0) <= 1e-8 * np.abs(out0)):
            k = int(np.argmax(np.abs(out - out0) / np.abs(out0)))
            return dict(base, signature='volume averaging depends on a translation of both grids'
                        + (' (log)' if log else ''), flat_index=k,
                        observed=float(out.ravel()[k]), required=float(out0.ravel()[k]))
    f = (np.log10 if log else (lambda x: x))
    vol = g.cell_volumes.reshape(g.shape_cells, order='F')
    nvol = ng.cell_volumes.reshape(ng.shape_cells, order='F')
    if not np.all(np.isfinite(out)):
        return dict(base, signature='volume averaging returns non-finite values')
    # range
    if out.min() < v.min() * (1 - 1e-9) or out.max() > v.max() * (1 + 1e-9):
        return dict(base, signature='volume averaging leaves the range of the input values'
                    + (' (log)' if log else ''),
                    observed=[float(out.min()), float(out.max())],
                    required=[float(v.min()), float(v.max())])
    # conservation
    if all(a[0] == b[0] and a[-1] == b[-1] for a, b in zip(nodes, nnodes)):
        s_in, s_out = float(np.sum(vol * f(v))), float(np.sum(nvol * f(out)))
        if abs(s_in - s_out) > 1e-9 * max(float(np.sum(vol * np.abs(f(v)))), 1e-300):
            return dict(base, signature='volume averaging does not conserve the integral'
                        + (' of the log' if log else ''), observed=s_out, required=s_in)
    # identity
    same_out = maps.interpolate(g, v, emg3d.TensorMesh(g.h, g.origin), method='volume', log=log)
    if np.max(np.abs(same_out - v) / v) > 1e-10:
        return dict(base, signature='volume averaging between equal grids is not the identity')
    # nearest fill: new cells whose centre box lies entirely outside the source grid in some direction
    idx = []
    for a, b in zip(nodes, nnodes):
        cc = [None] * (len(b) - 1)
        for j in range(len(b) - 1):
            if b[j + 1] <= a[0]:
                cc[j] = 0
            elif b[j] >= a[-1]:
                cc[j] = len(a) - 2
            else:
                inside = [k for k in range(len(a) - 1) if a[k] <= b[j] and b[j + 1] <= a[k + 1]]
                cc[j] = inside[0] if inside else None
        idx.append(cc)
    for o in itertools.product(*[range(len(b) - 1) for b in nnodes]):
        src = [idx[d][o[d]] for d in range(3)]
        if None in src:
            continue
        outside = any(nnodes[d][o[d] + 1] <= nodes[d][0] or nnodes[d][o[d]] >= nodes[d][-1] for d in range(3))
        want = v[tuple(src)]
        if abs(out[o] - want) > 1e-9 * want:
            return dict(base, signature=('cell outside the source grid not filled with the nearest value'
                                         if outside else 'cell inside one source cell does not take its value'),
                        cell=list(o), observed=float(out[o]), required=float(want))
    # adjoint pairing (linear mode): <u, A v> == <A^T u, v>
    if not log:
        u = npr.uniform(-1, 1, ng.shape_cells)
        oval = np.zeros((3, *g.shape_cells))
        maps._interp_volume_average_adj(oval, g, np.stack([u, u, u]), ng)
        lhs, rhs = float(np.sum(u * out)), float(np.sum(oval[0] * v))
        if abs(lhs - rhs) > 1e-9 * max(float(np.sum(np.abs(u) * out)), 1e-300):
            return dict(base, signature='gradient adjoint is not the transpose of the volume averaging',
                        observed=rhs, required=lhs)
    else:
        # rho / sigma symmetry in log mode
        inv = maps.interpolate(g, 1.0 / v, ng, method='volume', log=True)
        if np.max(np.abs(inv * out - 1.0)) > 1e-9:
            return dict(base, signature='log-mode averaging of resistivity is not the reciprocal of '
                                        'that of conductivity')
        # Model.interpolate_to_grid: same conductivities whatever the parametrisation
        if g != ng:
            ref = None
            for name in ('Conductivity', 'Resistivity', 'LgConductivity', 'LnResistivity',
                         'LgResistivity', 'LnConductivity'):
                mp = getattr(maps, 'Map' + name)()
                with np.errstate(all='ignore'), warnings.catch_warnings():
                    warnings.simplefilter('ignore')
                    try:
                        m2 = emg3d.Model(g, property_x=mp.forward(v.copy()),
                                         mapping=name).interpolate_to_grid(ng)
                        cond = mp.backward(np.asarray(m2.property_x))
                    except Exception as e:
                        return dict(base, signature='Model.interpolate_to_grid fails on a valid model',
                                    map=name, observed=repr(e))
                if ref is None:
                    ref = cond
                elif not np.all(np.abs(cond - ref) <= 1e-8 * ref):
                    return dict(base, signature='Model.interpolate_to_grid: interpolated conductivity '
                                                'depends on the parametrisation', map=name,
                                observed=float(cond.ravel()[0]), required=float(ref.ravel()[0]))
    return None


def search_history_case(seed):
    """History independence on the implementation: a sequence of calls on shared grid objects
    must give the same answers as the same calls on fresh copies of the grids; and the adjoint
    must pair with the forward map inside the history."""
    import random
    from emg3d import maps
    rng = random.Random(seed)
    pool, calls = gen_call_history(rng, 10, nmax=4)
    objs = {nm: mesh_of(nd) for nm, nd in pool.items()}
    for k, c in enumerate(calls):
        g, ng = objs[c['src']], objs[c['tgt']]
        if c['op'] == 'i2g' and g == ng:
            continue
        try:
            shared = run_call(c, g, ng)
            fresh = run_call(c, mesh_of(pool[c['src']]), mesh_of(pool[c['tgt']]))
        except Exception as e:
            return {'signature': 'call in a history of volume-averaging calls raised', 'kind': 'history',
                    'seed': seed, 'call': brief_call(pool, c, k), 'observed': repr(e)}
        hist_so_far = [(x['op'], x['src'], x['tgt']) for x in calls[:k + 1]]
        if shared.shape != fresh.shape or not np.all(
                np.abs(shared - fresh) <= 1e-10 * np.maximum(np.abs(fresh), np.max(np.abs(fresh)) * 1e-6)):
            kb = int(np.argmax(np.abs(shared - fresh))) if shared.shape == fresh.shape else -1
            return {'signature': f"{c['op']}: answer depends on earlier calls that used the same grid object",
                    'kind': 'history', 'seed': seed, 'history': hist_so_far, 'call': brief_call(pool, c, k),
                    'flat_index': kb, 'observed': float(shared[kb]) if kb >= 0 else 'shape',
                    'required': float(fresh[kb]) if kb >= 0 else 'shape'}
        if c['op'] == 'adj':
            out = maps.interpolate(g, c['v'], ng, method='volume')
            lhs = float(np.sum(c['u'] * out))
            rhs = float(np.sum(shared[:c['v'].size].reshape(c['v'].shape) * c['v']))
            if abs(lhs - rhs) > 1e-9 * max(float(np.sum(np.abs(c['u']) * out)), 1e-300):
                return {'signature': 'gradient adjoint is not the transpose of the volume averaging '
                                     '(inside a history re-using grid objects)', 'kind': 'history',
                        'seed': seed, 'history': hist_so_far, 'call': brief_call(pool, c, k),
                        'observed': rhs, 'required': lhs}
    return None


def search_i2g_case(seed):
    """Model.interpolate_to_grid on the implementation: all 4 anisotropy cases x mu_r none/given x
    epsilon_r none/given (random map each): every property of the result equals, BY NAME,
    maps.interpolate(method='volume', log=<from map name>) of that same property; defined /
    undefined status, anisotropy case and mapping are preserved."""
    import random
    import emg3d
    from emg3d import maps
    rng = random.Random(seed)
    nodes, nnodes = [], []
    for d in range(3):
        a, b = pair_1d(rng, rng.choice(['refine', 'coarsen', 'overlap', 'same_region', 'outside', 'shift']), 4)
        nodes.append(a)
        nnodes.append(b)
    g, ng = mesh_of(nodes), mesh_of(nnodes)
    if g == ng:
        return None
    npr = np.random.RandomState(seed % (2 ** 31))
    for combo in range(16):
        aniso, has_mu, has_eps = combo % 4, (combo // 4) % 2 == 1, combo // 8 == 1
        name = rng.choice(NAMES6)
        mp = getattr(maps, 'Map' + name)()

        def cond():
            return 10 ** npr.uniform(-3, 3, g.shape_cells)
        with np.errstate(all='ignore'), warnings.catch_warnings():
            warnings.simplefilter('ignore')
            props = {'property_x': mp.forward(cond()),
                     'property_y': mp.forward(cond()) if aniso in (1, 3) else None,
                     'property_z': mp.forward(cond()) if aniso in (2, 3) else None,
                     'mu_r': npr.uniform(0.5, 3, g.shape_cells) if has_mu else None,
                     'epsilon_r': npr.uniform(0.5, 9, g.shape_cells) if has_eps else None}
            base = {'seed': seed, 'kind': 'i2g', 'map': name, 'aniso_case': aniso, 'mu_r': has_mu,
                    'epsilon_r': has_eps, 'nodes': [[float.hex(x) for x in a] for a in nodes],
                    'new_nodes': [[float.hex(x) for x in a] for a in nnodes]}
            model = emg3d.Model(g, mapping=name, **{k: (None if a is None else a.copy())
                                                    for k, a in props.items()})
            try:
                m2 = model.interpolate_to_grid(ng)
            except Exception as e:
                return dict(base, signature='Model.interpolate_to_grid fails on a valid model', observed=repr(e))
            log = not name.startswith('L')
            if m2.case != model.case:
                return dict(base, signature='Model.interpolate_to_grid changes the anisotropy case',
                            observed=m2.case, required=model.case)
            for pn, arr in props.items():
                got = getattr(m2, pn)
                if (arr is None) != (got is None):
                    return dict(base, signature=f'Model.interpolate_to_grid: {pn} defined/undefined status changed',
                                observed='None' if got is None else 'defined',
                                required='None' if arr is None else 'defined')
                if arr is None:
                    continue
                want = maps.interpolate(g, arr, ng, method='volume', log=log)
                if not np.all(np.abs(got - want) <= 1e-9 * np.abs(want)):
                    k = int(np.argmax(np.abs(got - want)))
                    return dict(base, signature=f'Model.interpolate_to_grid: {pn} is not the volume average of {pn}',
                                flat_index=k, observed=float(np.ravel(got)[k]), required=float(np.ravel(want)[k]))
    return None


def search_opts_history_case(seed):
    """Hidden state between calls, on the implementation only: on ONE process, after every call
    with options (each documented method / extrapolate / log / extra keyword, Model, Field and
    maps.interpolate, failing calls included) a Model.interpolate_to_grid / Simulation.get_model call
    WITHOUT options between two grids covering the same region must still conserve the integral of
    log10, stay within the range of the input, give reciprocal results for resistivity and
    conductivity, and reproduce the answer of the first call of the history."""
    import random
    import emg3d
    rng = random.Random(seed)
    pool = gen_opt_pool(rng)
    objs = {nm: mesh_of(nd) for nm, nd in pool.items()}
    g, ng = objs['G'], objs['T0']
    npr = np.random.RandomState(seed % (2 ** 31))
    rho = 10 ** npr.uniform(-3, 3, g.shape_cells)
    vol = g.cell_volumes.reshape(g.shape_cells, order='F')
    nvol = ng.cell_volumes.reshape(ng.shape_cells, order='F')
    base = {'seed': seed, 'kind': 'opts',
            'nodes': {nm: [[float.hex(x) for x in a] for a in nd] for nm, nd in pool.items()}}
    s_in = float(np.sum(vol * np.log10(rho)))
    s_abs = float(np.sum(vol * np.abs(np.log10(rho))))
    done = []

    def default_pair(via_sim):
        out = []
        for name, vals in (('Resistivity', rho), ('Conductivity', 1.0 / rho)):
            m = emg3d.Model(g, property_x=vals.copy(), mapping=name)
            if via_sim:
                with warnings.catch_warnings():
                    warnings.simplefilter('ignore')
                    sim = emg3d.Simulation(_survey(), m, gridding='input', gridding_opts=ng, name='c15')
                    out.append(np.asarray(sim.get_model('TxED-1', 'f-1').property_x))
            else:
                out.append(np.asarray(m.interpolate_to_grid(ng).property_x))
        return out

    def oracle(res, con, first, who):
        where = (f"{who} without options, after {len(done)} earlier call(s) with options" if done
                 else f"{who} without options")
        s_out = float(np.sum(nvol * np.log10(res))) if np.all(res > 0) else float('nan')
        if not abs(s_in - s_out) <= 1e-9 * s_abs:
            return dict(base, signature='interpolate_to_grid without options does not conserve the integral '
                                        'of the log (depends on earlier calls with options)' if done else
                                        'interpolate_to_grid without options does not conserve the integral of the log',
                        where=where, history=list(done), observed=s_out, required=s_in)
        if res.min() < rho.min() * (1 - 1e-9) or res.max() > rho.max() * (1 + 1e-9):
            return dict(base, signature='interpolate_to_grid without options leaves the range of the input values',
                        where=where, history=list(done), observed=[float(res.min()), float(res.max())],
                        required=[float(rho.min()), float(rho.max())])
        if np.max(np.abs(res * con - 1.0)) > 1e-9:
            return dict(base, signature='interpolate_to_grid without options: resistivity and conductivity '
                                        'models give different results', where=where, history=list(done),
                        observed=float(np.max(np.abs(res * con - 1.0))), required=0.0)
        if first is not None and not np.all(np.abs(res - first) <= 1e-12 * np.abs(first)):
            k = int(np.argmax(np.abs(res - first) / np.abs(first)))
            return dict(base, signature='interpolate_to_grid without options depends on the options of earlier calls',
                        where=where, history=list(done), flat_index=k, observed=float(res.ravel()[k]),
                        required=float(first.ravel()[k]))
        return None

    try:
        first, fcon = default_pair(False)
    except Exception as e:          # noqa: BLE001
        return dict(base, signature='Model.interpolate_to_grid fails on a valid model', observed=repr(e))
    h = oracle(first, fcon, None, 'Model.interpolate_to_grid')
    if h:
        return h
    combos = [(ci, ei) for ci in range(len(OPT_CLASSES)) for ei in range(len(OPT_ENTRIES))]
    rot = rng.randint(0, len(combos) - 1)
    combos = combos[rot:] + combos[:rot]
    for k, (ci, ei) in enumerate(combos):
        label, user = OPT_CLASSES[ci]
        ent = OPT_ENTRIES[ei]
        if ent == 'direct' and 'xi' in user:
            continue
        c = dict(entry=ent.split(':')[0], map=ent.split(':')[1] if ':' in ent else 'Conductivity',
                 tgt='T0' if k % 2 else 'T1', user=dict(user), v=rho)
        status = run_opt_call(c, objs)[0]                 # may raise inside: a fault path
        done.append(f"{ent}.({', '.join(f'{a}={b!r}' for a, b in user.items())}) -> {c['tgt']}"
                    + (' [raised]' if status == 'err' else ''))
        via_sim = k % 3 == 2
        who = 'Simulation.get_model' if via_sim else 'Model.interpolate_to_grid'
        try:
            res, con = default_pair(via_sim)
        except Exception as e:          # noqa: BLE001
            return dict(base, signature='interpolate_to_grid without options fails after earlier calls with options',
                        history=list(done), observed=repr(e))
        h = oracle(res, con, first, who)
        if h:
            return h
    return None


def fresh_process_case(fn_name, seed):
    """Run one searcher case in a NEW interpreter (same emg3d tree): hidden state left behind by the
    correspondence streams of this process must not blur the recorded history.  Falls back to the
    in-process call when the child cannot be run."""
    import json
    import os
    import subprocess
    import sys
    pydir = os.path.dirname(os.path.dirname(os.path.abspath(__file__)))
    code = (f"import sys, json; sys.path.insert(0, {pydir!r}); import props.c15 as m; "
            f"print('RESULT' + json.dumps(m.{fn_name}({int(seed)}), default=str))")
    try:
        p = subprocess.run([sys.executable, '-c', code], stdout=subprocess.PIPE, stderr=subprocess.DEVNULL,
                           text=True, timeout=900)
        for line in p.stdout.splitlines():
            if line.startswith('RESULT'):
                return json.loads(line[6:])
    except Exception:          # noqa: BLE001
        pass
    return globals()[fn_name](seed)


def search(ctx, broken):
    rng = ctx.rng
    n = 300 if ctx.thorough else 80
    hits = []
    for k in range(3 if ctx.thorough else 1):
        sd = rng.randint(0, 2 ** 40)
        h = fresh_process_case('search_opts_history_case', sd) if k == 0 else search_opts_history_case(sd)
        if h:
            hits.append(h)
            break
    for k in range(40 if ctx.thorough else 12):
        if hits:
            break
        h = search_history_case(rng.randint(0, 2 ** 40))
        if h:
            hits.append(h)
            break
    for k in range(12 if ctx.thorough else 3):
        if hits:
            break
        h = search_i2g_case(rng.randint(0, 2 ** 40))
        if h:
            hits.append(h)
    for k in range(n):
        if hits:
            break
        h = search_case(rng.randint(0, 2 ** 40), log=(k % 2 == 1))
        if h:
            hits.append(h)
            break
    ctx.notes.append("searcher: option histories in a fresh interpreter (every option class x entry point, then "
                     "a call without options: log-integral, range, rho/sigma reciprocity, equality with the "
                     "first call of the process)")
    ctx.notes.append(f"searcher: {n} random 3-D grid pairs (half of them same-region), linear/log alternating: "
                     "range, conservation, identity, nearest fill, adjoint pairing, rho/sigma symmetry on the "
                     "implementation")
    return hits


def replay(ctx, payload):
    fi = payload.get('failing_input') or {}
    if 'seed' not in fi:
        return False
    if fi.get('kind') == 'opts':
        return search_opts_history_case(int(fi['seed'])) is None
    if fi.get('kind') == 'history':
        return search_history_case(int(fi['seed'])) is None
    if fi.get('kind') == 'i2g':
        return search_i2g_case(int(fi['seed'])) is None
    return search_case(int(fi['seed']), bool(fi.get('log'))) is None
