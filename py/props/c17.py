"""C17 -- save/load round trip in every file format.

Theorems: coq/Props/C17.v about the hand model coq/Model/Codec.v of emg3d/io.py.
Correspondence: (1) the pure dict functions of io.py against the model on
generated nested dicts (valid stream + malformed stream), evaluated inside Coq
with vm_compute and compared through a canonical rendering; (2) the full
save/load/convert pipelines through real files against the model with the
concrete store instances.  Searcher: end-to-end round trips of randomly
composed objects of every registered class (implementation-side property
checking, no model).
"""
import contextlib
import copy
import io as _io
import json
import math
import os
import tempfile
import warnings

import numpy as np

from vlib import core as V

ID = 'C17'
PROPS = 'Props/C17.v'
GEN = []
TECHNIQUE = ("Coq proof (structural induction over a nested value type) about a hand model of "
             "io.py + differential correspondence (vm_compute) + end-to-end class round trips")
DESIGN_REF = "DESIGN.md section 6 C17"
COQCHK = True

HEADER = """From Coq Require Import ZArith List String Ascii Bool.
From V Require Import Model.Codec.
Import ListNotations.
Set Printing Width 100000000.
Set Printing Depth 100000000.
Local Open Scope string_scope.
"""

FMTS = ('h5', 'npz', 'json')
FMT_COQ = {'h5': 'H5', 'npz': 'NPZ', 'json': 'JSON'}
META = ('_date', '_version', '_format')

DT = {'bool': 'DBool', 'int8': 'DI8', 'int16': 'DI16', 'int32': 'DI32', 'int64': 'DI64',
      'uint8': 'DU8', 'uint16': 'DU16', 'uint32': 'DU32', 'uint64': 'DU64',
      'float16': 'DF16', 'float32': 'DF32', 'float64': 'DF64',
      'complex64': 'DC64', 'complex128': 'DC128'}


class Unsupported(Exception):
    """A Python value outside the model's universe."""


# ------------------------------------------------ canonical text + Coq terms
def fl_parts(x):
    x = float(x)
    if math.isnan(x):
        return None, 'nan'
    if math.isinf(x):
        return None, '+inf' if x > 0 else '-inf'
    n, d = x.as_integer_ratio()
    return (n, d), None


def r_fl(x):
    p, s = fl_parts(x)
    return s if p is None else f"{p[0]}/{p[1]}"


def c_fl(x):
    p, s = fl_parts(x)
    if p is None:
        return {'nan': 'FNaN', '+inf': 'FPInf', '-inf': 'FNInf'}[s]
    return f"(FFin ({p[0]}) {p[1]})"


def num_of(x, kind):
    """(render, coq) of one array element / numpy scalar."""
    if kind == 'b':
        return ('b1' if bool(x) else 'b0'), f"(NB {V.coq_bool(bool(x))})"
    if kind in 'iu':
        return f"i{int(x)}", f"(NI ({int(x)}))"
    if kind == 'f':
        return 'f' + r_fl(x), f"(NF {c_fl(x)})"
    if kind == 'c':
        z = complex(x)
        return f"c{r_fl(z.real)},{r_fl(z.imag)}", f"(NC {c_fl(z.real)} {c_fl(z.imag)})"
    raise Unsupported(kind)


def r_str(s):
    return f"{len(s)}:{s}"


def conv(o):
    """Python value -> (canonical text, Coq term of type val)."""
    if o is None:
        return 'N', 'VNone'
    if isinstance(o, np.generic) and not isinstance(o, (np.str_, np.bytes_)):
        name = o.dtype.name
        if name not in DT:
            raise Unsupported(name)
        r, c = num_of(o, o.dtype.kind)
        return f"p{name}({r})", f"(VNps {DT[name]} {c})"
    if isinstance(o, bool):
        return ('T' if o else 'F'), f"(VBool {V.coq_bool(o)})"
    if isinstance(o, int):
        return f"i{o}", f"(VInt ({o}))"
    if isinstance(o, float):
        return 'f' + r_fl(o), f"(VFloat {c_fl(o)})"
    if isinstance(o, complex):
        return f"c{r_fl(o.real)},{r_fl(o.imag)}", f"(VCplx {c_fl(o.real)} {c_fl(o.imag)})"
    if isinstance(o, str):
        return 's' + r_str(str(o)), f"(VStr {V.coq_str(str(o))})"
    if isinstance(o, bytes):
        s = o.decode('ascii')
        return 'y' + r_str(s), f"(VBytes {V.coq_str(s)})"
    if isinstance(o, np.ndarray):
        if o.dtype.kind == 'U' and o.ndim == 0:
            return 'u' + r_str(str(o)), f"(VStr0 {V.coq_str(str(o))})"
        name = o.dtype.name
        if name not in DT:
            raise Unsupported('array of ' + name)
        items = [num_of(x, o.dtype.kind) for x in np.ascontiguousarray(o).reshape(-1)] \
            if o.size else []
        sh = ','.join(str(n) for n in o.shape)
        return (f"a{name}[{sh}](" + ';'.join(i[0] for i in items) + ")",
                f"(VArr {DT[name]} [{'; '.join(str(n) for n in o.shape)}]%nat "
                f"[{'; '.join(i[1] for i in items)}])")
    if isinstance(o, (list, tuple)):
        items = [conv(x) for x in o]
        return ("l[" + ';'.join(i[0] for i in items) + "]",
                "(VList [" + '; '.join(i[1] for i in items) + "])")
    if isinstance(o, dict):
        items = [(str(k), conv(v)) for k, v in o.items()]
        return ("{" + ';'.join(r_str(k) + '=' + rv for k, (rv, _) in items) + "}",
                "(VDict [" + '; '.join(f"({V.coq_str(k)}, {cv})" for k, (_, cv) in items) + "])")
    raise Unsupported(type(o).__name__)


def render(o):
    return conv(o)[0]


def coq_term(o):
    return conv(o)[1]


def parse_coq_string(ans):
    """'"..."%string' or '"..."' as printed by Eval -> python str."""
    a = ans.strip()
    if a.endswith('%string'):
        a = a[:-7]
    if not (a.startswith('"') and a.endswith('"')):
        raise ValueError('not a string answer: ' + a[:80])
    return a[1:-1].replace('""', '"')


# ------------------------------------------------------------- generators
KEYCH = 'abcxyz_019-.AB+'
REAL_KEYS = ['hx', 'origin', 'property_x', 'mu_r', 'data', 'frequency', '_dict_grid', 'f-1',
             'TxED-1', 'solver_opts', 'noise_floor', 'x', 'y', 'k', 'grid', 'name']


def g_key(rng, bad=False):
    if bad:
        base = rng.choice(REAL_KEYS)
        return rng.choice([
            base + '>' + rng.choice(REAL_KEYS), '>' + base, base + '>', base + '>>x',
            base + '/' + rng.choice(REAL_KEYS), '', '.', base + '_', base + '___', base + '__',
            base + '__array', 'my__array-float64', base + '__complex', '__complex' + base,
            base + '__array-int64', base + '__arrayZfloat64', '__' + base + '__', '_', '__',
            base + '__array-' + 'x', base + '__complexity'])
    if rng.random() < 0.6:
        return rng.choice(REAL_KEYS)
    n = rng.randint(1, 6)
    k = ''.join(rng.choice(KEYCH) for _ in range(n))
    if k in ('.',) or k.endswith('_') or '__' in k:
        k = 'k' + k.replace('_', 'u')
    return k


def g_float(rng, special=0.08):
    r = rng.random()
    if r < special:
        return rng.choice([float('nan'), float('inf'), float('-inf')])
    if r < special + 0.05:
        return rng.choice([0.0, -0.0, 1e-15, 1e300, 5e-324, 0.1, 1 / 3])
    return rng.randint(-4096, 4096) / 2 ** rng.randint(0, 8)


def g_cplx(rng, bad=False):
    re, im = g_float(rng, 0.0), g_float(rng, 0.0)
    r = rng.random()
    if r < 0.1:
        re = im = float('nan')             # what emg3d stores for missing data
    elif bad:
        im = rng.choice([float('inf'), float('-inf'), float('nan')])
    return complex(re, im)


ARR_DT_OK = ['float64', 'float64', 'float64', 'complex128', 'complex128', 'float32', 'int64',
             'int8', 'int32', 'complex64', 'uint8', 'float16', 'uint64', 'int16']


def g_shape(rng, bad=False):
    if bad:
        return rng.choice([(0, 3), (2, 0, 3), (0, 0), (1, 0, 2)])
    return rng.choice([(), (1,), (2,), (3,), (5,), (2, 3), (3, 1), (1, 1), (2, 2, 2), (1, 2, 3),
                       (4,), (0,), (3, 0), (2, 1, 2, 1)])


def g_arr(rng, bad=None):
    """bad in (None, 'shape', 'bool', 'cinf')"""
    dt = rng.choice(ARR_DT_OK)
    sh = g_shape(rng, bad == 'shape')
    n = int(np.prod(sh)) if sh else 1
    if bad == 'bool':
        sh = rng.choice([(0,), (1,), (1, 1), (2,), (2, 2), ()])
        n = int(np.prod(sh)) if sh else 1
        a = np.array([rng.random() < 0.5 for _ in range(n)], dtype=bool).reshape(sh)
        return a
    kind = np.dtype(dt).kind
    if bad == 'cinf':
        dt = rng.choice(['complex128', 'complex64'])
        kind = 'c'
    if kind == 'c':
        vals = [g_cplx(rng, bad == 'cinf' and rng.random() < 0.5) for _ in range(n)]
    elif kind == 'f':
        vals = [g_float(rng) for _ in range(n)]
        if dt == 'float16':
            vals = [float(rng.randint(-64, 64)) / 4 for _ in range(n)]
    else:
        info = np.iinfo(dt)
        vals = [rng.choice([info.min, info.max, 0, 1, rng.randint(max(info.min, -1000), min(info.max, 1000))])
                for _ in range(n)]
    with warnings.catch_warnings():
        warnings.simplefilter('ignore')
        a = np.array(vals, dtype=dt).reshape(sh)
    if a.ndim >= 2 and rng.random() < 0.4:
        a = np.asfortranarray(a)
    return a


def g_str(rng, bad=False):
    if bad:
        return 'NoneType'
    return rng.choice(['', 'Conductivity', 'same', 'cubic', 'data._relative_error', 'None',
                       'NoneTyp', 'nonetype', 'a "quoted" one', "it's", '{x} [y]', 'TensorMesh',
                       'NoneType ', 'x>y', 'a/b', '__array', 'complex'])


def g_leaf(rng, stream):
    """stream: 'valid' or 'mal'."""
    bad = stream == 'mal' and rng.random() < 0.35
    r = rng.random()
    if r < 0.10:
        return None
    if r < 0.18:
        return rng.random() < 0.5
    if r < 0.28:
        if bad:
            return rng.choice([2 ** 63 + 5, 2 ** 70, -2 ** 63 - 1, 2 ** 64 - 1, 2 ** 64])
        return rng.choice([0, 1, -1, 4, 2 ** 31, -2 ** 63, 2 ** 63 - 1, rng.randint(-10 ** 6, 10 ** 6)])
    if r < 0.38:
        return g_float(rng)
    if r < 0.46:
        return g_cplx(rng, bad)
    if r < 0.58:
        return g_str(rng, bad)
    if r < 0.70:
        k = rng.choice(['float64', 'float32', 'int32', 'int64', 'complex128', 'complex64', 'bool',
                        'float16', 'uint8'])
        if k == 'bool':
            return np.bool_(rng.random() < 0.5)
        kind = np.dtype(k).kind
        if kind == 'c':
            v = g_cplx(rng, bad)
        elif kind == 'f':
            v = g_float(rng) if k != 'float16' else rng.randint(-64, 64) / 4
        else:
            v = rng.randint(0, 100)
        with warnings.catch_warnings():
            warnings.simplefilter('ignore')
            return np.dtype(k).type(v)
    if bad:
        return g_arr(rng, rng.choice(['shape', 'bool', 'cinf']))
    if stream == 'mal' and rng.random() < 0.08:
        return np.array(rng.choice(['x', 'NoneType', 'ab c']))
    return g_arr(rng)


def g_dict(rng, depth, stream, top=True):
    n = rng.choice([1, 2, 2, 3, 3, 4, 5]) if not top else rng.choice([1, 2, 3, 4, 5, 6])
    d = {}
    for _ in range(n):
        badkey = stream == 'mal' and rng.random() < 0.25
        k = g_key(rng, badkey)
        if top and k in ('verb', 'compression', 'json_indent') + META:
            k = 'k' + k
        if depth > 1 and rng.random() < 0.35:
            if stream == 'mal' and rng.random() < 0.2:
                v = {}
            else:
                v = g_dict(rng, depth - 1, stream, top=False)
        else:
            v = g_leaf(rng, stream)
        if stream == 'mal' and rng.random() < 0.05 and not top:
            k = rng.choice([1, 2, 10])          # non-str keys (str(key) in serialize)
        if isinstance(k, str) and '__' in k and type(v) is int and abs(v) > 2 ** 53:
            v = 7                               # int -> float rounding is not modelled
        d[k] = v
    if stream == 'mal' and rng.random() < 0.15 and d:
        # provoke collisions of flattened / stripped keys
        k0 = next(iter(d))
        if isinstance(k0, str):
            if isinstance(d[k0], dict) and d[k0]:
                k1 = next(iter(d[k0]))
                d[f"{k0}>{k1}"] = g_leaf(rng, 'valid')
            else:
                d[k0 + rng.choice(['>b', '__complex', '__array-float64'])] = rng.choice(
                    [1, 2.5, True, 'abc', 1j, np.arange(3.), np.array([1.5, 2.5])])
    return d


# ------------------------------------------------------------ impl runners
def _quiet(f, *a):
    with warnings.catch_warnings(), contextlib.redirect_stdout(_io.StringIO()):
        warnings.simplefilter('ignore')
        return f(*a)


def impl_pure(d):
    """Run the pure dict functions of io.py on d; every result rendered."""
    from emg3d import io
    out = {}

    def run(name, f):
        try:
            out[name] = 'OK ' + render(_quiet(f))
        except Unsupported:
            raise
        except Exception:
            out[name] = 'ERR'
    s = io._dict_serialize(copy.deepcopy(d))
    out['ser'] = 'OK ' + render(s)

    def nn_of(x):
        y = copy.deepcopy(x)
        io._nonetype_to_none(y)
        return y
    run('nn_ser', lambda: nn_of(s))
    run('flat', lambda: io._dict_flatten(copy.deepcopy(s)))
    run('unflat', lambda: io._dict_unflatten(io._dict_flatten(copy.deepcopy(s))))
    run('jenc', lambda: io._dict_dearray_decomp(copy.deepcopy(s)))
    run('jdec', lambda: io._dict_array_comp(
        json.loads(json.dumps(io._dict_dearray_decomp(copy.deepcopy(s))))))
    return out


PURE_EVALS = [
    ('ser', 'render_o (Some (ser d))'),
    ('nn_ser', 'render_o (nn (ser d))'),
    ('flat', 'render_d (Some (flatten (ser d)))'),
    ('unflat', 'render_d (unflatten (flatten (ser d)))'),
    ('jenc', 'render_o (Some (jenc (ser d)))'),
    ('jdec', 'render_o (obind (json_text_c (jenc (ser d))) jdec)'),
]


def impl_file(d, tmp, tag):
    """save/load through real files in the three formats + the six conversions."""
    from emg3d import io
    out = {}

    def strip(x):
        for k in META:
            x.pop(k, None)
        return x
    for f in FMTS:
        p = os.path.join(tmp, f"{tag}.{f}")
        try:
            _quiet(lambda: io.save(p, verb=0, **copy.deepcopy(d)))
            out['rt_' + f] = 'OK ' + render(strip(_quiet(lambda: io.load(p, verb=0))))
            saved = True
        except Unsupported:
            raise
        except Exception:
            out['rt_' + f] = 'ERR'
            saved = False
        for g in FMTS:
            if g == f:
                continue
            if not saved:
                out[f'cv_{f}_{g}'] = 'ERR'
                continue
            q = os.path.join(tmp, f"{tag}_{f}.{g}")
            try:
                _quiet(lambda: io.convert(p, q, verb=0))
                out[f'cv_{f}_{g}'] = 'OK ' + render(strip(_quiet(lambda: io.load(q, verb=0))))
            except Unsupported:
                raise
            except Exception:
                out[f'cv_{f}_{g}'] = 'ERR'
    return out


FILE_EVALS = ([('rt_' + f, f'render_o (save_load {FMT_COQ[f]} d)') for f in FMTS]
              + [(f'cv_{f}_{g}', f'render_o (convert_load {FMT_COQ[f]} {FMT_COQ[g]} d)')
                 for f in FMTS for g in FMTS if f != g])


def str_keys_only(d):
    return all(isinstance(k, str) and (not isinstance(v, dict) or str_keys_only(v))
               for k, v in d.items())


def has_bad_h5_key(d):
    for k, v in d.items():
        k = str(k)
        if k == '' or k == '.' or '/' in k:
            return True
        if isinstance(v, dict) and has_bad_h5_key(v):
            return True
    return False


# ======================================================================
# End-to-end: randomly composed objects of every registered class
# (implementation-side property checking; no model involved)
# ======================================================================
MAPPINGS = ['Conductivity', 'LgConductivity', 'LnConductivity',
            'Resistivity', 'LgResistivity', 'LnResistivity']


def _pick(rng, seq, variant, salt=0):
    """Random choice, or the (variant+salt)-th option when a variant is forced."""
    if variant is None:
        return rng.choice(seq)
    return seq[(variant + salt) % len(seq)]


def e_grid(rng, n=None):
    import emg3d
    shp = [n or rng.randint(2, 4) for _ in range(3)]
    hs = [np.array([rng.randint(1, 40) / 4 for _ in range(m)]) for m in shp]
    origin = tuple(rng.randint(-40, 40) / 4 for _ in range(3))
    return emg3d.TensorMesh(hs, origin)


def e_model(rng, grid=None, recipe=None, variant=None):
    import emg3d
    grid = grid or e_grid(rng)
    r = recipe or dict(mapping=_pick(rng, MAPPINGS, variant), case=_pick(rng, [0, 1, 2, 3], variant),
                       mu=_pick(rng, [True, False], variant), eps=_pick(rng, [False, True, True], variant),
                       scalar=rng.random() < 0.2, seed=rng.randint(0, 2 ** 31))
    npr = np.random.RandomState(r['seed'])

    def prop():
        if r['scalar']:
            return float(npr.randint(1, 50)) / 4
        return npr.randint(1, 400, grid.shape_cells) / 8.0
    kw = dict(property_x=prop(), mapping=r['mapping'])
    if r['case'] in (1, 3):
        kw['property_y'] = prop()
    if r['case'] in (2, 3):
        kw['property_z'] = prop()
    if r['mu']:
        kw['mu_r'] = prop()
    if r['eps']:
        kw['epsilon_r'] = prop()
    return emg3d.Model(grid, **kw), r


def e_field(rng, grid=None, variant=None):
    import emg3d
    grid = grid or e_grid(rng)
    kind = _pick(rng, ['freq', 'laplace', 'none'], variant)
    freq = {'freq': rng.randint(1, 80) / 8, 'laplace': -rng.randint(1, 80) / 8, 'none': None}[kind]
    electric = _pick(rng, [True, True, False, True, False], variant)
    f = emg3d.Field(grid, frequency=freq, electric=electric)
    npr = np.random.RandomState(rng.randint(0, 2 ** 31))
    if np.iscomplexobj(f.field):
        f.field[:] = npr.randint(-99, 99, f.field.size) / 8 + 1j * npr.randint(-99, 99, f.field.size) / 16
    else:
        f.field[:] = npr.randint(-99, 99, f.field.size) / 8
    return f, dict(kind=kind, electric=electric)


def e_strength(rng):
    return rng.choice([1.0, 0.0, rng.randint(1, 40) / 4, complex(rng.randint(1, 9), rng.randint(-9, 9) / 2),
                       3, np.float64(2.5)])


def e_source(rng, kind=None, variant=None):
    import emg3d
    kind = kind or rng.choice(['TxElectricPoint', 'TxMagneticPoint', 'TxElectricDipole',
                               'TxMagneticDipole', 'TxElectricWire'])
    c3 = lambda: [rng.randint(-80, 80) / 4 for _ in range(3)]   # noqa: E731
    ang = lambda: [rng.randint(-180, 180) / 2, rng.randint(-90, 90) / 2]   # noqa: E731
    st = e_strength(rng) if variant is None else _pick(rng, [complex(2, -1.5), 1.0, 3, np.float64(2.5)], variant)
    fmt = None
    if kind in ('TxElectricPoint', 'TxMagneticPoint'):
        o = getattr(emg3d, kind)(tuple(c3() + ang()), strength=st)
    elif kind in ('TxElectricDipole', 'TxMagneticDipole'):
        fmt = _pick(rng, ['point', 'flat', 'dipole'], variant)
        if fmt == 'point':
            o = getattr(emg3d, kind)(tuple(c3() + ang()), strength=st, length=rng.randint(1, 40) / 4)
        elif fmt == 'flat':
            a, b = c3(), c3()
            b[0] += 100.0
            o = getattr(emg3d, kind)((a[0], b[0], a[1], b[1], a[2], b[2]), strength=st)
        else:
            a, b = c3(), c3()
            b[0] += 100.0
            o = getattr(emg3d, kind)(np.array([a, b]), strength=st)
    else:
        n = rng.randint(2, 5)
        pts = np.array([c3() for _ in range(n)])
        pts[:, 0] += np.arange(n) * 50
        o = emg3d.TxElectricWire(pts, strength=st)
    return o, dict(kind=kind, fmt=fmt, strength=repr(st))


def e_receiver(rng, kind=None, variant=None):
    import emg3d
    kind = kind or rng.choice(['RxElectricPoint', 'RxMagneticPoint'])
    c = tuple([rng.randint(-80, 80) / 4 for _ in range(3)]
              + [rng.randint(-180, 180) / 2, rng.randint(-90, 90) / 2])
    rel = _pick(rng, [False, True], variant)
    o = getattr(emg3d, kind)(c, relative=rel)
    return o, dict(kind=kind, relative=rel)


def e_survey(rng, small=False, variant=None):
    import emg3d
    ns, nr, nf = (rng.randint(1, 2), rng.randint(1, 2), rng.randint(1, 2)) if small else \
        (rng.randint(1, 3), rng.randint(0, 3), rng.randint(1, 3))
    if variant is not None:
        ns, nr, nf = 2, (0 if variant % 7 == 6 else 2), 3
    if variant is not None:
        # mixed types in an order whose auto-generated names are NOT alphabetical:
        # TxED-1, TxMD-2, TxEW-3 (sorted: TxED-1, TxEW-3, TxMD-2); RxMP-1, RxEP-2 (sorted: RxEP-2, RxMP-1)
        ns = 3
        srcs = [e_source(rng, k, variant)[0] for k in ('TxElectricDipole', 'TxMagneticDipole', 'TxElectricWire')]
        recs = [e_receiver(rng, k, variant)[0] for k in ('RxMagneticPoint', 'RxElectricPoint')][:nr]
    else:
        srcs = [e_source(rng)[0] for _ in range(ns)]
        recs = [e_receiver(rng)[0] for _ in range(nr)]
    freqs = sorted({rng.randint(1, 80) / 8 for _ in range(nf)})
    nf = len(freqs)
    shape = (ns, nr, nf)
    npr = np.random.RandomState(rng.randint(0, 2 ** 31))
    # user-defined names in a non-alphabetical order (dicts keep insertion order)
    names = _pick(rng, ['auto', 'unsorted', 'auto', 'unsorted-all'], variant)
    if names != 'auto':
        freqs = dict(zip(['f-high', 'f-a', 'f-mid'][:nf], freqs))
    if names == 'unsorted-all' and nr:
        recs = dict(zip(['Rx-z', 'Rx-b', 'Rx-m'][:nr], recs))
    r = dict(shape=shape, names=names, src_as_dict=_pick(rng, [False, True, False], variant),
             data=_pick(rng, ['observed', 'extra', 'none'], variant),
             nf=_pick(rng, ['none', 'scalar', 'array', 'bcast'], variant),
             re=_pick(rng, ['none', 'scalar', 'array', 'bcast'], variant, 1),
             std=_pick(rng, [False, False, True, False], variant, 1), meta=_pick(rng, [True, False, True], variant))
    data = None
    if r['data'] != 'none' and nr:
        obs = npr.randint(-99, 99, shape) / 8 + 1j * npr.randint(-99, 99, shape) / 16
        obs[npr.rand(*shape) < 0.3] = np.nan + 1j * np.nan
        data = {'observed': obs}
        if r['data'] == 'extra':
            data['extra'] = npr.randint(-99, 99, shape) / 4 + 0j
            data['real_set'] = npr.randint(1, 99, shape) / 4
    kw = {}

    def noise(kind):
        if kind == 'scalar':
            return rng.randint(1, 64) / 2 ** 20
        if kind == 'array':
            return npr.randint(1, 64, shape) / 1024
        if kind == 'bcast':
            if nf < 2:       # size-1 arrays of ndim > 0 make Survey() itself raise on NumPy >= 2.x
                return rng.randint(1, 64) / 2 ** 20
            return (npr.randint(1, 64, nf) / 1024)[None, None, :]
        return None
    if nr and ns * nr * nf > 1:
        kw['noise_floor'] = noise(r['nf'])
        kw['relative_error'] = noise(r['re'])
    else:
        kw['noise_floor'] = noise('scalar' if r['nf'] != 'none' else 'none')
        kw['relative_error'] = noise('scalar' if r['re'] != 'none' else 'none')
    if r['meta']:
        kw.update(name=rng.choice(['survey A', 'x', '']), date=rng.choice(['2026-09-23', None]),
                  info=rng.choice(['some info', None]))
    sources = dict(zip(['Zulu', 'alpha', 'Mike', 'S3'], srcs)) if (r['src_as_dict'] or names == 'unsorted-all') \
        else srcs
    s = emg3d.Survey(sources, recs if nr else None, freqs, data=data, **kw)
    if r['std'] and nr:
        s.standard_deviation = npr.randint(1, 64, shape) / 512
    return s, r


def e_sim_survey(rng, force_noise=False):
    """Small survey with everything inside [2, 6]^3 (the 4^3 simulation grid spans >= [0, 8]^3)."""
    import emg3d
    c3 = lambda: [rng.randint(8, 24) / 4 for _ in range(3)]   # noqa: E731
    ang = lambda: [rng.randint(-180, 180) / 2, rng.randint(-90, 90) / 2]   # noqa: E731
    srcs = []
    # two sources of different type, magnetic first: auto names TxMD-1, TxED-2 (not alphabetical)
    for k in [rng.choice(['TxMagneticDipole', 'TxElectricWire']),
              rng.choice(['TxElectricPoint', 'TxElectricDipole'])][:rng.choice([1, 2, 2])]:
        if k == 'TxElectricWire':
            srcs.append(emg3d.TxElectricWire(np.array([c3(), c3(), c3()]), strength=e_strength(rng) or 1.0))
        elif k == 'TxElectricPoint':
            srcs.append(emg3d.TxElectricPoint(tuple(c3() + ang()), strength=e_strength(rng) or 1.0))
        else:
            srcs.append(getattr(emg3d, k)(tuple(c3() + ang()), strength=e_strength(rng) or 1.0, length=0.5))
    recs = [getattr(emg3d, k)(tuple(c3() + ang()))
            for k in ['RxMagneticPoint', 'RxElectricPoint'][:rng.choice([1, 2, 2])]]
    freqs = sorted({rng.randint(1, 80) / 8 for _ in range(rng.randint(1, 2))})
    shape = (len(srcs), len(recs), len(freqs))
    npr = np.random.RandomState(rng.randint(0, 2 ** 31))
    kw = {}
    r = dict(shape=shape, nf=rng.choice(['none', 'scalar', 'array']), re=rng.choice(['none', 'scalar', 'array']),
             observed=rng.random() < 0.5)
    if r['nf'] == 'scalar':
        kw['noise_floor'] = 2.0 ** -30
    elif r['nf'] == 'array' and np.prod(shape) > 1:
        kw['noise_floor'] = npr.randint(1, 64, shape) / 2.0 ** 30
    if force_noise:
        r['re'], r['observed'] = 'scalar', True
    if r['re'] == 'scalar':
        kw['relative_error'] = 0.0625
    elif r['re'] == 'array' and np.prod(shape) > 1:
        kw['relative_error'] = npr.randint(1, 64, shape) / 1024
    data = None
    if r['observed']:
        obs = npr.randint(-99, 99, shape) / 2.0 ** 20 + 1j * npr.randint(-99, 99, shape) / 2.0 ** 21
        if obs.size > 1:
            obs.flat[0] = np.nan + 1j * np.nan
        data = {'observed': obs}
    return emg3d.Survey(srcs, recs, freqs, data=data, **kw), r


def e_simulation(rng, computed, variant=None):
    import emg3d
    hs = [np.array([rng.randint(8, 40) / 4 for _ in range(4)]) for _ in range(3)]
    grid = emg3d.TensorMesh(hs, (0, 0, 0))
    model, mr = e_model(rng, grid)
    want_misfit = computed and (rng.random() < 0.5 if variant is None else variant % 2 == 0)
    survey, sr = e_sim_survey(rng, force_noise=want_misfit)
    what = _pick(rng, ['computed', 'results', 'all', 'plain'], variant)
    # gridding: model grid itself, a provided computational mesh, or provided meshes per source/frequency
    gridding = _pick(rng, ['same', 'input', 'dict'], variant)
    gkw = {}
    if gridding != 'same':
        g2 = emg3d.TensorMesh([np.array([rng.randint(8, 40) / 4 for _ in range(4)]) for _ in range(3)], (0, 0, 0))
        gkw['gridding_opts'] = g2 if gridding == 'input' else \
            {s: {f: g2 for f in survey.frequencies} for s in survey.sources}
    sim = emg3d.Simulation(survey, model, gridding=gridding, max_workers=1, verb=0,
                           name=rng.choice([None, 'sim-1']), info=rng.choice([None, 'info']),
                           solver_opts={'maxit': 1, 'sslsolver': False, 'semicoarsening': False,
                                        'linerelaxation': False, 'tol': 1e-2},
                           receiver_interpolation=rng.choice(['cubic', 'linear']),
                           tqdm_opts=False if rng.random() < 0.5 else {'disable': True}, **gkw)
    if computed:
        with warnings.catch_warnings(), contextlib.redirect_stdout(_io.StringIO()):
            warnings.simplefilter('ignore')
            sim.compute(observed=(rng.random() < 0.5) and not want_misfit)
            if want_misfit:
                try:
                    _ = sim.misfit
                except Exception:
                    pass
    return sim, dict(model=mr, survey=sr, what=what, computed=computed, misfit=want_misfit, gridding=gridding)


# ---- comparison of two objects through their PUBLIC attributes (deliberately not
# through to_dict / _serialize, which are the code under test)
_MISSING = '<missing attribute>'


def _get(o, name):
    try:
        return getattr(o, name)
    except Exception as e:          # property that raises
        return f"<{type(e).__name__}>"


def view(o, what=None):
    """Tree of the observable state of an emg3d object."""
    from emg3d import utils
    name = type(o).__name__
    if isinstance(o, dict):
        return {str(k): view(v, what) for k, v in o.items()}
    if not isinstance(o, tuple(utils._KNOWN_CLASSES.values())):
        if hasattr(o, 'dims') and hasattr(o, 'data'):       # xarray.DataArray
            return np.asarray(o.data)
        return o
    if name == 'TensorMesh':
        return {'hx': np.asarray(o.h[0]), 'hy': np.asarray(o.h[1]), 'hz': np.asarray(o.h[2]),
                'origin': np.asarray(o.origin), 'shape_cells': np.asarray(o.shape_cells)}
    if name == 'Model':
        return {'grid': view(o.grid), 'property_x': _get(o, 'property_x'), 'property_y': _get(o, 'property_y'),
                'property_z': _get(o, 'property_z'), 'mu_r': _get(o, 'mu_r'), 'epsilon_r': _get(o, 'epsilon_r'),
                'mapping': o.map.name, 'case': o.case}
    if name == 'Field':
        return {'grid': view(o.grid), 'field': np.asarray(o.field), 'frequency': o.frequency,
                'electric': o.electric, 'sval': o.sval, 'fx': np.asarray(o.fx), 'fz': np.asarray(o.fz)}
    if name.startswith(('Tx', 'Rx')):
        out = {'class': name, 'points': np.asarray(o.points), 'coordinates': np.asarray(o.coordinates),
               'center': np.asarray(o.center), 'length': np.asarray(o.length), 'xtype': o.xtype}
        if name.startswith('Tx'):
            out['strength'] = o.strength
        else:
            out['relative'] = o.relative
            out['data_type'] = o.data_type
        if hasattr(o, 'azimuth'):
            out['azimuth'] = np.asarray(o.azimuth)
            out['elevation'] = np.asarray(o.elevation)
        return out
    if name == 'Survey':
        data = {k: np.asarray(v.data) for k, v in o.data.items()}
        if what == 'plain':
            for k in ('synthetic', 'residual', 'weights'):
                data.pop(k, None)
        std = o.standard_deviation
        labelled = {}
        for name in o.data.data_vars:             # value AT (source, receiver, frequency) labels
            da = o.data[name]
            labelled[str(name)] = {f"{s}|{r}|{f}": np.asarray(da.loc[s, r, f].data)
                                   for s in sorted(o.sources) for r in sorted(o.receivers)
                                   for f in sorted(o.frequencies)}
        if what == 'plain':
            for k in ('synthetic', 'residual', 'weights'):
                labelled.pop(k, None)
        return {'labelled_data': labelled, 'source_order': list(o.sources),
                'receiver_order': list(o.receivers), 'frequency_order': list(o.frequencies),
                'sources': {k: view(v) for k, v in o.sources.items()},
                'receivers': {k: view(v) for k, v in o.receivers.items()},
                'frequencies': dict(o.frequencies), 'data': data,
                'noise_floor': o.noise_floor, 'relative_error': o.relative_error,
                'standard_deviation': None if std is None else np.asarray(std.data),
                'name': o.name, 'date': o.date, 'info': o.info, 'shape': np.asarray(o.shape)}
    if name == 'Simulation':
        out = {'survey': view(o.survey, what), 'model': view(o.model), 'max_workers': o.max_workers,
               'gridding': o.gridding, 'gridding_opts': view(o.gridding_opts), 'solver_opts': view(o.solver_opts),
               'verb': o.verb, 'name': o.name, 'info': o.info, 'layered': o.layered,
               'layered_opts': view(o.layered_opts), 'receiver_interpolation': o.receiver_interpolation,
               'tol_gradient': o.tol_gradient, 'file_dir': o.file_dir}
        if what in ('computed', 'results', 'all'):
            out['gradient'] = o._gradient
            out['misfit'] = None if o._misfit is None else np.asarray(o._misfit)
            out['computed'] = o._computed
        if what in ('computed', 'all'):
            for k in ('_dict_grid', '_dict_efield', '_dict_efield_info', '_dict_bfield', '_dict_bfield_info'):
                if hasattr(o, k):
                    out[k] = view(getattr(o, k))
        return out
    raise Unsupported(name)


def tree_of(o, what=None):
    return view(o, what)


def leaf_diff(a, b, path):
    """None if a and b are the same value (NaN-aware, dtype and shape of arrays)."""
    if a is None or b is None:
        return None if (a is None and b is None) else f"{path}: {a!r} vs {b!r}"
    if isinstance(a, (list, tuple)) and all(isinstance(x, str) for x in a):
        return None if list(a) == list(b) else f"{path}: {list(a)!r} vs {b!r}"
    if isinstance(a, str) or isinstance(b, str):
        return None if (isinstance(a, str) and isinstance(b, str) and a == b) else f"{path}: {a!r} vs {b!r}"
    if isinstance(a, (bool, np.bool_)) or isinstance(b, (bool, np.bool_)):
        ok = isinstance(a, (bool, np.bool_)) and isinstance(b, (bool, np.bool_)) and bool(a) == bool(b)
        return None if ok else f"{path}: {a!r} vs {b!r}"
    try:
        aa, bb = np.asarray(a), np.asarray(b)
    except Exception:
        return None if a == b else f"{path}: {a!r} vs {b!r}"
    if aa.dtype == object or bb.dtype == object:
        return None if a == b else f"{path}: {a!r} vs {b!r}"
    if aa.shape != bb.shape:
        return f"{path}: shape {aa.shape} vs {bb.shape}"
    if aa.ndim > 0 and aa.dtype != bb.dtype:
        return f"{path}: dtype {aa.dtype} vs {bb.dtype}"
    if aa.ndim == 0 and aa.dtype.kind != bb.dtype.kind and not (
            aa.dtype.kind in 'iuf' and bb.dtype.kind in 'iuf'):
        return f"{path}: kind {aa.dtype} vs {bb.dtype}"
    if not np.array_equal(aa, bb, equal_nan=True):
        return f"{path}: values differ ({str(aa.ravel()[:3])} vs {str(bb.ravel()[:3])})"
    return None


def tree_diff(a, b, path='', root_unordered=False):
    """First difference of two trees.  Key ORDER of every dict is part of the comparison (Python dicts
    keep insertion order and e.g. Survey labels its data axes with it), except for the dict at
    `path == ''` when `root_unordered` (the root group of an h5 file is name-ordered)."""
    if isinstance(a, dict) or isinstance(b, dict):
        if not (isinstance(a, dict) and isinstance(b, dict)):
            return f"{path}: {type(a).__name__} vs {type(b).__name__}"
        if set(a) != set(b):
            return f"{path}: keys only in original {sorted(set(a) - set(b))}, only in loaded {sorted(set(b) - set(a))}"
        if list(a) != list(b) and not (root_unordered and path == ''):
            return f"{path}: key order {list(a)} came back as {list(b)}"
        for k in a:
            d = tree_diff(a[k], b[k], f"{path}/{k}")
            if d:
                return d
        return None
    return leaf_diff(a, b, path)


def obj_diff(orig, back, what=None):
    """Required: same class, equal by the class's own __eq__ (where defined),
    and equal serialised trees (dtype/shape/values, NaN-aware)."""
    if type(orig) is not type(back):
        return f"type {type(orig).__name__} vs {type(back).__name__}"
    if '__eq__' in type(orig).__dict__ or any('__eq__' in c.__dict__ for c in type(orig).__mro__[1:-1]):
        try:
            if not (orig == back):
                return f"__eq__ is False ({tree_diff(tree_of(orig, what), tree_of(back, what))})"
        except Exception as e:       # comparison itself must work
            return f"__eq__ raised {type(e).__name__}: {e}"
    if type(orig).__name__ == 'Simulation' and getattr(orig, '_misfit', None) is not None \
            and what in ('computed', 'results', 'all'):
        try:
            if float(back.misfit) != float(orig.misfit):
                return f"/misfit: {back.misfit!r} vs {orig.misfit!r}"
        except Exception as e:
            return f"/misfit: loaded .misfit unusable ({type(e).__name__}: {str(e)[:80]})"
    return tree_diff(tree_of(orig, what), tree_of(back, what))


E2E_KINDS = ['TensorMesh', 'Model', 'Field', 'TxElectricPoint', 'TxMagneticPoint', 'TxElectricDipole',
             'TxMagneticDipole', 'TxElectricWire', 'RxElectricPoint', 'RxMagneticPoint', 'Survey',
             'Simulation', 'SimulationComputed', 'Nested']


def e_make(rng, kind, variant=None):
    """(object or dict of objects, recipe)"""
    if kind == 'TensorMesh':
        g = e_grid(rng)
        return g, dict(shape=list(g.shape_cells))
    if kind == 'Model':
        return e_model(rng, variant=variant)
    if kind == 'Field':
        return e_field(rng, variant=variant)
    if kind.startswith('Tx'):
        return e_source(rng, kind, variant)
    if kind.startswith('Rx'):
        return e_receiver(rng, kind, variant)
    if kind == 'Survey':
        return e_survey(rng, variant=variant)
    if kind == 'Simulation':
        return e_simulation(rng, False, variant)
    if kind == 'SimulationComputed':
        return e_simulation(rng, True, variant)
    if kind == 'Nested':
        d = {'grid': e_grid(rng), 'sub': {'model': e_model(rng)[0], 'n': 3, 'name': 'abc', 'flag': True,
                                          'none': None, 'deep': {'src': e_source(rng)[0],
                                                                 'deeper': {'rec': e_receiver(rng)[0],
                                                                            'arr': np.arange(6.).reshape(2, 3) * 1j}}},
             'field': e_field(rng)[0], 'val': 2.5, 'c': 1 + 2j}
        return d, dict(nested=True)
    raise ValueError(kind)


def e2e_case(rng, kind, tmp, tag, convert_pairs=None, variant=None):
    """Round-trip one object through the three formats and the six conversions.
    Returns (list of failures, number of round trips)."""
    from emg3d import io
    obj, recipe = e_make(rng, kind, variant)
    what = recipe.get('what') if isinstance(recipe, dict) else None
    fails, n = [], 0

    def check(loaded, how):
        if isinstance(obj, dict):
            for k in META:
                loaded.pop(k, None)
            d = tree_diff(tree_of(obj), tree_of(loaded), root_unordered='h5' in how)
            if not d:
                # each known class instance must come back as that class
                d = nested_types(obj, loaded)
        else:
            d = obj_diff(obj, loaded['o'], what)
        if d:
            fails.append({'kind': kind, 'how': how, 'recipe': recipe, 'diff': d,
                          'signature': signature_of(kind, how, d)})

    def save(p):
        if kind.startswith('Simulation'):
            obj.to_file(p, what=what, name='o', verb=0)
        elif isinstance(obj, dict):
            io.save(p, verb=0, **obj)
        else:
            io.save(p, verb=0, o=obj)
    for f in FMTS:
        p = os.path.join(tmp, f"{tag}.{f}")
        try:
            _quiet(lambda: save(p))
            with warnings.catch_warnings(record=True) as w:
                warnings.simplefilter('always')
                with contextlib.redirect_stdout(_io.StringIO()):
                    out = io.load(p, verb=0)
            bad = [str(x.message) for x in w if 'Could not de-serialize' in str(x.message)]
            n += 1
            if bad:
                fails.append({'kind': kind, 'how': f, 'recipe': recipe, 'diff': bad[0],
                              'signature': signature_of(kind, f, 'could not de-serialize: ' + bad[0].split(': ', 2)[-1][:50])})
            else:
                check(out, f)
        except Exception as e:
            fails.append({'kind': kind, 'how': f, 'recipe': recipe,
                          'diff': f"{type(e).__name__}: {e}",
                          'signature': signature_of(kind, f, type(e).__name__)})
            continue
        for g in FMTS:
            if g == f or (convert_pairs is not None and (f, g) not in convert_pairs):
                continue
            q = os.path.join(tmp, f"{tag}_{f}.{g}")
            try:
                with warnings.catch_warnings(record=True) as w:
                    warnings.simplefilter('always')
                    with contextlib.redirect_stdout(_io.StringIO()):
                        io.convert(p, q, verb=0)
                        out = io.load(q, verb=0)
                bad = [str(x.message) for x in w if 'Could not de-serialize' in str(x.message)]
                n += 1
                if bad:
                    fails.append({'kind': kind, 'how': f"{f}->{g}", 'recipe': recipe, 'diff': bad[0],
                                  'signature': signature_of(kind, f"{f}->{g}", 'could not de-serialize: ' + bad[0].split(': ', 2)[-1][:50])})
                else:
                    check(out, f"{f}->{g}")
            except Exception as e:
                fails.append({'kind': kind, 'how': f"{f}->{g}", 'recipe': recipe,
                              'diff': f"{type(e).__name__}: {e}",
                              'signature': signature_of(kind, f"{f}->{g}", type(e).__name__)})
    return fails, n


def nested_types(a, b, path=''):
    from emg3d import utils
    for k, v in a.items():
        if isinstance(v, tuple(utils._KNOWN_CLASSES.values())):
            if type(b.get(k)) is not type(v):
                return f"{path}/{k}: {type(v).__name__} came back as {type(b.get(k)).__name__}"
            if hasattr(type(v), '__eq__') and not (v == b[k]):
                return f"{path}/{k}: __eq__ is False"
        elif isinstance(v, dict):
            d = nested_types(v, b[k], f"{path}/{k}")
            if d:
                return d
    return None


def signature_of(kind, how, diff):
    """Short stable text: class, format (or conversion), first differing path / error."""
    d = str(diff)
    d = d.split(':')[0] if d.startswith('/') else d[:60]
    return f"C17: {kind} via {how}: {d}"


# ======================================================================
# Known defects of the pinned tree (deterministic demos; see docs/C17.md)
# ======================================================================
SIG_MISFIT = ("C17: Simulation with computed misfit: .misfit is a memoryview after h5/npz load, "
              "json save raises TypeError (DataArray)")
SIG_NOREC = ("C17: Survey without receivers: npz load does not de-serialize ('receivers' lost), "
             "json load raises ValueError (zero-length axis loses the shape)")


def known_sig(kind, recipe, how, diff):
    """Map an end-to-end failure onto a known-defect signature, if it is one."""
    d = str(diff)
    if kind == 'SimulationComputed' and ('DataArray is not JSON serializable' in d or 'misfit' in d):
        return SIG_MISFIT
    if kind == 'Survey' and isinstance(recipe, dict) and tuple(recipe.get('shape', (1, 1, 1)))[1] == 0 \
            and ("'receivers'" in d or 'different number of dimensions' in d):
        return SIG_NOREC
    return None


def demo_misfit():
    """True iff the defect reproduces."""
    import emg3d
    hx = np.ones(4) * 2.
    grid = emg3d.TensorMesh([hx, hx, hx], (0, 0, 0))
    survey = emg3d.Survey(emg3d.TxElectricDipole((3, 3, 3, 0, 0), length=0.5),
                          emg3d.RxElectricPoint((5, 5, 5, 0, 0)), 1.0,
                          data=np.array([[[1e-10 + 1e-11j]]]), relative_error=0.05)
    sim = emg3d.Simulation(survey, emg3d.Model(grid, 1.0), gridding='same', max_workers=1, verb=0,
                           solver_opts={'maxit': 1, 'sslsolver': False, 'semicoarsening': False,
                                        'linerelaxation': False}, tqdm_opts=False)
    _quiet(sim.compute)
    m = float(sim.misfit)
    bad = []
    with tempfile.TemporaryDirectory() as tmp:
        for f in FMTS:
            p = os.path.join(tmp, 'm.' + f)
            try:
                _quiet(lambda: sim.to_file(p, what='results', verb=0))
                s2 = _quiet(lambda: emg3d.Simulation.from_file(p, verb=0))
                if float(s2.misfit) != m:
                    bad.append(f"{f}: misfit {s2.misfit!r} != {m!r}")
            except Exception as e:
                bad.append(f"{f}: {type(e).__name__}: {str(e)[:80]}")
    return bad


def demo_norec():
    import emg3d
    s = emg3d.Survey(emg3d.TxElectricDipole((0, 0, 0, 0, 0)), None, [1.0, 2.0])
    bad = []
    with tempfile.TemporaryDirectory() as tmp:
        for f in FMTS:
            p = os.path.join(tmp, 's.' + f)
            try:
                _quiet(lambda: s.to_file(p, verb=0))
                with warnings.catch_warnings(record=True) as w:
                    warnings.simplefilter('always')
                    with contextlib.redirect_stdout(_io.StringIO()):
                        s2 = emg3d.Survey.from_file(p, verb=0)
                if not isinstance(s2, emg3d.Survey):
                    bad.append(f"{f}: loaded as {type(s2).__name__} "
                               f"({[str(x.message)[:60] for x in w][:1]})")
                elif s2.shape != s.shape:
                    bad.append(f"{f}: shape {s2.shape} != {s.shape}")
            except Exception as e:
                bad.append(f"{f}: {type(e).__name__}: {str(e)[:80]}")
    return bad


def known_checks(ctx):
    out = []
    for sig, demo, what in (
            (SIG_MISFIT, demo_misfit,
             "Simulation.misfit caches an xarray.DataArray in _misfit and returns _misfit.data: after "
             "to_file/from_file (h5, npz) .misfit is a memoryview; to_file('.json') raises TypeError"),
            (SIG_NOREC, demo_norec,
             "Survey(receivers=None): the empty 'receivers' dict vanishes in the npz flattening "
             "(from_dict raises KeyError -> plain dict returned); in json the (nsrc,0,nfreq) data "
             "arrays lose their shape and load raises ValueError")):
        try:
            bad = demo()
        except Exception as e:                      # demo itself broke: report as reproduced
            bad = [f"demo raised {type(e).__name__}: {e}"]
        if bad:
            ctx.notes.append(f"known-defect demo reproduces: {sig} :: {bad}")
        out.append((sig, bool(bad), what))
    return out


# ======================================================================
# Driver interface
# ======================================================================
LEVEL_TEXT = ("Theorems (Props/C17.v, structural induction over arbitrarily nested dict trees of any size) "
              "about a hand model of emg3d/io.py: npz flatten/unflatten is the identity on trees whose keys "
              "are free of '>' and that have no empty sub-dict (empty_dict_lost is the exact exception); the "
              "JSON __complex/__array-<dtype> codec returns the tree with a stated leaf normalisation "
              "(identity on normalised leaves) under an explicit key/shape/dtype guard; the None marker "
              "round-trips iff no str equals 'NoneType'; complete save;load pipelines for h5/npz/json under "
              "explicit store contracts; all nine convert pairs preserve content (values; dtype+shape of "
              "arrays; dict structure). The model is compared with io.py (pure dict functions and real files "
              "in all three formats and six conversions) on every run, on a valid and a malformed stream. "
              "Fault paths (Model/SimToFile.v: Simulation.to_dict/copy/to_file and emg3d.save with the simulation "
              "as a member, the transient attribute through which to_file hands `what` to to_dict, every stage "
              "at which a call can raise): by induction over ALL histories of successful and failed calls the "
              "attribute is absent afterwards and every call stores the level its OWN `what` names (default "
              "'computed'), wherever io.save raises; the code before e6d5394 is kept as a variant with "
              "*_refuted theorems. The model is compared on every run with the implementation on histories "
              "[failing call; next serialisation] over every fault x route, and the loaded object with the "
              "simulation itself.")
LEVEL_NOTE = ("Hand model tied by correspondence only (no translator). Store contracts (np.savez/np.load, "
              "h5py create_dataset/ds[()], json.dump/load) are Section hypotheses; their concrete instances in "
              "Model/Codec.v are validated against the real libraries by the file-level correspondence. The "
              "key guard is stated with the model's own string functions (Python in/split/replace); its "
              "syntactic reading (no '>', '/', \"__array\", \"__complex\"; even number of trailing '_') is "
              "decided only on a stated finite table (key_guard_syntactic_bounded). NOT modelled: "
              "to_dict/from_dict of the twelve registered classes (DESIGN's serialize_deserialize_C) and "
              "_dict_deserialize -- these are checked end to end on randomly composed objects (no theorem); "
              "the three meta entries of save(); IEEE bit patterns (-0.0 = 0.0, one NaN). The fault-path model "
              "is a control-flow model: WHICH stage of a call fails (call binding, a member's serialisation, "
              "extension, writer) is an input of the model, classified by the harness per fault (e.g. np.savez "
              "pickles object()/set, so npz gets a function as the unstorable member); the model says what is "
              "left behind and what the following calls store. 'Transient attribute present' is observed as any "
              "name in vars(instance) that was not there after a first successful serialisation.")
TRUSTED = ["Model/SimToFile.v as a description of Simulation.to_dict/to_file and of the stages of io.save "
           "(validated on every run by the fault-path correspondence, not derived from the source)",
           "Model/Codec.v as a description of emg3d/io.py and of numpy/h5py/json leaf behaviour "
           "(validated on every run by the correspondence, not derived from the source)",
           "render/conv twins in py/props/c17.py (canonical text of Python values)"]
ASSUMES = ["keys and str values are printable ASCII without consecutive blanks in the correspondence",
           "int -> float rounding inside np.asarray(list, dtype=float) for |z| > 2^53 is not modelled",
           "-0.0 and 0.0 are identified; all NaNs are one value"]


def prebuild_keys(ctx):
    """Write coq/Gen/C17Keys.v: every dict key that the to_dict methods of the registered classes
    emit on sample objects (plus the '_dict_*' names in simulations.py), read from the CURRENT source.
    Props/C17.v proves that all of them satisfy the key guard of the three formats."""
    import re
    import emg3d
    from emg3d import io
    rep = V.REPO
    keys = []

    def walk(d):
        for k, v in d.items():
            if k not in keys:
                keys.append(k)
            if isinstance(v, dict):
                walk(v)
    hx = np.array([1., 2., 3., 4.])
    grid = emg3d.TensorMesh([hx, hx, hx], (0, 0, 0))
    model = emg3d.Model(grid, property_x=np.ones(grid.shape_cells), property_y=2., property_z=3.,
                        mu_r=1.5, epsilon_r=2.5, mapping='Conductivity')
    srcs = [emg3d.TxElectricPoint((1, 2, 3, 0, 0)), emg3d.TxMagneticPoint((1, 2, 3, 0, 0)),
            emg3d.TxElectricDipole((1, 2, 3, 0, 0), length=2.), emg3d.TxElectricDipole((0, 9, 1, 1, 2, 2)),
            emg3d.TxMagneticDipole((1, 2, 3, 0, 0), length=2.),
            emg3d.TxElectricWire([[0, 0, 0], [1, 1, 1], [2, 3, 4]])]
    recs = [emg3d.RxElectricPoint((1, 2, 3, 0, 0)), emg3d.RxMagneticPoint((1, 2, 3, 0, 0), relative=True)]
    shape = (len(srcs), len(recs), 2)
    survey = emg3d.Survey(srcs, recs, [1., 2.], data={'observed': np.ones(shape) + 0j, 'extra': np.ones(shape)},
                          noise_floor=np.ones(shape), relative_error=np.ones(shape) / 2,
                          name='n', date='d', info='i')
    survey.standard_deviation = np.ones(shape)
    sim = emg3d.Simulation(survey, model, gridding='same', max_workers=1, verb=0, tqdm_opts=False)
    for o in [grid, model, emg3d.Field(grid, frequency=1.), survey, sim] + srcs + recs:
        d = o.to_dict('all') if type(o).__name__ == 'Simulation' else o.to_dict()
        walk(io._dict_serialize({'o': d}))
    src = open(os.path.join(rep, 'emg3d', 'simulations.py')).read()
    for k in re.findall(r"'(_dict_\w+)'", src):
        if k not in keys:
            keys.append(k)
    keys += [k for k in META + ('synthetic', 'residual', 'weights', 'gradient', 'misfit', 'computed')
             if k not in keys]
    keys = sorted(keys)          # the theorem is a forall over the list: a canonical order keeps the file
    #                              (and its .vo) unchanged when only the iteration order of a set changes
    if len(keys) < 40:
        raise RuntimeError(f"only {len(keys)} keys extracted from the classes' to_dict")
    text = ("(* GENERATED by py/props/c17.py (prebuild_keys) from the to_dict methods of the classes in\n"
            "   emg3d.utils._KNOWN_CLASSES of the current source.  Do not edit. *)\n"
            "From Coq Require Import String List.\nImport ListNotations.\nLocal Open Scope string_scope.\n"
            "Definition emg3d_keys : list string :=\n  [" + ";\n   ".join(V.coq_str(k).replace('%string', '')
                                                                          for k in keys) + "].\n")
    p = os.path.join(V.COQ, 'Gen', 'C17Keys.v')
    os.makedirs(os.path.dirname(p), exist_ok=True)
    if not os.path.exists(p) or open(p).read() != text:
        with open(p, 'w') as f:
            f.write(text)


PREBUILD = [prebuild_keys]


def features(d, acc=None, depth=1):
    acc = acc if acc is not None else {'depth': 1, 'kinds': set(), 'mal': set()}
    acc['depth'] = max(acc['depth'], depth)
    for k, v in d.items():
        ks = str(k)
        if not isinstance(k, str):
            acc['mal'].add('nonstr-key')
        for tag, name in (('>', 'key>'), ('/', 'key/'), ('__array', 'key__array'), ('__complex', 'key__complex')):
            if tag in ks:
                acc['mal'].add(name)
        if ks in ('', '.'):
            acc['mal'].add('key-empty-or-dot')
        if ks.endswith('_'):
            acc['mal'].add('key-trailing_')
        if isinstance(v, dict):
            if not v:
                acc['mal'].add('empty-dict')
            acc['kinds'].add('dict')
            features(v, acc, depth + 1)
        elif isinstance(v, np.ndarray):
            if v.dtype.kind == 'U':
                acc['mal'].add('str-array')
            elif v.dtype == bool:
                acc['mal'].add('bool-array')
            else:
                acc['kinds'].add('arr-' + v.dtype.name)
                if 0 in v.shape[:-1]:
                    acc['mal'].add('zero-axis')
                if v.dtype.kind == 'c' and v.size and np.any(~np.isfinite(v.imag) & ~np.isnan(v.real)):
                    acc['mal'].add('cplx-nonfinite-imag')
        elif isinstance(v, np.generic):
            acc['kinds'].add('np-' + v.dtype.name)
        elif v is None:
            acc['kinds'].add('None')
        elif isinstance(v, str):
            acc['kinds'].add('str')
            if v == 'NoneType':
                acc['mal'].add('NoneType-str')
        elif isinstance(v, bool):
            acc['kinds'].add('bool')
        elif isinstance(v, int):
            acc['kinds'].add('int')
            if not -2 ** 63 <= v < 2 ** 63:
                acc['mal'].add('bigint')
        elif isinstance(v, complex):
            acc['kinds'].add('complex')
            if not math.isfinite(v.imag) and not math.isnan(v.real):
                acc['mal'].add('cplx-nonfinite-imag')
        elif isinstance(v, float):
            acc['kinds'].add('float')
    return acc


def gen_cases(rng, n, maxdepth, tmp, with_files=True):
    cases = []
    for i in range(n):
        stream = 'mal' if i % 3 == 0 else 'valid'
        for _ in range(50):
            d = g_dict(rng, rng.randint(1, maxdepth), stream)
            try:
                term = coq_term(d)
                pure = impl_pure(d)
                fil = impl_file(d, tmp, f"c{i}") if (with_files and str_keys_only(d)) else {}
                break
            except (Unsupported, ValueError):
                continue
        else:
            raise RuntimeError('case generation failed 50 times')
        cases.append({'stream': stream, 'd': d, 'term': term, 'impl': {**pure, **fil},
                      'files': bool(fil), 'feat': features(d)})
    return cases


def coq_files(cases, prefix, per=12):
    files = []
    for b in range(0, len(cases), per):
        lines = [HEADER]
        for j, c in enumerate(cases[b:b + per]):
            lines.append(f"Definition d{j} : val := {c['term']}.")
            for name, expr in PURE_EVALS + (FILE_EVALS if c['files'] else []):
                e = expr.replace(' d)', f' d{j})')
                lines.append(f"Eval vm_compute in {e}.")
        files.append((f"{prefix}_{b // per}", '\n'.join(lines) + '\n'))
    return files


def compare_cases(cases, res, prefix, per, dis, hist):
    n_eval = 0
    for b in range(0, len(cases), per):
        rc, out = res[f"{prefix}_{b // per}"]
        if rc != 0:
            dis.append({'what': 'model does not evaluate (coqc failed)', 'log': out[-1500:]})
            continue
        ans = V.eval_answers(out)
        k = 0
        for c in cases[b:b + per]:
            for name, _ in PURE_EVALS + (FILE_EVALS if c['files'] else []):
                if k >= len(ans):
                    dis.append({'what': 'missing Eval answer', 'case': repr(c['d'])[:300]})
                    break
                got = parse_coq_string(ans[k])
                k += 1
                exp = c['impl'][name]
                n_eval += 1
                hist['outcome'][name + (':ERR' if exp == 'ERR' else ':OK')] = \
                    hist['outcome'].get(name + (':ERR' if exp == 'ERR' else ':OK'), 0) + 1
                if got == exp:
                    continue
                if got == 'ERR' and ('h5' in name) and has_bad_h5_key(c['d']) and (
                        name == 'rt_h5' or name.startswith('cv_')):
                    # model refuses '/', '' and '.' as h5 link names; the guard is tight iff the
                    # implementation does not return the input unchanged
                    hist['outcome']['h5-badkey-guard-tight'] = hist['outcome'].get('h5-badkey-guard-tight', 0) + 1
                    continue
                dis.append({'what': f"io.py and Model/Codec.v differ on {name}",
                            'case': {'stream': c['stream'], 'dict': repr(c['d'])[:1500], 'coq': c['term'][:3000]},
                            'impl': exp[:1500], 'model': got[:1500]})
    return n_eval


# how many forced variants cover the parameter grid of each class
VARIANTS = {'TensorMesh': 1, 'Model': 12, 'Field': 6, 'TxElectricPoint': 2, 'TxMagneticPoint': 2,
            'TxElectricDipole': 6, 'TxMagneticDipole': 6, 'TxElectricWire': 2, 'RxElectricPoint': 2,
            'RxMagneticPoint': 2, 'Survey': 8, 'Simulation': 12, 'SimulationComputed': 6, 'Nested': 1}


def e2e_stream(rng, kinds_n, tmp, tag, convert_all=True):
    """kinds_n: list of (kind, n_random); every kind also runs its forced variants first
    (all mappings / anisotropy cases / field kinds / coordinate formats / noise settings / what levels)."""
    import random as _random
    fails, trips, per_kind = [], 0, {}
    for kind, n in kinds_n:
        plan = [v for v in range(VARIANTS[kind])] + [None] * n
        for i, variant in enumerate(plan):
            seed = rng.randint(0, 2 ** 31 - 1)
            sub = _random.Random(seed)
            pairs = None
            if not convert_all:
                a = FMTS[i % 3]
                pairs = [(a, FMTS[(i + 1) % 3]), (FMTS[(i + 2) % 3], a)]
            f, t = e2e_case(sub, kind, tmp, f"{tag}{kind}{i}", pairs, variant)
            trips += t
            per_kind[kind] = per_kind.get(kind, 0) + t
            for x in f:
                x['case_seed'] = seed
                x['variant'] = variant
                ks = known_sig(kind, x.get('recipe'), x['how'], x['diff'])
                if ks:
                    x['signature'] = ks
                x['recipe'] = repr(x.get('recipe'))[:600]
            fails += f
    return fails, trips, per_kind


def coq_start(named_texts, logdir):
    """Start one coqc per case file and return at once.  Called from the MAIN thread while no HDF5 file
    is open: Popen returns only after the child has exec'ed, i.e. after it has closed the descriptors it
    inherited.  (Spawning from a worker thread while the main thread writes h5 files lets a forked child
    hold a just-written file's descriptor for a moment; HDF5's non-blocking flock on re-opening that file
    then fails with BlockingIOError -- seen once under heavy load, a false alarm of the harness.)"""
    import subprocess
    d = os.path.join(V.COQ, 'Corr')
    os.makedirs(d, exist_ok=True)
    procs = []
    for name, text in named_texts:
        with open(os.path.join(d, name + '.v'), 'w') as f:
            f.write(text)
        log = open(os.path.join(logdir, name + '.coqlog'), 'w')
        p = subprocess.Popen(['coqc', '-Q', '.', 'V', '-w', 'none', os.path.join('Corr', name + '.v')],
                             cwd=V.COQ, stdout=log, stderr=subprocess.STDOUT, stdin=subprocess.DEVNULL)
        procs.append((name, p, log))
    return procs


def coq_collect(procs, timeout=1200):
    """{name: (rc, output)} of the processes started by coq_start."""
    import subprocess
    import time as _time
    res, deadline = {}, _time.time() + timeout
    d = os.path.join(V.COQ, 'Corr')
    for name, p, log in procs:
        try:
            rc = p.wait(timeout=max(1.0, deadline - _time.time()))
            tail = ''
        except subprocess.TimeoutExpired:
            p.kill()
            p.wait()
            rc, tail = 124, f"\nTIMEOUT after {timeout}s"
        log.close()
        with open(log.name) as f:
            res[name] = (rc, f.read() + tail)
        for ext in ('.vo', '.vok', '.vos', '.glob'):
            try:
                os.remove(os.path.join(d, name + ext))
            except OSError:
                pass
        try:
            os.remove(os.path.join(d, '.' + name + '.aux'))
        except OSError:
            pass
    return res


def correspondence(ctx):
    rng = ctx.rng
    n = 900 if ctx.thorough else 150
    maxdepth = 6 if ctx.thorough else 4
    per = 50         # cases per Coq file (each coqc start-up pays 1 s idle, ~8 s under load, for loading the libraries)
    dis = []
    hist = {'stream': {}, 'depth': {}, 'leaf_kinds': {}, 'malformed': {}, 'outcome': {}}
    with tempfile.TemporaryDirectory(prefix='c17_') as tmp:
        cases = gen_cases(rng, n, maxdepth, tmp)
        plans, pinfo = sim_fault_plans(rng, ctx.thorough)
        # the model is evaluated by coqc sub-processes WHILE the implementation-side streams run
        procs = coq_start(coq_files(cases, 'c17_k', per) + [('c17_fault', fault_coq_text(plans))], tmp)
        # fault paths: a save / to_file that raises, then every route, on the same object
        fs = fault_stream(ctx, rng, tmp, 'f', plans=(plans, pinfo))
        # oracle-free sanity stream: objects of every registered class through real files
        kinds_n = [(k, 2 if ctx.thorough else 0) for k in E2E_KINDS]
        fails, trips, per_kind = e2e_stream(rng, kinds_n, tmp, 'e', convert_all=ctx.thorough)
        # histories on the same object: serialise; mutate through the public API; save again; load
        hfails, htrips = history_stream(rng, tmp, 'h', reps=2 if ctx.thorough else 1)
        trips += htrips + fs['loads']
        res = coq_collect(procs, 1200)
        n_eval = compare_cases(cases, res, 'c17_k', per, dis, hist)
        n_eval += fault_compare(res, fs, dis)
    seen = set()
    for c in cases:
        f = c['feat']
        hist['stream'][c['stream']] = hist['stream'].get(c['stream'], 0) + 1
        hist['depth'][str(f['depth'])] = hist['depth'].get(str(f['depth']), 0) + 1
        for k in f['kinds']:
            hist['leaf_kinds'][k] = hist['leaf_kinds'].get(k, 0) + 1
        for k in f['mal']:
            hist['malformed'][k] = hist['malformed'].get(k, 0) + 1
        if f['kinds'] - {'int', 'float', 'str', 'bool'} or f['mal']:
            seen.add(c['impl']['ser'])
    hist['e2e_round_trips_per_class'] = per_kind
    hist['history_loads'] = htrips
    hist['fault_paths'] = dict(fs['info'], loads=fs['loads'])
    seen_h = set()
    for x in fs['fails']:
        if x['signature'] in seen_h:
            continue
        seen_h.add(x['signature'])
        dis.append({'what': 'fault path on one object: after a save/to_file that RAISED, what the next '
                            'serialisation stores differs from the CURRENT object / from what THAT call requested '
                            '(implementation-side, no model)',
                    'signature': x['signature'],
                    'case': {k: x.get(k) for k in ('container', 'history', 'recipe', 'case_seed', 'variant', 'plan')},
                    'impl': x['diff'], 'model': 'n/a (required: equal object; results as requested by the current call)'})
    for x in hfails:
        if x['signature'] in seen_h:
            continue
        seen_h.add(x['signature'])
        dis.append({'what': 'history on one object: what is loaded differs from the CURRENT object '
                            '(implementation-side, no model)',
                    'signature': x['signature'],
                    'case': {k: x[k] for k in ('kind', 'history', 'recipe', 'case_seed', 'first', 'mut_index', 'variant')},
                    'impl': x['diff'], 'model': 'n/a (required: load returns the current state)'})
    for x in fails:
        dis.append({'what': 'end-to-end round trip of a class instance fails (implementation-side, no model)',
                    'signature': x['signature'],
                    'case': {k: x[k] for k in ('kind', 'how', 'recipe', 'case_seed', 'variant')},
                    'impl': x['diff'][:600], 'model': 'n/a (required: equal object)'})
    # collapse known-defect duplicates
    uniq, out = set(), []
    for d in dis:
        key = d.get('signature') or id(d)
        if key in uniq:
            continue
        uniq.add(key)
        out.append(d)
    return {
        'evaluations': n_eval + trips,
        'distinct_nontrivial': len(seen),
        'rule': ("nested dicts drawn from one PRNG: 2/3 valid stream (all leaf kinds: None, bool, int, float "
                 "incl. nan/inf, complex, str, numpy scalars of 9 dtypes, arrays of 14 dtypes with shapes () .. 4-D, "
                 "C/F order, realistic emg3d keys), 1/3 malformed stream (keys with '>', '/', '', '.', trailing '_', "
                 "'__array', '__complex', non-str keys, key collisions after flattening / tag stripping; values "
                 "'NoneType', empty dicts, bool arrays, 0-d str arrays, zero-length axes, non-finite imaginary "
                 f"parts, ints beyond 64 bit); depth <= {maxdepth}. For every dict 6 pure-function results "
                 "(_dict_serialize, _nonetype_to_none, _dict_flatten, _dict_unflatten, _dict_dearray_decomp, "
                 "_dict_array_comp) and, for str-keyed dicts, 3 save/load + 6 convert results through real files "
                 "are compared with the model's vm_compute results via a canonical rendering. distinct = distinct "
                 "serialised inputs; non-trivial = contains a leaf other than int/float/str/bool or a malformed "
                 "feature. Plus an oracle-free end-to-end stream: objects of every registered class through "
                 "3 formats + 6 conversions (counted in evaluations, reported per class in the histogram). "
                 "Plus the fault-path stream: on computed simulations every way a to_file / emg3d.save / to_dict "
                 "call can RAISE (unknown extension, member the writer cannot store, unknown what, missing "
                 "directory, member whose to_dict / str(key) raises before or after the simulation, non-str or "
                 "reserved name; h5/npz/json) x the following serialisation routes (save x3, to_file(what) x3, "
                 "copy(), copy(what), to_dict()/from_dict, nested dict, simulation twice), each operation compared "
                 "with Model/SimToFile.v (outcome, stored level class, transient attribute) and the result with the "
                 "object itself under the level requested by THAT call; the same faults on TensorMesh, Model, "
                 "Field, Survey, nested dict (histogram: fault_paths)."),
        'samples': [{'stream': c['stream'], 'dict': repr(c['d'])[:400], 'rt_json': c['impl'].get('rt_json', '')[:200]}
                    for c in cases[:4]],
        'traces_validated_against_impl': n_eval,
        'histogram': hist,
        'disagreements': out,
    }


# ------------------------------------------------------------------ searcher
KEY_OK = __import__('re').compile(r'^[A-Za-z0-9+.\-]([A-Za-z0-9+.\-]|_(?!_)(?!$))*$|^_[A-Za-z0-9+.\-]([A-Za-z0-9+.\-]|_(?!_)(?!$))*$')


def py_wf(d, top=True):
    """Python twin of wf_conv (sufficient syntactic form of the key guard)."""
    for k, v in d.items():
        if not isinstance(k, str) or not KEY_OK.match(k) or k == '.' or k.endswith('_'):
            return False
        if isinstance(v, dict):
            if not v or not py_wf(v, False):
                return False
        elif isinstance(v, np.ndarray):
            if v.dtype.kind not in 'iufc' or 0 in v.shape[:-1]:
                return False
            if v.dtype.kind == 'c' and v.size and np.any(~np.isfinite(v.imag) & ~np.isnan(v.real)):
                return False
        elif isinstance(v, np.generic):
            if v.dtype.kind == 'c' and not math.isfinite(complex(v).imag) and not math.isnan(complex(v).real):
                return False
        elif isinstance(v, str):
            if v == 'NoneType':
                return False
        elif isinstance(v, complex):
            if not math.isfinite(v.imag) and not math.isnan(v.real):
                return False
        elif isinstance(v, int) and not isinstance(v, bool):
            if not -2 ** 63 <= v < 2 ** 64:
                return False
    return True


def dict_rt_case(sub, tmp, tag, maxdepth):
    """Independent oracle: load(save(d)) and load(convert(save(d))) equal d (Python ==, NaN-aware,
    dtype+shape of arrays) for a guard-respecting dict.  Returns a hit or None."""
    from emg3d import io
    for _ in range(200):
        d = g_dict(sub, sub.randint(1, maxdepth), 'valid')
        if py_wf(d):
            break
    else:
        return None
    for f in FMTS:
        p = os.path.join(tmp, f"{tag}.{f}")
        try:
            _quiet(lambda: io.save(p, verb=0, **copy.deepcopy(d)))
            out = _quiet(lambda: io.load(p, verb=0))
            g = sub.choice([x for x in FMTS if x != f])
            q = os.path.join(tmp, f"{tag}_{f}.{g}")
            _quiet(lambda: io.convert(p, q, verb=0))
            out2 = _quiet(lambda: io.load(q, verb=0))
        except Exception as e:
            return {'signature': f"C17: dict round trip via {f} raises {type(e).__name__}",
                    'dict': repr(d)[:1500], 'observed': f"{type(e).__name__}: {e}", 'required': 'equal dict'}
        for how, o in ((f, out), (f"{f}->{g}", out2)):
            for k in META:
                o.pop(k, None)
            diff = tree_diff(d, o, root_unordered='h5' in how)
            if diff:
                return {'signature': f"C17: dict round trip via {how}: {diff.split(':')[0]}",
                        'dict': repr(d)[:1500], 'observed': diff, 'required': 'equal dict (values, dtype, shape, key order of nested dicts)'}
    return None


def search(ctx, broken):
    import random as _random
    rng = ctx.rng
    hits = []
    n_dict = 300 if ctx.thorough else 80
    n_obj = 8 if ctx.thorough else 3
    with tempfile.TemporaryDirectory(prefix='c17s_') as tmp:
        for i in range(n_dict):
            seed = rng.randint(0, 2 ** 31 - 1)
            h = dict_rt_case(_random.Random(seed), tmp, f"d{i}", 6 if ctx.thorough else 4)
            if h:
                h.update(kind='dict', case_seed=seed, maxdepth=6 if ctx.thorough else 4)
                hits.append(h)
                break
        fails, trips, per_kind = e2e_stream(rng, [(k, n_obj) for k in E2E_KINDS], tmp, 's')
        hfails, htrips = history_stream(rng, tmp, 'sh', reps=3 if ctx.thorough else 1)
        try:
            fs = fault_stream(ctx, rng, tmp, 'sf', with_model=False)
        except Exception as e:
            ctx.notes.append(f"searcher: fault-path stream could not run ({type(e).__name__}: {str(e)[:200]})")
            fs = {'fails': [], 'loads': 0, 'info': {}}
    seen_f = set()
    for x in fs['fails']:
        key = (x['container'], x['signature'].rsplit(': ', 1)[-1])
        if key in seen_f or len(seen_f) >= 4:
            continue
        seen_f.add(key)
        if x['container'] == 'Simulation' and len(x['plan']) > 1:
            # shrink: does the last (failing call, next serialisation) pair alone fail on a fresh simulation?
            try:
                with tempfile.TemporaryDirectory(prefix='c17m_') as tmp2:
                    h = sim_fault_history(x['case_seed'], x['variant'], [tuple(x['plan'][-1])], tmp2, 'm')
                if h['fails']:
                    x = dict(x, plan=[list(x['plan'][-1])], history=h['fails'][0]['history'],
                             diff=h['fails'][0]['diff'], signature=h['fails'][0]['signature'])
            except Exception:
                pass
        hits.append({'signature': x['signature'], 'kind': 'fault-history', 'container': x['container'],
                     'history': x['history'], 'recipe': x['recipe'], 'case_seed': x['case_seed'],
                     'variant': x['variant'], 'plan': x['plan'], 'observed': x['diff'],
                     'required': 'after a save/to_file that raised, the next save/copy/to_dict/to_file of the same '
                                 'object stores its CURRENT state with the results requested by that call '
                                 "(default 'computed'), and load returns an equal object"})
    seen = set()
    for x in fails:
        if x['signature'] in seen:
            continue
        seen.add(x['signature'])
        hits.append({'signature': x['signature'], 'kind': x['kind'], 'how': x['how'], 'recipe': x['recipe'],
                     'case_seed': x['case_seed'], 'variant': x['variant'], 'observed': x['diff'][:800],
                     'required': 'load returns an equal object (class __eq__, dtype/shape/values, NaN-aware)'})
    for x in hfails[:1] + [y for y in hfails[1:] if y['kind'] != hfails[0]['kind']][:3]:
        hits.append({'signature': x['signature'], 'kind': 'history', 'container': x['kind'],
                     'history': x['history'], 'recipe': x['recipe'], 'case_seed': x['case_seed'],
                     'first': x['first'], 'mut_index': x['mut_index'], 'variant': x['variant'],
                     'observed': x['diff'], 'required': 'what is saved and loaded is the CURRENT state of the object'})
    ctx.notes.append(f"searcher: {n_dict} guard-respecting dicts x 3 formats (+1 conversion each), "
                     f"{trips} class round trips {per_kind}, {htrips} loads in save/mutate/save/load histories, "
                     f"{fs['loads']} loads in fault-path histories {fs['info']}")
    return hits


def replay(ctx, payload):
    import random as _random
    fi = payload.get('failing_input')
    if not fi or 'case_seed' not in fi:
        return False
    with tempfile.TemporaryDirectory(prefix='c17r_') as tmp:
        if fi.get('kind') == 'fault-history':
            if fi['container'] == 'Simulation':
                h = sim_fault_history(fi['case_seed'], fi['variant'], [tuple(q) for q in fi['plan']], tmp, 'r')
                return not h['fails']
            f, _ = generic_fault_case(fi['case_seed'], fi['container'], fi['variant'], tmp, 'r')
            return f is None
        if fi.get('kind') == 'history':
            f, _ = history_case(_random.Random(fi['case_seed']), fi['container'], fi['first'], fi['mut_index'],
                                tmp, 'r', fi['variant'])
            return f is None
        if fi.get('kind') == 'dict':
            return dict_rt_case(_random.Random(fi['case_seed']), tmp, 'r', fi.get('maxdepth', 4)) is None
        fails, _ = e2e_case(_random.Random(fi['case_seed']), fi['kind'], tmp, 'r', None, fi.get('variant'))
        return not fails


# ======================================================================
# Histories on the SAME object: serialise once, mutate through the public
# API, serialise again, load -> must equal the CURRENT object
# ======================================================================
H_KINDS = ['TensorMesh', 'Model', 'Field', 'Survey', 'Simulation', 'Nested']
H_FIRST = ['save-h5', 'save-npz', 'save-json', 'to_dict', 'copy']


def _grid_of(obj):
    name = type(obj).__name__
    if name == 'TensorMesh':
        return obj
    if name in ('Model', 'Field'):
        return obj.grid
    if name == 'Simulation':
        return obj.model.grid
    return None


def h_mutations(obj):
    """Names of the public-API mutations applicable to obj."""
    name = type(obj).__name__
    muts = []
    if _grid_of(obj) is not None:
        muts += ['grid.origin=', 'grid.h[0][0]*=2']
    if name == 'Model':
        muts += ['property_x=', 'property_x[...]', 'mu_r/epsilon_r[...]']
    if name == 'Field':
        muts += ['field[:]', 'fx[...]']
    if name == 'Survey':
        muts += ['data.observed[...]', 'noise_floor=', 'standard_deviation=', 'data[new]=']
    if name == 'Simulation':
        muts += ['model.property_x[...]', 'survey.data.observed[...]', 'name=']
    return muts


def h_mutate(obj, mut, rng):
    name = type(obj).__name__
    g = _grid_of(obj)
    if mut == 'grid.origin=':
        g.origin = np.asarray(g.origin) + np.array([rng.randint(1, 40) * 250.0, -1000.0, 0.25])
    elif mut == 'grid.h[0][0]*=2':
        g.h[0][0] *= 2.0
    elif mut == 'property_x=':
        obj.property_x = np.asarray(obj.property_x) * 2.0 + 1.0
    elif mut in ('property_x[...]', 'model.property_x[...]'):
        m = obj if name == 'Model' else obj.model
        m.property_x[...] = np.asarray(m.property_x) * 4.0 + 0.5
    elif mut == 'mu_r/epsilon_r[...]':
        for a in (obj.mu_r, obj.epsilon_r, obj.property_y, obj.property_z):
            if a is not None:
                a[...] = np.asarray(a) * 2.0 + 0.25
    elif mut == 'field[:]':
        obj.field[:] = np.asarray(obj.field) * 2.0 + 1.0
    elif mut == 'fx[...]':
        obj.fx[...] = np.asarray(obj.fx) * 0.5 - 3.0
    elif mut in ('data.observed[...]', 'survey.data.observed[...]'):
        s = obj if name == 'Survey' else obj.survey
        s.data.observed.data[...] = np.arange(s.data.observed.size).reshape(s.shape) * (1 + 0.5j) + 7
    elif mut == 'noise_floor=':
        obj.noise_floor = 2.0 ** -rng.randint(10, 30)
    elif mut == 'standard_deviation=':
        obj.standard_deviation = np.arange(1, np.prod(obj.shape) + 1).reshape(obj.shape) / 1024.0
    elif mut == 'data[new]=':
        obj.data['h_new'] = obj.data.observed * 2 + 1
    elif mut == 'name=':
        obj.name = 'renamed'
    else:
        raise ValueError(mut)


def h_make(rng, kind, variant):
    if kind == 'Survey':
        return e_survey(rng, variant=variant % 6)        # never the receiver-free variant
    if kind == 'Simulation':
        return e_simulation(rng, False, variant)
    if kind == 'Nested':
        g = e_grid(rng)
        m, _ = e_model(rng, g, variant=variant)
        f, _ = e_field(rng, g, variant=variant)
        return {'sub': {'model': m, 'deep': {'field': f}}, 'grid': g}, dict(nested=True)
    return e_make(rng, kind, variant)


def history_case(rng, kind, first, mut_index, tmp, tag, variant=0):
    """One history.  Returns (failure dict or None, number of loads)."""
    from emg3d import io
    obj, recipe = h_make(rng, kind, variant)
    what = recipe.get('what') if isinstance(recipe, dict) else None
    targets = [obj] if not isinstance(obj, dict) else [obj['sub']['model'], obj['sub']['deep']['field'], obj['grid']]
    target = targets[mut_index % len(targets)]
    muts = h_mutations(target)
    mut = muts[mut_index % len(muts)]
    n = 0

    def save(p):
        if kind == 'Simulation':
            obj.to_file(p, what=what, name='o', verb=0)
        elif isinstance(obj, dict):
            io.save(p, verb=0, **obj)
        else:
            io.save(p, verb=0, o=obj)

    def fail(how, diff):
        return {'kind': kind, 'history': [first, f"mutate {type(target).__name__}: {mut}", how],
                'recipe': repr(recipe)[:500], 'diff': str(diff)[:600],
                'signature': f"C17: history [{first}; {mut}; {how}] on {kind}: {str(diff).split(':')[0][:60]}"}
    # 1. serialise once
    try:
        with warnings.catch_warnings(), contextlib.redirect_stdout(_io.StringIO()):
            warnings.simplefilter('ignore')
            for o in ([obj] if not isinstance(obj, dict) else targets):
                if first.startswith('save-'):
                    pass
                elif first == 'to_dict':
                    o.to_dict()
                else:
                    o.copy()
            if first.startswith('save-'):
                save(os.path.join(tmp, f"{tag}_0.{first[5:]}"))
        # 2. mutate through the public API
        h_mutate(target, mut, rng)
    except Exception as e:          # mutation not available on this object: not a round-trip matter
        return None, 0
    # 3. serialise again in every format, load, compare with the CURRENT object
    for f in FMTS:
        p = os.path.join(tmp, f"{tag}_1.{f}")
        try:
            _quiet(lambda: save(p))
            with warnings.catch_warnings(record=True) as w:
                warnings.simplefilter('always')
                with contextlib.redirect_stdout(_io.StringIO()):
                    out = io.load(p, verb=0)
            n += 1
            bad = [str(x.message) for x in w if 'Could not de-serialize' in str(x.message)]
            if bad:
                return fail(f"save+load {f}", bad[0]), n
            if isinstance(obj, dict):
                for k in META:
                    out.pop(k, None)
                d = tree_diff(tree_of(obj), tree_of(out), root_unordered=(f == 'h5'))
            else:
                d = obj_diff(obj, out['o'], what)
            if d:
                return fail(f"save+load {f}", d), n
        except Exception as e:
            return fail(f"save+load {f}", f"{type(e).__name__}: {e}"), n
    # copy() and to_dict()/from_dict() of the current object
    if not isinstance(obj, dict):
        try:
            c = _quiet(obj.copy)
            n += 1
            d = obj_diff(obj, c, 'computed' if kind == 'Simulation' else None)
            if d:
                return fail('copy()', d), n
        except Exception as e:
            return fail('copy()', f"{type(e).__name__}: {e}"), n
    return None, n


def history_stream(rng, tmp, tag, reps=1):
    """Every container kind x every way of serialising first x every applicable mutation."""
    import random as _random
    fails, trips = [], 0
    for kind in H_KINDS:
        nm = {'TensorMesh': 2, 'Model': 5, 'Field': 4, 'Survey': 4, 'Simulation': 5, 'Nested': 3}[kind]
        for rep in range(reps):
            for mi in range(nm):
                for fi, first in enumerate(H_FIRST):
                    seed = rng.randint(0, 2 ** 31 - 1)
                    variant = mi + fi + rep * 5
                    f, n = history_case(_random.Random(seed), kind, first, mi, tmp, f"{tag}{kind}{rep}_{mi}_{fi}", variant)
                    trips += n
                    if f:
                        f.update(case_seed=seed, first=first, mut_index=mi, variant=variant)
                        fails.append(f)
    return fails, trips


# ======================================================================
# FAULT PATHS: a save / to_file that RAISES, then the same object is
# serialised again through every route, loaded, and compared
#   (a) with the Coq model Model/SimToFile.v (outcome of every operation and
#       whether a transient attribute is left on the instance), and
#   (b) with the object itself (independent oracle: equal object, equal
#       dtypes, computed results present as requested by the CURRENT call's
#       `what`, default 'computed').
# ======================================================================
F_HEADER = """From Coq Require Import List String Bool.
From V Require Import Model.SimToFile.
Import ListNotations.
Set Printing Width 100000000.
Set Printing Depth 100000000.
Local Open Scope string_scope.
"""
F_WHATS = ['plain', 'results', 'all', 'computed']
W_COQ = {'plain': '(W Plain)', 'results': '(W Results)', 'all': '(W All)', 'computed': '(W Computed)'}
W_CLS = {'plain': 'P', 'results': 'R', 'all': 'F', 'computed': 'F'}


class _BadKey:
    def __str__(self):
        raise RuntimeError('key cannot be converted')

    __repr__ = object.__repr__


def _bad_member():
    """An instance of a registered class (a user subclass) whose to_dict raises."""
    import emg3d

    class FieldNoDict(emg3d.Field):
        def to_dict(self, copy=False):
            raise NotImplementedError('this member cannot be serialised')
    return FieldNoDict(emg3d.TensorMesh([[1., 1.], [1., 1.], [1., 1.]], (0, 0, 0)), frequency=1.0)


def _coq_b(b):
    return 'true' if b else 'false'


def _c_tofile(w, user=(), name='NFresh', ext_ok=True, write_ok=True):
    return (f"OToFile (mk_tofile {W_COQ.get(w, 'WBad')} [{'; '.join(user)}] {name} "
            f"{_coq_b(ext_ok)} {_coq_b(write_ok)})")


def _c_save(members, kw_ok=True, ext_ok=True, write_ok=True):
    return f"OSave (mk_save {_coq_b(kw_ok)} [{'; '.join(members)}] {_coq_b(ext_ok)} {_coq_b(write_ok)})"


def _unser(i, fmt):
    """A value no format can store (np.savez pickles objects and sets, so npz gets a function)."""
    if fmt == 'npz':
        return 'lambda', (lambda: 1)
    return [('object()', object()), ('lambda', (lambda: 1)), ('set', {1, 2})][i % 3]


def sim_fault_table():
    """Every way a serialisation call of a Simulation can RAISE (or silently not store it).
    Entry: (label, coq-op builder(what), call(sim, tmp, tag, what), keys of the members that ARE the
    simulation in kwargs order, level each of them is expected to be stored with).
    Deterministic enumeration; nothing here refers to how emg3d implements to_file."""
    import emg3d
    T = []

    def add(label, coq, call, keys=('simulation',), levels=None):
        T.append({'label': label, 'coq': coq, 'call': call, 'keys': keys, 'levels': levels})
    # 1. unknown extension
    for ext in ('hdf5', 'h5x', 'JSON'):
        add(f"to_file('x.{ext}', what=W)", lambda w: _c_tofile(w, ext_ok=False),
            lambda s, tmp, tag, w, ext=ext: s.to_file(os.path.join(tmp, f"{tag}.{ext}"), what=w, verb=0))
    for i, fmt in enumerate(FMTS):
        # 2. an extra member that the writer cannot store
        nm, val = _unser(i, fmt)
        add(f"to_file('x.{fmt}', what=W, extra={nm})", lambda w: _c_tofile(w, ['MGood'], write_ok=False),
            lambda s, tmp, tag, w, fmt=fmt, i=i: s.to_file(os.path.join(tmp, f"{tag}.{fmt}"), what=w, verb=0,
                                                          extra=_unser(i, fmt)[1]))
        # 3. unknown `what`
        add(f"to_file('x.{fmt}', what='bogus')", lambda w: _c_tofile('bogus'),
            lambda s, tmp, tag, w, fmt=fmt: s.to_file(os.path.join(tmp, f"{tag}.{fmt}"), what='bogus', verb=0))
        # 4. directory does not exist
        add(f"to_file('no/such/dir/x.{fmt}', what=W)", lambda w: _c_tofile(w, write_ok=False),
            lambda s, tmp, tag, w, fmt=fmt: s.to_file(os.path.join(tmp, 'no', 'such', 'dir', f"{tag}.{fmt}"),
                                                      what=w, verb=0))
        # 5. a member whose own serialisation raises (before the simulation is reached)
        mk = [lambda: _bad_member(), lambda: {'deep': {'member': _bad_member()}}, lambda: {_BadKey(): 1.0}][i]
        ml = ['<registered class whose to_dict raises>', '{deep: {member: <to_dict raises>}}',
              '{<key whose str() raises>: 1.0}'][i]
        add(f"to_file('x.{fmt}', what=W, extra={ml})", lambda w: _c_tofile(w, ['MBad']),
            lambda s, tmp, tag, w, fmt=fmt, mk=mk: s.to_file(os.path.join(tmp, f"{tag}.{fmt}"), what=w, verb=0,
                                                            extra=mk()))
        # 6. `name` is not a str (call binding of io.save raises)
        nv = [1, None, 2.5][i]
        add(f"to_file('x.{fmt}', what=W, name={nv!r})", lambda w: _c_tofile(w, name='NNonStr'),
            lambda s, tmp, tag, w, fmt=fmt, nv=nv: s.to_file(os.path.join(tmp, f"{tag}.{fmt}"), what=w, name=nv,
                                                            verb=0))
    # 7. `name` is one of the keywords io.save pops: the simulation is never serialised
    add("to_file('x.h5', what=W, name='verb')", lambda w: _c_tofile(w, name='NReserved', write_ok=False),
        lambda s, tmp, tag, w: s.to_file(os.path.join(tmp, f"{tag}.h5"), what=w, name='verb'), keys=())
    add("to_file('x.npz', what=W, name='compression')", lambda w: _c_tofile(w, name='NReserved'),
        lambda s, tmp, tag, w: s.to_file(os.path.join(tmp, f"{tag}.npz"), what=w, name='compression', verb=0),
        keys=())
    # 8. emg3d.save itself raising with the simulation among the members
    add("emg3d.save('x.hdf5', sim=sim)", lambda w: _c_save(['MSelf'], ext_ok=False),
        lambda s, tmp, tag, w: emg3d.save(os.path.join(tmp, f"{tag}.hdf5"), verb=0, sim=s))
    add("emg3d.save('x.json', bad=object(), sim=sim)", lambda w: _c_save(['MGood', 'MSelf'], write_ok=False),
        lambda s, tmp, tag, w: emg3d.save(os.path.join(tmp, f"{tag}.json"), verb=0, bad=object(), sim=s))
    add("emg3d.save('x.h5', sim=sim, bad=<to_dict raises>)", lambda w: _c_save(['MSelf', 'MBad']),
        lambda s, tmp, tag, w: emg3d.save(os.path.join(tmp, f"{tag}.h5"), verb=0, sim=s, bad=_bad_member()))
    add("emg3d.save('x.npz', bad=<to_dict raises>, sim=sim)", lambda w: _c_save(['MBad', 'MSelf']),
        lambda s, tmp, tag, w: emg3d.save(os.path.join(tmp, f"{tag}.npz"), verb=0, bad=_bad_member(), sim=s))
    add("emg3d.save('x.h5', **{1: sim})", lambda w: _c_save(['MSelf'], kw_ok=False),
        lambda s, tmp, tag, w: emg3d.save(os.path.join(tmp, f"{tag}.h5"), **{'verb': 0, 1: s}))
    # 9. to_dict / copy with an unknown `what`
    add("to_dict('bogus')", lambda w: "OToDict WBad", lambda s, tmp, tag, w: s.to_dict('bogus'))
    add("copy('bogus')", lambda w: "OToDict WBad", lambda s, tmp, tag, w: s.copy('bogus'))
    return T


def sim_route_table():
    """Every route by which a Simulation is serialised.  Entry: (label, coq-op builder(w2),
    run(sim, tmp, tag, w2) -> list of (loaded simulation, level requested by THIS call))."""
    import emg3d
    R = []

    def load(p):
        with warnings.catch_warnings(record=True) as wl:
            warnings.simplefilter('always')
            with contextlib.redirect_stdout(_io.StringIO()):
                out = emg3d.load(p, verb=0)
        bad = [str(x.message) for x in wl if 'Could not de-serialize' in str(x.message)]
        if bad:
            raise RuntimeError(bad[0])
        return out
    for fmt in FMTS:
        def r_save(s, tmp, tag, w2, fi=0, fmt=fmt):
            p = os.path.join(tmp, f"{tag}.{fmt}")
            emg3d.save(p, verb=0, sim=s)
            return [(load(p)['sim'], 'computed')]
        R.append({'label': f"emg3d.save('x.{fmt}', sim=sim); load", 'coq': lambda w2: _c_save(['MSelf']), 'run': r_save})

        def r_tofile(s, tmp, tag, w2, fi=0, fmt=fmt):
            p = os.path.join(tmp, f"{tag}.{fmt}")
            s.to_file(p, what=w2, verb=0)
            return [(emg3d.Simulation.from_file(p, verb=0), w2)]
        R.append({'label': f"to_file('x.{fmt}', what=W2); from_file", 'coq': lambda w2: _c_tofile(w2), 'run': r_tofile})
    R.append({'label': 'copy()', 'coq': lambda w2: "OToDict (W Computed)",
              'run': lambda s, tmp, tag, w2, fi=0: [(s.copy(), 'computed')]})
    R.append({'label': 'copy(W2)', 'coq': lambda w2: f"OToDict {W_COQ[w2]}",
              'run': lambda s, tmp, tag, w2, fi=0: [(s.copy(w2), w2)]})
    R.append({'label': 'from_dict(to_dict())', 'coq': lambda w2: "OToDict (W Computed)",
              'run': lambda s, tmp, tag, w2, fi=0: [(emg3d.Simulation.from_dict(s.to_dict(copy=True)), 'computed')]})
    R.append({'label': 'from_dict(to_dict(W2))', 'coq': lambda w2: f"OToDict {W_COQ[w2]}",
              'run': lambda s, tmp, tag, w2, fi=0: [(emg3d.Simulation.from_dict(s.to_dict(w2, True)), w2)]})

    def r_nested(s, tmp, tag, w2, fi=0):
        fmt = FMTS[fi % 3]
        p = os.path.join(tmp, f"{tag}.{fmt}")
        emg3d.save(p, verb=0, n=3, sub={'deep': {'sim': s}, 'x': 1.5})
        return [(load(p)['sub']['deep']['sim'], 'computed')]
    R.append({'label': "emg3d.save(f, n=3, sub={'deep': {'sim': sim}}); load", 'coq': lambda w2: _c_save(['MGood', 'MSelf', 'MGood']),
              'run': r_nested})

    def r_twice(s, tmp, tag, w2, fi=0):
        fmt = FMTS[(fi + 1) % 3]
        p = os.path.join(tmp, f"{tag}.{fmt}")
        emg3d.save(p, verb=0, sim=s, again=s)
        out = load(p)
        return [(out['sim'], 'computed'), (out['again'], 'computed')]
    R.append({'label': "emg3d.save(f, sim=sim, again=sim); load", 'coq': lambda w2: _c_save(['MSelf', 'MSelf']),
              'run': r_twice})

    def r_tofile_twice(s, tmp, tag, w2, fi=0):
        # the simulation also among the user's members: to_file's `what` goes to the FIRST
        # serialisation (the user's member), the named entry gets the default -- the model says so
        fmt = FMTS[(fi + 2) % 3]
        p = os.path.join(tmp, f"{tag}.{fmt}")
        s.to_file(p, what=w2, verb=0, again=s)
        out = load(p)
        return [(out['again'], w2), (out['simulation'], w2)]
    R.append({'label': "to_file(f, what=W2, again=sim); load", 'coq': lambda w2: _c_tofile(w2, ['MSelf']),
              'run': r_tofile_twice, 'levels': lambda w2: [W_CLS[w2], 'F']})
    return R


def level_class(new):
    """Observable class of what a (computed) simulation was stored with: F(ields) / R(esults) / P(lain)."""
    ef = getattr(new, '_dict_efield', None)
    if ef and any(v is not None for per in ef.values() for v in per.values()):
        return 'F'
    if getattr(new, '_computed', False):
        return 'R'
    return 'P'


def f_make_sim(rng, variant):
    """A COMPUTED simulation (fields, synthetic data; misfit for even variants)."""
    for _ in range(20):
        sim, recipe = e_simulation(rng, True, variant)
        if level_class(sim) == 'F' and sim._computed:
            return sim, recipe
    raise RuntimeError('could not build a computed simulation')


def sim_fault_history(seed, variant, plan, tmp, tag):
    """Run the history `plan` = [(fault index, fault-what index, route index, route-what index), ...]
    on ONE computed simulation: fault, route, fault, route, ...
    Returns dict(ops=[coq terms], observed='X-;D[F]-;...', steps=[labels], fails=[...], loads=int)."""
    import random as _random
    rng = _random.Random(seed)
    sim, recipe = f_make_sim(rng, variant)
    FT, RT = sim_fault_table(), sim_route_table()
    with warnings.catch_warnings(), contextlib.redirect_stdout(_io.StringIO()):
        warnings.simplefilter('ignore')
        sim.to_dict()                       # warm-up: whatever a first SUCCESSFUL serialisation / comparison
        import emg3d                        # legitimately caches on the instance is there before the baseline
        try:
            emg3d.save(os.path.join(tmp, f"{tag}_warm.npz"), verb=0, o=sim)
            obj_diff(sim, sim.copy(), 'computed')
        except Exception:                   # warm-up only; the routes below report what does not work
            pass
    base_attrs = set(vars(sim))
    base_view = tree_of(sim, 'computed')
    ops, obs, steps, fails, loads = [], [], [], [], 0

    def flag():
        extra = sorted(set(vars(sim)) - base_attrs)
        return ('+' if extra else '-'), extra

    def fail(i, what, diff):
        fails.append({'kind': 'Simulation', 'history': list(steps[:i + 1]), 'recipe': repr(recipe)[:400],
                      'diff': str(diff)[:600], 'step': i,
                      'signature': f"C17: fault history [{'; '.join(steps[max(0, i - 1):i + 1])}] on Simulation: "
                                   f"{what}"})
    for (fi, fwi, ri, rwi) in plan:
        f = FT[fi % len(FT)]
        r = RT[ri % len(RT)]
        w, w2 = F_WHATS[fwi % 4], F_WHATS[rwi % 4]          # (formats of the multi-member routes: rwi % 3)
        # ---- the call that (usually) raises
        label = f['label'].replace('what=W', f"what={w!r}")
        steps.append(label)
        ops.append(f['coq'](w))
        k = len(steps) - 1
        try:
            with warnings.catch_warnings(), contextlib.redirect_stdout(_io.StringIO()):
                warnings.simplefilter('ignore')
                f['call'](sim, tmp, f"{tag}_{k}", w)
            o = 'D[' + ','.join(W_CLS[w] for _ in f['keys']) + ']'     # stored (checked below via routes only)
            steps[-1] += ' -> returned'
        except Exception as e:
            o = 'X'
            steps[-1] += f" -> {type(e).__name__}"
        fl, extra = flag()
        obs.append(o + fl)
        d = tree_diff(base_view, tree_of(sim, 'computed'))
        if d:
            fail(k, 'the failed call changed the simulation', d)
            base_view = tree_of(sim, 'computed')
        # ---- the next serialisation of the same simulation
        label = r['label'].replace('W2', repr(w2))
        steps.append(label)
        ops.append(r['coq'](w2))
        k = len(steps) - 1
        try:
            with warnings.catch_warnings(), contextlib.redirect_stdout(_io.StringIO()):
                warnings.simplefilter('ignore')
                got = r['run'](sim, tmp, f"{tag}_{k}", w2, rwi)
            loads += len(got)
            classes = [level_class(n) for n, _ in got]
            o = 'D[' + ','.join(classes) + ']'
            for (n, lvl), cls in zip(got, classes):
                # public-attribute trees first (obj_diff evaluates .misfit, which makes a simulation that
                # came back WITHOUT results compute them)
                d = tree_diff(tree_of(sim, lvl), tree_of(n, lvl)) or obj_diff(sim, n, lvl)
                if d:
                    fail(k, str(d).split(':')[0][:70],
                         f"this call requested what={lvl!r}; what came back has content class '{cls}' "
                         f"(F fields+results / R results only / P plain) and differs from the simulation: {d}")
                    break
        except Exception as e:
            o = 'X'
            fail(k, f"raises {type(e).__name__}", f"{type(e).__name__}: {e}")
        fl, extra = flag()
        obs.append(o + fl)
    return {'ops': ops, 'observed': ';'.join(obs), 'steps': steps, 'fails': fails, 'loads': loads,
            'recipe': recipe}


def sim_fault_plans(rng, thorough):
    """Deterministic enumeration: every fault x (quick: 4, thorough: all) routes, every fault-what and
    route-what level; only the rotation offsets and the simulations come from rng."""
    nF, nR = len(sim_fault_table()), len(sim_route_table())
    nsim = 3 if thorough else 2
    per_fault = nR if thorough else 4
    off = rng.randint(0, 10 ** 6)
    plans = [[] for _ in range(nsim)]
    pairs = set()
    for fi in range(nF):
        for j in range(per_fault):
            ri = (off + fi * 5 + j * (1 if thorough else 3)) % nR
            fwi = (fi + j + off) % 4
            if thorough and j % 2:
                fwi = (fwi % 2)                 # 'plain' / 'results': the levels that LOSE content when stale
            elif not thorough:
                fwi = (fi + j + off) % 2 if j < 3 else 2 + (fi + off) % 2
            rwi = (fi + 2 * j + off // 7) % 12
            plans[(fi + j) % nsim].append((fi, fwi, ri, rwi))
            pairs.add((fi, ri))
    return plans, {'faults': nF, 'routes': nR, 'fault_route_pairs': len(pairs)}


def generic_fault_case(seed, kind, variant, tmp, tag):
    """Other containers (no Coq state machine: the model of their entry points is stateless): io.save /
    Survey.to_file raising in every stage, then every route; loaded object == CURRENT object and no
    attribute left on the instance."""
    import random as _random
    import emg3d
    rng = _random.Random(seed)
    obj, recipe = h_make(rng, kind, variant)
    targets = [obj] if not isinstance(obj, dict) else [obj['sub']['model'], obj['sub']['deep']['field'], obj['grid']]
    kw = (lambda: dict(obj)) if isinstance(obj, dict) else (lambda: {'o': obj})

    def snapshot():
        return [set(vars(t)) for t in targets]
    with warnings.catch_warnings(), contextlib.redirect_stdout(_io.StringIO()):
        warnings.simplefilter('ignore')
        for t in targets:          # warm-up: lazily cached attributes (e.g. face areas) exist before the baseline
            t.to_dict()
            try:
                emg3d.save(os.path.join(tmp, f"{tag}_warm.npz"), verb=0, o=t)
                obj_diff(t, t.copy(), None)
            except Exception:      # warm-up only
                pass
    base = snapshot()
    faults = [("save('x.hdf5')", lambda i: emg3d.save(os.path.join(tmp, f"{tag}{i}.hdf5"), verb=0, **kw()))]
    for j, fmt in enumerate(FMTS):
        faults += [
            (f"save('no/dir/x.{fmt}')",
             lambda i, fmt=fmt: emg3d.save(os.path.join(tmp, 'no', 'dir', f"{tag}{i}.{fmt}"), verb=0, **kw())),
            (f"save('x.{fmt}', ..., zz_bad={_unser(j, fmt)[0]})",
             lambda i, fmt=fmt, j=j: emg3d.save(os.path.join(tmp, f"{tag}{i}.{fmt}"), verb=0,
                                                **kw(), zz_bad=_unser(j, fmt)[1])),
            (f"save('x.{fmt}', ..., zz_bad=<to_dict raises>)",
             lambda i, fmt=fmt: emg3d.save(os.path.join(tmp, f"{tag}{i}.{fmt}"), verb=0, **kw(), zz_bad=_bad_member())),
            (f"save('x.{fmt}', aa_bad=<to_dict raises>, ...)",
             lambda i, fmt=fmt: emg3d.save(os.path.join(tmp, f"{tag}{i}.{fmt}"), verb=0, aa_bad=_bad_member(), **kw())),
        ]
    if kind == 'Survey':
        faults += [("to_file('x.hdf5')", lambda i: obj.to_file(os.path.join(tmp, f"{tag}{i}.hdf5"), verb=0)),
                   ("to_file('x.h5', name=1)", lambda i: obj.to_file(os.path.join(tmp, f"{tag}{i}.h5"), name=1, verb=0)),
                   ("to_file('no/dir/x.json')",
                    lambda i: obj.to_file(os.path.join(tmp, 'no', 'dir', f"{tag}{i}.json"), verb=0))]
    routes = [f"save+load {f}" for f in FMTS] + ([] if isinstance(obj, dict) else ['copy()', 'from_dict(to_dict())'])
    steps, loads = [], 0
    off = rng.randint(0, 100)

    def fail(what, diff):
        return {'kind': kind, 'history': list(steps), 'recipe': repr(recipe)[:400], 'diff': str(diff)[:600],
                'signature': f"C17: fault history [{'; '.join(steps[-2:])}] on {kind}: {what}"}
    for i, (fl, fcall) in enumerate(faults):
        try:
            with warnings.catch_warnings(), contextlib.redirect_stdout(_io.StringIO()):
                warnings.simplefilter('ignore')
                fcall(i)
            steps.append(fl + ' -> returned')
        except Exception as e:
            steps.append(fl + f" -> {type(e).__name__}")
        if snapshot() != base:
            extra = [sorted(a - b) for a, b in zip(snapshot(), base)]
            return fail('attributes left on the instance', extra), loads
        route = routes[(i + off) % len(routes)]
        steps.append(route)
        try:
            with warnings.catch_warnings(record=True) as wl:
                warnings.simplefilter('always')
                with contextlib.redirect_stdout(_io.StringIO()):
                    if route.startswith('save+load'):
                        f = route.split()[-1]
                        p = os.path.join(tmp, f"{tag}r{i}.{f}")
                        emg3d.save(p, verb=0, **kw())
                        out = emg3d.load(p, verb=0)
                    elif route == 'copy()':
                        out = {'o': obj.copy()}
                    else:
                        out = {'o': type(obj).from_dict(obj.to_dict(copy=True))}
            loads += 1
            bad = [str(x.message) for x in wl if 'Could not de-serialize' in str(x.message)]
            if bad:
                return fail('could not de-serialize', bad[0]), loads
            if isinstance(obj, dict):
                for k in META:
                    out.pop(k, None)
                d = tree_diff(tree_of(obj), tree_of(out), root_unordered=route.endswith('h5')) or nested_types(obj, out)
            else:
                d = obj_diff(obj, out['o'], None)
            if d:
                return fail(str(d).split(':')[0][:70], d), loads
        except Exception as e:
            return fail(f"raises {type(e).__name__}", f"{type(e).__name__}: {e}"), loads
    return None, loads


F_GENERIC_KINDS = ['TensorMesh', 'Model', 'Field', 'Survey', 'Nested']


def plan_ops(plan):
    """The Coq operations of a history plan (they do not depend on what the implementation does)."""
    FT, RT = sim_fault_table(), sim_route_table()
    ops = []
    for (fi, fwi, ri, rwi) in plan:
        ops.append(FT[fi % len(FT)]['coq'](F_WHATS[fwi % 4]))
        ops.append(RT[ri % len(RT)]['coq'](F_WHATS[rwi % 4]))
    return ops


def fault_coq_text(plans):
    return '\n'.join([F_HEADER] + [f"Eval vm_compute in render_run (run true false None [{'; '.join(plan_ops(p))}])."
                                   for p in plans]) + '\n'


def fault_stream(ctx, rng, tmp, tag, with_model=True, plans=None):
    """Returns dict(fails, loads, observed=[strings], hist=[...], info)."""
    plans, info = plans or sim_fault_plans(rng, ctx.thorough)
    fails, loads, observed, hist = [], 0, [], []
    for j, plan in enumerate(plans):
        seed = rng.randint(0, 2 ** 31 - 1)
        variant = rng.randint(0, 11)
        try:
            h = sim_fault_history(seed, variant, plan, tmp, f"{tag}s{j}")
        except Exception as e:      # the harness itself could not drive this simulation: a finding, not a crash
            fails.append({'kind': 'Simulation', 'container': 'Simulation', 'case_seed': seed, 'variant': variant,
                          'plan': [list(q) for q in plan[:1]], 'recipe': 'n/a', 'step': 0,
                          'history': ['build a computed simulation; to_dict(); first fault/route pair'],
                          'diff': f"{type(e).__name__}: {str(e)[:300]}",
                          'signature': f"C17: fault history on Simulation: driving it raised {type(e).__name__}"})
            continue
        loads += h['loads']
        for x in h['fails']:
            x.update(case_seed=seed, variant=variant, plan=[list(q) for q in plan[:(x['step'] // 2) + 1]],
                     container='Simulation')
        fails += h['fails']
        observed.append(h['observed'])
        if h['ops'] != plan_ops(plan):
            raise RuntimeError('fault stream: operations run differ from the planned ones (harness error)')
        hist.append({'seed': seed, 'variant': variant, 'plan': plan, 'steps': h['steps'], 'ops': h['ops'],
                     'eval_index': j})
    info['sim_histories'] = len(plans)
    info['sim_ops'] = sum(len(h['ops']) for h in hist)
    info['outcomes'] = {}
    for o in ';'.join(observed).split(';'):
        info['outcomes'][o] = info['outcomes'].get(o, 0) + 1
    ngen = 0
    for kind in F_GENERIC_KINDS:
        for rep in range(2 if ctx.thorough else 1):
            seed = rng.randint(0, 2 ** 31 - 1)
            variant = rng.randint(0, 5)
            try:
                f, n = generic_fault_case(seed, kind, variant, tmp, f"{tag}g{kind}{rep}")
            except Exception as e:
                f, n = {'kind': kind, 'history': ['build object; to_dict()'], 'recipe': 'n/a',
                        'diff': f"{type(e).__name__}: {str(e)[:300]}",
                        'signature': f"C17: fault history on {kind}: driving it raised {type(e).__name__}"}, 0
            loads += n
            ngen += 1
            if f:
                f.update(case_seed=seed, variant=variant, container=kind, plan=None)
                fails.append(f)
    info['generic_histories'] = ngen
    return {'fails': fails, 'loads': loads, 'observed': observed, 'hist': hist, 'info': info}


def fault_compare(res, fs, dis):
    """Model (Coq, fixed to_file, io.save of /repo) vs implementation, per history."""
    rc, out = res['c17_fault']
    if rc != 0:
        dis.append({'what': 'fault-path model does not evaluate (coqc failed)', 'log': out[-1500:]})
        return 0
    ans = V.eval_answers(out)
    n = 0
    for obs, h in zip(fs['observed'], fs['hist']):
        k = h['eval_index']
        if k >= len(ans):
            dis.append({'what': 'missing Eval answer (fault histories)'})
            break
        got = parse_coq_string(ans[k]).split(';')
        exp = obs.split(';')
        n += len(exp)
        for i, (g, e) in enumerate(zip(got, exp)):
            if g != e:
                dis.append({'what': 'Simulation serialisation entry points and Model/SimToFile.v differ '
                                    '(outcome X/D[levels] and transient attribute +/- after the operation)',
                            'signature': f"C17: fault-path model: step '{h['steps'][i][:80]}' observed {e} model {g}",
                            'case': {'seed': h['seed'], 'variant': h['variant'], 'history': h['steps'][:i + 1][-4:],
                                     'coq_ops': h['ops'][:i + 1][-4:]},
                            'impl': e, 'model': g})
                break
        if len(got) != len(exp):
            dis.append({'what': 'fault history: model and implementation have different lengths',
                        'impl': obs[:300], 'model': ';'.join(got)[:300]})
    return n
