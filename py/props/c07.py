"""C07 -- adjoint-state gradient = derivative of the data misfit.

Theorems: coq/Props/C07.v (abstract adjoint algebra of Model/Adjoint.v, the
generated volume averaging Gen/MapsVol.v, the chain factors Gen/MapsMap.v).
Correspondence: the linear solves are oracles -- every solve of a REAL tiny
Simulation is recorded (source field in, field out); the Coq definitions
`misfit_of`, `rsource`, `gradient_pipeline` are evaluated on the recorded values
as exact rationals (Cx Q) and compared with Simulation.misfit, the residual
source handed to the solver, and Simulation.gradient.
Searcher: Taylor-remainder test with fresh simulations and tight multigrid.
"""
import numpy as np

from vlib import adjgen
from vlib import adjh as H
from vlib import core as V
from vlib import mapsgen

ID = 'C07'
LEVEL_TEXT = (
    "Coq theorems (Props/C07.v): for every finite index sets, every field K of characteristic /= 2 "
    "with an involution (C, Q(i)), every symmetric K0, every additive edge averaging Av with transpose "
    "AvT, all conductivities sigma, all real perturbations delta, with e, e' exact solutions for sigma, "
    "sigma+delta and b the exact solution for the residual source the code builds: "
    "misfit(sigma+delta) - misfit(sigma) = <gradient, delta> + remainder, every term of the remainder "
    "containing (e'-e) with delta or (e'-e) twice (the exact form of 'second order'); NaN data contribute "
    "neither to misfit nor to the adjoint source; the GENERATED interp_edges_to_vol_averages is, for all "
    "shapes >= 1 and all arrays, GLOBALLY the exact transpose of the four-cell (clamped, factor 1/4) edge "
    "average: sum_cells AvT(e).c = sum_edges e.edge_avg(vol c), and that edge average is Me_x/Me_y/Me_z of "
    "Model/FIT.v (core.amat_x, C02) on every edge the kernel visits; anisotropy "
    "collection is the transpose of the aliasing for the four cases (shape 1/2/2/3); the mapped "
    "gradient is the sigma-gradient times d sigma/dm (derivative proved over R for the six maps).")
LEVEL_NOTE = (
    "Partial: the linear solves are hypotheses of the theorems (exact solutions) and oracles in the "
    "correspondence -- that emg3d's iterative solver returns them to tolerance is C01; that K0 is "
    "symmetric is C02; that <p_j, e> is the receiver response (linear interpolation, magnetic "
    "receivers through discretize) is C09 and is validated numerically here on every case. The glue "
    "(which arrays are multiplied, conj, weights, smu0 factors, collection order, chain factor, "
    "squeeze) is a hand model tied by correspondence at 1e-9 relative on real simulations; rounding "
    "is not modelled. Laplace domain: Simulation.gradient raises (recorded); the property "
    "quantifies over frequencies. The global transpose identity of the volume averaging is proved for "
    "the generated kernel (no gap left there); the instantiation of the abstract index-list section "
    "(Av_T over lists) with the Z-box sums of that identity is by inspection, not a Coq term.")
TECHNIQUE = ("Coq proof (abstract linear algebra with finite sums, ring/field; loop-invariant proof of a "
             "kernel translated from source) + differential correspondence with recorded solver oracles "
             "(vm_compute on exact rationals)")
DESIGN_REF = "DESIGN.md section 6 C07"
PROPS = 'Props/C07.v'
GEN = []


def gen_maps(ctx):
    mapsgen.generate(V.REPO, V.COQ)


PREBUILD = [adjgen.prebuild, gen_maps]
TRUSTED = [
    "py/vlib/adjgen.py desugars `nx, ny, nz = volumes.shape` into three assignments before the "
    "shared py2coq translation of interp_edges_to_vol_averages",
    "the recorder around emg3d._multiprocessing.solve (in-process, max_workers=1) shows the source "
    "fields and results of the linear solves; sampling rows p_j are the unit adjoint-source vectors "
    "built by emg3d/discretize (checked numerically: <p_j, e> = stored response)",
    "chain factors for the log maps are evaluated in floats from the same expression trees that "
    "Gen/MapsMap.v is printed from (exp/ln are not rational)",
]
ASSUMES = [
    "exact linear solves (theorem hypotheses); iterative-solver accuracy is C01",
    "frequency domain (conj smu0 = -smu0), real weights, mu_r = epsilon_r = 1 (the code refuses others)",
    "computational grid = model grid (gridding='same'), receiver_interpolation='linear'",
]


# ------------------------------------------------------------ correspondence
def run_case(spec):
    """Run the real simulation (fresh objects), record solves, build the Coq
    case text and the implementation's answers."""
    with H.Recorder() as rec, H.quiet():
        sim = H.new_sim(spec, solver=H.LOOSE)
        if spec.get('zero_datum') is not None:
            # control: one datum whose residual is EXACTLY zero (observed := synthetic);
            # it legitimately contributes nothing to misfit and adjoint source
            sim.compute()
            zi = tuple(spec['zero_datum'])
            syn0 = np.array(sim.data.synthetic.data)
            if np.isfinite(syn0[zi]):
                sim.survey.data['observed'].data[zi] = syn0[zi]
        misfit = float(sim.misfit)
        grad = np.array(sim.gradient)
    srcfreq = list(sim._srcfreq)
    nsf = len(srcfreq)
    fwd = rec.calls[:nsf]
    bwd = rec.calls[nsf:2 * nsf]
    assert len(rec.calls) == 2 * nsf and all('sfield' in c[0] for c in bwd)
    grid = sim.model.grid
    nx, ny, nz = grid.shape_cells
    data = sim.data
    syn = np.array(data.synthetic.data)
    obs = np.array(data.observed.data)
    wts = np.array(data.weights.data, dtype=float)
    res = syn - obs
    fin = np.isfinite(res) & np.isfinite(wts)
    L = [H.HEADER]
    # --- misfit over all data
    n = syn.size
    flat = lambda a: a.ravel()
    synl = [z if f else 7.0 for z, f in zip(flat(syn), flat(fin))]
    obsl = [z if f else -3.0 for z, f in zip(flat(obs), flat(fin))]
    wl = [z if f else 5.0 for z, f in zip(flat(wts), flat(fin))]
    L.append(f"Definition Dall := range {n}.")
    L.append(f"Definition syn := lk {H.klist(synl)}.")
    L.append(f"Definition obs := lk {H.klist(obsl)}.")
    L.append(f"Definition wts := lk {H.klist(wl)}.")
    L.append("Definition fin := lkb [" + '; '.join(V.coq_bool(b) for b in flat(fin)) + "].")
    L.append("Eval vm_compute in out_c (misfit_of cj Dall fin wts (fun j => (syn j - obs j)%F)).")
    # --- residual sources, one per source-frequency pair
    impl_rs = []
    hyp = []
    strengths = []
    names_s = list(sim.survey.sources.keys())
    names_r = list(sim.survey.receivers.keys())
    names_f = list(sim.survey.frequencies.keys())
    nrec = len(names_r)
    for k, (sn, fn) in enumerate(srcfreq):
        si, fi = names_s.index(sn), names_f.index(fn)
        rows = H.unit_rows(sim, sn, fn)
        efield = fwd[k][1][0]
        smu0 = complex(efield.smu0)
        # hypothesis validation: response = <p_j, e>
        for j in range(nrec):
            hyp.append((complex(syn[si, j, fi]), complex(np.sum(rows[j] * efield.field))))
        supp = np.zeros(rows[0].size, bool)
        for r_ in rows:
            supp |= (r_ != 0)
        idx = list(np.flatnonzero(supp))
        extra = [i for i in range(0, rows[0].size, max(1, rows[0].size // 7)) if not supp[i]]
        idx = idx + extra[:7]
        rr = [res[si, j, fi] if fin[si, j, fi] else 11.0 for j in range(nrec)]
        ww = [wts[si, j, fi] if fin[si, j, fi] else 13.0 for j in range(nrec)]
        L.append(f"Definition p_{k} := lkr [" + ';\n '.join(H.klist(r_[idx]) for r_ in rows) + "].")
        L.append(f"Definition r_{k} := lk {H.klist(rr)}.")
        L.append(f"Definition w_{k} := lk {H.klist(ww)}.")
        L.append(f"Definition f_{k} := lkb [" +
                 '; '.join(V.coq_bool(fin[si, j, fi]) for j in range(nrec)) + "].")
        L.append(f"Eval vm_compute in map (fun i => out_c (rsource cj (range {nrec}) {H.kq(smu0)} "
                 f"p_{k} f_{k} w_{k} r_{k} i)) (range {len(idx)}).")
        impl_rs.append(np.array(bwd[k][0]['sfield'].field)[idx])
        with np.errstate(invalid='ignore', divide='ignore'):
            st = np.abs(res[si, :, fi] * wts[si, :, fi] / smu0)
        strengths.extend(float(x) for x in st[fin[si, :, fi]])
    # --- gradient
    vol = grid.cell_volumes.reshape(grid.shape_cells, order='F')
    L.append(f"Definition vol := {H.karr3(vol)}.")
    sf_items = []
    for k in range(nsf):
        e = fwd[k][1][0]
        b = bwd[k][1][0]
        L.append(f"Definition e_{k} := {H.kfield3(e)}.")
        L.append(f"Definition b_{k} := {H.kfield3(b)}.")
        sf_items.append(f"({H.kq(complex(e.smu0))}, e_{k}, b_{k})")
    m = sim.model
    px = np.array(m.property_x)
    py = np.array(m.property_y) if m.property_y is not None else px
    pz = np.array(m.property_z) if m.property_z is not None else px
    for nm, parr in (('cx', px), ('cy', py), ('cz', pz)):
        L.append(f"Definition {nm} := {H.karr3(H.chain_model(spec['mapping'], parr))}.")
    L.append(f"Definition gres := gradient_pipeline cj {spec['aniso']} {nx} {ny} {nz} vol "
             f"[{'; '.join(sf_items)}] cx cy cz.")
    L.append(f"Eval vm_compute in map (dump3 out_c {nx} {ny} {nz}) gres.")
    L.append(f"Eval vm_compute in (length gres, ncomp {spec['aniso']}).")
    impl = dict(misfit=misfit, grad=grad, rs=impl_rs, hyp=hyp, shape=(nx, ny, nz),
                strengths=strengths)
    return '\n'.join(L) + '\n', impl


def compare(spec, impl, out, dis):
    ans = V.eval_answers(out)
    b = H.brief(spec)
    nsf = len(impl['rs'])
    if len(ans) != 3 + nsf:
        dis.append({'what': 'unexpected number of model answers', 'case': b, 'log': out[-800:]})
        return
    # misfit
    mv = H.parse_c(ans[0])[0]
    if not H.rel_close(impl['misfit'], mv.real, 0.0) or abs(mv.imag) > 0:
        dis.append({'what': 'Simulation.misfit differs from model misfit_of', 'case': b,
                    'impl': impl['misfit'], 'model': str(mv)})
    # residual sources
    for k in range(nsf):
        mod = H.parse_c(ans[1 + k])
        iv = impl['rs'][k]
        scale = float(np.max(np.abs(iv))) if len(iv) else 0.0
        bad = [i for i in range(len(iv)) if not H.rel_close(iv[i], mod[i], scale)]
        if len(mod) != len(iv) or bad:
            dis.append({'what': 'residual source (_get_rfield) differs from model rsource',
                        'case': b, 'srcfreq': k, 'index': bad[:3],
                        'impl': str(iv[bad[0]]) if bad else None,
                        'model': str(mod[bad[0]]) if bad else None})
            break
    # gradient
    nx, ny, nz = impl['shape']
    flatm = H.parse_c(ans[1 + nsf])
    ncomp = H.NCOMP[spec['aniso']]
    g = impl['grad']
    want_shape = (nx, ny, nz) if ncomp == 1 else (ncomp, nx, ny, nz)
    if tuple(g.shape) != want_shape:
        dis.append({'what': 'gradient shape does not follow the anisotropy case', 'case': b,
                    'impl': list(g.shape), 'model': list(want_shape)})
        return
    if not np.all(np.isfinite(g)):
        dis.append({'what': 'gradient has non-finite entries', 'case': b})
        return
    gm = np.array(flatm).reshape((ncomp, nx, ny, nz))
    gi = g.reshape((ncomp, nx, ny, nz))
    if np.max(np.abs(gm.imag)) > 0:
        dis.append({'what': 'model gradient not real', 'case': b})
    scale = float(np.max(np.abs(gi)))
    err = np.abs(gi - gm.real)
    if np.max(err) > 1e-9 * max(scale, 1e-300):
        k = np.unravel_index(int(np.argmax(err)), err.shape)
        dis.append({'what': 'Simulation.gradient differs from model gradient_pipeline', 'case': b,
                    'entry': [int(x) for x in k], 'impl': float(gi[k]), 'model': float(gm.real[k]),
                    'scale': scale})
    nums = [int(x) for x in __import__('re').findall(r'\d+', ans[2 + nsf])]
    if nums != [ncomp, ncomp]:
        dis.append({'what': 'model component count differs', 'case': b, 'model': nums})
    # hypothesis P: response = <p_j, e>
    for (d, pe) in impl['hyp']:
        if np.isfinite(d) and abs(d - pe) > 1e-9 * max(abs(d), 1e-300):
            dis.append({'what': 'hypothesis: receiver response is not <adjoint-source row, efield>',
                        'case': b, 'impl': str(d), 'model': str(pe)})
            break


def malformed_stream(ctx, dis, hist):
    """Inputs outside the property's domain: what the implementation does
    (recorded; compared with the guards the model states)."""
    import emg3d
    rng = ctx.rng
    spec = H.add_observed(H.gen_spec(rng, idx=0, n_src=1, n_rec=2, n_freq=1,
                                     mapping='Conductivity', aniso=0), rng)
    n = 0
    # (a) no noise settings -> ValueError from misfit
    s2 = dict(spec)
    with H.quiet():
        sim = H.new_sim(s2, solver=H.LOOSE)
        sim.survey.noise_floor = None
        sim.survey.relative_error = None
        try:
            _ = sim.misfit
            got = 'ok'
        except ValueError:
            got = 'ValueError'
    hist['malformed:no-std->' + got] = 1
    n += 1
    if got != 'ValueError':
        dis.append({'what': 'misfit without standard deviation did not raise ValueError', 'impl': got})
    # (b) mu_r /= 1 -> NotImplementedError
    with H.quiet():
        sim = H.new_sim(spec, solver=H.LOOSE)
        sim.model = emg3d.Model(sim.model.grid, property_x=sim.model.property_x,
                                mu_r=np.full(sim.model.shape, 1.5))
        try:
            _ = sim.gradient
            got = 'ok'
        except NotImplementedError:
            got = 'NotImplementedError'
    hist['malformed:mu_r->' + got] = 1
    n += 1
    if got != 'NotImplementedError':
        dis.append({'what': 'gradient with mu_r did not raise NotImplementedError', 'impl': got})
    # (c) Laplace domain: gradient raises (outside the quantifier) -- recorded only
    s3 = dict(spec)
    s3['freqs'] = [-1.0]
    s3['obs'] = None
    with H.quiet():
        try:
            s3 = H.add_observed(s3, rng)
            sim = H.new_sim(s3, solver=H.LOOSE)
            _ = sim.gradient
            got = 'ok'
        except Exception as e:        # noqa
            got = type(e).__name__
    hist['malformed:laplace->' + got] = 1
    ctx.notes.append(f"Laplace-domain Simulation.gradient: {got} (outside the quantifier; recorded)")
    n += 1
    # (d) cubic receiver interpolation warns
    import warnings
    with H.quiet(), warnings.catch_warnings(record=True) as wl:
        warnings.simplefilter('always')
        sim = H.new_sim(spec, solver=H.LOOSE)
        sim.receiver_interpolation = 'cubic'
        _ = sim.gradient
        got = 'warn' if any('cubic' in str(w.message) for w in wl) else 'silent'
    hist['malformed:cubic->' + got] = 1
    n += 1
    if got != 'warn':
        dis.append({'what': 'gradient with cubic receiver interpolation did not warn', 'impl': got})
    return n


def correspondence(ctx):
    rng = ctx.rng
    n = 30 if ctx.thorough else 12
    off = rng.randrange(24)
    classes = list(H.SCALE_CLASSES)
    specs = []
    for i in range(n):
        sp = H.gen_spec(rng, idx=off + i, big=(ctx.thorough and i % 6 == 5),
                        max_pairs=4 if ctx.thorough else 2)
        if i % 2 == 1:                      # every second case: a data / weight SCALE class
            H.apply_scale_class(sp, classes[(off + i // 2) % len(classes)])
        sp = H.add_observed(sp, rng)
        if i % 4 == 0:                      # control: one exactly-zero residual
            sp['zero_datum'] = [0, 0, 0]
        specs.append(sp)
    texts, impls = [], []
    for i, sp in enumerate(specs):
        t, im = run_case(sp)
        texts.append((f"c07_t_{i}", t))
        impls.append(im)
    res = V.coq_eval_many(texts, timeout=1200)
    dis, seen, hist = [], set(), {}
    for i, sp in enumerate(specs):
        rc, out = res[f"c07_t_{i}"]
        if rc != 0:
            dis.append({'what': 'model does not evaluate', 'case': H.brief(sp), 'log': out[-1500:]})
            continue
        compare(sp, impls[i], out, dis)
        b = H.brief(sp)
        key = (b['mapping'], b['aniso'], b['noise'], b['scale'], b['nan'] > 0,
               any(r.startswith('m') for r in b['receivers']),
               any(r.endswith('rel') for r in b['receivers']), tuple(b['sources']))
        if key[0] != 'Conductivity' or key[1] != 'isotropic' or key[4] or key[5] or key[6] \
                or key[3] != 'default':
            seen.add(key)
        for x_ in impls[i]['strengths']:
            dk = 'adjoint-strength decade:' + ('0' if x_ == 0 else '1e%+03d' % int(np.floor(np.log10(x_))))
            hist[dk] = hist.get(dk, 0) + 1
        for k_ in ('map:' + b['mapping'], 'aniso:' + b['aniso'], 'noise:' + b['noise'],
                   'scale:' + b['scale'], 'zero-residual control:' + str(sp.get('zero_datum') is not None),
                   'nan:' + str(b['nan'] > 0), 'shape:' + 'x'.join(map(str, b['shape']))):
            hist[k_] = hist.get(k_, 0) + 1
        for s_ in b['sources']:
            hist['src:' + s_] = hist.get('src:' + s_, 0) + 1
        for r_ in b['receivers']:
            hist['rec:' + r_] = hist.get('rec:' + r_, 0) + 1
    nm = malformed_stream(ctx, dis, hist)
    return {
        'evaluations': len(specs) + nm,
        'distinct_nontrivial': len(seen),
        'rule': "cases: random stretched grid 4..5^3 (thorough: up to 6^3), map = idx mod 6, anisotropy "
                "= (idx/2) mod 4, 1-2 sources of six kinds, 2-4 electric/magnetic absolute/relative "
                "receivers, 1-2 frequencies, observed = distorted synthetic of a perturbed model with "
                "NaN gaps, six noise modes; every second case in one of the SCALE classes (std = ones, std = 2^20, "
                "std spanning 2^-30..2^30 within one survey, source strengths x 2^-20 / 2^-17 / 2^20) so that "
                "the adjoint-source strengths span many decades incl. << 1e-8 (measured decades in the "
                "histogram), every fourth case with one EXACTLY zero residual (control); each case: misfit_of, rsource (per source-frequency), "
                "gradient_pipeline evaluated in Coq on the recorded oracle fields vs the real "
                "Simulation. distinct = distinct (map, case, noise, NaN, magnetic rx, relative rx, "
                "sources); non-trivial = not (Conductivity, isotropic, no NaN, electric absolute rx). "
                "malformed stream: no std, mu_r, Laplace, cubic",
        'samples': [H.brief(s) for s in specs[:4]],
        'traces_validated_against_impl': len(specs),
        'histogram': hist,
        'disagreements': dis,
    }


# ------------------------------------------------------------------ searcher
def perturbed(spec, direction, h):
    return [list(np.asarray(p) + h * np.asarray(d)) for p, d in zip(spec['props'], direction)]


def misfit_of_props(spec, props):
    with H.quiet():
        sim = H.new_sim(spec, props=props, solver=H.TIGHT)
        return float(sim.misfit)


def taylor_case(spec, dir_seed, h0=None):
    """Taylor remainder test of Simulation.gradient against fresh simulations.
    Returns (hit or None, diagnostics)."""
    npr = np.random.RandomState(dir_seed)
    direction = [npr.standard_normal(len(p)) for p in spec['props']]
    with H.quiet():
        sim = H.new_sim(spec, solver=H.TIGHT)
        phi0 = float(sim.misfit)
        g = np.array(sim.gradient)
    # the oracle must be good: skip (do not alarm) when a tight solve did not converge
    for dn in ('_dict_efield_info', '_dict_bfield_info'):
        for dd in getattr(sim, dn, {}).values():
            for info in dd.values():
                if info is not None and info.get('exit', 0) != 0 and info.get('rel_error', 1) > 1e-9:
                    return None, {'skipped': 'solver did not converge', 'slopes': [], 'ratio_err': float('nan')}
    ncomp = H.NCOMP[spec['aniso']]
    nx, ny, nz = len(spec['hx']), len(spec['hy']), len(spec['hz'])
    want_shape = (nx, ny, nz) if ncomp == 1 else (ncomp, nx, ny, nz)
    if tuple(g.shape) != want_shape or not np.all(np.isfinite(g)):
        return ({'signature': 'gradient shape/finite', 'shape': list(g.shape),
                 'required': list(want_shape)}, {})
    gd = 0.0
    for c in range(ncomp):
        gc = g if ncomp == 1 else g[c]
        gd += float(np.sum(gc.ravel(order='F') * direction[c]))
    scale = max(abs(np.asarray(p)).max() for p in spec['props'])
    h0 = h0 or (0.02 * max(scale, 1.0) if spec['mapping'] in ('Conductivity', 'Resistivity')
                else 0.02)
    rem, cen = [], []
    for h in (h0, h0 / 2, h0 / 4):
        pp = misfit_of_props(spec, perturbed(spec, direction, h))
        pm = misfit_of_props(spec, perturbed(spec, direction, -h))
        rem.append(abs(pp - phi0 - h * gd))
        cen.append((pp - pm) / (2 * h))
    diag = {'phi0': phi0, 'gd': gd, 'rem': rem, 'central': cen}
    # slope of the first-order Taylor remainder and agreement of the central difference
    floor = 1e-9 * abs(phi0)
    slopes = [np.log2(rem[i] / rem[i + 1]) for i in range(2)
              if rem[i] > 100 * floor and rem[i + 1] > 100 * floor]
    ratio_err = abs(cen[2] - gd) / max(abs(gd), 1e-300)
    ratio_err0 = abs(cen[0] - gd) / max(abs(gd), 1e-300)
    bad = (any(s < 1.8 for s in slopes) and ratio_err > 1e-3) or \
          (ratio_err > 0.05 and ratio_err > 0.3 * ratio_err0)     # gross and not converging
    diag.update(slopes=slopes, ratio_err=ratio_err)
    if bad:
        return ({'signature': 'misfit finite differences do not converge (2nd order) to <gradient, dir>',
                 'spec': spec, 'dir_seed': int(dir_seed), 'h0': h0,
                 'observed': {'<gradient,dir>': gd, 'central_differences': cen,
                              'taylor_remainders': rem, 'slopes': slopes},
                 'required': 'remainder slope >= 1.8 and central difference -> <gradient,dir>'},
                diag)
    return None, diag


def search(ctx, broken):
    rng = ctx.rng
    n = 10 if ctx.thorough else 6
    hits = []
    off = rng.randrange(24)
    for i in range(n):
        sp0 = H.gen_spec(rng, idx=off + 5 * i + i // 6, big=False)
        if i % 2 == 0:
            H.apply_scale_class(sp0, list(H.SCALE_CLASSES)[(off + i // 2) % len(H.SCALE_CLASSES)])
        spec = H.add_observed(sp0, rng)
        dseed = rng.randrange(2**31)
        hit, diag = taylor_case(spec, dseed)
        if diag.get('skipped'):
            # emg3d's multigrid stagnates on some adjoint sources of MAGNETIC receivers on
            # these tiny grids (oracle quality, C01): retry the same problem with electric
            # receivers only, so that every scale class is really tested
            for r_ in sp0['receivers']:
                r_['kind'] = 'e'
            sp0['obs'] = None
            spec = H.add_observed(sp0, rng)
            hit, diag = taylor_case(spec, dseed)
            diag['retried_electric_only'] = True
        ctx.notes.append(f"taylor {H.brief(spec)['mapping']}/{H.brief(spec)['aniso']}/"
                         f"{H.brief(spec)['scale']}: "
                         f"slopes={['%.2f' % s for s in diag.get('slopes', [])]} "
                         f"relerr={diag.get('ratio_err', float('nan')):.2e}"
                         + (' (electric receivers only)' if diag.get('retried_electric_only') else '')
                         + (' SKIPPED: ' + diag['skipped'] if diag.get('skipped') else ''))
        if hit:
            hits.append(hit)
            break
    return hits


def replay(ctx, payload):
    fi = payload.get('failing_input')
    if not fi or 'spec' not in fi:
        return False
    hit, _ = taylor_case(fi['spec'], fi['dir_seed'], fi.get('h0'))
    return hit is None
