"""C01 -- reported solver success certifies the returned field.

Theorems: coq/Props/C01.v about Model/SolveCtl.v (hand model of the bookkeeping of
solve / multigrid's outer loop / krylov), which calls the decision logic of
Gen/SolveCtl.v, regenerated from emg3d/solver.py on every run by
py2coq/terminate_gen.py (fail closed).

Tie of the hand model: emg3d.solve is run on tiny problems over the configuration
product; the residual norms the solver computes and the Krylov event trace
(callbacks, preconditioner runs, scipy's return value) are recorded by wrapping
emg3d.solver.residual / multigrid / MGParameters and the scipy solver function from
the harness (no hooks in emg3d) and fed to the Coq model as its oracle; exit status,
message, counters, which object carries the result and abs_error are compared.
Independently, the residual of the field the caller holds is recomputed with the
checker-side FIT operator of c02 (no emg3d.core), and PEC / dtype are checked.
"""
import fractions
import math
import re

import numpy as np

from vlib import core as V
from vlib import kernels as K
from py2coq import terminate_gen
from props.c02 import fit_apply

ID = 'C01'
LEVEL_TEXT = (
    "Theorems (Props/C01.v), for ALL oracles (residual norms, multigrid cycles, Krylov event traces), "
    "configurations and initial fields: exit status 0 implies that every field the caller ends up holding "
    "(returned, or the supplied object updated in place) has residual norm < tol*|source| as the code "
    "compares it (multigrid / already-good-enough branches, unconditional), or is the zero field for a "
    "zero source, or (Krylov branch) satisfies <= under the single contract that scipy returns code 0 only "
    "with |b-Ax| <= tol*|b|; info.abs_error is the residual norm of that very field (0 for a zero source); "
    "PEC is preserved; the dtype tag follows the source and a mismatching supplied field is rejected; "
    "exit status is 0 or 1, 1 comes with a non-empty non-CONVERGED message, a field that misses the "
    "tolerance is reported as failure; the multigrid outer loop ends within maxit cycles. The decision "
    "logic (_terminate chain, exit-status expression, shortcut tests, Krylov exit-code mapping, what the "
    "zero-source branch and krylov() do with efield / var.l2) is regenerated from solver.py on every run.")
LEVEL_NOTE = (
    "Trusted: Coq kernel; the ast extraction (py2coq/terminate_gen.py, fail closed); Model/SolveCtl.v is a "
    "hand model of the glue of solve()/multigrid()/krylov(), tied to the code by trace correspondence "
    "(wrapping emg3d.solver.residual/multigrid/MGParameters and the scipy solver). Oracle contracts: "
    "krylov_contract (a `Return x 0` event implies resnorm x <= tol*|source|; scipy's documented criterion, "
    "monitored by the independent residual with slack), krylov_pec (returned iterates are PEC), "
    "pec idempotent / pec zero = zero / multigrid cycles preserve PEC (monitored on every run). NOT proved: "
    "that multigrid or scipy reach the tolerance (convergence), rounding inside the norm.")
TECHNIQUE = ("Coq proof (induction over the outer loop / event trace, case analysis of the regenerated "
             "decision chain) + trace correspondence (vm_compute) + independent residual")
PROPS = 'Props/C01.v'
GEN = []
TRUSTED = ["hand model of solve()/multigrid() outer loop/krylov() bookkeeping (Model/SolveCtl.v), "
           "validated by trace correspondence",
           "scipy Krylov solvers: contract krylov_contract (return code 0 only with |b-Ax| <= tol*|b|)"]
ASSUMES = ["the wrappers installed by the harness observe the solver's residual norms and scipy's events",
           "maxit >= 1 for termination of the multigrid outer loop"]


def gen_solvectl(ctx):
    terminate_gen.generate()


PREBUILD = [gen_solvectl]

TINY100 = 100 * np.finfo(float).tiny
SOLVERS = ['bicgstab', 'cgs', 'gcrotmk']
MODES = ['fresh', 'good', 'good_nonpec', 'bad', 'wrongdtype', 'zero_fresh', 'zero_supplied', 'nofreq',
         'nan_source', 'tiny_source']
FACES = ['x0', 'x1', 'y0', 'y1', 'z0', 'z1']


# ------------------------------------------------------------------ problems
def rand_spec(rng, big=False):
    shape = [rng.choice([2, 2, 3, 4, 4, 5, 6] if not big else [4, 6, 8]) for _ in range(3)]
    stretched = rng.random() < 0.6
    hs = [[(K.dy_pos(rng) if stretched else 1.0) for _ in range(n)] for n in shape]
    lap = rng.random() < 0.35
    return dict(shape=shape, hx=hs[0], hy=hs[1], hz=hs[2], aniso=rng.randint(0, 3),
                has_mu=rng.random() < 0.25, has_eps=rng.random() < 0.25,
                freq=(-K.dy_pos(rng) if lap else K.dy_pos(rng)),
                np_seed=rng.randint(0, 2**31 - 1), src_exp=rng.choice([0, 0, 0, -3, -8, 4]))


def rand_cfg(rng):
    ssl = rng.choice([False, False, 'bicgstab', 'cgs', 'gcrotmk', True])
    cycle = rng.choice(['F', 'V', 'W', None]) if ssl else rng.choice(['F', 'V', 'W'])
    if rng.random() < 0.03:
        ssl, cycle = False, None            # invalid combination -> ValueError
    return dict(sslsolver=ssl, cycle=cycle,
                semicoarsening=rng.choice([False, False, 1, 2, 3, True, 12, 1213]),
                linerelaxation=rng.choice([False, False, 1, 4, 7, True, 56, 147]),
                nu_init=rng.choice([0, 0, 1]), nu_pre=rng.choice([0, 1, 2]), nu_coarse=rng.choice([1, 2]),
                nu_post=rng.choice([1, 2]), clevel=rng.choice([-1, -1, 0, 1]),
                tol=rng.choice([1e-2, 1e-3, 1e-4, 1e-6, 1e-8]), maxit=rng.choice([1, 2, 3, 50, 50]),
                return_info=rng.random() < 0.7, always_return=rng.random() < 0.3)


def build(spec):
    """-> grid, model, source field, independent (eta, zeta) of the checker."""
    import emg3d
    import scipy.constants as sc
    shape = tuple(spec['shape'])
    hs = [np.array(spec[k], float) * spec.get('h_scale', 1.0) for k in ('hx', 'hy', 'hz')]
    grid = emg3d.TensorMesh(hs, (0, 0, 0))
    npr = np.random.RandomState(spec['np_seed'])
    cscale = 10.0 ** spec.get('cond_exp', 0)       # conductivity regime (S/m)

    def prop():
        return cscale * npr.randint(1, 33, shape) / 8.0
    cx = prop()
    cy = prop() if spec['aniso'] in (1, 3) else None
    cz = prop() if spec['aniso'] in (2, 3) else None
    mu = 1.0 + npr.randint(0, 9, shape) / 8.0 if spec['has_mu'] else None
    ep = 1.0 + npr.randint(0, 9, shape) / 2.0 if spec['has_eps'] else None
    kw = dict(property_x=cx, mapping='Conductivity')
    if cy is not None:
        kw['property_y'] = cy
    if cz is not None:
        kw['property_z'] = cz
    if mu is not None:
        kw['mu_r'] = mu
    if ep is not None:
        kw['epsilon_r'] = ep
    model = emg3d.Model(grid, **kw)
    freq = spec['freq']
    cplx = freq > 0
    # source on non-boundary-tangential edges
    fs = []
    for s in K.field_shapes(shape):
        a = npr.randint(-16, 17, s) / 8.0
        if cplx:
            a = a + 1j * npr.randint(-16, 17, s) / 8.0
        fs.append(a)
    K.apply_pec(fs)
    # sparse-ish source: keep about a third of the entries
    for a in fs:
        a *= (npr.uniform(0, 1, a.shape) < 0.35)
    data = np.r_[fs[0].ravel('F'), fs[1].ravel('F'), fs[2].ravel('F')] * 10.0 ** spec.get('src_exp', 0)
    if not np.any(data):
        ones = K.apply_pec([np.ones(s) for s in K.field_shapes(shape)])
        mask = np.r_[ones[0].ravel('F'), ones[1].ravel('F'), ones[2].ravel('F')]
        data[np.flatnonzero(mask)[:1]] = 10.0 ** spec.get('src_exp', 0)
    sfield = emg3d.Field(grid, data.astype(complex if cplx else float), frequency=freq)
    return grid, model, sfield, indep_coeffs(model, hs, freq)


def indep_coeffs(model, hs, freq):
    """Checker-side (eta_x, eta_y, eta_z), zeta from the Model's CURRENT property arrays (read through
    the public getters at the time of the call -- not from emg3d's VolumeModel, and not from the arrays
    the model was built from: the model may have been edited in place since)."""
    import scipy.constants as sc
    if model.map.name != 'Conductivity':
        raise ValueError('checker-side coefficients expect a conductivity model')
    sval = 2j * np.pi * freq if freq > 0 else -freq
    smu0 = sval * sc.mu_0
    vol = np.multiply.outer(np.multiply.outer(hs[0], hs[1]), hs[2])
    ep = None if model.epsilon_r is None else np.array(model.epsilon_r, float)
    mu = None if model.mu_r is None else np.array(model.mu_r, float)

    def eta(c):
        c = np.array(c, float)
        return -smu0 * vol * (c + sval * sc.epsilon_0 * ep) if ep is not None else -smu0 * vol * c
    etx = eta(model.property_x)
    ety = eta(model.property_y) if model.property_y is not None else etx
    etz = eta(model.property_z) if model.property_z is not None else etx
    zeta = vol / mu if mu is not None else vol
    return ((etx, ety, etz), zeta, hs)


def inplace_edit(model, ed):
    """Edit the model IN PLACE through the array returned by a property getter (no setter involved)."""
    arr = getattr(model, ed['prop'])
    sl = tuple(slice(a, b) for a, b in ed['box'])
    if ed.get('factor') is not None:
        arr[sl] *= ed['factor']
    else:
        arr[sl] = ed['value']


def default_box(shape):
    return [[n // 4, max(n // 4 + 1, (3 * n + 3) // 4)] for n in shape]


def indep_resnorm(ind, sfield, efield):
    """|s - A e| with the checker-side FIT operator (no emg3d.core)."""
    eta, zeta, hs = ind
    e = (np.asarray(efield.fx), np.asarray(efield.fy), np.asarray(efield.fz))
    a = fit_apply(e, eta, zeta, *hs)
    r = [np.asarray(sfield.fx) - a[0], np.asarray(sfield.fy) - a[1], np.asarray(sfield.fz) - a[2]]
    import scipy.linalg
    return float(scipy.linalg.norm(np.concatenate([x.ravel() for x in r]), check_finite=False))


def cancel_scale(ind, sfield, efield):
    """Magnitude of the terms that cancel in s - A e: | |s| + |A| |e| | with the operator's stencil
    applied to absolute values with all signs positive (checker-side, same structure as fit_apply).
    The rounding error of ANY floating-point evaluation of the residual (emg3d's or the checker's) is a
    small multiple of eps times this; on stretched grids it exceeds |s| by many orders of magnitude."""
    eta, zeta, (hx, hy, hz) = ind
    ex, ey, ez = (np.abs(np.asarray(a)) for a in (efield.fx, efield.fy, efield.fz))
    HX, HY, HZ = hx[:, None, None], hy[None, :, None], hz[None, None, :]
    cx = (ez[:, 1:, :] + ez[:, :-1, :]) / HY + (ey[:, :, 1:] + ey[:, :, :-1]) / HZ
    cy = (ex[:, :, 1:] + ex[:, :, :-1]) / HZ + (ez[1:, :, :] + ez[:-1, :, :]) / HX
    cz = (ey[1:, :, :] + ey[:-1, :, :]) / HX + (ex[:, 1:, :] + ex[:, :-1, :]) / HY
    zp = np.pad(np.abs(zeta), 1, mode='edge')
    ux = 0.5 * (zp[:-1, 1:-1, 1:-1] + zp[1:, 1:-1, 1:-1]) * cx
    uy = 0.5 * (zp[1:-1, :-1, 1:-1] + zp[1:-1, 1:, 1:-1]) * cy
    uz = 0.5 * (zp[1:-1, 1:-1, :-1] + zp[1:-1, 1:-1, 1:]) * cz
    hyj, hym = hy[None, 1:, None], hy[None, :-1, None]
    hzk, hzm = hz[None, None, 1:], hz[None, None, :-1]
    hxi, hxm = hx[1:, None, None], hx[:-1, None, None]
    ax, ay, az = np.zeros_like(ex), np.zeros_like(ey), np.zeros_like(ez)
    ax[:, 1:-1, 1:-1] = (uz[:, 1:, 1:-1] / hyj + uz[:, :-1, 1:-1] / hym
                         + uy[:, 1:-1, 1:] / hzk + uy[:, 1:-1, :-1] / hzm)
    ay[1:-1, :, 1:-1] = (ux[1:-1, :, 1:] / hzk + ux[1:-1, :, :-1] / hzm
                         + uz[1:, :, 1:-1] / hxi + uz[:-1, :, 1:-1] / hxm)
    az[1:-1, 1:-1, :] = (uy[1:, 1:-1, :] / hxi + uy[:-1, 1:-1, :] / hxm
                         + ux[1:-1, 1:, :] / hyj + ux[1:-1, :-1, :] / hym)
    etx, ety, etz = (np.abs(a) for a in eta)
    ax[:, 1:-1, 1:-1] += 0.25 * (etx[:, :-1, :-1] + etx[:, :-1, 1:] + etx[:, 1:, :-1] + etx[:, 1:, 1:]) * ex[:, 1:-1, 1:-1]
    ay[1:-1, :, 1:-1] += 0.25 * (ety[:-1, :, :-1] + ety[1:, :, :-1] + ety[:-1, :, 1:] + ety[1:, :, 1:]) * ey[1:-1, :, 1:-1]
    az[1:-1, 1:-1, :] += 0.25 * (etz[:-1, :-1, :] + etz[1:, :-1, :] + etz[:-1, 1:, :] + etz[1:, 1:, :]) * ez[1:-1, 1:-1, :]
    import scipy.linalg
    parts = [ax + np.abs(np.asarray(sfield.fx)), ay + np.abs(np.asarray(sfield.fy)), az + np.abs(np.asarray(sfield.fz))]
    return float(scipy.linalg.norm(np.concatenate([x.ravel() for x in parts]), check_finite=False))


NOISE_EPS = 32 * np.finfo(float).eps      # measured worst |abs_error - indep|/(eps*cancel_scale) = 0.124 over 786 runs; x258


def pec_ok(f):
    return not (np.any(f.fx[:, 0, :]) or np.any(f.fx[:, -1, :]) or np.any(f.fx[:, :, 0]) or np.any(f.fx[:, :, -1])
                or np.any(f.fy[0, :, :]) or np.any(f.fy[-1, :, :]) or np.any(f.fy[:, :, 0]) or np.any(f.fy[:, :, -1])
                or np.any(f.fz[0, :, :]) or np.any(f.fz[-1, :, :]) or np.any(f.fz[:, 0, :]) or np.any(f.fz[:, -1, :]))


def nonpec_good_field(spec, cfg, grid, model, sfield, ind):
    """A caller-supplied field e = e0 + g that satisfies the interior equations for `sfield` to far
    better than tol but has NON-ZERO tangential values on one boundary face: g lives only on that
    face (tangential components), e0 is emg3d's own PEC solution for the source s - A g, with A applied
    by the checker-side operator.  emg3d's residual treats boundary values as stencil data only, so
    only the order 'PEC zeroing, then already-good-enough test' protects the property."""
    import emg3d
    npc = spec.get('nonpec') or {'face': 'z1', 'which': 'both'}
    face, which = npc['face'], npc.get('which', 'both')
    cplx = spec['freq'] > 0
    kw = dict(sslsolver=False, semicoarsening=True, linerelaxation=True, maxit=200, verb=-1)
    eref = emg3d.solve(model, sfield, tol=1e-6, **kw)
    amp = float(np.max(np.abs(eref.field))) or 1.0
    g = emg3d.Field(grid, frequency=spec['freq'])
    npr = np.random.RandomState(spec['np_seed'] + 7)
    ax, k = 'xyz'.index(face[0]), (0 if face[1] == '0' else -1)
    comps = [c for c in range(3) if c != ax]          # tangential components of that face
    if which == 'first':
        comps = comps[:1]
    elif which == 'second':
        comps = comps[1:]
    for c in comps:
        arr = (g.fx, g.fy, g.fz)[c]
        idx = [slice(None)] * 3
        idx[ax] = k
        shp = arr[tuple(idx)].shape
        val = npr.randint(1, 9, shp) / 8.0
        if cplx:
            val = val + 1j * npr.randint(-8, 9, shp) / 8.0
        arr[tuple(idx)] = amp * val / 8.0
    eta, zeta, hs = ind
    ag = fit_apply((np.asarray(g.fx), np.asarray(g.fy), np.asarray(g.fz)), eta, zeta, *hs)
    s2 = emg3d.Field(grid, frequency=spec['freq'])
    s2.fx, s2.fy, s2.fz = sfield.fx - ag[0], sfield.fy - ag[1], sfield.fz - ag[2]
    e0 = emg3d.solve(model, s2, tol=min(cfg['tol'] * 1e-4, 1e-9), **kw)
    return emg3d.Field(grid, (e0.field + g.field).astype(sfield.field.dtype), frequency=spec['freq'])


# --------------------------------------------------------------- impl runner
class Run:
    pass


def run_impl(spec, cfg, mode, stub=None):
    """Run emg3d.solve with wrappers; returns a Run with everything observed.
    `stub`: optional replacement of the scipy solver (a function (A,b,x0,M,callback)->(x,code)),
    used to replay model witnesses with a prescribed Krylov event trace."""
    import emg3d
    import emg3d.solver as S
    import scipy.sparse.linalg as ssl
    if mode == 'good_nonpec' and not spec.get('nonpec'):
        spec = dict(spec, nonpec={'face': 'z1', 'which': 'both'})     # explicit in replay files
    grid, model, sfield, ind = build(spec)
    cplx = spec['freq'] > 0
    R = Run()
    R.spec, R.cfg, R.mode, R.ind, R.grid = spec, cfg, mode, ind, grid
    npr = np.random.RandomState(spec['np_seed'] + 1)
    supplied = None
    if mode in ('zero_fresh', 'zero_supplied'):
        sfield = emg3d.Field(grid, np.zeros(sfield.field.size, sfield.field.dtype), frequency=spec['freq'])
    if mode == 'tiny_source':
        sfield.field *= 1e-300
        sfield.field *= 1e-10
    if mode == 'nan_source':
        sfield.field[np.flatnonzero(sfield.field)[:1]] = np.nan
    if mode == 'nofreq':
        sfield = emg3d.Field(grid, sfield.field.copy())
    rs = spec.get('resolve')
    prev = None
    if rs:
        # history on ONE Model object: solve, edit the model in place through a getter view, then the
        # observed solve (same frequency) follows.  The checker's coefficients are rebuilt afterwards.
        pre_kw = dict(sslsolver=False, semicoarsening=True, linerelaxation=True, tol=1e-7, maxit=100, verb=-1)
        if rs.get('pre_ssl'):
            pre_kw['sslsolver'] = rs['pre_ssl']
        if mode not in ('nofreq',):
            with np.errstate(all='ignore'):
                prev = emg3d.solve(model, emg3d.Field(grid, sfield.field.copy(), frequency=spec['freq']), **pre_kw)
        inplace_edit(model, rs)
        ind = indep_coeffs(model, ind[2], spec['freq'])
        R.ind = ind
    if mode == 'refine':
        # refinement: a default-tolerance solve (tol0 = 1e-6, emg3d's default configuration) whose result
        # is handed back as the starting field of the observed solve with another tol
        rf = spec.get('refine') or {}
        with np.errstate(all='ignore'):
            supplied = emg3d.solve(model, sfield, tol=rf.get('tol0', 1e-6), verb=-1, **rf.get('cfg0', {}))
    if mode == 'prev':
        supplied = emg3d.Field(grid, prev.field.copy(), frequency=spec['freq'])
    if mode == 'good_nonpec':
        supplied = nonpec_good_field(spec, cfg, grid, model, sfield, ind)
    if mode in ('good', 'bad', 'wrongdtype', 'zero_supplied'):
        if mode == 'good':
            g = emg3d.solve(model, sfield, sslsolver=False, semicoarsening=True, linerelaxation=True,
                            tol=min(cfg['tol'] * 1e-2, 1e-6), maxit=100, verb=-1)
            supplied = emg3d.Field(grid, g.field.copy(), frequency=spec['freq'])
        else:
            dt = complex if (cplx != (mode == 'wrongdtype')) else float
            sh = sfield.field.size
            d = npr.randint(-8, 9, sh) / 4.0
            if dt is complex:
                d = d + 1j * npr.randint(-8, 9, sh) / 4.0
            if mode == 'bad':
                # a starting field far worse than the zero field (e.g. left over from a much stronger
                # source current): its residual exceeds |source| by the factor bad_scale
                d = d * float(spec.get('bad_scale', 1.0))
            if mode == 'wrongdtype':
                supplied = emg3d.Field(grid, d.astype(dt))      # no frequency: dtype from data
            else:
                supplied = emg3d.Field(grid, d.astype(dt), frequency=spec['freq'])
    R.sfield, R.supplied = sfield, supplied
    R.supplied_raw = supplied.field.copy() if supplied is not None else None
    import scipy.linalg
    with np.errstate(all='ignore'):
        R.src_norm = float(scipy.linalg.norm(sfield.field, check_finite=False))

    stack, events, mgcalls, solve_res, vars_ = [], [], [], [], []
    state = {'in_cb': False, 'cb_norm': None, 'in_scipy': False}
    o_res, o_mg, o_par = S.residual, S.multigrid, S.MGParameters
    names = SOLVERS
    o_ssl = {n: getattr(ssl, n) for n in names}

    def res(model_, sfield_, efield_, norm=False):
        r = o_res(model_, sfield_, efield_, norm)
        if norm:
            if state['in_cb']:
                state['cb_norm'] = float(r)
            elif not stack:
                solve_res.append(float(r))
            elif stack[-1][0] == 0:
                rec = stack[-1][1]
                if rec['n0'] is None:
                    rec['n0'] = float(r)
                else:
                    rec['ns'].append(float(r))
        return r

    def mg(model_, sfield_, efield_, var, **kw):
        lvl = kw.get('level', 0)
        rec = {'n0': None, 'ns': [], 'raised': False, 'l2_at_raise': float('nan')} if lvl == 0 else None
        stack.append((lvl, rec))
        try:
            return o_mg(model_, sfield_, efield_, var, **kw)
        except BaseException:
            if rec is not None:
                rec['raised'] = True
                rec['l2_at_raise'] = float(var.l2)
            raise
        finally:
            stack.pop()
            if lvl == 0:
                mgcalls.append(rec)
                if state['in_scipy']:
                    events.append(('P', rec['n0'], list(rec['ns']), rec['raised'], rec['l2_at_raise']))

    def par(*a, **k):
        v = o_par(*a, **k)
        vars_.append(v)
        return v

    def mk(name):
        def f(*a, **k):
            cb = k.get('callback')

            def cb2(x):
                state['in_cb'] = True
                try:
                    cb(x)
                finally:
                    state['in_cb'] = False
                events.append(('C', np.array(x, copy=True), state['cb_norm']))
            k2 = dict(k, callback=cb2)
            state['in_scipy'] = True
            try:
                if stub is not None:
                    x, i = stub(k2['A'], k2['b'], k2.get('x0'), k2.get('M'), cb2)
                else:
                    x, i = o_ssl[name](*a, **k2)
            except S._ConvergenceError:
                raise
            except Exception:
                state['scipy_raised'] = True      # third-party error (e.g. gcrotmk on a NaN right-hand side)
                raise
            finally:
                state['in_scipy'] = False
            events.append(('R', np.array(x, copy=True), int(i)))
            return x, i
        return f

    S.residual, S.multigrid, S.MGParameters = res, mg, par
    for n in names:
        setattr(ssl, n, mk(n))
    kw = {k: cfg[k] for k in ('sslsolver', 'cycle', 'semicoarsening', 'linerelaxation', 'nu_init', 'nu_pre',
                              'nu_coarse', 'nu_post', 'clevel', 'tol', 'maxit', 'return_info')}
    if supplied is not None:
        kw['efield'] = supplied
        if cfg['always_return']:
            kw['always_return'] = True
    R.error, R.ret = None, None
    try:
        with np.errstate(all='ignore'):
            R.ret = emg3d.solve(model, sfield, verb=-1, **kw)
    except ValueError as e:
        m = str(e)
        R.error = 'ScipyRaised' if state.get('scipy_raised') else ('ErrFreq' if 'missing frequency' in m else 'ErrDtype' if 'same dtype' in m
                   else 'ErrConfig' if ('At least' in m and 'is required' in m) else 'ValueError:' + m[:60])
    finally:
        S.residual, S.multigrid, S.MGParameters = o_res, o_mg, o_par
        for n in names:
            setattr(ssl, n, o_ssl[n])
    R.var = vars_[0] if vars_ else None
    R.events, R.mgcalls, R.solve_res = events, mgcalls, solve_res
    R.model, R.o_res = model, o_res
    # unpack the return value
    R.ret_field, R.info = None, None
    if R.error is None:
        r = R.ret
        if isinstance(r, tuple):
            R.ret_field, R.info = r
        elif isinstance(r, dict):
            R.info = r
        elif r is not None:
            R.ret_field = r
    return R


# ------------------------------------------------------------------ Coq side
def xlit(x):
    x = float(x)
    if math.isnan(x):
        return 'XNaN'
    if math.isinf(x):
        return f"(XInf {'true' if x < 0 else 'false'})"
    f = fractions.Fraction(x)
    return f"(XF (({f.numerator}) # {f.denominator}))"


COQ_HEADER = K.CASE_HEADER + """From Coq Require Import String Bool.
From V Require Import Gen.SolveCtl Model.SolveCtl.
Definition ox (x : xnum) : list Z :=
  match x with
  | XF q => [0; Qnum (Qred q); Zpos (Qden (Qred q))]
  | XInf false => [1; 0; 1] | XInf true => [2; 0; 1] | XNaN => [3; 0; 1] end.
Definition oo (o : option Z) : Z := match o with Some x => x | None => -7 end.
Definition ob (b : bool) : Z := if b then 1 else 0.
Definition lk (t : list (Z * xnum)) (x : Z) : xnum :=
  match find (fun p => Z.eqb (fst p) x) t with Some p => snd p | None => XNaN end.
Definition pecf (x : Z) : Z := if Z.eqb x 1 then 2 else x.
Definition mgi (x : Z) : Z := x + 100.
Definition mgc (k : nat) (x : Z) : Z := x + 1.
Definition TINY : xnum := %s.
Definition run (tbl : list (xnum * xnum * xnum)) (rn : list (Z * xnum)) :=
  solve_ctl xnum xltb xleb xisfinite (xmul tbl) xofZ TINY XNaN Z (lk rn) 0 pecf mgi mgc src_variant.
Definition show (o : outcome xnum Z) : list Z * string :=
  match o with
  | Err _ _ ErrConfig => ([1], EmptyString) | Err _ _ ErrFreq => ([2], EmptyString)
  | Err _ _ ErrDtype => ([3], EmptyString) | Stuck _ _ => ([4], EmptyString)
  | Done _ _ r =>
      ([0; match r_branch _ _ r with BGood => 0 | BZero => 1 | BKrylov => 2 | BMG => 3 end;
        r_obj _ _ r; ob (r_same _ _ r); oo (r_caller _ _ r); oo (r_returned _ _ r);
        ob (r_complex _ _ r); ob (r_info _ _ r); r_exit _ _ r; r_it _ _ r; r_ssl_it _ _ r]
       ++ ox (r_l2 _ _ r) ++ ox (r_l2_refe _ _ r) ++ flat_map ox (r_errs _ _ r), r_msg _ _ r)
  end.
""" % xlit(TINY100)


def pattern_len(v, true_len):
    if v is True:
        return true_len
    if v is False or v in range(8):
        return 1
    return len(str(abs(int(v))))


def coq_case(R, extra_resnorm=None):
    """Text of `Eval vm_compute in show (run ...)` for an observed run."""
    cfg, spec, mode = R.cfg, R.spec, R.mode
    ssl = cfg['sslsolver']
    ssl_on = bool(ssl)
    name = 'bicgstab' if ssl is True else (ssl if ssl else '')
    cyc_on = cfg['cycle'] is not None
    mc = max(pattern_len(cfg['semicoarsening'], 3), pattern_len(cfg['linerelaxation'], 3))
    tol = cfg['tol']
    refe = R.src_norm
    cplx = spec['freq'] > 0
    with np.errstate(all='ignore'):
        tbl = [(tol, refe, float(np.float64(tol) * np.float64(refe))),
               (10.0, refe, float(np.float64(10) * np.float64(refe)))]
    tbl_s = '[' + '; '.join(f"({xlit(a)}, {xlit(b)}, {xlit(c)})" for a, b, c in tbl) + ']'
    rn = {}          # field id -> norm
    sup_s = 'None'
    e0 = 0
    if R.supplied is not None:
        sc_ = (R.supplied_raw.dtype.kind == 'c')
        sup_s = f"(Some {{| u_fld := 1; u_complex := {V.coq_bool(sc_)} |}})"
        e0 = 2
        if R.solve_res:
            rn[2] = R.solve_res[0]
    trace = []
    R.ids = {}
    if R.events:
        j = 0
        for ev in R.events:
            if ev[0] == 'C':
                fid = 1000 + j
                j += 1
                rn[fid] = ev[2]
                trace.append(f"Callback _ _ {fid}")
            elif ev[0] == 'P':
                n0 = ev[1] if ev[1] is not None else float('nan')
                trace.append(f"Precond _ _ {xlit(n0)} [{'; '.join(xlit(x) for x in ev[2])}] {xlit(ev[4])}")
            elif ev[0] == 'R':
                rn[2000] = R.ret_norm if hasattr(R, 'ret_norm') else float('nan')
                trace.append(f"Return _ _ 2000 ({ev[2]})")
    else:
        # standalone multigrid: one level-0 call
        if R.mgcalls:
            rec = R.mgcalls[0]
            zero_id = 0 if R.supplied is None else 2
            if rec['n0'] is not None:
                rn.setdefault(zero_id, rec['n0'])
                if rn[zero_id] != rec['n0'] and not (math.isnan(rn[zero_id]) and math.isnan(rec['n0'])):
                    R.inconsistent = ('initial l2_last of multigrid differs from the residual of the supplied field',
                                      rn[zero_id], rec['n0'])
            for k, n in enumerate(rec['ns']):
                rn[zero_id + 100 + k + 1] = n
    if hasattr(R, 'abort_norm'):
        rn.setdefault(e0, R.abort_norm)
    if extra_resnorm:
        rn.update(extra_resnorm)
    rn_s = '[' + '; '.join(f"({k}, {xlit(v)})" for k, v in sorted(rn.items())) + ']'
    c = (f"{{| c_ssl := {V.coq_bool(ssl_on)}; c_ssl_name := {V.coq_str(name)}; c_cycle := {V.coq_bool(cyc_on)}; "
         f"c_tol := {xlit(tol)}; c_maxit := {cfg['maxit']}; c_maxcycle := {mc}; "
         f"c_return_info := {V.coq_bool(cfg['return_info'])}; c_always_return := {V.coq_bool(cfg['always_return'])} |}}")
    s = (f"{{| s_norm := {xlit(refe)}; s_complex := {V.coq_bool(cplx if mode != 'nofreq' else R.sfield.field.dtype.kind == 'c')}; "
         f"s_has_freq := {V.coq_bool(mode != 'nofreq')} |}}")
    return (f"Eval vm_compute in show (run {tbl_s} {rn_s} {c} {s} {sup_s} "
            f"[{'; '.join(trace)}]).\n")


def parse_show(ans):
    """'([i; i; ...], "msg"%string)' -> (ints, msg)"""
    head, _, tail = ans.partition(']')
    ints = [int(x) for x in re.findall(r'-?\d+', head)]
    m = re.search(r'"(.*)"%string', tail, flags=re.S)
    return ints, (m.group(1).replace('""', '"') if m else '')


def xval(t):
    k, n, d = t
    if k == 0:
        return float(fractions.Fraction(n, d))
    return {1: float('inf'), 2: float('-inf'), 3: float('nan')}[k]


def same_float(a, b):
    a, b = float(a), float(b)
    return (math.isnan(a) and math.isnan(b)) or a == b


def compare(R, ints, msg):
    """Model answer vs observed run.  Returns a disagreement text or None."""
    code = ints[0]
    if R.error is not None:
        want = {'ErrConfig': 1, 'ErrFreq': 2, 'ErrDtype': 3, 'ScipyRaised': 4}.get(R.error)
        return None if code == want else f"impl raised {R.error}, model outcome code {code}"
    if code != 0:
        return f"impl returned normally, model outcome code {code} (1-3 errors, 4 stuck)"
    (_, br, obj, same, caller, returned, cplx, info, exit_, it, ssl_it) = ints[:11]
    l2 = xval(ints[11:14])
    refe = xval(ints[14:17])
    errs = [xval(ints[i:i + 3]) for i in range(17, len(ints), 3)]
    v = R.var
    if msg != v.exit_message:
        return f"exit message: impl {v.exit_message!r} model {msg!r}"
    if it != int(v.it) or ssl_it != int(v.ssl_it):
        return f"counters: impl it_mg={v.it} it_ssl={v.ssl_it}; model {it} {ssl_it}"
    if not same_float(l2, v.l2):
        return f"var.l2 (abs_error): impl {v.l2!r} model {l2!r}"
    if not same_float(refe, v.l2_refe):
        return f"var.l2_refe: impl {v.l2_refe!r} model {refe!r}"
    ie = [float(x) for x in v.error_at_cycle]
    if len(ie) != len(errs) or not all(same_float(a, b) for a, b in zip(ie, errs)):
        return f"error_at_cycle: impl {ie[:6]}.. ({len(ie)}) model {errs[:6]}.. ({len(errs)})"
    if (R.info is not None) != bool(info):
        return f"info dict returned: impl {R.info is not None} model {bool(info)}"
    if R.info is not None:
        if R.info['exit'] != exit_ or R.info['exit_message'] != msg or not same_float(R.info['abs_error'], l2) \
                or int(R.info['it_mg']) != it or int(R.info['it_ssl']) != ssl_it:
            return f"info dict differs from model: {dict((k, R.info[k]) for k in ('exit', 'exit_message', 'abs_error', 'it_mg', 'it_ssl'))}"
    elif exit_ != int(v.exit_message != 'CONVERGED'):
        return "exit status"
    # the residual solve() stored for a supplied field is that of the PEC-zeroed field (ordering of the
    # PEC zeroing and the already-good-enough test)
    if R.supplied is not None and R.solve_res:
        import emg3d
        want = emg3d.Field(R.grid, R.supplied_raw.copy())
        K.apply_pec([want.fx, want.fy, want.fz])
        with np.errstate(all='ignore'):
            n = float(R.o_res(R.vmodel(), R.sfield, want, True))
        if not same_float(n, R.solve_res[0]):
            return (f"residual tested for 'already good enough' is not that of the PEC-zeroed supplied field: "
                    f"impl {R.solve_res[0]!r}, resnorm(pec supplied) {n!r}")
    # which object carries the result
    if (R.ret_field is not None) != (returned != -7):
        return f"field returned: impl {R.ret_field is not None}, model {returned != -7}"
    if R.supplied is not None:
        if caller == -7:
            return "model lost the caller's object"
        if R.ret_field is not None and (R.ret_field is R.supplied) != bool(same):
            return f"returned object is the supplied one: impl {R.ret_field is R.supplied} model {bool(same)}"
    if bool(cplx) != (R.held()[0].field.dtype.kind == 'c'):
        return "dtype tag"
    # contents: the model says which field id each object holds
    for what, fid, fld in (('caller', caller, R.supplied), ('returned', returned, R.ret_field)):
        if fld is None or fid == -7:
            continue
        t = content_check(R, fid, fld)
        if t:
            return f"{what} object content: {t}"
    return None


def content_check(R, fid, fld):
    import emg3d
    if fid == 0:
        return None if not np.any(fld.field) else "model says zero field, impl field is non-zero"
    if fid == 2:
        want = emg3d.Field(R.grid, R.supplied_raw.copy())
        for a in (want.fx, want.fy, want.fz):
            pass
        K.apply_pec([want.fx, want.fy, want.fz])
        return None if np.array_equal(want.field, fld.field) else \
            "model says PEC-zeroed supplied field, impl field differs"
    if fid == 2000:
        x = [e for e in R.events if e[0] == 'R'][-1][1]
        return None if np.array_equal(np.asarray(fld.field), x, equal_nan=True) else \
            "model says the iterate returned by scipy, impl field differs"
    if fid >= 100 and fid < 1000:
        # a multigrid iterate: identified by its residual norm (recomputed with emg3d's own residual)
        vm = R.vmodel()
        n = float(R.o_res(vm, R.sfield, fld, True))
        want = R.rn_last
        return None if same_float(n, want) else f"multigrid iterate: residual {n!r} vs last cycle norm {want!r}"
    return f"unexpected field id {fid}"


def _held(self):
    return [f for f in (self.supplied, self.ret_field) if f is not None]


def _vmodel(self):
    import emg3d
    return emg3d.models.VolumeModel(self.model, self.sfield)


Run.held = _held
Run.vmodel = _vmodel


def prepare(R):
    """Things the model needs that are recomputed after the run (with emg3d's own residual, for
    exact agreement of the bookkeeping): norm of the field returned by scipy."""
    if R.error is None:
        rets = [e for e in R.events if e[0] == 'R']
        if rets:
            import emg3d
            x = rets[-1][1]
            with np.errstate(all='ignore'):
                R.ret_norm = float(R.o_res(R.vmodel(), R.sfield, emg3d.Field(R.grid, x), True))
        elif R.events and R.held():
            # Krylov abort: the field object keeps its content e0; its residual norm
            with np.errstate(all='ignore'):
                R.abort_norm = float(R.o_res(R.vmodel(), R.sfield, R.held()[0], True))
        R.rn_last = R.mgcalls[0]['ns'][-1] if (R.mgcalls and not R.events and R.mgcalls[0]['ns']) else float('nan')


# --------------------------------------------------- the property on the impl
def property_check(R):
    """Evaluate C01 itself on an observed run, with an independent residual.
    Returns a hit dict or None."""
    v = R.var
    if R.error is not None or v is None:
        return None
    cfg, spec = R.cfg, R.spec
    base = dict(spec=spec, cfg={k: (val if not isinstance(val, bool) else bool(val)) for k, val in cfg.items()},
                mode=R.mode, exit_message=v.exit_message)
    hit = _property_check(R, base)
    if hit and spec.get('resolve'):
        hit['signature'] += RESOLVE_TAG
        hit['history'] = ('same Model object: solve; in-place edit through the getter view '
                          f"model.{spec['resolve']['prop']}[box]; re-solve at the same frequency (this call)")
    return hit


RESOLVE_TAG = ' (re-solve after an in-place model edit)'


def _property_check(R, base):
    v = R.var
    cfg, spec = R.cfg, R.spec
    status = int(v.exit_message != 'CONVERGED')
    if R.info is not None and R.info['exit'] != status:
        return dict(signature='exit status is not int(message != CONVERGED)', **base)
    held = R.held()
    tol, refe = cfg['tol'], R.src_norm
    zero_src = refe < TINY100
    if status == 1:
        if v.exit_message == '':
            return dict(signature='failure without explanatory message', **base)
    for f in held:
        if f.field.dtype != R.sfield.field.dtype:
            return dict(signature='result field dtype differs from the source dtype', **base)
    if status == 0:
        for which, f in (('supplied (in place)', R.supplied), ('returned', R.ret_field)):
            if f is None:
                continue
            if not pec_ok(f):
                return dict(signature='success with a non-PEC field', which=which, **base)
            if zero_src:
                if np.any(f.field):
                    return dict(signature='zero source: success reported but the caller\'s field is not zero',
                                which=which, field_norm=float(np.linalg.norm(f.field)),
                                abs_error=float(v.l2), required='all-zero field', **base)
                if float(v.l2) != 0.0:
                    return dict(signature='zero source: reported abs_error is not the residual (0) of the zero field',
                                which=which, abs_error=float(v.l2), required=0.0, **base)
                continue
            with np.errstate(all='ignore'):
                r = indep_resnorm(R.ind, R.sfield, f)
            with np.errstate(all='ignore'):
                R.cancel = cancel_scale(R.ind, R.sfield, f)
            noise = NOISE_EPS * R.cancel + 1e-290      # rounding; denormal range is not resolved
            if not (r <= tol * refe * (1 + 1e-3) + noise):
                return dict(signature='success reported but the independent residual exceeds tol*|source|',
                            which=which, independent_residual=r, bound=tol * refe, abs_error=float(v.l2), **base)
            if abs(float(v.l2) - r) > 1e-3 * r + noise:
                return dict(signature='reported abs_error is not the residual of the field the caller holds',
                            which=which, independent_residual=r, abs_error=float(v.l2),
                            ratio=float(v.l2) / r if r else float('inf'), **base)
    return None


def key_of(R):
    c = R.cfg
    return (R.mode, str(c['sslsolver']), str(c['cycle']), str(c['semicoarsening']), str(c['linerelaxation']),
            c['maxit'], c['tol'], tuple(R.spec['shape']), R.spec['freq'] > 0,
            R.var.exit_message if R.var is not None and R.error is None else R.error)


def resolve_block():
    """Deterministic histories on ONE Model object: solve, in-place edit of property_x / property_z /
    mu_r / epsilon_r through a getter view, re-solve at the same frequency -- with a fresh field, with the
    previous solution supplied, or with a field pre-solved on the (same) model object; frequency and
    Laplace domain; multigrid and Krylov."""
    base = dict(shape=[4, 4, 4], hx=[1, 2, 1, 1.5], hy=[1, 1, 2, 1], hz=[2, 1, 1, 1], aniso=3, has_mu=True,
                has_eps=True, freq=1.0, np_seed=21, src_exp=0)
    lap = dict(base, shape=[4, 2, 6], hx=[1, 1, 1, 1], hy=[1, 2], hz=[1, 1, 2, 2, 1, 1], freq=-2.0, np_seed=22)
    c0 = dict(sslsolver=False, cycle='F', semicoarsening=False, linerelaxation=False, nu_init=0, nu_pre=2,
              nu_coarse=1, nu_post=2, clevel=-1, tol=1e-6, maxit=50, return_info=True, always_return=False)
    edits = [dict(prop='property_x', value=100.0), dict(prop='property_z', factor=1 / 64.0),
             dict(prop='mu_r', value=8.0), dict(prop='epsilon_r', value=4096.0)]
    out = []
    for i, ed in enumerate(edits):
        for b_, sp in enumerate((base, lap)):
            if ed['prop'] == 'epsilon_r' and b_ == 0:
                sp = dict(sp, freq=float(2 ** 22))      # displacement part only matters at high frequency
            e = dict(ed, box=default_box(sp['shape']))
            cfgs = [(c0, 'fresh'), (dict(c0, return_info=(i % 2 == 0)), 'prev'),
                    (dict(c0, sslsolver='bicgstab', semicoarsening=True, linerelaxation=True, tol=1e-5), 'fresh'),
                    (dict(c0, always_return=True), 'good')]
            for cfg, mode in cfgs:
                out.append((dict(sp, resolve=e), cfg, mode, None))
    # interleave so that the first entries cover different properties and modes
    order = sorted(range(len(out)), key=lambda k: (k % 4, k // 4))
    return [out[k] for k in order]


def refinement_block():
    """Deterministic 'refinement' block: solve with the default tolerance 1e-6, hand the result back as
    efield with tol in {1e-8, 1e-10} (and the looser 1e-4 as control: NOTHING DONE is right there), for
    multigrid, multigrid with semicoarsening + line relaxation, and bicgstab; frequency and Laplace.
    The already-good-enough pre-check must use the caller's tol."""
    c0 = dict(sslsolver=False, cycle='F', semicoarsening=False, linerelaxation=False, nu_init=0, nu_pre=2,
              nu_coarse=1, nu_post=2, clevel=-1, tol=1e-6, maxit=50, return_info=True, always_return=False)
    cfgs = [c0, dict(c0, semicoarsening=True, linerelaxation=True),
            dict(c0, sslsolver='bicgstab', semicoarsening=True, linerelaxation=True)]
    fdom = dict(shape=[4, 4, 4], hx=[1, 2, 1, 1.5], hy=[1, 1, 2, 1], hz=[2, 1, 1, 1], aniso=0, has_mu=False,
                has_eps=False, freq=1.0, np_seed=31, src_exp=0)
    sdom = dict(fdom, shape=[8, 4, 4], hx=[1, 1, 1.5, 2, 2, 1.5, 1, 1], aniso=3, has_mu=True, freq=-2.0, np_seed=32)
    out = []
    for k, tol in enumerate((1e-8, 1e-10, 1e-4)):
        for j, cfg in enumerate(cfgs):
            for sp in (fdom, sdom):
                out.append((dict(sp, refine={'tol0': 1e-6}),
                            dict(cfg, tol=tol, return_info=((j + k) % 2 == 0), always_return=(j == 1)),
                            'refine', None))
    return out


def regime_block():
    """Deterministic block over the option classes of the coefficient glue between Model/Field and the
    solver: {frequency, Laplace} x {epsilon_r none/given} x {mu_r none/given} x {isotropic, HTI, VTI,
    triaxial}, in regimes where DISPLACEMENT currents matter (s*eps0*eps_r / sigma ~ 1e-2..1e-1:
    f = 2e5..1e7 Hz, s = 1e6..1e8 1/s, conductivities 1e-4..4e-3 S/m, cells 1..20 m) plus the diffusive
    regime, so that the independent-residual certificate is evaluated in every class."""
    c0 = dict(sslsolver=False, cycle='F', semicoarsening=False, linerelaxation=False, nu_init=0, nu_pre=2,
              nu_coarse=1, nu_post=2, clevel=-1, tol=1e-6, maxit=50, return_info=True, always_return=False)
    cfgs = [c0, dict(c0, semicoarsening=True, linerelaxation=True), dict(c0, sslsolver='bicgstab', tol=1e-5),
            dict(c0, cycle='V', linerelaxation=4, return_info=False)]
    shapes = [dict(shape=[4, 4, 4], hx=[1, 2, 1, 1.5], hy=[1, 1, 2, 1], hz=[2, 1, 1, 1]),
              dict(shape=[4, 2, 6], hx=[1, 1, 1.25, 1], hy=[1, 2], hz=[1, 1, 2, 2, 1, 1]),
              dict(shape=[6, 4, 2], hx=[2, 1, 1, 1, 1, 2], hy=[1, 1.5, 1, 1], hz=[1, 1.5])]
    out, k = [], 0
    for lap in (False, True):
        for eps in (False, True):
            for mu in (False, True):
                for aniso in range(4):
                    freq, hsc = ((-1.0e6, 8.0) if lap else (2.0e5, 8.0))
                    sp = dict(shapes[k % 3], aniso=aniso, has_mu=mu, has_eps=eps, freq=freq, np_seed=100 + k,
                              src_exp=0, cond_exp=-3, h_scale=hsc)
                    out.append((sp, cfgs[k % 4], 'bad' if k % 5 == 4 else 'fresh', None))
                    k += 1
    # further regimes with epsilon_r: higher s / f on finer cells, and the diffusive regime
    for freq, hsc, cexp in ((-1.0e7, 8.0, -3), (-1.0e8, 1.0, -2), (1.0e6, 8.0, -3), (1.0e7, 1.0, -2),
                            (-2.0, 1.0, 0), (1.0, 1.0, 0)):
        for aniso, mu in ((0, False), (3, True)):
            sp = dict(shapes[k % 3], aniso=aniso, has_mu=mu, has_eps=True, freq=freq, np_seed=100 + k,
                      src_exp=0, cond_exp=cexp, h_scale=hsc)
            out.append((sp, cfgs[k % 4], 'fresh', None))
            k += 1
    return out


def fixed_cases():
    s0 = dict(shape=[4, 4, 4], hx=[1, 2, 1, 1.5], hy=[1, 1, 2, 1], hz=[2, 1, 1, 1], aniso=0, has_mu=False,
              has_eps=False, freq=1.0, np_seed=11, src_exp=0)
    s1 = dict(s0, shape=[2, 3, 2], hx=[1, 1], hy=[1, 2, 1], hz=[1, 1], freq=-2.0, aniso=3, np_seed=12)
    c0 = dict(sslsolver=False, cycle='F', semicoarsening=False, linerelaxation=False, nu_init=0, nu_pre=2,
              nu_coarse=1, nu_post=2, clevel=-1, tol=1e-6, maxit=50, return_info=True, always_return=False)
    out = []
    for mode in MODES:
        out.append((s0, c0, mode))
        out.append((s1, dict(c0, sslsolver='bicgstab', semicoarsening=True, linerelaxation=True), mode))
    for ssl in SOLVERS:
        for cyc in ('F', 'V', None):
            out.append((s0, dict(c0, sslsolver=ssl, cycle=cyc, tol=1e-4), 'fresh'))
            out.append((s0, dict(c0, sslsolver=ssl, cycle=cyc, tol=1e-4, always_return=True), 'bad'))
    for face, which in (('z1', 'both'), ('x0', 'first'), ('y1', 'second')):
        out.append((dict(s0, nonpec={'face': face, 'which': which}), c0, 'good_nonpec'))
        out.append((dict(s1, nonpec={'face': face, 'which': which}),
                    dict(c0, sslsolver='bicgstab', tol=1e-4, return_info=False), 'good_nonpec'))
    for spec_r, cfg_r, mode_r, _ in resolve_block()[:8] + regime_block() + refinement_block():
        out.append((spec_r, cfg_r, mode_r))
    out.append((s0, dict(c0, maxit=1), 'fresh'))
    out.append((s0, dict(c0, maxit=2, semicoarsening=1213, linerelaxation=56), 'bad'))
    out.append((s0, dict(c0, tol=1e-30, maxit=50), 'fresh'))          # stagnation
    out.append((s0, dict(c0, return_info=False), 'zero_supplied'))
    out.append((s0, dict(c0, always_return=True), 'zero_supplied'))
    return out


def gen_cases(ctx, n):
    rng = ctx.rng
    cases = list(fixed_cases())
    while len(cases) < n:
        mode = rng.choice(['fresh'] * 5 + ['good', 'good', 'bad', 'bad', 'bad', 'wrongdtype', 'zero_fresh',
                                           'zero_supplied', 'zero_supplied', 'nofreq', 'nan_source',
                                           'tiny_source'])
        spec = rand_spec(rng)
        if rng.random() < 0.06:
            mode = 'good_nonpec'
            spec['nonpec'] = {'face': rng.choice(FACES), 'which': rng.choice(['both', 'first', 'second'])}
            spec['src_exp'] = 0
        if mode in ('fresh', 'bad', 'good') and rng.random() < 0.08:
            props = ['property_x'] + (['property_y'] if spec['aniso'] in (1, 3) else []) + \
                    (['property_z'] if spec['aniso'] in (2, 3) else []) + (['mu_r'] if spec['has_mu'] else [])
            spec['resolve'] = dict(prop=rng.choice(props), box=default_box(spec['shape']),
                                   factor=rng.choice([64.0, 1 / 64.0]))
            if rng.random() < 0.4:
                mode = 'prev'
        cases.append((spec, rand_cfg(rng), mode))
    return cases


def brief(spec, cfg, mode):
    return dict(mode=mode, shape=spec['shape'], freq=spec['freq'], aniso=spec['aniso'],
                cfg={k: str(v) for k, v in cfg.items()})


def correspondence(ctx):
    n = 2400 if ctx.thorough else 320
    cases = gen_cases(ctx, n)
    dis, runs, hist, seen = [], [], {}, set()
    prop_hits = []
    for spec, cfg, mode in cases:
        R = run_impl(spec, cfg, mode)
        prepare(R)
        runs.append(R)
        if getattr(R, 'error', None) and R.error.startswith('ValueError:'):
            dis.append({'what': 'unexpected exception', 'case': brief(spec, cfg, mode), 'impl': R.error})
    chunks = [runs[i:i + 60] for i in range(0, len(runs), 60)]
    texts = [(f"c01_t_{ci}", COQ_HEADER + ''.join(coq_case(R) for R in ch)) for ci, ch in enumerate(chunks)]
    res = V.coq_eval_many(texts, timeout=1200)
    nkry = 0
    for ci, ch in enumerate(chunks):
        rc, out = res[f"c01_t_{ci}"]
        if rc != 0:
            dis.append({'what': 'solve control model does not evaluate', 'log': out[-1500:]})
            continue
        answers = V.eval_answers(out)
        if len(answers) != len(ch):
            dis.append({'what': 'model answers missing', 'log': out[-800:]})
            continue
        for R, ans in zip(ch, answers):
            ints, msg = parse_show(ans)
            t = getattr(R, 'inconsistent', None)
            t = str(t) if t else compare(R, ints, msg)
            if t and len(dis) < 8:
                dis.append({'what': 'solve() bookkeeping differs from Model/SolveCtl.solve_ctl: ' + t[:200],
                            'case': brief(R.spec, R.cfg, R.mode), 'model': ans[:300],
                            'impl': str(R.error or (R.var.exit_message, float(R.var.l2), int(R.var.it), int(R.var.ssl_it)))})
            k = key_of(R)
            label = f"{R.mode}/{'krylov' if R.cfg['sslsolver'] else 'mg'}/{k[-1]}"
            hist[label] = hist.get(label, 0) + 1
            if not (R.mode == 'fresh' and not R.cfg['sslsolver'] and k[-1] == 'CONVERGED'):
                seen.add(k)
            nkry += bool(R.events)
            h = property_check(R)
            if h:
                prop_hits.append(h)
    ctx.c01_hits = prop_hits
    # The model's oracle `resnorm` stands for the residual norm w.r.t. the discretised system of the
    # Model and source passed to the call; the independent certificate is the tie of that oracle (and of
    # krylov_contract / the PEC laws) to the code.  A run on which it fails breaks the tie -- also in
    # the quick tier -- and makes the driver call the searcher for the concrete input.
    sigs = set()
    for h in prop_hits:
        if h['signature'] not in sigs and len(sigs) < 4:
            sigs.add(h['signature'])
            dis.append({'what': 'independent certificate fails on an observed run: ' + h['signature'],
                        'signature': h['signature'], 'case': brief(h['spec'], h['cfg'], h['mode']),
                        'impl': {k: h[k] for k in ('exit_message', 'abs_error', 'independent_residual', 'bound',
                                                   'which', 'field_norm') if k in h}})
    if prop_hits:
        ctx.notes.append(f"property monitor: {len(prop_hits)} observed runs violate C01 itself, e.g. "
                         f"{prop_hits[0]['signature']}")
    return {
        'evaluations': len(runs),
        'distinct_nontrivial': len(seen),
        'rule': "cases: fixed list (every mode x {MG, bicgstab}; every sslsolver x cycle {F,V,None} fresh/supplied; "
                "maxit 1/2, cycling patterns, stagnation) + random (shape from {2..6}^3, uniform/stretched dyadic "
                "widths, iso/HTI/VTI/triaxial, mu_r/eps_r, frequency or Laplace, source amplitude 10^{0,-3,-8,4}) x "
                "(cycle x sslsolver x sc x lr x nu_* x clevel x tol x maxit x return_info x always_return) x mode in "
                "{fresh, supplied good/bad/wrong dtype, zero source fresh/supplied, source without frequency, NaN "
                "source, denormal source}; each a real emg3d.solve whose observed norms/Krylov events drive the Coq "
                "model; distinct = distinct (mode, solver, cycle, sc, lr, maxit, tol, shape, dtype, outcome); "
                "non-trivial = anything but fresh/multigrid/CONVERGED",
        'samples': [brief(*c) for c in cases[:2] + cases[-2:]],
        'traces_validated_against_impl': len(runs),
        'histogram': dict(sorted(hist.items())),
        'disagreements': dis,
    }


# ------------------------------------------------------------------ searcher
def stub_precond_then_breakdown(A, b, x0, M, cb):
    """A Krylov behaviour allowed by the model's trace oracle: one preconditioner application to a
    tiny vector (which multigrid 'solves' below tol*|b|), then a breakdown return code."""
    if M is not None:
        M.matvec(b * 1e-12)
    return (x0.copy() if x0 is not None else np.zeros_like(b)), -10


def nonpec_block():
    """Deterministic first block of the searcher: supplied fields that already satisfy the interior
    equations but are not PEC (every face, single/both tangential components, complex and real,
    with/without return_info / always_return, multigrid and Krylov configurations)."""
    s0 = fixed_cases()[0][0]
    s1 = fixed_cases()[1][0]
    s2 = dict(s0, shape=[8, 4, 4], hx=[1, 1, 1.5, 2, 2, 1.5, 1, 1], aniso=3, has_mu=True, np_seed=13)
    c0 = fixed_cases()[0][1]
    out = []
    for i, face in enumerate(FACES):
        which = ['both', 'first', 'second'][i % 3]
        npc = {'face': face, 'which': which}
        out.append((dict(s0, nonpec=npc), dict(c0, tol=1e-5), 'good_nonpec', None))
        out.append((dict(s1, nonpec=npc), dict(c0, tol=1e-4, return_info=False, always_return=(i % 2 == 0)),
                    'good_nonpec', None))
        out.append((dict(s2, nonpec=npc), dict(c0, sslsolver=['bicgstab', 'cgs', 'gcrotmk'][i % 3], tol=1e-5,
                                               semicoarsening=True, linerelaxation=True), 'good_nonpec', None))
    return out


def targeted(ctx):
    s0 = fixed_cases()[0][0]
    c0 = fixed_cases()[0][1]
    out = refinement_block() + regime_block() + resolve_block() + nonpec_block() + [(s0, c0, 'zero_supplied', None), (s0, dict(c0, always_return=True), 'zero_supplied', None),
           (s0, c0, 'zero_fresh', None)]
    for ssl in SOLVERS:
        for cyc in ('F', None):
            for tol in (1e-4, 1e-6):
                out.append((s0, dict(c0, sslsolver=ssl, cycle=cyc, tol=tol), 'fresh', None))
                out.append((s0, dict(c0, sslsolver=ssl, cycle=cyc, tol=tol), 'bad', None))
                out.append((dict(s0, bad_scale=1e4 if tol > 1e-5 else 1e7),
                            dict(c0, sslsolver=ssl, cycle=cyc, tol=tol), 'bad', None))
    out.append((s0, dict(c0, sslsolver='bicgstab', cycle='F'), 'fresh', 'stub_precond_then_breakdown'))
    return out


STUBS = {'stub_precond_then_breakdown': stub_precond_then_breakdown, None: None}


def search(ctx, broken):
    rng = ctx.rng
    hits, seen = [], set()
    for h in getattr(ctx, 'c01_hits', []):
        if h['signature'] not in seen:
            seen.add(h['signature'])
            hits.append(h)
    n = 400 if ctx.thorough else 120
    cases = targeted(ctx)
    for _ in range(n):
        mode = rng.choice(['fresh'] * 4 + ['good', 'bad', 'bad', 'zero_fresh', 'zero_supplied', 'tiny_source'])
        sp = rand_spec(rng, big=rng.random() < 0.2)
        if mode == 'bad' and rng.random() < 0.5:
            sp['bad_scale'] = rng.choice([1e3, 1e6])
        cases.append((sp, rand_cfg(rng), mode, None))
    crashed = 0
    for spec, cfg, mode, stub in cases:
        try:
            R = run_impl(spec, cfg, mode, stub=STUBS[stub])
            h = property_check(R)
        except Exception as e:     # the harness could not drive this case on the current tree
            crashed += 1
            if crashed <= 3:
                ctx.notes.append(f"searcher: case {mode} {cfg.get('sslsolver')} could not run: {e!r}"[:300])
            continue
        if h and h['signature'] not in seen:
            if stub:
                h['krylov_stub'] = stub
                h['signature'] += ' (scipy replaced by a stub producing an admissible event trace)'
            seen.add(h['signature'])
            hits.append(h)
    ctx.notes.append(f"searcher: property evaluated on {len(cases)} real solver runs "
                     f"(targeted zero-source / Krylov cases first)")
    # most telling first: genuine-scipy hits before stub hits
    def severity(h):
        """most telling first: categorical failures (non-PEC, non-zero field for a zero source, dtype,
        exit status), then by how far the independent residual exceeds its bound, then abs_error mismatches"""
        if h.get('independent_residual') is not None and h.get('bound'):
            return h['independent_residual'] / h['bound']
        if h.get('independent_residual') is not None and h.get('abs_error') is not None:
            r = h['independent_residual']
            return abs(h['abs_error'] - r) / r if r else 1.0
        return float('inf')
    hits.sort(key=lambda h: ('krylov_stub' in h, -severity(h)))
    return hits


def replay(ctx, payload):
    fi = payload.get('failing_input') or {}
    if 'spec' not in fi or 'cfg' not in fi:
        return False
    R = run_impl(fi['spec'], fi['cfg'], fi['mode'], stub=STUBS[fi.get('krylov_stub')])
    return property_check(R) is None
