"""C05 -- grid hierarchy and V/W/F cycling are well-formed.

Theorems: coq/Props/C05.v about Model/Hierarchy.v, which calls the decision
helpers of Gen/SolverHelpers.v (regenerated from solver.py on every run).
Tie of the hand-written recursion model: the real solver's call trace
(multigrid / smoothing / kernels / restriction / prolongation, recorded by
wrapping the module-level functions from the harness) is compared event by
event with the model's `outer_cycles`; MGParameters' tables are compared with
the model over all small shapes (thorough: all shapes 2..40^3 and n <= 1024).
"""
import itertools
import re

import numpy as np

from vlib import core as V
from vlib import kernels as K
from py2coq import solver_helpers

ID = 'C05'
LEVEL_TEXT = ("Theorems (Props/C05.v) for ALL shapes >= 2 and all configurations, by induction: the "
              "recursion terminates within the allotted fuel and its event list is exactly the textbook "
              "V/W/F cycle; levels stay in [0,bottom]; the coarsest solve happens exactly at the bottom "
              "level = max over coarsened directions of min(user limit, #halvings); the shape at level l "
              "is n/2^min(l,count) (>= 2 cells, only even >2 directions halved); line relaxation never "
              "runs along a two-cell direction; directions advance cyclically once per cycle, also across the "
              "calls of multigrid used as preconditioner (flag read off solver.py: the hand-over precedes the "
              "termination test; otherwise refuted). The integer decision helpers are regenerated from solver.py "
              "on every run. What the visited levels DO (Model/MGSem.v: the event list run as a stack machine over "
              "(efield, sfield) frames with the four numerical operations as parameters): for every configuration "
              "one cycle is a total function of the field (never stuck, frames balanced, source untouched) and, "
              "under the contracts proved per kernel in C02-C04 (smoothers fix exact solutions; restriction, "
              "prolongation, residual map zero to zero), one cycle -- and any number of cycles with changing "
              "directions -- returns an exact solution of the fine-grid system unchanged; three of the four contracts "
              "are stated here for the regenerated kernels (A 0 = 0, restrict(0) = 0, prolongation of 0 adds nothing).")
LEVEL_NOTE = ("Trusted: Coq kernel; the ast extraction of the helpers (py2coq/solver_helpers.py, fail-closed); "
              "Model/Hierarchy.v is a hand model of multigrid()'s loop/recursion and of MGParameters' pattern "
              "parsing, tied to the code by trace correspondence (wrapping emg3d.solver.multigrid/smoothing/"
              "restriction/prolongation and the core kernels) and by table comparison with MGParameters. "
              "Model/MGSem.v's reading of the events (which array is handed to which call: residual of the current "
              "field to restriction, fresh zero coarse field, 'efield += P cefield') is compared call by call with the "
              "real multigrid() (props/c05_flow.py), which also runs one real cycle on the exact discrete solution. "
              "The cycle fixed-point theorem takes the kernel contracts as hypotheses; plugging the per-kernel "
              "theorems of C02-C04 into them is by inspection (different carrier types per level).")
TECHNIQUE = "Coq proof (induction, lia, finite reflection) over helpers regenerated from source + trace correspondence"
PROPS = 'Props/C05.v'
GEN = ['CoreAmat', 'CoreRestrict']     # Props/C05.v section 8b states contracts about these regenerated kernels
TRUSTED = ["hand model of the multigrid() recursion (Model/Hierarchy.v), validated by trace correspondence"]
ASSUMES = ["the recorded call trace (wrappers installed by the harness) is the solver's control flow"]


def gen_helpers(ctx):
    solver_helpers.generate()


PREBUILD = [gen_helpers]

CYC = {'F': 70, 'V': 86, 'W': 87}
KERN = ['gauss_seidel', 'gauss_seidel_x', 'gauss_seidel_y', 'gauss_seidel_z']


# ---------------------------------------------------------------- impl trace
def impl_trace(shape, cfg):
    """Run emg3d.solve on a tiny problem and record the control trace."""
    import emg3d
    import emg3d.solver as S
    hs = [np.ones(n) for n in shape]
    grid = emg3d.TensorMesh(hs, (0, 0, 0))
    model = emg3d.Model(grid, 1.0)
    mid = [n / 2.0 + 0.25 for n in shape]
    sfield = emg3d.get_source_field(grid, [mid[0], mid[1], mid[2], 30, 20], 1.0)
    ev, stack, kern = [], [], []
    orig = {n: getattr(S, n) for n in ('multigrid', 'smoothing', 'restriction', 'prolongation')}
    origk = {n: getattr(S.core, n) for n in KERN}

    def mg(model_, sfield_, efield_, var, **kw):
        stack.append(kw.get('level', 0))
        try:
            return orig['multigrid'](model_, sfield_, efield_, var, **kw)
        finally:
            stack.pop()

    def sm(model_, sfield_, efield_, nu, lr_dir):
        del kern[:]
        r = orig['smoothing'](model_, sfield_, efield_, nu, lr_dir)
        ev.append(('S', stack[-1], tuple(int(x) for x in model_.grid.shape_cells), int(nu),
                   tuple(k in kern for k in KERN)))
        return r

    def re_(model_, sfield_, residual, sc_dir):
        ev.append(('R', stack[-1], int(sc_dir)))
        return orig['restriction'](model_, sfield_, residual, sc_dir)

    def pr(efield_, cefield, sc_dir):
        ev.append(('P', stack[-1], int(sc_dir)))
        return orig['prolongation'](efield_, cefield, sc_dir)

    def mk(name):
        def f(*a):
            kern.append(name)
            return origk[name](*a)
        return f

    S.multigrid, S.smoothing, S.restriction, S.prolongation = mg, sm, re_, pr
    for n in KERN:
        setattr(S.core, n, mk(n))
    try:
        kw = dict(cfg)
        ssl = kw.pop('sslsolver', False)
        out = emg3d.solve(model, sfield, verb=1, log=-1, return_info=True, sslsolver=ssl,
                          plain=False, **kw)
    finally:
        for n, f in orig.items():
            setattr(S, n, f)
        for n, f in origk.items():
            setattr(S.core, n, f)
    info = out[1]
    return ev, info


def worker_trace(arg):
    """Entry point of the child process: arg = [shape, cfg]."""
    shape, cfg = arg
    ev, info = impl_trace(tuple(shape), cfg)
    return [ev, {'it_mg': int(info['it_mg'])}]


_WORKER = None


def safe_trace(shape, cfg):
    """impl_trace in a child process.  Returns (ev, info) or raises Crashed."""
    global _WORKER
    if _WORKER is None:
        _WORKER = V.Worker('props.c05', 'worker_trace')
    kind, val = _WORKER.call([list(shape), cfg], timeout=900)
    if kind != 'ok':
        raise Crashed(f"{kind}: {val}")
    ev, info = val

    def tup(e):
        return tuple(tuple(x) if isinstance(x, list) else x for x in e)
    return [tup(e) for e in ev], info


class Crashed(Exception):
    pass


def rand_cfg(rng):
    sc = rng.choice([0, 1, 2, 3, True, 12, 123, 31, 102, 3021])
    lr = rng.choice([0, 1, 2, 3, 4, 5, 6, 7, True, 56, 147, 70, 1234567])
    return dict(cycle=rng.choice(['F', 'V', 'W']), semicoarsening=sc, linerelaxation=lr,
                clevel=rng.choice([-1, -1, 0, 1, 2, 3]), nu_init=rng.choice([0, 0, 0, 2]),
                nu_pre=rng.choice([0, 1, 2]), nu_coarse=rng.choice([1, 2]),
                nu_post=rng.choice([0, 1, 2]), maxit=rng.choice([1, 2, 3]), tol=1e-30)


def pattern(v, true_pat, lim):
    if v is True:
        return true_pat
    if v in range(lim + 1):
        return [int(v)]
    return [int(x) for x in str(abs(int(v)))]


ENC = """
Definition enc (e : ev) : list Z :=
  match e with
  | EPre l s r => [1; l; sx s; sy s; sz s; r]
  | ECoarse l s r => [2; l; sx s; sy s; sz s; r]
  | EPost l s r => [3; l; sx s; sy s; sz s; r]
  | ERestrict l c => [4; l; c; 0; 0; 0]
  | EProlong l => [5; l; 0; 0; 0; 0]
  end.
Definition enc_cycle (o : option (list ev)) : list Z :=
  match o with None => [9; 0; 0; 0; 0; 0] | Some l => flat_map enc l ++ [8; 0; 0; 0; 0; 0] end.
Definition kern4 (lr0 : Z) : list bool :=
  let k := smoothing_kernels lr0 in [fst (fst (fst k)); snd (fst (fst k)); snd (fst k); snd k].
"""


def coq_trace_case(shape, cfg, ncyc):
    psc = pattern(cfg['semicoarsening'], [1, 2, 3], 3)
    plr = pattern(cfg['linerelaxation'], [4, 5, 6], 7)
    c = (f"{{| cyc := {CYC[cfg['cycle']]}; sc := 0; lr := 0; user := ({cfg['clevel']}); "
         f"pre_on := {V.coq_bool(cfg['nu_pre'] > 0)}; post_on := {V.coq_bool(cfg['nu_post'] > 0)}; "
         f"shape0 := ({shape[0]}, {shape[1]}, {shape[2]}) |}}")
    zl = (lambda l: '[' + '; '.join(str(x) for x in l) + ']')
    sc_t = 'true' if cfg['semicoarsening'] is True else 'false'
    lr_t = 'true' if cfg['linerelaxation'] is True else 'false'
    sc_v = 0 if cfg['semicoarsening'] is True else int(cfg['semicoarsening'])
    lr_v = 0 if cfg['linerelaxation'] is True else int(cfg['linerelaxation'])
    return (K.CASE_HEADER + "From V Require Import Gen.SolverHelpers Model.Hierarchy.\n" + ENC +
            f"Definition c0 : cfg := {c}.\n"
            f"Eval vm_compute in (parse_pattern {sc_t} {sc_v} 3 [1;2;3], parse_pattern {lr_t} {lr_v} 7 [4;5;6]).\n"
            + (f"Eval vm_compute in flat_map enc_cycle (outer_cycles_calls c0 {zl(psc)} {zl(plr)} "
               f"{max(len(psc), len(plr))} {ncyc}).\n" if cfg.get('sslsolver') else
               f"Eval vm_compute in flat_map enc_cycle (outer_cycles c0 {zl(psc)} {zl(plr)} {ncyc}).\n") +
            f"Eval vm_compute in map kern4 [0;1;2;3;4;5;6;7].\n"
            f"Eval vm_compute in current_lr_dir {plr[0]} {shape[0]} {shape[1]} {shape[2]}.\n")


def parse_opt_lists(ans):
    """'(Some [1; 2], Some [4])' -> [[1,2],[4]] (None for None)."""
    out = []
    for m in re.finditer(r'(None|Some \[([^\]]*)\])', ans):
        if m.group(1) == 'None':
            out.append(None)
        else:
            out.append([int(x) for x in re.findall(r'-?\d+', m.group(2))])
    return out


def model_events(ans, cfg, kern_tab):
    ints = [int(x) for x in re.findall(r'-?\d+', ans)]
    ev = []
    for i in range(0, len(ints), 6):
        t, l, a, b, c, r = ints[i:i + 6]
        if t in (1, 2, 3):
            nu = {1: cfg['nu_pre'], 2: cfg['nu_coarse'], 3: cfg['nu_post']}[t]
            ev.append(('S', l, (a, b, c), nu, kern_tab[r]))
        elif t == 4:
            ev.append(('R', l, a))
        elif t == 5:
            ev.append(('P', l))
        elif t == 9:
            ev.append(('OUT_OF_FUEL',))
    return ev


def trace_correspondence(ctx, n, dis):
    rng = ctx.rng
    cases = []
    fixed = [((16, 8, 12), dict(cycle='F', semicoarsening=1, linerelaxation=56, clevel=-1, nu_init=0,
                                nu_pre=2, nu_coarse=1, nu_post=2, maxit=2, tol=1e-30)),
             ((2, 2, 2), dict(cycle='W', semicoarsening=True, linerelaxation=True, clevel=-1, nu_init=2,
                              nu_pre=1, nu_coarse=1, nu_post=1, maxit=3, tol=1e-30)),
             ((12, 3, 6), dict(cycle='W', semicoarsening=0, linerelaxation=7, clevel=1, nu_init=0,
                               nu_pre=0, nu_coarse=2, nu_post=2, maxit=2, tol=1e-30))]
    fixed += [((16, 4, 4), dict(cycle='F', semicoarsening=0, linerelaxation=0, clevel=-1, nu_init=0,
                                nu_pre=1, nu_coarse=1, nu_post=1, maxit=2, tol=1e-30)),
              ((4, 32, 6), dict(cycle='F', semicoarsening=2, linerelaxation=4, clevel=-1, nu_init=0,
                                nu_pre=1, nu_coarse=1, nu_post=1, maxit=1, tol=1e-30)),
              ((3, 5, 48), dict(cycle='W', semicoarsening=True, linerelaxation=0, clevel=3, nu_init=0,
                                nu_pre=1, nu_coarse=1, nu_post=0, maxit=3, tol=1e-30))]
    # multigrid as PRECONDITIONER of a Krylov solver: every preconditioner call runs
    # max(len(patterns)) cycles and ends through the cycle limit; the directions must keep
    # advancing once per fine-grid cycle ACROSS the calls (one global cycle count)
    fixed += [((8, 4, 6), dict(cycle='F', semicoarsening=True, linerelaxation=0, clevel=-1, nu_init=0,
                               nu_pre=1, nu_coarse=1, nu_post=1, maxit=2, tol=1e-30, sslsolver='bicgstab')),
              ((6, 8, 4), dict(cycle='V', semicoarsening=12, linerelaxation=456, clevel=-1, nu_init=0,
                               nu_pre=1, nu_coarse=1, nu_post=1, maxit=2, tol=1e-30, sslsolver='cgs'))]
    cases = list(fixed)
    while len(cases) < n:
        # at least one long direction so that three and more levels occur
        shape = [rng.choice([2, 3, 4, 5, 6, 8, 10, 12]) for _ in range(3)]
        if rng.random() < 0.5:
            shape[rng.randrange(3)] = rng.choice([16, 24, 32, 48])
        cfg = rand_cfg(rng)
        if rng.random() < 0.2:
            cfg.update(sslsolver=rng.choice(['bicgstab', 'cgs']), nu_init=0, maxit=rng.choice([1, 2]))
        cases.append((tuple(shape), cfg))
    texts, runs = [], []
    crashed = set()
    for i, (shape, cfg) in enumerate(cases):
        try:
            ev, info = safe_trace(shape, cfg)
        except Crashed as e:
            dis.append({'what': 'solver process aborted / raised on a legitimate configuration',
                        'case': {'shape': list(shape), **{k: str(v) for k, v in cfg.items()}},
                        'impl': str(e)[:400]})
            crashed.add(i)
            runs.append(([], {'it_mg': 0}, 0))
            texts.append((f"c05_t_{i}", coq_trace_case(shape, cfg, 0)))
            continue
        ncyc = int(info['it_mg'])
        runs.append((ev, info, ncyc))
        texts.append((f"c05_t_{i}", coq_trace_case(shape, cfg, ncyc)))
    res = V.coq_eval_many(texts)
    seen = set()
    for i, (shape, cfg) in enumerate(cases):
        if i in crashed:
            continue
        rc, out = res[f"c05_t_{i}"]
        brief = {'shape': list(shape), **{k: (v if not isinstance(v, bool) else str(v)) for k, v in cfg.items()}}
        if rc != 0:
            dis.append({'what': 'hierarchy model does not evaluate', 'case': brief, 'log': out[-1200:]})
            continue
        ans = V.eval_answers(out)
        pats = parse_opt_lists(ans[0])
        if pats != [pattern(cfg['semicoarsening'], [1, 2, 3], 3), pattern(cfg['linerelaxation'], [4, 5, 6], 7)]:
            dis.append({'what': 'pattern parsing differs', 'case': brief, 'model': str(pats)})
            continue
        kt = re.findall(r'\[((?:true|false)(?:; (?:true|false))*)\]', ans[2])
        kern_tab = [tuple(x == 'true' for x in row.split('; ')) for row in kt]
        mev = model_events(ans[1], cfg, kern_tab)
        iev, info, ncyc = runs[i]
        iev = list(iev)
        if cfg['nu_init'] > 0:
            clr0 = int(ans[3])
            want = ('S', 0, tuple(shape), cfg['nu_init'], kern_tab[clr0])
            if not iev or iev[0] != want:
                dis.append({'what': 'initial smoothing event differs', 'case': brief,
                            'impl': str(iev[:1]), 'model': str(want)})
                continue
            iev = iev[1:]
        # prolongation: compare level, and its sc_dir with the matching restriction
        stackR = {}
        iev2 = []
        bad = None
        for e in iev:
            if e[0] == 'R':
                stackR[e[1]] = e[2]
                iev2.append(e)
            elif e[0] == 'P':
                if stackR.get(e[1]) != e[2]:
                    bad = e
                iev2.append(('P', e[1]))
            else:
                iev2.append(e)
        if bad is not None:
            dis.append({'what': 'prolongation uses another sc_dir than the restriction of its level',
                        'case': brief, 'impl': str(bad)})
            continue
        if iev2 != mev:
            k = next((j for j in range(min(len(iev2), len(mev))) if iev2[j] != mev[j]),
                     min(len(iev2), len(mev)))
            dis.append({'what': 'multigrid control trace differs from Model/Hierarchy.outer_cycles',
                        'case': brief, 'cycles': ncyc, 'first_difference_at_event': k,
                        'impl': str(iev2[k:k + 3]), 'model': str(mev[k:k + 3]),
                        'impl_len': len(iev2), 'model_len': len(mev)})
        seen.add((shape, cfg['cycle'], str(cfg['semicoarsening']), str(cfg['linerelaxation']), cfg['clevel']))
    return len(cases), len(seen), [dict(shape=list(s), **{k: str(v) for k, v in c.items()})
                                   for s, c in cases[:3]]


# ----------------------------------------------------- MGParameters tables
def params_table(shapes, users):
    from emg3d.solver import MGParameters
    out = []
    for s in shapes:
        for u in users:
            v = MGParameters(verb=0, sslsolver=False, semicoarsening=0, linerelaxation=0,
                             shape_cells=s, cycle='F', clevel=u)
            out.append(tuple(int(x) for x in v.clevel) + tuple(int(x) for x in v._repr_clevel['shape_cells']))
    return out


def table_correspondence(ctx, dis):
    if ctx.thorough:
        rng1 = range(2, 41)
    else:
        rng1 = range(2, 13)
    shapes = list(itertools.product(rng1, rng1, rng1))
    if ctx.thorough:
        shapes += [(n, 2, 3) for n in range(41, 1025)] + [(3, n, 2) for n in range(41, 1025)] + \
                  [(2, 5, n) for n in range(41, 1025)]
    users = [-1, 0, 1, 2, 5]
    impl = params_table(shapes, users)
    chunks = [shapes[i:i + 700] for i in range(0, len(shapes), 700)]
    texts = []
    for ci, ch in enumerate(chunks):
        sl = '[' + '; '.join(f"({a},{b},{c})" for a, b, c in ch) + ']'
        ul = '[' + '; '.join(f"({u})" for u in users) + ']'
        texts.append((f"c05_p_{ci}", K.CASE_HEADER +
                      "From V Require Import Gen.SolverHelpers Model.Hierarchy.\n"
                      "Definition row (s : shape) (u : Z) : list Z :=\n"
                      "  let t := clevel_tab u s in let r := repr_coarsest u s in\n"
                      "  [fst (fst (fst t)); snd (fst (fst t)); snd (fst t); snd t; sx r; sy r; sz r].\n"
                      f"Eval vm_compute in flat_map (fun s => flat_map (row s) {ul}) {sl}.\n"))
    res = V.coq_eval_many(texts, timeout=1800)
    k = 0
    n_nontriv = 0
    for ci, ch in enumerate(chunks):
        rc, out = res[f"c05_p_{ci}"]
        if rc != 0:
            dis.append({'what': 'table model does not evaluate', 'log': out[-1200:]})
            return 0, 0
        ints = [int(x) for x in re.findall(r'-?\d+', V.eval_answers(out)[0])]
        for s in ch:
            for u in users:
                row = tuple(ints[:7])
                ints = ints[7:]
                if row != impl[k]:
                    dis.append({'what': 'MGParameters clevel table / coarsest grid differs from the model',
                                'case': {'shape': list(s), 'clevel': u},
                                'impl': str(impl[k]), 'model': str(row)})
                    if len(dis) > 5:
                        return k, n_nontriv
                if max(impl[k][:4]) > 0:
                    n_nontriv += 1
                k += 1
    return k, n_nontriv


def helper_correspondence(ctx, dis):
    """_current_sc_dir / _current_lr_dir on all shapes 2..9 (thorough 2..16)."""
    from emg3d.solver import _current_sc_dir, _current_lr_dir

    class G:
        def __init__(self, s):
            self.shape_cells = s
    r = range(2, 17) if ctx.thorough else range(2, 10)
    shapes = list(itertools.product(r, r, r))
    impl = []
    for s in shapes:
        g = G(s)
        impl.append(tuple(int(_current_sc_dir(d, g)) for d in range(4))
                    + tuple(int(_current_lr_dir(d, g)) for d in range(8)))
    sl = '[' + '; '.join(f"({a},{b},{c})" for a, b, c in shapes) + ']'
    text = (K.CASE_HEADER + "From V Require Import Gen.SolverHelpers Model.Hierarchy.\n"
            "Definition row (s : shape) : list Z :=\n"
            "  map (fun d => current_sc_dir d (sx s) (sy s) (sz s)) [0;1;2;3] ++\n"
            "  map (fun d => current_lr_dir d (sx s) (sy s) (sz s)) [0;1;2;3;4;5;6;7].\n"
            f"Eval vm_compute in flat_map row {sl}.\n")
    rc, out = V.coq_eval('c05_h', text, timeout=1200)
    if rc != 0:
        dis.append({'what': 'helper model does not evaluate', 'log': out[-1200:]})
        return 0
    ints = [int(x) for x in re.findall(r'-?\d+', V.eval_answers(out)[0])]
    for i, s in enumerate(shapes):
        row = tuple(ints[12 * i:12 * i + 12])
        if row != impl[i]:
            dis.append({'what': '_current_sc_dir/_current_lr_dir differ from Gen.SolverHelpers',
                        'case': {'shape': list(s)}, 'impl': str(impl[i]), 'model': str(row)})
            break
    return len(shapes)


def correspondence(ctx):
    dis = []
    nt, nt_distinct, samples = trace_correspondence(ctx, 120 if ctx.thorough else 36, dis)
    np_, np_nontriv = table_correspondence(ctx, dis)
    nh = helper_correspondence(ctx, dis)
    from props import c05_flow
    nf, nfcalls, fsum = c05_flow.dataflow_correspondence(ctx, dis)
    ctx.notes.append(f"data-flow stream (Model/MGSem.v): {fsum}")
    return {
        'evaluations': nt + np_ + nh + nf,
        'distinct_nontrivial': nt_distinct + np_nontriv,
        'rule': "trace cases: random shape from {2,3,4,5,6,8,10,12}^3 x cycle x semicoarsening/linerelaxation "
                "(single digits, True, multi-digit patterns) x clevel x nu_* x maxit (plus 3 fixed), each a real "
                "emg3d.solve whose wrapped call trace is compared with outer_cycles; distinct = distinct "
                "(shape, cycle, sc, lr, clevel). Table cases: MGParameters(clevel table, coarsest grid) for every "
                "shape in the box x clevel in {-1,0,1,2,5}; non-trivial = at least one coarsening level. Helper "
                "cases: _current_sc_dir/_current_lr_dir for all shapes in a box x all codes. Data-flow cases: real "
                "solves (V/W/F, semicoarsening, line relaxation, stretched grids, anisotropy, Laplace/frequency) "
                "with wrapped multigrid/smoothing/restriction/prolongation: every call is handed the arrays the "
                "stack machine of Model/MGSem.v says; one real cycle leaves the exact discrete solution unchanged.",
        'samples': samples,
        'traces_validated_against_impl': nt,
        'histogram': {'trace_cases': nt, 'table_rows': np_, 'helper_shapes': nh, 'dataflow_cases': nf,
                      'dataflow_wrapped_calls': nfcalls},
        'exhaustive': bool(ctx.thorough),
        'disagreements': dis,
    }


# ------------------------------------------------------------------ searcher
def check_trace_property(shape, cfg):
    """Evaluate the PROPERTY (not the model) on the implementation's trace.
    Returns a hit dict or None."""
    try:
        ev, info = safe_trace(shape, cfg)
    except Crashed as e:
        return dict(signature='solver process aborted / raised on a legitimate configuration',
                    shape=list(shape), cfg={k: str(v) for k, v in cfg.items()}, observed=str(e)[:300])
    psc = pattern(cfg['semicoarsening'], [1, 2, 3], 3)

    def count(n):
        k = 0
        while n % 2 == 0 and n > 2:
            n //= 2
            k += 1
        return k
    cnt = [count(n) for n in shape]
    if cfg['clevel'] >= 0:
        cnt = [min(c, cfg['clevel']) for c in cnt]
    base = dict(shape=list(shape), cfg={k: str(v) for k, v in cfg.items()})
    # split into fine-grid cycles: a cycle ends with the level-0 post smoothing / prolong;
    # simpler: walk events and track the current cycle via restrict at level 0 / coarse at 0
    cyc_idx = 0
    depth_seen = set()
    prev_level0_R = False
    for e in ev:
        if e[0] == 'S':
            _, l, s, nu, kern = e
            if min(s) < 2:
                return dict(signature='level with fewer than two cells', **base, event=str(e))
            for d in range(3):
                if s[d] == 2 and kern[d + 1]:
                    return dict(signature='line relaxation along a two-cell direction', **base, event=str(e))
            depth_seen.add(l)
        if e[0] == 'R':
            _, l, sc = e
    # shapes: at level l every direction the pattern coarsens has n / 2^min(l, count) cells
    # (count from the UNCAPPED halving rule), every other direction keeps n
    def count_raw(n):
        k = 0
        while n % 2 == 0 and n > 2:
            n //= 2
            k += 1
        return k
    craw = [count_raw(n) for n in shape]
    # split the trace into fine-grid cycles: a cycle whose bottom level is 0 is a
    # single coarsest-level smoothing at level 0; any other cycle runs from a
    # restriction at level 0 to the matching prolongation at level 0
    ncyc = int(info['it_mg'])
    evs = list(ev)
    if cfg['nu_init'] > 0 and evs and evs[0][0] == 'S':
        evs = evs[1:]
    pos = 0
    for k in range(ncyc):
        sc = psc[k % len(psc)]
        dirs = {0: [0, 1, 2], 1: [1, 2], 2: [0, 2], 3: [0, 1]}[sc]
        bottom = max(cnt[d] for d in dirs)
        st = pos
        if pos >= len(evs):
            return dict(signature='fewer fine-grid cycles in the trace than reported', **base, cycle=k)
        if bottom == 0:
            if evs[pos][0] != 'S' or evs[pos][1] != 0:
                return dict(signature='recursion does not bottom out at the announced coarsest level',
                            **base, cycle=k, event=str(evs[pos]), expected_bottom=0)
            pos += 1
            continue
        while pos < len(evs) and not (evs[pos][0] == 'P' and evs[pos][1] == 0):
            pos += 1
        pos += 1
        if cfg['nu_post'] > 0:
            pos += 1
        seg = evs[st:pos]
        for e in seg:
            if e[0] == 'S':
                want_shape = tuple(shape[d] // 2 ** min(e[1], craw[d]) if d in dirs else shape[d]
                                   for d in range(3))
                if tuple(e[2]) != want_shape:
                    return dict(signature='shape at a level is not n / 2^min(level, halvings) in the '
                                          'coarsened directions', **base, cycle=k, level=e[1],
                                observed=list(e[2]), required=list(want_shape))
        mx = max(e[1] for e in seg)
        if mx != bottom:
            return dict(signature='recursion does not bottom out at the announced coarsest level',
                        **base, cycle=k, deepest_level=mx, expected=bottom)
        got = [(e[0], e[1]) for e in seg if e[0] in 'RP']
        want = [x for x in textbook_rp(cfg['cycle'], bottom, 0) if x[0] != 'C']
        if got != want:
            return dict(signature='levels not visited in the documented V/W/F order',
                        **base, cycle=k, observed=str(got), required=str(want))
    return None



def textbook_rp(cyc, k, l):
    """Documented V/W/F order as a sequence of ('R', l) / ('C', l) / ('P', l);
    k = levels below l.  One *visit* of level l."""
    def V(k, l):
        return [('C', l)] if k == 0 else [('R', l)] + V(k - 1, l + 1) + [('P', l)]

    def W(k, l):      # a call at level l: visits it twice (once if it is the coarsest)
        if k == 0:
            return [('C', l)]
        v = [('R', l)] + W(k - 1, l + 1) + [('P', l)]
        return v + v

    def F(k, l):      # a call at level l: F-visit then V-visit
        if k == 0:
            return [('C', l)]
        return ([('R', l)] + F(k - 1, l + 1) + [('P', l)]) + V(k, l)
    if k == 0:
        return [('C', l)]
    sub = {'V': V, 'W': W, 'F': F}[cyc](k - 1, l + 1)
    return [('R', l)] + sub + [('P', l)]


def check_order(shape, cfg, ev, info, cnt):
    """Level visiting order of every fine cycle against the textbook."""
    psc = pattern(cfg['semicoarsening'], [1, 2, 3], 3)
    seq = []
    cycles = []
    sc0 = []          # sc_dir of the level-0 restriction of every fine-grid cycle that has one
    depth = 0
    for e in ev:
        if e[0] == 'S' and e[1] == 0 and e[3] == cfg['nu_init'] and not seq and not cycles \
                and cfg['nu_init'] > 0 and depth == 0 and not any(x[0] == 'R' for x in seq):
            # initial smoothing precedes the first cycle
            if 'init_done' not in cfg:
                cfg = dict(cfg, init_done=True)
                continue
        if e[0] == 'R':
            if e[1] == 0:
                sc0.append(int(e[2]))
            seq.append(('R', e[1]))
        elif e[0] == 'P':
            seq.append(('P', e[1]))
            if e[1] == 0:
                cycles.append(seq)
                seq = []
    ncyc = int(info['it_mg'])
    for k in range(ncyc):
        scd = psc[k % len(psc)]
        dirs = {0: [0, 1, 2], 1: [1, 2], 2: [0, 2], 3: [0, 1]}[scd]
        bottom = max(cnt[d] for d in dirs)
        if bottom == 0:
            continue
        got_sc = sc0.pop(0) if sc0 else None
        if got_sc != scd:
            return dict(signature='semicoarsening direction does not advance once per fine-grid cycle',
                        shape=list(shape), cfg={a: str(b) for a, b in cfg.items() if a != 'init_done'},
                        cycle=k, observed=str(got_sc), required=str(scd))
        want = [x for x in textbook_rp(cfg['cycle'], bottom, 0) if x[0] != 'C']
        got = cycles.pop(0) if cycles else None
        if got != want:
            return dict(signature='levels not visited in the documented V/W/F order',
                        shape=list(shape), cfg={a: str(b) for a, b in cfg.items() if a != 'init_done'},
                        cycle=k, observed=str(got), required=str(want))
    return None


def search(ctx, broken):
    rng = ctx.rng
    n = 150 if ctx.thorough else 40
    hits = []
    base_cfg = dict(clevel=-1, nu_init=0, nu_pre=1, nu_coarse=1, nu_post=1, maxit=3, tol=1e-30)
    fixed = [((48, 5, 3), dict(base_cfg, cycle='F', semicoarsening=123, linerelaxation=4, clevel=2)),
             ((5, 3, 32), dict(base_cfg, cycle='F', semicoarsening=32, linerelaxation=0)),
             ((3, 16, 5), dict(base_cfg, cycle='W', semicoarsening=12, linerelaxation=7)),
             ((16, 8, 4), dict(base_cfg, cycle='F', semicoarsening=True, linerelaxation=True)),
             # multigrid as preconditioner: directions keep advancing across the calls
             ((8, 4, 6), dict(base_cfg, cycle='F', semicoarsening=True, linerelaxation=0, maxit=2,
                              sslsolver='bicgstab')),
             ((6, 8, 4), dict(base_cfg, cycle='V', semicoarsening=12, linerelaxation=456, maxit=2,
                              sslsolver='cgs'))]
    for t in range(n):
        shape = tuple(rng.choice([2, 3, 4, 5, 6, 7, 8, 10, 12, 16, 24, 32]) for _ in range(3))
        if shape[0] * shape[1] * shape[2] > 4000:
            shape = (shape[0], 4, 3)
        cfg = rand_cfg(rng)
        if rng.random() < 0.15:
            cfg.update(sslsolver=rng.choice(['bicgstab', 'cgs']), nu_init=0, maxit=rng.choice([1, 2]))
        if t < len(fixed):
            shape, cfg = fixed[t]
        try:
            h = check_trace_property(shape, cfg)
        except RecursionError:
            h = dict(signature='recursion does not terminate', shape=list(shape),
                     cfg={k: str(v) for k, v in cfg.items()})
        if h:
            hits.append(h)
            break
    ctx.notes.append(f"searcher: property evaluated on {n} real solver traces")
    if not hits and broken:
        from props import c05_flow
        hits = c05_flow.search_flow(ctx)
    return hits


def replay(ctx, payload):
    fi = payload.get('failing_input') or {}
    if 'shape' not in fi or 'cfg' not in fi:
        return False
    if 'widths' in fi:          # a data-flow / fixed-point hit (props/c05_flow.py)
        from props import c05_flow
        kind, val = c05_flow.run_case([fi['shape'], fi['widths'], fi['anisotropy'], fi['cfg'],
                                       fi['laplace'], fi['seed']])
        return kind == 'ok' and not val['problems']
    cfg = {}
    for k, v in fi['cfg'].items():
        if v in ('True', 'False'):
            cfg[k] = (v == 'True')
        elif k in ('cycle', 'sslsolver'):
            cfg[k] = v
        elif k == 'tol':
            cfg[k] = float(v)
        else:
            cfg[k] = int(v)
    return check_trace_property(tuple(fi['shape']), cfg) is None
