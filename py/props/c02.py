"""C02 -- matrix-free operator == finite-integration discretisation.

Theorems: coq/Props/C02.v (about Gen/CoreAmat.v, regenerated from core.py).
Correspondence: generated model on exact rationals vs core.amat_x (compiled and
.py_func) on dense random dyadic fields; VolumeModel coefficients vs the hand
model.  Searcher: independent vectorised numpy FIT operator, full edge basis.
"""
import itertools

import numpy as np

from vlib import core as V
from vlib import kernels as K

ID = 'C02'
LEVEL_TEXT = ("Theorems (Props/C02.v) about the kernel translated from core.py on every run: for "
              "every grid shape, all non-zero widths, all coefficient arrays and all fields, over any "
              "field of characteristic /= 2, amat_x subtracts exactly the finite-integration operator "
              "curl^T M_f curl - M_e (2-cell face / 4-cell edge averages), masks the lower PEC boundary, "
              "writes nothing else; its curl-curl part annihilates every discrete gradient; the operator is "
              "(complex-)symmetric, <A e, g> = <e, A g> for all PEC fields (3-D summation by parts). Unbounded "
              "in shape; tests sample one grid and one field.")
LEVEL_NOTE = ("Trusted: Coq kernel, py2coq translator (validated by running the generated model on exact "
              "rationals against the compiled kernel and its .py_func), Model/FIT.v as the spec "
              "(cross-checked by an independent numpy operator over the full edge basis). Rounding is "
              "not modelled (exact field arithmetic); 'jit agrees with source to rounding' and the "
              "VolumeModel coefficient formulas rest on correspondence.")
TECHNIQUE = "Coq proof (field/lia) over a model regenerated from source by a Python-ast translator"
DESIGN_REF = "DESIGN.md section 6 C02"
GEN = ['CoreAmat']
PROPS = 'Props/C02.v'
TRUSTED = ["Model/FIT.v is the specification of 'finite-integration operator' "
           "(cross-checked by the numpy searcher written from the property text)"]
ASSUMES = ["IEEE rounding not modelled: jit-vs-source agreement 'to rounding' is "
           "checked by correspondence with tolerance 1e-9 relative"]


# ------------------------------------------------------------ correspondence
def kernel_case(rng, shape, cplx):
    nx, ny, nz = shape
    d = K.dy(rng)
    hx = [K.dy_pos(rng) for _ in range(nx)]
    hy = [K.dy_pos(rng) for _ in range(ny)]
    hz = [K.dy_pos(rng) for _ in range(nz)]

    def cell():
        return K.rand_arr(rng, (nx, ny, nz), cplx, pos=True)
    eta = [cell(), cell(), cell()]
    zeta = K.rand_arr(rng, (nx, ny, nz), False, pos=True)
    e = K.rand_field(rng, shape, cplx, pec=True)
    r = K.rand_field(rng, shape, cplx, pec=False)
    return dict(shape=shape, cplx=cplx, hx=hx, hy=hy, hz=hz, eta=eta, zeta=zeta,
                e=e, r=r)


def run_impl(case, pyfunc=False):
    from emg3d import core
    dt = complex if case['cplx'] else float
    f = core.amat_x.py_func if pyfunc else core.amat_x
    r = [np.array(a, dtype=dt) for a in case['r']]
    e = [np.array(a, dtype=dt) for a in case['e']]
    eta = [np.array(a, dtype=dt) for a in case['eta']]
    zeta = np.array(case['zeta'], dtype=float)
    f(r[0], r[1], r[2], e[0], e[1], e[2], eta[0], eta[1], eta[2], zeta,
      np.array(case['hx'], float), np.array(case['hy'], float),
      np.array(case['hz'], float))
    return r


def coq_case(case):
    cplx = case['cplx']
    nx, ny, nz = case['shape']
    T = '(Q * Q)' if cplx else 'Q'
    a3 = (lambda a: K.coq_arr3(a, cplx))
    lines = [K.CASE_HEADER, "From V Require Import Gen.CoreAmat.",
             f"Definition nx := {nx}%Z. Definition ny := {ny}%Z. Definition nz := {nz}%Z."]
    for nm, a in zip(('rx', 'ry', 'rz'), case['r']):
        lines.append(f"Definition {nm} : Z -> Z -> Z -> {T} := {a3(a)}.")
    for nm, a in zip(('ex', 'ey', 'ez'), case['e']):
        lines.append(f"Definition {nm} : Z -> Z -> Z -> {T} := {a3(a)}.")
    for nm, a in zip(('eta_x', 'eta_y', 'eta_z'), case['eta']):
        lines.append(f"Definition {nm} : Z -> Z -> Z -> {T} := {a3(a)}.")
    lines.append(f"Definition zeta : Z -> Z -> Z -> {T} := {a3(K.as_type(case['zeta'], cplx))}.")
    for nm in ('hx', 'hy', 'hz'):
        lines.append(f"Definition {nm} : Z -> {T} := {K.coq_arr1(K.as_type(case[nm], cplx), cplx)}.")
    out = 'out_c' if cplx else 'out_q'
    lines.append("Definition res := amat_x nx ny nz rx ry rz ex ey ez eta_x eta_y eta_z zeta hx hy hz.")
    lines.append(f"Eval vm_compute in dump3 {out} nx (ny+1) (nz+1) (fst (fst res)).")
    lines.append(f"Eval vm_compute in dump3 {out} (nx+1) ny (nz+1) (snd (fst res)).")
    lines.append(f"Eval vm_compute in dump3 {out} (nx+1) (ny+1) nz (snd res).")
    return '\n'.join(lines) + '\n'


def volume_model_cases(ctx, n):
    """VolumeModel coefficients against Model/VolumeModel.v."""
    import emg3d
    rng = ctx.rng
    cases, texts = [], []
    for c in range(n):
        shape = tuple(rng.randint(2, 3) for _ in range(3))
        hs = [[K.dy_pos(rng) for _ in range(m)] for m in shape]
        # every third case at laboratory scale (centimetre cells, low frequency): there the
        # coefficients are ~1e-10 and smaller, far below any absolute tolerance
        small = (c % 3 == 2)
        if small:
            hs = [[h / 64.0 for h in row] for row in hs]
        grid = emg3d.TensorMesh(hs, (0, 0, 0))
        casek = (c + c // 4) % 4
        # all four (mu_r, epsilon_r) combinations in turn; every second case at a frequency /
        # Laplace parameter where the displacement term s eps0 eps_r is comparable to sigma
        has_mu, has_eps = bool((c // 2) & 1), bool((c // 2) & 2)
        if c >= 16:
            has_mu, has_eps = rng.random() < 0.5, rng.random() < 0.5
        lap = (c % 3 == 1) if c < 16 else rng.random() < 0.4
        freq = -K.dy_pos(rng) if lap else K.dy_pos(rng)
        if c % 2 == 0 and not small:
            freq *= 2.0**24 if not lap else 2.0**27
        if small:
            freq /= 256.0

        def prop():
            return np.array(K.rand_arr(rng, shape, False, pos=True), float)
        kw = dict(property_x=prop(), mapping='Conductivity')
        if casek in (1, 3):
            kw['property_y'] = prop()
        if casek in (2, 3):
            kw['property_z'] = prop()
        if has_mu:
            kw['mu_r'] = prop()
        if has_eps:
            kw['epsilon_r'] = prop()
        kw0 = {k: (np.array(v, copy=True) if isinstance(v, np.ndarray) else v) for k, v in kw.items()}
        model = emg3d.Model(grid, **kw)
        # the model has been USED before (a Laplace- and a frequency-domain VolumeModel at other
        # parameters, as in an s-/frequency sweep): the coefficients of the next use must not
        # depend on that, and building a VolumeModel must leave the model unchanged
        for fpre in (-2.0**27, 2.0**23):
            emg3d.models.VolumeModel(model, emg3d.Field(grid, frequency=fpre))
        sfield = emg3d.Field(grid, frequency=freq)
        vm = emg3d.models.VolumeModel(model, sfield)
        changed = [k for k in kw0 if isinstance(kw0[k], np.ndarray)
                   and not np.array_equal(getattr(model, k), kw0[k])]
        vol = np.multiply.outer(np.multiply.outer(hs[0], hs[1]), hs[2])
        cases.append(dict(shape=shape, case=casek, has_mu=has_mu, has_eps=has_eps,
                          freq=freq, kw=kw0, vm=vm, vol=vol, sfield=sfield, changed=changed))
    return cases


def check_volume_model(ctx, n, dis):
    """eta/zeta formulas and anisotropy aliasing, evaluated in Coq on Cx Q."""
    import scipy.constants as sc
    cases = volume_model_cases(ctx, n)
    texts = []
    for ci, c in enumerate(cases):
        sval, smu0 = complex(c['sfield'].sval), complex(c['sfield'].smu0)
        kw = c['kw']
        items = []
        for idx in itertools.product(*[range(m) for m in c['shape']]):
            vol = c['vol'][idx]
            cx = kw['property_x'][idx]
            cy = kw.get('property_y', kw['property_x'])[idx]
            cz = kw.get('property_z', kw['property_x'])[idx]
            er = kw['epsilon_r'][idx] if c['has_eps'] else 1.0
            mr = kw['mu_r'][idx] if c['has_mu'] else 1.0
            he = 'true' if c['has_eps'] else 'false'
            hm = 'true' if c['has_mu'] else 'false'
            args = f"{V.qc(smu0)} {V.qc(sval)} {V.qc(sc.epsilon_0)} {he} {V.qc(vol)}"
            ex = f"(eta_of {args} {V.qc(cx)} {V.qc(er)})"
            ey = f"(eta_of {args} {V.qc(cy)} {V.qc(er)})"
            ez = f"(eta_of {args} {V.qc(cz)} {V.qc(er)})"
            items.append(f"out_c {ex}; out_c (eta_y_sel {c['case']}%Z {ex} {ey}); "
                         f"out_c (eta_z_sel {c['case']}%Z {ex} {ez}); "
                         f"out_c (zeta_of {hm} {V.qc(vol)} {V.qc(mr)})")
        texts.append((f"c02_vm_{ci}", K.CASE_HEADER + "From V Require Import Model.VolumeModel.\n"
                      + "Eval vm_compute in [" + ';\n '.join(items) + "].\n"))
    res = V.coq_eval_many(texts)
    nontriv = 0
    for ci, c in enumerate(cases):
        rc, out = res[f"c02_vm_{ci}"]
        if rc != 0:
            dis.append({'what': 'VolumeModel model evaluation failed', 'log': out[-1500:]})
            continue
        vals = V.parse_cpairs(V.eval_answers(out)[0])
        vm = c['vm']
        if c.get('changed'):
            dis.append({'what': 'building VolumeModels changed the Model: ' + ', '.join(c['changed']),
                        'case': dict(shape=c['shape'], aniso=c['case'], has_mu=c['has_mu'],
                                     has_eps=c['has_eps'], freq=c['freq'])})
        k = 0
        ok = True
        for idx in itertools.product(*[range(m) for m in c['shape']]):
            impl = [vm.eta_x[idx], vm.eta_y[idx], vm.eta_z[idx], vm.zeta[idx]]
            for j in range(4):
                re_, im_ = vals[k]
                k += 1
                m = complex(float(re_), float(im_))
                if abs(complex(impl[j]) - m) > 1e-12 * max(abs(m), 1e-300):
                    ok = False
                    dis.append({'what': 'VolumeModel coefficient differs from eta/zeta formula',
                                'case': dict(shape=c['shape'], aniso=c['case'], has_mu=c['has_mu'],
                                             has_eps=c['has_eps'], freq=c['freq']),
                                'cell': idx, 'which': ['eta_x', 'eta_y', 'eta_z', 'zeta'][j],
                                'impl': str(impl[j]), 'model': str(m)})
                    break
            if not ok:
                break
        if c['case'] or c['has_mu'] or c['has_eps']:
            nontriv += 1
    return len(cases), nontriv, [dict(shape=c['shape'], aniso=c['case'], has_mu=c['has_mu'],
                                      has_eps=c['has_eps'], freq=c['freq']) for c in cases[:3]]


def correspondence(ctx):
    rng = ctx.rng
    n = 48 if ctx.thorough else 12
    shapes = [tuple(rng.randint(2, 4) for _ in range(3)) for _ in range(n)]
    if ctx.thorough:
        shapes[:8] = [(2, 2, 2), (2, 3, 4), (4, 3, 2), (3, 3, 3), (4, 4, 4), (2, 4, 2),
                      (5, 2, 3), (3, 2, 5)]
    cases = [kernel_case(rng, s, cplx=(i % 2 == 0)) for i, s in enumerate(shapes)]
    res = V.coq_eval_many([(f"c02_k_{i}", coq_case(c)) for i, c in enumerate(cases)])
    dis, seen = [], set()
    for i, c in enumerate(cases):
        rc, out = res[f"c02_k_{i}"]
        if rc != 0:
            dis.append({'what': 'generated model does not evaluate', 'log': out[-1500:]})
            continue
        ans = V.eval_answers(out)
        model = [K.parse_arr(a, c['cplx']) for a in ans]
        for tag, pyf in (('jit', False), ('py_func', True)):
            impl = run_impl(c, pyf)
            for comp in range(3):
                iv = impl[comp].ravel()
                mv = model[comp]
                if len(iv) != len(mv):
                    dis.append({'what': 'shape mismatch', 'case': K.brief(c)})
                    continue
                scale = max(1.0, float(np.max(np.abs(iv))))
                bad = [k for k in range(len(iv))
                       if abs(complex(iv[k]) - mv[k]) > 1e-9 * scale]
                if bad:
                    dis.append({'what': f'core.amat_x ({tag}) differs from Gen.CoreAmat.amat_x',
                                'case': K.brief(c), 'component': 'xyz'[comp],
                                'flat_index': bad[0], 'impl': str(iv[bad[0]]),
                                'model': str(mv[bad[0]])})
        seen.add((c['shape'], c['cplx']))
    nvm, nvm_nt, vm_samples = check_volume_model(ctx, 32 if ctx.thorough else 8, dis)
    return {
        'evaluations': len(cases) * 2 + nvm,
        'distinct_nontrivial': len(seen) + nvm_nt,
        'rule': "kernel cases: random shape 2..4^3 (thorough: plus fixed extremes), dyadic widths, "
                "dense random dyadic PEC field, random coefficients, real/complex alternating; "
                "distinct = distinct (shape, dtype); each runs compiled kernel and .py_func against "
                "the generated Coq model on exact rationals. VolumeModel cases: random anisotropy "
                "case/mu_r/eps_r/frequency-or-Laplace; non-trivial = not (isotropic, no mu_r, no eps_r)",
        'samples': [K.brief(c) for c in cases[:3]] + vm_samples,
        'traces_validated_against_impl': len(cases) * 2 + nvm,
        'disagreements': dis,
    }


# ------------------------------------------------------------------ searcher
def fit_apply(e, eta, zeta, hx, hy, hz):
    """Independent vectorised FIT operator on interior edges (zeros elsewhere)."""
    ex, ey, ez = e
    hx, hy, hz = (np.asarray(h, float) for h in (hx, hy, hz))
    nx, ny, nz = len(hx), len(hy), len(hz)
    HX, HY, HZ = hx[:, None, None], hy[None, :, None], hz[None, None, :]
    cx = (ez[:, 1:, :] - ez[:, :-1, :]) / HY - (ey[:, :, 1:] - ey[:, :, :-1]) / HZ
    cy = (ex[:, :, 1:] - ex[:, :, :-1]) / HZ - (ez[1:, :, :] - ez[:-1, :, :]) / HX
    cz = (ey[1:, :, :] - ey[:-1, :, :]) / HX - (ex[:, 1:, :] - ex[:, :-1, :]) / HY
    zp = np.pad(zeta, 1, mode='edge')
    mfx = 0.5 * (zp[:-1, 1:-1, 1:-1] + zp[1:, 1:-1, 1:-1])     # (nx+1, ny, nz)
    mfy = 0.5 * (zp[1:-1, :-1, 1:-1] + zp[1:-1, 1:, 1:-1])
    mfz = 0.5 * (zp[1:-1, 1:-1, :-1] + zp[1:-1, 1:-1, 1:])
    ux, uy, uz = mfx * cx, mfy * cy, mfz * cz
    ax = np.zeros_like(ex)
    ay = np.zeros_like(ey)
    az = np.zeros_like(ez)
    hyj, hym = hy[None, 1:, None], hy[None, :-1, None]
    hzk, hzm = hz[None, None, 1:], hz[None, None, :-1]
    hxi, hxm = hx[1:, None, None], hx[:-1, None, None]
    ax[:, 1:-1, 1:-1] = (uz[:, 1:, 1:-1] / hyj - uz[:, :-1, 1:-1] / hym
                         - uy[:, 1:-1, 1:] / hzk + uy[:, 1:-1, :-1] / hzm)
    ay[1:-1, :, 1:-1] = (ux[1:-1, :, 1:] / hzk - ux[1:-1, :, :-1] / hzm
                         - uz[1:, :, 1:-1] / hxi + uz[:-1, :, 1:-1] / hxm)
    az[1:-1, 1:-1, :] = (uy[1:, 1:-1, :] / hxi - uy[:-1, 1:-1, :] / hxm
                         - ux[1:-1, 1:, :] / hyj + ux[1:-1, :-1, :] / hym)
    etx, ety, etz = eta
    mex = 0.25 * (etx[:, :-1, :-1] + etx[:, :-1, 1:] + etx[:, 1:, :-1] + etx[:, 1:, 1:])
    mey = 0.25 * (ety[:-1, :, :-1] + ety[1:, :, :-1] + ety[:-1, :, 1:] + ety[1:, :, 1:])
    mez = 0.25 * (etz[:-1, :-1, :] + etz[1:, :-1, :] + etz[:-1, 1:, :] + etz[1:, 1:, :])
    ax[:, 1:-1, 1:-1] -= mex * ex[:, 1:-1, 1:-1]
    ay[1:-1, :, 1:-1] -= mey * ey[1:-1, :, 1:-1]
    az[1:-1, 1:-1, :] -= mez * ez[1:-1, 1:-1, :]
    return ax, ay, az


def impl_apply(e, eta, zeta, hx, hy, hz, pyfunc=False):
    from emg3d import core
    f = core.amat_x.py_func if pyfunc else core.amat_x
    r = [np.zeros_like(a) for a in e]
    f(r[0], r[1], r[2], e[0], e[1], e[2], eta[0], eta[1], eta[2], zeta,
      np.asarray(hx, float), np.asarray(hy, float), np.asarray(hz, float))
    return [-a for a in r]


def interior_masks(shape):
    nx, ny, nz = shape
    mx = np.zeros((nx, ny + 1, nz + 1), bool)
    mx[:, 1:-1, 1:-1] = True
    my = np.zeros((nx + 1, ny, nz + 1), bool)
    my[1:-1, :, 1:-1] = True
    mz = np.zeros((nx + 1, ny + 1, nz), bool)
    mz[1:-1, 1:-1, :] = True
    return mx, my, mz


def search_case(rng, shape, cplx, aniso, np_seed=None):
    """Compare implementation and independent operator on the full PEC edge
    basis of one random problem.  Returns a failing-input dict or None."""
    nx, ny, nz = shape
    if np_seed is None:
        np_seed = rng.randint(0, 2**31 - 1)
    npr = np.random.RandomState(np_seed)
    hs = [npr.uniform(0.5, 3.0, m) for m in shape]
    dt = complex if cplx else float

    def cell():
        a = npr.uniform(0.1, 5.0, shape)
        return (a * (1 + 1j * npr.uniform(-1, 1, shape))).astype(dt) if cplx else a
    etx = cell()
    ety = cell() if aniso in (1, 3) else etx
    etz = cell() if aniso in (2, 3) else etx
    eta = (etx, ety, etz)
    zeta = npr.uniform(0.2, 4.0, shape)
    masks = interior_masks(shape)
    sizes = [m.size for m in masks]
    idxs = [(c, k) for c in range(3) for k in np.flatnonzero(masks[c].ravel())]
    cols = {}
    for (c, k) in idxs:
        e = [np.zeros(m.shape, dt) for m in masks]
        e[c].ravel()[k] = 1.0
        a_i = impl_apply(e, eta, zeta, *hs)
        a_s = fit_apply(e, eta, zeta, *hs)
        for cc in range(3):
            d = np.abs(a_i[cc] - a_s[cc]) * masks[cc]
            scale = max(1.0, np.max(np.abs(a_s[cc])))
            if np.max(d) > 1e-10 * scale:
                kk = int(np.argmax(d))
                return {'signature': 'amat_x != FIT operator on a basis field',
                        'shape': shape, 'complex': cplx, 'aniso': aniso,
                        'hx': [float.hex(x) for x in hs[0]], 'hy': [float.hex(x) for x in hs[1]],
                        'hz': [float.hex(x) for x in hs[2]],
                        'basis': {'component': 'xyz'[c], 'flat_index': int(k)},
                        'row': {'component': 'xyz'[cc], 'flat_index': kk},
                        'impl': str(a_i[cc].ravel()[kk]), 'required': str(a_s[cc].ravel()[kk]),
                        'np_seed': np_seed}
        cols[(c, k)] = np.concatenate([(a_i[cc] * masks[cc]).ravel() for cc in range(3)])
    # complex symmetry of the implementation's matrix on interior edges
    offs = np.cumsum([0] + sizes)
    pos = [offs[c] + k for (c, k) in idxs]
    M = np.array([[cols[j][p] for j in idxs] for p in pos])
    asym = np.max(np.abs(M - M.T))
    if asym > 1e-10 * max(1.0, np.max(np.abs(M))):
        return {'signature': 'operator matrix not symmetric', 'shape': shape,
                'complex': cplx, 'aniso': aniso, 'max_asym': float(asym), 'np_seed': np_seed}
    # gradient null space (eta = 0)
    phi = npr.uniform(-1, 1, (nx + 1, ny + 1, nz + 1))
    phi[0] = phi[-1] = 0
    phi[:, 0] = phi[:, -1] = 0
    phi[:, :, 0] = phi[:, :, -1] = 0
    g = [np.diff(phi, axis=0) / hs[0][:, None, None],
         np.diff(phi, axis=1) / hs[1][None, :, None],
         np.diff(phi, axis=2) / hs[2][None, None, :]]
    g = [a.astype(dt) for a in g]
    z0 = np.zeros(shape, dt)
    a_i = impl_apply(g, (z0, z0, z0), zeta, *hs)
    for cc in range(3):
        if np.max(np.abs(a_i[cc] * masks[cc])) > 1e-9 * max(1.0, np.max(np.abs(phi))) * 50:
            return {'signature': 'curl-curl part does not annihilate a discrete gradient',
                    'shape': shape, 'complex': cplx, 'aniso': aniso, 'np_seed': np_seed}
    return None


def search_volume_model(rng):
    """VolumeModel coefficients against the documented formulas
    eta = -s mu0 V (sigma + s eps0 eps_r), zeta = V / mu_r (numpy oracle)."""
    import emg3d
    import scipy.constants as sc
    npr = np.random.RandomState(rng.randint(0, 2**31 - 1))
    for freq, scale in ((1.0, 1.0), (2e7, 1.0), (-2.5, 1.0), (-1e8, 1.0), (0.01, 1.0),
                        (0.004, 1 / 64.0), (-0.01, 1 / 64.0)):
        for casek in range(4):
            for has_mu, has_eps in ((False, False), (True, False), (False, True), (True, True)):
                shape = (2, 3, 2)
                hs = [npr.uniform(0.5, 3.0, n) * scale for n in shape]
                grid = emg3d.TensorMesh(hs, (0, 0, 0))
                kw = dict(property_x=npr.uniform(0.1, 5, shape), mapping='Conductivity')
                if casek in (1, 3):
                    kw['property_y'] = npr.uniform(0.1, 5, shape)
                if casek in (2, 3):
                    kw['property_z'] = npr.uniform(0.1, 5, shape)
                if has_mu:
                    kw['mu_r'] = npr.uniform(0.5, 2, shape)
                if has_eps:
                    kw['epsilon_r'] = npr.uniform(1, 80, shape)
                kw0 = {k: (np.array(v, copy=True) if isinstance(v, np.ndarray) else v) for k, v in kw.items()}
                model = emg3d.Model(grid, **kw)
                # earlier uses of the same model (s- / frequency sweep) must not matter
                for fpre in (-2.0**27, 2.0**23):
                    emg3d.models.VolumeModel(model, emg3d.Field(grid, frequency=fpre))
                sf = emg3d.Field(grid, frequency=freq)
                vm = emg3d.models.VolumeModel(model, sf)
                kw = kw0
                for k in kw0:
                    if isinstance(kw0[k], np.ndarray) and not np.array_equal(getattr(model, k), kw0[k]):
                        return {'signature': 'building a VolumeModel changed the Model', 'which': k,
                                'frequency': freq, 'aniso': casek, 'mu_r': has_mu, 'epsilon_r': has_eps,
                                'history': 'VolumeModel at s=2^27 (Laplace), at f=2^23 Hz, then at the frequency given'}
                s = complex(sf.sval)
                vol = np.multiply.outer(np.multiply.outer(hs[0], hs[1]), hs[2])
                eps = kw.get('epsilon_r', 0.0) if has_eps else 0.0
                want = {}
                sig = {'x': kw['property_x'], 'y': kw.get('property_y', kw['property_x']),
                       'z': kw.get('property_z', kw['property_x'])}
                for d in 'xyz':
                    want['eta_' + d] = -s * sc.mu_0 * vol * (sig[d] + s * sc.epsilon_0 * eps)
                want['zeta'] = vol / kw['mu_r'] if has_mu else vol
                for nm, w in want.items():
                    got = np.asarray(getattr(vm, nm), complex)
                    if np.max(np.abs(got - w)) > 1e-10 * np.max(np.abs(w)):
                        k = np.unravel_index(np.argmax(np.abs(got - w)), w.shape)
                        return {'signature': 'VolumeModel coefficient differs from -s mu0 V (sigma + s eps0 eps_r) / V/mu_r',
                                'which': nm, 'frequency': freq, 'aniso': casek, 'mu_r': has_mu,
                                'epsilon_r': has_eps, 'cell': [int(x) for x in k],
                                'observed': str(got[k]), 'required': str(w[k])}
    return None


def search(ctx, broken):
    rng = ctx.rng
    n = 60 if ctx.thorough else 25
    hits = []
    h = search_volume_model(rng)
    if h:
        return [h]
    combos = [((2, 2, 2), False, 0), ((3, 2, 4), True, 3), ((4, 4, 3), True, 1),
              ((3, 5, 2), False, 2)]
    while len(combos) < n:
        combos.append((tuple(rng.randint(2, 5) for _ in range(3)), rng.random() < 0.5,
                       rng.randint(0, 3)))
    for shape, cplx, aniso in combos:
        h = search_case(rng, shape, cplx, aniso)
        if h:
            hits.append(h)
            break
    ctx.notes.append(f"searcher: {len(combos)} (shape,dtype,aniso) problems, full interior edge basis each")
    return hits


def replay(ctx, payload):
    fi = payload.get('failing_input')
    if fi and fi.get('signature', '').startswith('VolumeModel'):
        return search_volume_model(ctx.rng) is None
    if not fi or 'shape' not in fi:
        return False
    h = search_case(ctx.rng, tuple(fi['shape']), fi['complex'], fi['aniso'], fi.get('np_seed'))
    return h is None
