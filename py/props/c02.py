"""C02 -- matrix-free operator == finite-integration discretisation.

Theorems: coq/Props/C02.v (about Gen/CoreAmat.v, regenerated from core.py).
Correspondence: generated model on exact rationals vs core.amat_x (compiled and
.py_func) on dense random dyadic fields; VolumeModel coefficients vs the hand
model; histories on ONE Model object (setter / in-place / augmented / failing
writes, a VolumeModel after every step) vs Model/ModelHist.v.
Searcher: independent vectorised numpy FIT operator, full edge basis; numpy
oracle tracking the current arrays through the same kind of histories.
"""
import itertools

import numpy as np

from vlib import core as V
from vlib import kernels as K

ID = 'C02'
LEVEL_TEXT = ("Theorems (Props/C02.v) about the kernel translated from core.py on every run: for "
              "every grid shape, all non-zero widths, all coefficient arrays and all fields, over any "
              "field of characteristic /= 2, amat_x subtracts exactly the finite-integration operator "
              "curl^T M_f curl - M_e (2-cell face / 4-cell edge averages), masks the lower PEC boundary, "
              "writes nothing else; its curl-curl part annihilates every discrete gradient; the operator is "
              "(complex-)symmetric, <A e, g> = <e, A g> for all PEC fields (3-D summation by parts). Unbounded "
              "in shape; tests sample one grid and one field. Round 6: a state machine of ONE Model object "
              "(Model/ModelHist.v: setter, in-place write through the getter, augmented assignment, VolumeModel "
              "construction, each with its failure outcome) with theorems for ALL states and histories: the "
              "VolumeModel built after any history returns the coefficient formulas on the arrays left by the "
              "write operations alone (builds leave no trace, no hidden state), rejected / impossible writes leave "
              "the Model unchanged, setter = full in-place write, coefficients are cell-local, an in-place write "
              "to mu_r / property_x reaches the next zeta / eta, zeta = V iff mu_r = 1 in that cell.")
LEVEL_NOTE = ("Trusted: Coq kernel, py2coq translator (validated by running the generated model on exact "
              "rationals against the compiled kernel and its .py_func), Model/FIT.v as the spec "
              "(cross-checked by an independent numpy operator over the full edge basis). Rounding is "
              "not modelled (exact field arithmetic); 'jit agrees with source to rounding' and the "
              "VolumeModel coefficient formulas rest on correspondence. Model/ModelHist.v is a hand model: it is "
              "tied to models.py by the history stream (one Model per history, a VolumeModel after every step, "
              "every outcome and coefficient compared on exact rationals); finite dyadic values only (non-finite "
              "values and the log maps are C14's), Conductivity and Resistivity mappings.")
TECHNIQUE = "Coq proof (field/lia) over a model regenerated from source by a Python-ast translator"
DESIGN_REF = "DESIGN.md section 6 C02"
GEN = ['CoreAmat']
PROPS = 'Props/C02.v'
TRUSTED = ["Model/FIT.v is the specification of 'finite-integration operator' "
           "(cross-checked by the numpy searcher written from the property text)",
           "Model/ModelHist.v (hand model of Model/VolumeModel as a state machine) is tied to models.py by "
           "the history correspondence stream and cross-checked by the numpy history oracle of the searcher"]
ASSUMES = ["IEEE rounding not modelled: jit-vs-source agreement 'to rounding' is "
           "checked by correspondence with tolerance 1e-9 relative"]


# ------------------------------------------------------------ correspondence
def kernel_case(rng, shape, cplx):
    nx, ny, nz = shape
    d = K.dy(rng)
    hx = [K.dy_pos(rng) for _ in range(nx)]
    hy = [K.dy_pos(rng) for _ in range(ny)]
    hz = [K.dy_pos(rng) for _ in range(nz)]

    def cell():
        return K.rand_arr(rng, (nx, ny, nz), cplx, pos=True)
    eta = [cell(), cell(), cell()]
    zeta = K.rand_arr(rng, (nx, ny, nz), False, pos=True)
    e = K.rand_field(rng, shape, cplx, pec=True)
    r = K.rand_field(rng, shape, cplx, pec=False)
    return dict(shape=shape, cplx=cplx, hx=hx, hy=hy, hz=hz, eta=eta, zeta=zeta,
                e=e, r=r)


def run_impl(case, pyfunc=False):
    from emg3d import core
    dt = complex if case['cplx'] else float
    f = core.amat_x.py_func if pyfunc else core.amat_x
    r = [np.array(a, dtype=dt) for a in case['r']]
    e = [np.array(a, dtype=dt) for a in case['e']]
    eta = [np.array(a, dtype=dt) for a in case['eta']]
    zeta = np.array(case['zeta'], dtype=float)
    f(r[0], r[1], r[2], e[0], e[1], e[2], eta[0], eta[1], eta[2], zeta,
      np.array(case['hx'], float), np.array(case['hy'], float),
      np.array(case['hz'], float))
    return r


def coq_case(case):
    cplx = case['cplx']
    nx, ny, nz = case['shape']
    T = '(Q * Q)' if cplx else 'Q'
    a3 = (lambda a: K.coq_arr3(a, cplx))
    lines = [K.CASE_HEADER, "From V Require Import Gen.CoreAmat.",
             f"Definition nx := {nx}%Z. Definition ny := {ny}%Z. Definition nz := {nz}%Z."]
    for nm, a in zip(('rx', 'ry', 'rz'), case['r']):
        lines.append(f"Definition {nm} : Z -> Z -> Z -> {T} := {a3(a)}.")
    for nm, a in zip(('ex', 'ey', 'ez'), case['e']):
        lines.append(f"Definition {nm} : Z -> Z -> Z -> {T} := {a3(a)}.")
    for nm, a in zip(('eta_x', 'eta_y', 'eta_z'), case['eta']):
        lines.append(f"Definition {nm} : Z -> Z -> Z -> {T} := {a3(a)}.")
    lines.append(f"Definition zeta : Z -> Z -> Z -> {T} := {a3(K.as_type(case['zeta'], cplx))}.")
    for nm in ('hx', 'hy', 'hz'):
        lines.append(f"Definition {nm} : Z -> {T} := {K.coq_arr1(K.as_type(case[nm], cplx), cplx)}.")
    out = 'out_c' if cplx else 'out_q'
    lines.append("Definition res := amat_x nx ny nz rx ry rz ex ey ez eta_x eta_y eta_z zeta hx hy hz.")
    lines.append(f"Eval vm_compute in dump3 {out} nx (ny+1) (nz+1) (fst (fst res)).")
    lines.append(f"Eval vm_compute in dump3 {out} (nx+1) ny (nz+1) (snd (fst res)).")
    lines.append(f"Eval vm_compute in dump3 {out} (nx+1) (ny+1) nz (snd res).")
    return '\n'.join(lines) + '\n'


def volume_model_cases(ctx, n):
    """VolumeModel coefficients against Model/VolumeModel.v."""
    import emg3d
    rng = ctx.rng
    cases, texts = [], []
    for c in range(n):
        shape = tuple(rng.randint(2, 3) for _ in range(3))
        hs = [[K.dy_pos(rng) for _ in range(m)] for m in shape]
        # every third case at laboratory scale (centimetre cells, low frequency): there the
        # coefficients are ~1e-10 and smaller, far below any absolute tolerance
        small = (c % 3 == 2)
        if small:
            hs = [[h / 64.0 for h in row] for row in hs]
        grid = emg3d.TensorMesh(hs, (0, 0, 0))
        casek = (c + c // 4) % 4
        # all four (mu_r, epsilon_r) combinations in turn; every second case at a frequency /
        # Laplace parameter where the displacement term s eps0 eps_r is comparable to sigma
        has_mu, has_eps = bool((c // 2) & 1), bool((c // 2) & 2)
        if c >= 16:
            has_mu, has_eps = rng.random() < 0.5, rng.random() < 0.5
        lap = (c % 3 == 1) if c < 16 else rng.random() < 0.4
        freq = -K.dy_pos(rng) if lap else K.dy_pos(rng)
        if c % 2 == 0 and not small:
            freq *= 2.0**24 if not lap else 2.0**27
        if small:
            freq /= 256.0

        def prop():
            return np.array(K.rand_arr(rng, shape, False, pos=True), float)
        kw = dict(property_x=prop(), mapping='Conductivity')
        if casek in (1, 3):
            kw['property_y'] = prop()
        if casek in (2, 3):
            kw['property_z'] = prop()
        if has_mu:
            kw['mu_r'] = prop()
        if has_eps:
            kw['epsilon_r'] = prop()
        kw0 = {k: (np.array(v, copy=True) if isinstance(v, np.ndarray) else v) for k, v in kw.items()}
        model = emg3d.Model(grid, **kw)
        # the model has been USED before (a Laplace- and a frequency-domain VolumeModel at other
        # parameters, as in an s-/frequency sweep): the coefficients of the next use must not
        # depend on that, and building a VolumeModel must leave the model unchanged
        for fpre in (-2.0**27, 2.0**23):
            emg3d.models.VolumeModel(model, emg3d.Field(grid, frequency=fpre))
        sfield = emg3d.Field(grid, frequency=freq)
        vm = emg3d.models.VolumeModel(model, sfield)
        changed = [k for k in kw0 if isinstance(kw0[k], np.ndarray)
                   and not np.array_equal(getattr(model, k), kw0[k])]
        vol = np.multiply.outer(np.multiply.outer(hs[0], hs[1]), hs[2])
        cases.append(dict(shape=shape, case=casek, has_mu=has_mu, has_eps=has_eps,
                          freq=freq, kw=kw0, vm=vm, vol=vol, sfield=sfield, changed=changed))
    return cases


def check_volume_model(ctx, n, dis):
    """eta/zeta formulas and anisotropy aliasing, evaluated in Coq on Cx Q."""
    import scipy.constants as sc
    cases = volume_model_cases(ctx, n)
    texts = []
    for ci, c in enumerate(cases):
        sval, smu0 = complex(c['sfield'].sval), complex(c['sfield'].smu0)
        kw = c['kw']
        items = []
        for idx in itertools.product(*[range(m) for m in c['shape']]):
            vol = c['vol'][idx]
            cx = kw['property_x'][idx]
            cy = kw.get('property_y', kw['property_x'])[idx]
            cz = kw.get('property_z', kw['property_x'])[idx]
            er = kw['epsilon_r'][idx] if c['has_eps'] else 1.0
            mr = kw['mu_r'][idx] if c['has_mu'] else 1.0
            he = 'true' if c['has_eps'] else 'false'
            hm = 'true' if c['has_mu'] else 'false'
            args = f"{V.qc(smu0)} {V.qc(sval)} {V.qc(sc.epsilon_0)} {he} {V.qc(vol)}"
            ex = f"(eta_of {args} {V.qc(cx)} {V.qc(er)})"
            ey = f"(eta_of {args} {V.qc(cy)} {V.qc(er)})"
            ez = f"(eta_of {args} {V.qc(cz)} {V.qc(er)})"
            items.append(f"out_c {ex}; out_c (eta_y_sel {c['case']}%Z {ex} {ey}); "
                         f"out_c (eta_z_sel {c['case']}%Z {ex} {ez}); "
                         f"out_c (zeta_of {hm} {V.qc(vol)} {V.qc(mr)})")
        texts.append((f"c02_vm_{ci}", K.CASE_HEADER + "From V Require Import Model.VolumeModel.\n"
                      + "Eval vm_compute in [" + ';\n '.join(items) + "].\n"))
    res = V.coq_eval_many(texts)
    nontriv = 0
    for ci, c in enumerate(cases):
        rc, out = res[f"c02_vm_{ci}"]
        if rc != 0:
            dis.append({'what': 'VolumeModel model evaluation failed', 'log': out[-1500:]})
            continue
        vals = V.parse_cpairs(V.eval_answers(out)[0])
        vm = c['vm']
        if c.get('changed'):
            dis.append({'what': 'building VolumeModels changed the Model: ' + ', '.join(c['changed']),
                        'case': dict(shape=c['shape'], aniso=c['case'], has_mu=c['has_mu'],
                                     has_eps=c['has_eps'], freq=c['freq'])})
        k = 0
        ok = True
        for idx in itertools.product(*[range(m) for m in c['shape']]):
            impl = [vm.eta_x[idx], vm.eta_y[idx], vm.eta_z[idx], vm.zeta[idx]]
            for j in range(4):
                re_, im_ = vals[k]
                k += 1
                m = complex(float(re_), float(im_))
                if abs(complex(impl[j]) - m) > 1e-12 * max(abs(m), 1e-300):
                    ok = False
                    dis.append({'what': 'VolumeModel coefficient differs from eta/zeta formula',
                                'case': dict(shape=c['shape'], aniso=c['case'], has_mu=c['has_mu'],
                                             has_eps=c['has_eps'], freq=c['freq']),
                                'cell': idx, 'which': ['eta_x', 'eta_y', 'eta_z', 'zeta'][j],
                                'impl': str(impl[j]), 'model': str(m)})
                    break
            if not ok:
                break
        if c['case'] or c['has_mu'] or c['has_eps']:
            nontriv += 1
    return len(cases), nontriv, [dict(shape=c['shape'], aniso=c['case'], has_mu=c['has_mu'],
                                      has_eps=c['has_eps'], freq=c['freq']) for c in cases[:3]]


# ------------------------------------------------- history stream (round 6)
# ONE Model object is driven through a history of public operations (setter,
# in-place write through the getter, augmented assignment, failing variants of
# these) with a VolumeModel built after every step; every outcome and every
# coefficient is compared with Model/ModelHist.v evaluated on the same history
# (correspondence) and with an independent numpy oracle that tracks the current
# arrays (searcher).  A history is a pure function of (ci, hseed).
H_PN = ['property_x', 'property_y', 'property_z', 'mu_r', 'epsilon_r']
H_COQ = ['PX', 'PY', 'PZ', 'PMu', 'PEps']
H_AOP = {'mul': ('AMul', '*='), 'add': ('AAdd', '+='), 'sub': ('ASub', '-='), 'div': ('ADiv', '/=')}
# option classes of the first eight histories: (anisotropy case, Resistivity?, mu_r form,
# epsilon_r form); forms: 'one' scalar placeholder 1.0, 'ones' array of ones, 'rand', None
H_CLASSES = [(0, False, 'one', None), (1, True, 'ones', 'one'), (2, False, 'rand', 'rand'),
             (3, True, 'one', 'ones'), (3, False, None, 'one'), (0, True, 'one', 'rand'),
             (1, False, 'rand', None), (2, True, 'ones', 'ones')]
H_FORMS = ['one', 'ones', 'rand', None]
H_WAYS = ['slice', 'set_array', 'aug', 'set_scalar']
H_SLICES = ['[:, :, 1:]', '[0, 0, 0]', '[..., -1]', '[1:, :, :]', '[:]', '[:, 1, :]', 'mask']


def _h_index(name, shape, r):
    if name == 'mask':
        m = np.zeros(shape, bool)
        while not m.any():
            for idx in itertools.product(*[range(k) for k in shape]):
                m[idx] = r.random() < 0.4
        return m
    return eval('np.s_' + name)


def history_script(ci, hseed, nrounds=2):
    """The history as data: construction arguments and a list of operations."""
    import random
    r = random.Random(hseed * 1009 + ci)
    if ci < len(H_CLASSES):
        casek, resist, mu_form, eps_form = H_CLASSES[ci]
    else:
        casek, resist = r.randint(0, 3), r.random() < 0.5
        mu_form, eps_form = r.choice(H_FORMS), r.choice(H_FORMS)
    shape = (2, r.randint(2, 3), 2)
    hs = [[K.dy_pos(r) for _ in range(m)] for m in shape]
    if ci % 4 == 3:                                   # laboratory scale
        hs = [[h / 64.0 for h in row] for row in hs]

    def arr(lo=1):
        a = np.zeros(shape)
        for idx in itertools.product(*[range(m) for m in shape]):
            a[idx] = r.randint(lo, 48) / 8.0
        return a

    def form(f):
        return {'one': 1.0, 'ones': np.ones(shape), 'rand': arr(), None: None}[f]
    init = {'property_x': arr()}
    # placeholders: the anisotropic properties start as copies of property_x in odd classes
    if casek in (1, 3):
        init['property_y'] = init['property_x'].copy() if ci % 2 else arr()
    if casek in (2, 3):
        init['property_z'] = init['property_x'].copy() if ci % 2 else arr()
    init['mu_r'] = form(mu_form)
    init['epsilon_r'] = form(eps_form)
    freqs = [K.dy_pos(r) * (2.0**22 if ci % 2 == 0 else 1.0) / (256.0 if ci % 4 == 3 else 1.0),
             -K.dy_pos(r) * (2.0**25 if ci % 2 == 0 else 1.0)]
    ops = [('build', 0)]
    nb = 1
    rejected_at = r.randint(0, 5 * nrounds - 1)
    n = 0
    for rnd in range(nrounds):
        order = list(range(5))
        r.shuffle(order)
        for pi in order:
            way = H_WAYS[(ci + rnd + pi) % 4]
            if way == 'slice':
                sl = H_SLICES[r.randint(0, len(H_SLICES) - 1)]
                index = _h_index(sl, shape, r)
                scalar = r.random() < 0.4
                val = r.randint(9, 48) / 8.0 if scalar else arr(9)[index]
                if np.ndim(val) == 0:
                    val = float(val)
                ops.append(('slice', pi, sl, index, val))
            elif way == 'set_array':
                a = arr(9)
                ops.append(('set', pi, a.tolist() if r.random() < 0.3 else
                            (np.ascontiguousarray(a) if r.random() < 0.5 else np.asfortranarray(a))))
            elif way == 'set_scalar':
                ops.append(('set', pi, r.randint(9, 48) / 8.0))
            else:
                f = ['mul', 'add', 'sub', 'div'][r.randint(0, 3)]
                k = {'mul': r.choice([0.5, 2.0, 1.5, 0.75]), 'add': r.randint(1, 16) / 8.0,
                     'sub': 1.0 / 16.0, 'div': r.choice([0.5, 2.0, 4.0])}[f]
                ops.append(('aug', pi, f, k))
            ops.append(('build', nb % 2))
            nb += 1
            if n == rejected_at:
                # fault paths: a rejected assignment (one non-positive value); in every fourth
                # class also a rejected augmented assignment (stored all the same) and a repair
                bad = arr(9)
                bad[tuple(r.randint(0, m - 1) for m in shape)] = r.choice([0.0, -1.5])
                ops += [('set', pi, bad), ('build', nb % 2)]
                nb += 1
                if ci % 4 == 1:
                    ops += [('aug', pi, 'sub', 64.0), ('build', nb % 2), ('set', pi, arr(9)),
                            ('build', (nb + 1) % 2)]
                    nb += 2
            n += 1
    return dict(ci=ci, hseed=hseed, casek=casek, resist=resist, mu_form=mu_form,
                eps_form=eps_form, shape=shape, hs=hs, init=init, freqs=freqs, ops=ops)


def _h_describe(op, freqs):
    if op[0] == 'build':
        return f"VolumeModel(model, Field(grid, frequency={freqs[op[1]]!r}))"
    nm = H_PN[op[1]]
    if op[0] == 'slice':
        v = op[4]
        where = f"[np.array({np.asarray(op[3]).tolist()!r})]" if op[2] == 'mask' else op[2]
        return f"model.{nm}{where} = " + \
               (repr(v) if np.isscalar(v) else repr(np.asarray(v).tolist()))
    if op[0] == 'set':
        v = op[2]
        return f"model.{nm} = " + (repr(v) if np.isscalar(v) else repr(np.asarray(v).tolist()))
    return f"model.{nm} {H_AOP[op[2]][1]} {op[3]!r}"


def history_run_impl(sc, observe=True):
    """Drive the real emg3d.Model through the history.  Returns per step
    (code, coefficients or None, copies of the model's arrays).  With
    observe=False the model's attributes are NOT read between the steps (reading
    goes through the public getters and could itself refresh stale state): the
    arrays are then only recorded after the last step."""
    import operator
    import emg3d
    grid = emg3d.TensorMesh(sc['hs'], (0, 0, 0))
    kw = {k: (v.copy() if isinstance(v, np.ndarray) else v) for k, v in sc['init'].items()
          if v is not None}
    model = emg3d.Model(grid, mapping='Resistivity' if sc['resist'] else 'Conductivity', **kw)
    fields = [emg3d.Field(grid, frequency=f) for f in sc['freqs']]
    imap = {'mul': operator.imul, 'add': operator.iadd, 'sub': operator.isub,
            'div': operator.itruediv}
    out, vms = [], []
    for op in sc['ops']:
        code, co = 0, None
        try:
          with np.errstate(divide='ignore'):
            if op[0] == 'build':
                vm = emg3d.models.VolumeModel(model, fields[op[1]])
                co = [np.array(getattr(vm, nm), dtype=complex, copy=True)
                      for nm in ('eta_x', 'eta_y', 'eta_z', 'zeta')]
                vms.append((vm, co))
                code = 3
            elif op[0] == 'slice':
                getattr(model, H_PN[op[1]])[op[3]] = op[4]
            elif op[0] == 'set':
                v = op[2]
                setattr(model, H_PN[op[1]], v.copy() if isinstance(v, np.ndarray) else v)
            else:
                # what Python does for `model.p f= k`
                setattr(model, H_PN[op[1]], imap[op[2]](getattr(model, H_PN[op[1]]), op[3]))
        except TypeError:
            code = 2
        except ValueError as e:
            code = 2 if 'initiated without' in str(e) else 1
        arrays = None
        if observe or len(out) == len(sc['ops']) - 1:
            arrays = [None if getattr(model, nm) is None else np.array(getattr(model, nm), copy=True)
                      for nm in H_PN]
        out.append((code, co, arrays))
    # VolumeModels built earlier must not have changed through later operations
    stale = [i for i, (vm, co) in enumerate(vms)
             if any(not np.array_equal(np.asarray(getattr(vm, nm), complex), c)
                    for nm, c in zip(('eta_x', 'eta_y', 'eta_z', 'zeta'), co))]
    return out, fields, stale


def _h_full(v, shape):
    return np.ones(shape) * np.asarray(v, float)


def history_coq(sc, fields):
    """Corr file: Model/ModelHist.v run on the same history (Cx Q)."""
    import scipy.constants as spc
    shape = sc['shape']

    def lst(a):
        return '[' + '; '.join(V.qc(x) for x in np.asarray(a, float).ravel(order='F')) + ']'

    def opt(v):
        return 'None' if v is None else f"(Some {lst(_h_full(v, shape))})"
    vol = np.multiply.outer(np.multiply.outer(sc['hs'][0], sc['hs'][1]), sc['hs'][2])
    i = sc['init']
    ops = []
    for op in sc['ops']:
        if op[0] == 'build':
            f = fields[op[1]]
            ops.append(f"OBuild {V.qc(complex(f.smu0))} {V.qc(complex(f.sval))}")
        elif op[0] == 'slice':
            touched = np.zeros(shape, bool)
            touched[op[3]] = True
            vals = np.zeros(shape)
            vals[op[3]] = op[4]
            w = [f"Some {V.qc(v)}" if t else 'None'
                 for t, v in zip(touched.ravel(order='F'), vals.ravel(order='F'))]
            ops.append(f"OSlice {H_COQ[op[1]]} [{'; '.join(w)}]")
        elif op[0] == 'set':
            ops.append(f"OSet {H_COQ[op[1]]} {lst(_h_full(op[2], shape))}")
        else:
            ops.append(f"OAug {H_COQ[op[1]]} {H_AOP[op[2]][0]} {V.qc(op[3])}")
    return (K.CASE_HEADER + "From V Require Import Model.VolumeModel Model.ModelHist.\n"
            "Definition cpos (c : Q * Q) : bool := match Qnum (fst c) with Zpos _ => true | _ => false end.\n"
            f"Definition st0 : mstate (F:=Q*Q) := mkM {V.coq_bool(sc['resist'])} {V.qc(spc.epsilon_0)} "
            f"{lst(vol)} {lst(_h_full(i['property_x'], shape))} {opt(i.get('property_y'))} "
            f"{opt(i.get('property_z'))} {opt(i['mu_r'])} {opt(i['epsilon_r'])}.\n"
            "Definition res := Eval vm_compute in run cpos st0 [" + ';\n  '.join(ops) + "].\n"
            "Definition code (r : outcome (F:=Q*Q)) : Z := match r with Done => 0 | Rejected => 1 "
            "| NoneErr => 2 | Coeffs _ => 3 end.\n"
            "Definition vals (r : outcome (F:=Q*Q)) := match r with Coeffs c => flat_map (fun t => "
            "[out_c (fst (fst (fst t))); out_c (snd (fst (fst t))); out_c (snd (fst t)); out_c (snd t)]) c "
            "| _ => [] end.\n"
            "Eval vm_compute in map code (snd res).\n"
            "Eval vm_compute in flat_map vals (snd res).\n")


def _h_brief(sc):
    return dict(ci=sc['ci'], hseed=sc['hseed'], aniso=sc['casek'],
                mapping='Resistivity' if sc['resist'] else 'Conductivity',
                mu_r_initially=sc['mu_form'], epsilon_r_initially=sc['eps_form'],
                shape=sc['shape'], steps=len(sc['ops']))


def check_model_history(ctx, n, dis, hist):
    scripts = [history_script(ci, ctx.rng.randint(0, 2**30)) for ci in range(n)]
    runs = [history_run_impl(sc, observe=False) for sc in scripts]
    runs_obs = [history_run_impl(sc, observe=True) for sc in scripts]
    res = V.coq_eval_many([(f"c02_h_{sc['ci']}", history_coq(sc, run[1]))
                           for sc, run in zip(scripts, runs)])
    nsteps = 0
    both = [(sc, r, False) for sc, r in zip(scripts, runs)] + \
           [(sc, r, True) for sc, r in zip(scripts, runs_obs)]
    for sc, (out, fields, stale), observed in both:
        rc, txt = res[f"c02_h_{sc['ci']}"]
        if rc != 0:
            dis.append({'what': 'ModelHist model evaluation failed', 'log': txt[-1500:]})
            continue
        ans = V.eval_answers(txt)
        codes = [int(x) for x in __import__('re').findall(r'-?\d+', ans[0])]
        vals = V.parse_cpairs(ans[1])
        ncell = int(np.prod(sc['shape']))
        k = 0
        done = False
        if stale:
            dis.append({'what': 'a VolumeModel built earlier changed through later operations on the Model',
                        'case': _h_brief(sc), 'which_build': stale[0]})
        for si, (op, (code, co, _)) in enumerate(zip(sc['ops'], out)):
            nsteps += 1
            kind = op[0] if op[0] != 'set' else ('set_scalar' if np.isscalar(op[2]) else 'set_array')
            hist[kind + ':' + ['ok', 'rejected', 'none', 'build'][code]] = \
                hist.get(kind + ':' + ['ok', 'rejected', 'none', 'build'][code], 0) + 1
            if code != codes[si]:
                dis.append({'what': 'Model history: outcome of an operation differs from Model/ModelHist.v',
                            'case': _h_brief(sc), 'step': si, 'op': _h_describe(op, sc['freqs']),
                            'impl': code, 'model': codes[si]})
                break
            if code != 3:
                continue
            for c in range(ncell):
                idx = np.unravel_index(c, sc['shape'], order='F')
                for j in range(4):
                    re_, im_ = vals[k]
                    k += 1
                    m = complex(float(re_), float(im_))
                    if not done and abs(complex(co[j][idx]) - m) > 1e-12 * max(abs(m), 1e-300):
                        done = True
                        dis.append({'what': 'Model history: VolumeModel coefficient differs from the '
                                            'formula on the current arrays (Model/ModelHist.v)',
                                    'case': _h_brief(sc), 'step': si,
                                    'attributes_read_between_steps': observed,
                                    'history': [_h_describe(o, sc['freqs']) for o in sc['ops'][:si + 1]][-6:],
                                    'cell': [int(x) for x in idx],
                                    'which': ['eta_x', 'eta_y', 'eta_z', 'zeta'][j],
                                    'impl': str(co[j][idx]), 'model': str(m)})
    return scripts, nsteps


def correspondence(ctx):
    rng = ctx.rng
    n = 48 if ctx.thorough else 12
    shapes = [tuple(rng.randint(2, 4) for _ in range(3)) for _ in range(n)]
    if ctx.thorough:
        shapes[:8] = [(2, 2, 2), (2, 3, 4), (4, 3, 2), (3, 3, 3), (4, 4, 4), (2, 4, 2),
                      (5, 2, 3), (3, 2, 5)]
    cases = [kernel_case(rng, s, cplx=(i % 2 == 0)) for i, s in enumerate(shapes)]
    res = V.coq_eval_many([(f"c02_k_{i}", coq_case(c)) for i, c in enumerate(cases)])
    dis, seen = [], set()
    for i, c in enumerate(cases):
        rc, out = res[f"c02_k_{i}"]
        if rc != 0:
            dis.append({'what': 'generated model does not evaluate', 'log': out[-1500:]})
            continue
        ans = V.eval_answers(out)
        model = [K.parse_arr(a, c['cplx']) for a in ans]
        for tag, pyf in (('jit', False), ('py_func', True)):
            impl = run_impl(c, pyf)
            for comp in range(3):
                iv = impl[comp].ravel()
                mv = model[comp]
                if len(iv) != len(mv):
                    dis.append({'what': 'shape mismatch', 'case': K.brief(c)})
                    continue
                scale = max(1.0, float(np.max(np.abs(iv))))
                bad = [k for k in range(len(iv))
                       if abs(complex(iv[k]) - mv[k]) > 1e-9 * scale]
                if bad:
                    dis.append({'what': f'core.amat_x ({tag}) differs from Gen.CoreAmat.amat_x',
                                'case': K.brief(c), 'component': 'xyz'[comp],
                                'flat_index': bad[0], 'impl': str(iv[bad[0]]),
                                'model': str(mv[bad[0]])})
        seen.add((c['shape'], c['cplx']))
    nvm, nvm_nt, vm_samples = check_volume_model(ctx, 32 if ctx.thorough else 8, dis)
    hist = {}
    hscripts, hsteps = check_model_history(ctx, 24 if ctx.thorough else 8, dis, hist)
    return {
        'evaluations': len(cases) * 2 + nvm + hsteps,
        'distinct_nontrivial': len(seen) + nvm_nt + len(hscripts),
        'rule': "kernel cases: random shape 2..4^3 (thorough: plus fixed extremes), dyadic widths, "
                "dense random dyadic PEC field, random coefficients, real/complex alternating; "
                "distinct = distinct (shape, dtype); each runs compiled kernel and .py_func against "
                "the generated Coq model on exact rationals. VolumeModel cases: random anisotropy "
                "case/mu_r/eps_r/frequency-or-Laplace; non-trivial = not (isotropic, no mu_r, no eps_r). "
                "History stream: ONE Model per history, option classes (anisotropy x mapping x mu_r form x "
                "epsilon_r form: scalar-1 placeholder / ones / random / None) enumerated, every parameter "
                "modified by slicing, setter (array, scalar), augmented assignment, rejected assignment, "
                "writes to absent parameters; a VolumeModel after every step (two re-used fields, frequency "
                "and Laplace) compared with Model/ModelHist.v on the same history",
        'samples': [K.brief(c) for c in cases[:3]] + vm_samples + [_h_brief(sc) for sc in hscripts[:2]],
        'traces_validated_against_impl': len(cases) * 2 + nvm + len(hscripts),
        'histogram': {'history_steps': hist},
        'disagreements': dis,
    }


# ------------------------------------------------------------------ searcher
def fit_apply(e, eta, zeta, hx, hy, hz):
    """Independent vectorised FIT operator on interior edges (zeros elsewhere)."""
    ex, ey, ez = e
    hx, hy, hz = (np.asarray(h, float) for h in (hx, hy, hz))
    nx, ny, nz = len(hx), len(hy), len(hz)
    HX, HY, HZ = hx[:, None, None], hy[None, :, None], hz[None, None, :]
    cx = (ez[:, 1:, :] - ez[:, :-1, :]) / HY - (ey[:, :, 1:] - ey[:, :, :-1]) / HZ
    cy = (ex[:, :, 1:] - ex[:, :, :-1]) / HZ - (ez[1:, :, :] - ez[:-1, :, :]) / HX
    cz = (ey[1:, :, :] - ey[:-1, :, :]) / HX - (ex[:, 1:, :] - ex[:, :-1, :]) / HY
    zp = np.pad(zeta, 1, mode='edge')
    mfx = 0.5 * (zp[:-1, 1:-1, 1:-1] + zp[1:, 1:-1, 1:-1])     # (nx+1, ny, nz)
    mfy = 0.5 * (zp[1:-1, :-1, 1:-1] + zp[1:-1, 1:, 1:-1])
    mfz = 0.5 * (zp[1:-1, 1:-1, :-1] + zp[1:-1, 1:-1, 1:])
    ux, uy, uz = mfx * cx, mfy * cy, mfz * cz
    ax = np.zeros_like(ex)
    ay = np.zeros_like(ey)
    az = np.zeros_like(ez)
    hyj, hym = hy[None, 1:, None], hy[None, :-1, None]
    hzk, hzm = hz[None, None, 1:], hz[None, None, :-1]
    hxi, hxm = hx[1:, None, None], hx[:-1, None, None]
    ax[:, 1:-1, 1:-1] = (uz[:, 1:, 1:-1] / hyj - uz[:, :-1, 1:-1] / hym
                         - uy[:, 1:-1, 1:] / hzk + uy[:, 1:-1, :-1] / hzm)
    ay[1:-1, :, 1:-1] = (ux[1:-1, :, 1:] / hzk - ux[1:-1, :, :-1] / hzm
                         - uz[1:, :, 1:-1] / hxi + uz[:-1, :, 1:-1] / hxm)
    az[1:-1, 1:-1, :] = (uy[1:, 1:-1, :] / hxi - uy[:-1, 1:-1, :] / hxm
                         - ux[1:-1, 1:, :] / hyj + ux[1:-1, :-1, :] / hym)
    etx, ety, etz = eta
    mex = 0.25 * (etx[:, :-1, :-1] + etx[:, :-1, 1:] + etx[:, 1:, :-1] + etx[:, 1:, 1:])
    mey = 0.25 * (ety[:-1, :, :-1] + ety[1:, :, :-1] + ety[:-1, :, 1:] + ety[1:, :, 1:])
    mez = 0.25 * (etz[:-1, :-1, :] + etz[1:, :-1, :] + etz[:-1, 1:, :] + etz[1:, 1:, :])
    ax[:, 1:-1, 1:-1] -= mex * ex[:, 1:-1, 1:-1]
    ay[1:-1, :, 1:-1] -= mey * ey[1:-1, :, 1:-1]
    az[1:-1, 1:-1, :] -= mez * ez[1:-1, 1:-1, :]
    return ax, ay, az


def impl_apply(e, eta, zeta, hx, hy, hz, pyfunc=False):
    from emg3d import core
    f = core.amat_x.py_func if pyfunc else core.amat_x
    r = [np.zeros_like(a) for a in e]
    f(r[0], r[1], r[2], e[0], e[1], e[2], eta[0], eta[1], eta[2], zeta,
      np.asarray(hx, float), np.asarray(hy, float), np.asarray(hz, float))
    return [-a for a in r]


def interior_masks(shape):
    nx, ny, nz = shape
    mx = np.zeros((nx, ny + 1, nz + 1), bool)
    mx[:, 1:-1, 1:-1] = True
    my = np.zeros((nx + 1, ny, nz + 1), bool)
    my[1:-1, :, 1:-1] = True
    mz = np.zeros((nx + 1, ny + 1, nz), bool)
    mz[1:-1, 1:-1, :] = True
    return mx, my, mz


def search_case(rng, shape, cplx, aniso, np_seed=None):
    """Compare implementation and independent operator on the full PEC edge
    basis of one random problem.  Returns a failing-input dict or None."""
    nx, ny, nz = shape
    if np_seed is None:
        np_seed = rng.randint(0, 2**31 - 1)
    npr = np.random.RandomState(np_seed)
    hs = [npr.uniform(0.5, 3.0, m) for m in shape]
    dt = complex if cplx else float

    def cell():
        a = npr.uniform(0.1, 5.0, shape)
        return (a * (1 + 1j * npr.uniform(-1, 1, shape))).astype(dt) if cplx else a
    etx = cell()
    ety = cell() if aniso in (1, 3) else etx
    etz = cell() if aniso in (2, 3) else etx
    eta = (etx, ety, etz)
    zeta = npr.uniform(0.2, 4.0, shape)
    masks = interior_masks(shape)
    sizes = [m.size for m in masks]
    idxs = [(c, k) for c in range(3) for k in np.flatnonzero(masks[c].ravel())]
    cols = {}
    for (c, k) in idxs:
        e = [np.zeros(m.shape, dt) for m in masks]
        e[c].ravel()[k] = 1.0
        a_i = impl_apply(e, eta, zeta, *hs)
        a_s = fit_apply(e, eta, zeta, *hs)
        for cc in range(3):
            d = np.abs(a_i[cc] - a_s[cc]) * masks[cc]
            scale = max(1.0, np.max(np.abs(a_s[cc])))
            if np.max(d) > 1e-10 * scale:
                kk = int(np.argmax(d))
                return {'signature': 'amat_x != FIT operator on a basis field',
                        'shape': shape, 'complex': cplx, 'aniso': aniso,
                        'hx': [float.hex(x) for x in hs[0]], 'hy': [float.hex(x) for x in hs[1]],
                        'hz': [float.hex(x) for x in hs[2]],
                        'basis': {'component': 'xyz'[c], 'flat_index': int(k)},
                        'row': {'component': 'xyz'[cc], 'flat_index': kk},
                        'impl': str(a_i[cc].ravel()[kk]), 'required': str(a_s[cc].ravel()[kk]),
                        'np_seed': np_seed}
        cols[(c, k)] = np.concatenate([(a_i[cc] * masks[cc]).ravel() for cc in range(3)])
    # complex symmetry of the implementation's matrix on interior edges
    offs = np.cumsum([0] + sizes)
    pos = [offs[c] + k for (c, k) in idxs]
    M = np.array([[cols[j][p] for j in idxs] for p in pos])
    asym = np.max(np.abs(M - M.T))
    if asym > 1e-10 * max(1.0, np.max(np.abs(M))):
        return {'signature': 'operator matrix not symmetric', 'shape': shape,
                'complex': cplx, 'aniso': aniso, 'max_asym': float(asym), 'np_seed': np_seed}
    # gradient null space (eta = 0)
    phi = npr.uniform(-1, 1, (nx + 1, ny + 1, nz + 1))
    phi[0] = phi[-1] = 0
    phi[:, 0] = phi[:, -1] = 0
    phi[:, :, 0] = phi[:, :, -1] = 0
    g = [np.diff(phi, axis=0) / hs[0][:, None, None],
         np.diff(phi, axis=1) / hs[1][None, :, None],
         np.diff(phi, axis=2) / hs[2][None, None, :]]
    g = [a.astype(dt) for a in g]
    z0 = np.zeros(shape, dt)
    a_i = impl_apply(g, (z0, z0, z0), zeta, *hs)
    for cc in range(3):
        if np.max(np.abs(a_i[cc] * masks[cc])) > 1e-9 * max(1.0, np.max(np.abs(phi))) * 50:
            return {'signature': 'curl-curl part does not annihilate a discrete gradient',
                    'shape': shape, 'complex': cplx, 'aniso': aniso, 'np_seed': np_seed}
    return None


def search_volume_model(rng):
    """VolumeModel coefficients against the documented formulas
    eta = -s mu0 V (sigma + s eps0 eps_r), zeta = V / mu_r (numpy oracle)."""
    import emg3d
    import scipy.constants as sc
    npr = np.random.RandomState(rng.randint(0, 2**31 - 1))
    for freq, scale in ((1.0, 1.0), (2e7, 1.0), (-2.5, 1.0), (-1e8, 1.0), (0.01, 1.0),
                        (0.004, 1 / 64.0), (-0.01, 1 / 64.0)):
        for casek in range(4):
            for has_mu, has_eps in ((False, False), (True, False), (False, True), (True, True)):
                shape = (2, 3, 2)
                hs = [npr.uniform(0.5, 3.0, n) * scale for n in shape]
                grid = emg3d.TensorMesh(hs, (0, 0, 0))
                kw = dict(property_x=npr.uniform(0.1, 5, shape), mapping='Conductivity')
                if casek in (1, 3):
                    kw['property_y'] = npr.uniform(0.1, 5, shape)
                if casek in (2, 3):
                    kw['property_z'] = npr.uniform(0.1, 5, shape)
                if has_mu:
                    kw['mu_r'] = npr.uniform(0.5, 2, shape)
                if has_eps:
                    kw['epsilon_r'] = npr.uniform(1, 80, shape)
                kw0 = {k: (np.array(v, copy=True) if isinstance(v, np.ndarray) else v) for k, v in kw.items()}
                model = emg3d.Model(grid, **kw)
                # earlier uses of the same model (s- / frequency sweep) must not matter
                for fpre in (-2.0**27, 2.0**23):
                    emg3d.models.VolumeModel(model, emg3d.Field(grid, frequency=fpre))
                sf = emg3d.Field(grid, frequency=freq)
                vm = emg3d.models.VolumeModel(model, sf)
                kw = kw0
                for k in kw0:
                    if isinstance(kw0[k], np.ndarray) and not np.array_equal(getattr(model, k), kw0[k]):
                        return {'signature': 'building a VolumeModel changed the Model', 'which': k,
                                'frequency': freq, 'aniso': casek, 'mu_r': has_mu, 'epsilon_r': has_eps,
                                'history': 'VolumeModel at s=2^27 (Laplace), at f=2^23 Hz, then at the frequency given'}
                s = complex(sf.sval)
                vol = np.multiply.outer(np.multiply.outer(hs[0], hs[1]), hs[2])
                eps = kw.get('epsilon_r', 0.0) if has_eps else 0.0
                want = {}
                sig = {'x': kw['property_x'], 'y': kw.get('property_y', kw['property_x']),
                       'z': kw.get('property_z', kw['property_x'])}
                for d in 'xyz':
                    want['eta_' + d] = -s * sc.mu_0 * vol * (sig[d] + s * sc.epsilon_0 * eps)
                want['zeta'] = vol / kw['mu_r'] if has_mu else vol
                for nm, w in want.items():
                    got = np.asarray(getattr(vm, nm), complex)
                    if np.max(np.abs(got - w)) > 1e-10 * np.max(np.abs(w)):
                        k = np.unravel_index(np.argmax(np.abs(got - w)), w.shape)
                        return {'signature': 'VolumeModel coefficient differs from -s mu0 V (sigma + s eps0 eps_r) / V/mu_r',
                                'which': nm, 'frequency': freq, 'aniso': casek, 'mu_r': has_mu,
                                'epsilon_r': has_eps, 'cell': [int(x) for x in k],
                                'observed': str(got[k]), 'required': str(w[k])}
    return None


H_SIG = "VolumeModel coefficients are not those of the Model's current arrays (history on one Model)"


def history_oracle(sc):
    """Independent numpy oracle for one history: tracks the CURRENT arrays by the
    documented semantics of each operation and requires, after every step, the
    documented outcome, the model's arrays, and for a VolumeModel
    eta = -s mu0 V (sigma + s eps0 eps_r), zeta = V / mu_r on those arrays."""
    import scipy.constants as spc
    for observe in (False, True):
        h = _history_oracle(sc, observe)
        if h:
            return h
    return None


def _history_oracle(sc, observe):
    import scipy.constants as spc
    shape = sc['shape']
    out, fields, stale = history_run_impl(sc, observe)
    cur = {nm: (None if sc['init'].get(nm) is None else _h_full(sc['init'][nm], shape))
           for nm in H_PN}
    vol = np.multiply.outer(np.multiply.outer(sc['hs'][0], sc['hs'][1]), sc['hs'][2])
    fns = {'mul': np.multiply, 'add': np.add, 'sub': np.subtract, 'div': np.divide}

    def hit(si, **kw):
        h = {'signature': H_SIG, 'ci': sc['ci'], 'hseed': sc['hseed'], 'shape': list(shape),
             'grid_widths': sc['hs'],
             'construction': "Model(grid, " + ", ".join(
                 f"{k}={(v if np.isscalar(v) else np.asarray(v).tolist())!r}"
                 for k, v in sc['init'].items() if v is not None)
             + f", mapping={'Resistivity' if sc['resist'] else 'Conductivity'!r})",
             'history': [_h_describe(o, sc['freqs']) for o in sc['ops'][:si + 1]], 'step': si,
             'attributes_read_between_steps': observe}
        h.update(kw)
        return h
    for si, (op, (code, co, arrays)) in enumerate(zip(sc['ops'], out)):
        want = 0
        if op[0] == 'build':
            want = 3
        else:
            nm = H_PN[op[1]]
            if cur[nm] is None:
                want = 2
            elif op[0] == 'slice':
                cur[nm][op[3]] = op[4]
            elif op[0] == 'set':
                v = _h_full(op[2], shape)
                if np.all(v > 0) and np.all(np.isfinite(v)):
                    cur[nm] = v
                else:
                    want = 1
            else:
                cur[nm] = fns[op[2]](cur[nm], op[3])
                want = 0 if np.all(cur[nm] > 0) else 1
        if code != want:
            return hit(si, what='outcome of the last operation',
                       observed=['returned', 'ValueError (rejected)', 'error: parameter is None',
                                 'VolumeModel'][code],
                       required=['returns', 'is rejected with ValueError', 'fails: parameter is None',
                                 'VolumeModel'][want])
        for nm, a in zip(H_PN, arrays if arrays is not None else []):
            if (a is None) != (cur[nm] is None) or (a is not None and not
                                                    np.allclose(a, cur[nm], rtol=1e-13, atol=0)):
                return hit(si, what=f'model.{nm} after the last operation',
                           observed=None if a is None else a.tolist(),
                           required=None if cur[nm] is None else cur[nm].tolist())
        if want != 3:
            continue
        f = fields[op[1]]
        sv = complex(f.sval)
        eps = cur['epsilon_r'] if cur['epsilon_r'] is not None else 0.0
        req = {}
        for d, nm in zip('xyz', H_PN[:3]):
            pr = cur[nm] if cur[nm] is not None else cur['property_x']
            sig = 1.0 / pr if sc['resist'] else pr
            req['eta_' + d] = -sv * spc.mu_0 * vol * (sig + sv * spc.epsilon_0 * eps)
        req['zeta'] = (vol / cur['mu_r'] if cur['mu_r'] is not None else vol) + 0j
        for j, nm in enumerate(('eta_x', 'eta_y', 'eta_z', 'zeta')):
            err = np.abs(co[j] - req[nm])
            if np.max(err - 1e-10 * np.abs(req[nm])) > 0:
                k = np.unravel_index(np.argmax(err / np.abs(req[nm])), shape)
                return hit(si, what=f'{nm} of the VolumeModel built in the last step',
                           cell=[int(x) for x in k], observed=str(co[j][k]), required=str(req[nm][k]),
                           current_arrays={n_: (None if a is None else a.tolist())
                                           for n_, a in cur.items()})
    if stale:
        return hit(len(sc['ops']) - 1, what='a VolumeModel built earlier changed through later '
                   'operations on the Model', which_build=stale[0])
    return None


def search_model_history(ctx, broken):
    todo = []
    for b in broken or []:
        c = b.get('detail', {}).get('case') if isinstance(b.get('detail'), dict) else None
        if isinstance(c, dict) and 'hseed' in c and (c['ci'], c['hseed']) not in todo:
            todo.append((c['ci'], c['hseed']))
    n = 40 if ctx.thorough else 16
    todo += [(ci, ctx.rng.randint(0, 2**30)) for ci in range(n)]
    for ci, hseed in todo:
        h = history_oracle(history_script(ci, hseed))
        if h:
            return h
    ctx.notes.append(f"searcher: {len(todo)} histories on one Model each (numpy oracle on the current arrays)")
    return None


def search(ctx, broken):
    rng = ctx.rng
    n = 60 if ctx.thorough else 25
    hits = []
    h = search_volume_model(rng)
    if h:
        return [h]
    h = search_model_history(ctx, broken)
    if h:
        return [h]
    combos = [((2, 2, 2), False, 0), ((3, 2, 4), True, 3), ((4, 4, 3), True, 1),
              ((3, 5, 2), False, 2)]
    while len(combos) < n:
        combos.append((tuple(rng.randint(2, 5) for _ in range(3)), rng.random() < 0.5,
                       rng.randint(0, 3)))
    for shape, cplx, aniso in combos:
        h = search_case(rng, shape, cplx, aniso)
        if h:
            hits.append(h)
            break
    ctx.notes.append(f"searcher: {len(combos)} (shape,dtype,aniso) problems, full interior edge basis each")
    return hits


def replay(ctx, payload):
    fi = payload.get('failing_input')
    if fi and 'hseed' in fi:
        return history_oracle(history_script(fi['ci'], fi['hseed'])) is None
    if fi and fi.get('signature', '').startswith('VolumeModel'):
        return search_volume_model(ctx.rng) is None
    if not fi or 'shape' not in fi:
        return False
    h = search_case(ctx.rng, tuple(fi['shape']), fi['complex'], fi['aniso'], fi.get('np_seed'))
    return h is None
