"""Regenerate /verif/MANIFEST.json from the property modules in py/props."""
import importlib
import json
import os
import sys

HERE = os.path.dirname(os.path.abspath(__file__))
sys.path.insert(0, HERE)
VERIF = os.path.dirname(HERE)

ALL = [f"C{n:02d}" for n in range(1, 21)]
NOT_APPLICABLE = {
    'C06': "quantitative, asymptotic claim about floating-point iterates (h-independent "
           "convergence factor): no theorem expressible/provable with the libraries present, and "
           "measuring factors is testing, which may not stand in for a proof (DESIGN.md section 7)",
}
PENDING = "no theorem built for this property yet (staging, DESIGN.md section 9); not claimed"


def main():
    global CLAIMED
    CLAIMED = json.load(open(os.path.join(VERIF, 'claimed.json')))
    checks = []
    na = []
    for pid in ALL:
        path = os.path.join(HERE, 'props', pid.lower() + '.py')
        if pid in NOT_APPLICABLE:
            na.append({'property_id': pid, 'reason': NOT_APPLICABLE[pid]})
            continue
        if not os.path.exists(path) or pid not in CLAIMED:
            na.append({'property_id': pid, 'reason': PENDING})
            continue
        src = open(path).read()
        meta = {}
        # read metadata without importing heavy dependencies
        import ast
        tree = ast.parse(src)
        for node in tree.body:
            if isinstance(node, ast.Assign) and len(node.targets) == 1 \
                    and isinstance(node.targets[0], ast.Name):
                nm = node.targets[0].id
                if nm in ('LEVEL_TEXT', 'LEVEL_NOTE', 'TECHNIQUE', 'DESIGN_REF'):
                    meta[nm] = ast.literal_eval(node.value)
        checks.append({
            'property_id': pid,
            'quick_cmd': f"./check {pid} --tier quick",
            'thorough_cmd': f"./check {pid} --tier thorough",
            'evidence_file': f"/verif/evidence/{pid}.json",
            'replay_cmd_template': f"./check {pid} --replay {{path}}",
            'engine': 'coq-proof',
            'level_claimed': {
                'category': 'proof',
                'text': meta.get('LEVEL_TEXT', ''),
                'design_ref': meta.get('DESIGN_REF', f"DESIGN.md section 6, {pid}"),
            },
            'level_note': meta.get('LEVEL_NOTE', ''),
            'technique': meta.get('TECHNIQUE', 'machine-checked proof in Coq 8.16 + model/code tie'),
        })
    man = {
        'version': 1,
        'setup_cmd': "./setup.sh",
        'hooks': {
            'guard': 'EMG3D_VERIF',
            'enable': "export EMG3D_VERIF=1 (no hooks are compiled in; emg3d is pure Python, "
                      "checks import /repo directly)",
            'baseline_off_cmd': "cd /repo && env -u EMG3D_VERIF /venv/bin/python -m pytest -ra -q "
                                "-p no:cacheprovider --timeout=900 --continue-on-collection-errors",
            'source_commits': json.load(open(os.path.join(VERIF, 'hooks.json')))
            if os.path.exists(os.path.join(VERIF, 'hooks.json')) else [],
            'add_only': True,
        },
        'engines': [{
            'name': 'coq-proof',
            'path': '/verif/check',
            'serves_properties': [c['property_id'] for c in checks],
            'kind_free_text': "Coq 8.16.1 theorems about models regenerated from /repo by py2coq "
                              "(or hand models tied by differential correspondence evaluated with "
                              "vm_compute), plus per-property failing-input searchers",
        }],
        'checks': checks,
        'not_applicable': na,
        'notes': "See DESIGN.md. Every check regenerates Gen/*.v from /repo, rebuilds the .vo closure "
                 "of Props/<id>.v, re-reads Print Assumptions, runs the correspondence, and on any "
                 "break searches for a concrete failing input.",
    }
    with open(os.path.join(VERIF, 'MANIFEST.json'), 'w') as f:
        json.dump(man, f, indent=1)
    print('claimed:', [c['property_id'] for c in checks])


if __name__ == '__main__':
    main()
