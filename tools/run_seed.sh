#!/bin/sh
# usage: tools/run_seed.sh C07 [/tmp/seedout_c07]
# Confirms a seeded change (demo passes on /repo, fails with the patch), runs the
# property's quick check with the patch applied to /repo, and undoes the patch.
ID="$1"; SRC="${2:-/verif/seeded/$ID}"
D=/verif/seeded/$ID
mkdir -p $D
if [ "$SRC" != "$D" ]; then cp $SRC/patch.diff $SRC/demo.py $SRC/meta.json $D/ 2>/dev/null; fi
cd /verif
git -C /repo status --short | grep -q . && { echo "/repo not clean"; exit 2; }
PYTHONPATH=/repo timeout 300 /venv/bin/python $D/demo.py > $D/demo_pristine.log 2>&1; P=$?
git -C /repo apply $D/patch.diff || { echo "patch does not apply"; exit 2; }
PYTHONPATH=/repo timeout 300 /venv/bin/python $D/demo.py > $D/demo_mutated.log 2>&1; M=$?
timeout 3000 ./check $ID --tier quick > $D/check_quick.log 2>&1; C=$?
LINE=$(grep -E "^(VIOLATION|OK)" $D/check_quick.log | tail -1)
RP=$(echo "$LINE" | sed -n 's/.*replay=\([^ ]*\).*/\1/p')
[ -n "$RP" ] && [ -f "$RP" ] && cp "$RP" $D/replay.json
git -C /repo checkout -- .
git -C /repo status --short | grep -q . && echo "WARNING /repo not clean after revert"
echo "$ID demo_pristine_exit=$P demo_mutated_exit=$M check_exit=$C :: $LINE"
/venv/bin/python - <<PY
import json
p='$D/meta.json'
try: m=json.load(open(p))
except Exception: m={}
m['confirmed']={'demo_exit_on_pristine_repo': $P, 'demo_exit_with_patch': $M,
  'check_cmd': './check $ID --tier quick (patch applied to /repo, then reverted)',
  'check_exit': $C, 'check_line': """$LINE"""}
json.dump(m,open(p,'w'),indent=1)
PY
