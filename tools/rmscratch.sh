#!/bin/sh
N="$1"
[ -n "$N" ] || { echo "usage: $0 NAME"; exit 2; }
git -C /repo worktree remove --force /tmp/wt_$N 2>/dev/null || rm -rf /tmp/wt_$N
git -C /repo worktree prune
rm -rf /tmp/coq_$N
