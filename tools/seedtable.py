#!/usr/bin/env python3
"""Write seeded/README.md (and print the table for DESIGN.md) from seeded/*/meta.json.

INITIAL: outcome of `./check <id> --tier quick` on the seeded tree when the change was first
tried (before any strengthening); C = VIOLATION with a concrete failing input, N = VIOLATION
... no-failing-input-found, M = missed (OK).  The final outcome is read from meta.json
(`confirmed`, written by tools/run_seed_scratch.sh on its latest run)."""
import json, os, glob, textwrap
ROOT = os.path.dirname(os.path.dirname(os.path.abspath(__file__)))
INITIAL = {
 'C01': 'N', 'C02': 'N', 'C03': 'M', 'C04': 'M', 'C05': 'N', 'C07': 'C', 'C08': 'M', 'C09': 'M',
 'C10': 'N', 'C11': 'N', 'C12': 'C', 'C13': 'C', 'C14': 'C', 'C15': 'M', 'C16': 'C', 'C17': 'N',
 'C18': 'C', 'C19': 'C', 'C20': 'C',
 'C01-2': 'M', 'C02-2': 'M', 'C03-2': 'N', 'C04-2': 'M', 'C05-2': 'C', 'C07-2': 'C', 'C08-2': 'M',
 'C09-2': 'N', 'C10-2': 'C', 'C11-2': 'N', 'C12-2': 'M', 'C13-2': 'C', 'C14-2': 'M', 'C15-2': 'M',
 'C16-2': 'M', 'C17-2': 'M', 'C18-2': 'M', 'C19-2': 'M', 'C20-2': 'M',
}
INITIAL.update(json.load(open(os.path.join(ROOT, 'seeded', 'initial.json')))
               if os.path.exists(os.path.join(ROOT, 'seeded', 'initial.json')) else {})
WORD = {'C': 'caught, concrete input', 'N': 'caught, no-failing-input-found', 'M': 'MISSED', '?': '?',
        'X': 'no longer breaks the property on the repaired tree (its demo passes); caught on the pre-repair tree'}


def final(meta):
    c = meta.get('confirmed') or {}
    line = c.get('check_line', '')
    if c.get('demo_exit_with_patch') == 0 and c.get('demo_exit_on_pristine_tree') == 0:
        return 'X'      # a later repair of /repo neutralised the change
    if c.get('check_exit') == 1 and 'VIOLATION' in line:
        return 'N' if 'no-failing-input-found' in line else 'C'
    if c.get('check_exit') == 0:
        return 'M'
    return '?'


rows = []
for d in sorted(glob.glob(os.path.join(ROOT, 'seeded', 'C[0-9][0-9]*'))):
    name = os.path.basename(d)
    try:
        meta = json.load(open(os.path.join(d, 'meta.json')))
    except Exception:
        continue
    c = meta.get('confirmed') or {}
    files = meta.get('files_changed') or []
    summ = ' '.join(str(meta.get('summary', '')).split())
    needs = ' '.join(str(meta.get('needs', '')).split())
    rows.append((name, ', '.join(os.path.basename(str(f)) for f in files), summ, needs,
                 c.get('demo_exit_on_pristine_tree'), c.get('demo_exit_with_patch'),
                 INITIAL.get(name, '?'), final(meta)))

out = ["# Seeded changes\n",
       "Each directory holds one change to emg3d written by an independent sub-agent that saw only the",
       "property text and a scratch worktree of /repo (never /verif): `patch.diff` (apply with",
       "`git -C /repo apply`, undo with `git -C /repo checkout -- .`), `demo.py` (exit 0 on /repo, exit 1",
       "with the patch), `meta.json` (what it does, what it needs to manifest, the test-suite result with the",
       "patch, and `confirmed`: my own confirmation run), the demo logs, the log of `./check <id> --tier quick`",
       "on the patched tree and the replay file it produced.  None of them is committed to /repo.  The",
       "existing test suite passes with every one of them (263 passed; the two `test_cli …[subprocess]`",
       "tests fail with and without).  `<id>` = first round, `<id>-2` = second round (asked to be of a",
       "different kind: multi-step histories, cooperating sites, unusual input classes, 'optimisations').\n",
       "Re-run one: `tools/run_seed_scratch.sh C07 /verif/seeded/C07-2 C07-2` (scratch worktree, /repo untouched).\n",
       "| seed | file(s) | change | first outcome | outcome now |", "|---|---|---|---|---|"]
for (name, files, summ, needs, p, m, ini, fin) in rows:
    out.append(f"| {name} | {files} | {textwrap.shorten(summ, 260)} **Needs:** {textwrap.shorten(needs, 200)} "
               f"| {WORD[ini]} | {WORD[fin]} |")
n = len(rows)
out.append("")
out.append(f"{n} changes; first outcome: "
           + ', '.join(f"{sum(1 for r in rows if r[6] == k)} {WORD[k]}" for k in 'CNM')
           + "; now: " + ', '.join(f"{sum(1 for r in rows if r[7] == k)} {WORD[k]}" for k in 'CNMX?') + ".")
open(os.path.join(ROOT, 'seeded', 'README.md'), 'w').write('\n'.join(out) + '\n')
print('\n'.join(out[-(n + 4):]))

# ---- compact matrix for DESIGN.md (between the SEEDTABLE markers) ----
ids = sorted({r[0].split('-')[0] for r in rows})
byname = {r[0]: r for r in rows}
SH = {'C': 'C', 'N': 'n', 'M': 'MISS', '?': '?', 'X': 'repaired'}
m = ["| id | round 1 | round 2 | round 3 | round 4 | round 5 | round 6 | round 7 |", "|---|---|---|---|---|---|---|---|"]
for i in ids:
    cells = []
    for suf in ('', '-2', '-3', '-4', '-5', '-6', '-7'):
        r = byname.get(i + suf)
        cells.append('–' if r is None else (f"{SH[r[6]]} → {SH[r[7]]}" if r[6] != r[7] else SH[r[7]]))
    m.append(f"| {i} | " + ' | '.join(cells) + " |")
dz = os.path.join(ROOT, 'DESIGN.md')
t = open(dz).read()
a, b = '<!-- SEEDTABLE -->', '<!-- /SEEDTABLE -->'
if a in t and b in t:
    t = t[:t.index(a) + len(a)] + '\n' + '\n'.join(m) + '\n\n' + out[-1] + '\n' + t[t.index(b):]
    open(dz, 'w').write(t)
