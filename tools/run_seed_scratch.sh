#!/bin/sh
# usage: tools/run_seed_scratch.sh C07 [/tmp/seedout_c07]
# Like run_seed.sh, but the patch is applied to a scratch worktree of /repo's HEAD
# and the check runs with VERIF_REPO/VERIF_COQ pointing at it (used while other
# jobs need /repo untouched).
ID="$1"; SRC="${2:-/verif/seeded/$ID}"; NAME="${3:-$ID}"
D=/verif/seeded/$NAME
N=seed$NAME
mkdir -p $D
if [ "$SRC" != "$D" ]; then cp $SRC/patch.diff $SRC/demo.py $SRC/meta.json $D/ 2>/dev/null; fi
cd /verif
eval $(tools/mkscratch.sh $N)
W=/tmp/wt_$N
PYTHONPATH=$W timeout 300 /venv/bin/python $D/demo.py > $D/demo_pristine.log 2>&1; P=$?
git -C $W apply $D/patch.diff || { echo "patch does not apply"; tools/rmscratch.sh $N; exit 2; }
PYTHONPATH=$W timeout 300 /venv/bin/python $D/demo.py > $D/demo_mutated.log 2>&1; M=$?
VERIF_REPO=$W VERIF_COQ=/tmp/coq_$N timeout 3000 ./check $ID --tier quick > $D/check_quick.log 2>&1; C=$?
LINE=$(grep -E "^(VIOLATION|OK)" $D/check_quick.log | tail -1)
RP=$(echo "$LINE" | sed -n 's/.*replay=\([^ ]*\).*/\1/p')
[ -n "$RP" ] && [ -f "$RP" ] && cp "$RP" $D/replay.json
tools/rmscratch.sh $N
echo "$NAME demo_pristine_exit=$P demo_mutated_exit=$M check_exit=$C :: $LINE"
/venv/bin/python - <<PY
import json
p='$D/meta.json'
try: m=json.load(open(p))
except Exception: m={}
m['confirmed']={'demo_exit_on_pristine_tree': $P, 'demo_exit_with_patch': $M,
  'check_cmd': 'VERIF_REPO=<scratch worktree of /repo HEAD with the patch> ./check $ID --tier quick',
  'check_exit': $C, 'check_line': """$LINE"""}
json.dump(m,open(p,'w'),indent=1)
PY
