#!/bin/sh
# usage: tools/mkscratch.sh NAME   -> scratch worktree of /repo + private copy of coq/
# then:  VERIF_REPO=/tmp/wt_NAME VERIF_COQ=/tmp/coq_NAME ./check Cxx
set -e
N="$1"
[ -n "$N" ] || { echo "usage: $0 NAME"; exit 2; }
git -C /repo worktree add -f --detach /tmp/wt_$N HEAD >/dev/null 2>&1
cp /repo/emg3d/version.py /tmp/wt_$N/emg3d/version.py
rm -rf /tmp/coq_$N
rsync -a --exclude "Corr/*" --exclude ".lock" /verif/coq/ /tmp/coq_$N/ 2>/dev/null || true; mkdir -p /tmp/coq_$N/Corr
echo "VERIF_REPO=/tmp/wt_$N VERIF_COQ=/tmp/coq_$N"
