#!/bin/sh
# MANIFEST.setup_cmd: build the whole framework from files on disk, offline.
set -e
cd "$(dirname "$0")"
export PYTHONHASHSEED=0 PYTHONPATH=/repo NUMBA_NUM_THREADS=1
# 1. regenerate every Gen/*.v from /repo's current sources (fail-closed translator)
/venv/bin/python - <<'PY'
import sys
sys.path.insert(0, 'py')
from py2coq import gen
from vlib import core as V
import glob, importlib, os
for f in sorted(glob.glob('py/props/c*.py')):
    try:
        m = importlib.import_module('props.' + os.path.basename(f)[:-3])
        gen.register(getattr(m, 'GEN_JOBS', {}))
        pid = getattr(m, 'ID', os.path.basename(f)[:-3].upper())
        for hook in getattr(m, 'PREBUILD', []):
            try:
                hook(V.Ctx(pid, 'quick', 0))
            except Exception as e:
                print('prebuild', hook.__name__, 'FAILED', e)
    except Exception as e:
        print('import', f, 'FAILED', e)
for j in gen.JOBS:
    try:
        print('gen', j, gen.generate(j)[1])
    except Exception as e:       # a check will report it; setup must not fail here
        print('gen', j, 'FAILED', e)
V.write_coqproject()
PY
# 2. full .vo build (never -vos)
cd coq
timeout 3000 make -k -j16 2>&1 | tail -5 || true
cd ..
# 3. numba warm-up (compiles and caches the kernels)
/venv/bin/python -c "
import numpy as np, emg3d
g = emg3d.TensorMesh([np.ones(4)]*3, (0,0,0))
m = emg3d.Model(g, 1.0)
s = emg3d.get_source_field(g, [1.5,1.5,1.5,0,0], 1.0)
emg3d.solve(m, s, verb=0, linerelaxation=7, semicoarsening=True, maxit=2)
emg3d.solve(m, emg3d.get_source_field(g, [1.5,1.5,1.5,0,0], -1.0), verb=0, maxit=2)
print('warm-up done')
"
echo setup done
