(* Proofs/GSLineAffineZ.v -- the line smoother along z ([gauss_seidel_z]):
   (0) [gauss_seidel_z_is_sweeps]: the generated kernel IS the schedule
       (Proofs/GSLineSweep.v) of line steps [linestepZ] (assemble, solve, write
       back), inner loop over ixh, outer loop over iyh, direction flipped
       before every sweep; kernel field-state order (ez, ex, ey);
   (A) [gauss_seidel_z_linear]: the kernel is a LINEAR map of (field, source),
       every nu, nz >= 2, pivots stated once (the line matrix depends neither
       on the field nor on the source, [gsz_matrix_indep2]); no PEC needed;
   (B) [gauss_seidel_z_last_line_exact]: for nu >= 1 and nx, ny, nz >= 2 all
       5 nz - 4 equations of the line relaxed LAST hold on the returned field
       (PEC at the ends of that line on the INPUT field -- those values are
       never written -- and the pivots of that one line).
   Same structure as Proofs/GSLineAffineX.v. *)
From Coq Require Import ZArith Lia Bool Field List.
From V Require Import Base.Loops Base.Arr Base.FieldSig Base.Tactics.
From V Require Import Gen.CoreBand Gen.CoreGS Model.FIT Proofs.BandSums Proofs.BandLDL.
From V Require Import Proofs.GSBlock Proofs.GSLineX Proofs.GSLineCommon Proofs.GSLineSweep.
From V Require Import Proofs.GSLineZ Proofs.GSLineAffineX.
From V Require Proofs.GSAffine.
Import ListNotations.
Local Open Scope Z_scope.

Section ShapeZ.
  Context {F : Type} {O : FOps F}.
  Variables (sx sy sz eta_x eta_y eta_z zeta : Z -> Z -> Z -> F).
  Variables (hx hy hz : Z -> F).
  Variables (nu nx ny nz : Z).

  Notation L3 := (gauss_seidel_z_L3 sx sy sz eta_x eta_y eta_z zeta hx hy hz nu nx nx ny ny nz nz
                    (kof hx) (kof hy) (kof hz)).
  Notation L2 := (gauss_seidel_z_L2 sx sy sz eta_x eta_y eta_z zeta hx hy hz nu nx nx ny ny nz nz
                    (kof hx) (kof hy) (kof hz)).
  Notation L1 := (gauss_seidel_z_L1 sx sy sz eta_x eta_y eta_z zeta hx hy hz nu nx nx ny ny nz nz
                    (kof hx) (kof hy) (kof hz)).
  Notation STEP := (linestepZ sx sy sz eta_x eta_y eta_z zeta hx hy hz nu nx ny nz).

  Lemma L3z_flds iback it oh q ih (st : @St7 F) :
    flds (L3 iback (5*nz-4) it oh q (q-1) (q+1) ih st) = STEP (lnode iback nx ih) q (flds st).
  Proof.
    rewrite (gsz_L3_step (snd (fst st)) (snd st) (snd (fst (fst st))) sx sy sz eta_x eta_y eta_z zeta
               hx hy hz nu nx nx ny ny nz nz (node iback nx ih) q iback (5*nz-4) it oh ih st
               eq_refl eq_refl).
    reflexivity.
  Qed.

  Lemma L2z_flds iback it oh (st : @St7 F) :
    flds (L2 iback (5*nz-4) it oh st) = inner nx STEP iback (lnode iback ny oh) (flds st).
  Proof.
    cbv delta [gauss_seidel_z_L2]. cbv beta. cbv zeta.
    match goal with
    | |- flds (_, _, _, _, snd (fst (fst ?t)), snd (fst ?t), snd ?t) = _ =>
        change (flds t = inner nx STEP iback (lnode iback ny oh) (flds st))
    end.
    unfold inner.
    apply (Zfold_rel2 (fun (s : @St7 F) (f : @Fld F) => flds s = f)); [reflexivity|].
    intros j a b Hj <-.
    exact (L3z_flds iback it oh (lnode iback ny oh) j a).
  Qed.

  Lemma L1z_flds it (st : @St8 F) :
    iback8 (L1 (5*nz-4) it st) = 1 - iback8 st /\
    flds8 (L1 (5*nz-4) it st) = sweep1 nx ny STEP (1 - iback8 st) (flds8 st).
  Proof.
    split; [reflexivity|].
    cbv delta [gauss_seidel_z_L1]. cbv beta. cbv zeta.
    match goal with
    | |- flds8 (_, _, _, _, _, snd (fst (fst ?t)), snd (fst ?t), snd ?t) = _ =>
        change (flds t = sweep1 nx ny STEP (1 - iback8 st) (flds8 st))
    end.
    unfold sweep1.
    apply (Zfold_rel2 (fun (s : @St7 F) (f : @Fld F) => flds s = f)); [reflexivity|].
    intros k a b Hk <-. apply L2z_flds.
  Qed.

  (* the kernel's state order is (ez, ex, ey); the result is returned as (ex, ey, ez) *)
  Theorem gauss_seidel_z_is_sweeps (ex ey ez : Z -> Z -> Z -> F) :
    gauss_seidel_z nx ny nz ex ey ez sx sy sz eta_x eta_y eta_z zeta hx hy hz nu
    = (let f := sweeps nx ny STEP nu (ez, ex, ey) in (snd (fst f), snd f, fst (fst f))).
  Proof.
    cbv delta [gauss_seidel_z]. cbv beta. cbv zeta. cbn [fst snd].
    match goal with |- (snd (fst ?t), snd ?t, snd (fst (fst ?t))) = _ =>
      change ((let f := flds8 t in (snd (fst f), snd f, fst (fst f))) = (let f := sweeps nx ny STEP nu (ez, ex, ey) in (snd (fst f), snd f, fst (fst f)))) end.
    match goal with |- (let f := ?a in _) = (let g := ?b in _) =>
      cut (a = b); [let E := fresh in intros E; rewrite E; reflexivity|] end.
    unfold sweeps, sweepsN.
    match goal with |- flds8 ?t = snd ?u =>
      assert (G : iback8 t = fst u /\ flds8 t = snd u); [|exact (proj2 G)] end.
    apply (Zfold_rel2 (fun (s : @St8 F) (p : Z * @Fld F) => iback8 s = fst p /\ flds8 s = snd p)).
    - split; reflexivity.
    - intros i a b _ [E1 E2]. destruct (L1z_flds i a) as [H1 H2].
      cbn [fst snd]. rewrite <- E1, <- E2. split; [exact H1|exact H2].
  Qed.
End ShapeZ.

Section MatrixIndepZ2.
  Context {F : Type} {O : FOps F}.
  Variables (fx fy fz gx gy gz sx sy sz tx ty tz eta_x eta_y eta_z zeta : Z -> Z -> Z -> F).
  Variables (hx hy hz : Z -> F).
  Variables (nu lhx nx lhy ny lhz nz ix iy : Z).

  Lemma gsz_matrix_indep2 : 2 <= nz ->
    fst (gsz_sys fx fy fz sx sy sz eta_x eta_y eta_z zeta hx hy hz nu lhx nx lhy ny lhz nz ix iy)
    = fst (gsz_sys gx gy gz tx ty tz eta_x eta_y eta_z zeta hx hy hz nu lhx nx lhy ny lhz nz ix iy).
  Proof.
    intros Hn. unfold gsz_sys, gsz_loop. cbn [fst].
    apply (matrix_indep_gen nz
             (gsz_blk fx fy fz sx sy sz eta_x eta_y eta_z zeta hx hy hz nu lhx nx lhy ny lhz nz ix iy)
             (gsz_blk gx gy gz tx ty tz eta_x eta_y eta_z zeta hx hy hz nu lhx nx lhy ny lhz nz ix iy)
             (gsz_L4 fx fy fz sx sy sz eta_x eta_y eta_z zeta hx hy hz nu lhx nx lhy ny lhz nz ix iy)
             (gsz_L4 gx gy gz tx ty tz eta_x eta_y eta_z zeta hx hy hz nu lhx nx lhy ny lhz nz ix iy)).
    - apply gsz_L4_step.
    - apply gsz_L4_step.
    - apply gsz_blk_AB.
    - apply gsz_blk_AB.
    - intros. cbv delta [gsz_blk gauss_seidel_z_L4_call1 blkM]. cbv beta. reflexivity.
    - intros. cbv delta [gsz_blk gauss_seidel_z_L4_call1 blkL]. cbv beta. reflexivity.
    - exact Hn.
  Qed.
End MatrixIndepZ2.

Section LinZ.
  Context {F : Type} {O : FOps F}.
  Hypothesis Fth : field_theory F0 F1 Fadd Fmul Fsub Fopp Fdiv Finv (@eq F).
  Hypothesis two_nz : (1 + 1)%F <> 0%F.
  Add Field Flz : Fth.
  Variables (al be : F).
  Variables (mx my mz px py pz qx qy qz : Z -> Z -> Z -> F).
  Variables (smx smy smz spx spy spz sqx sqy sqz : Z -> Z -> Z -> F).
  Variables (eta_x eta_y eta_z zeta : Z -> Z -> Z -> F).
  Variables (hx hy hz : Z -> F).
  Hypothesis hx_nz : forall i, hx i <> 0%F.
  Hypothesis hy_nz : forall i, hy i <> 0%F.
  Hypothesis hz_nz : forall i, hz i <> 0%F.
  Variables (nu lhx nx lhy ny lhz nz ix iy : Z).
  Hypothesis Hmx : forall i j l, mx i j l = (al * px i j l + be * qx i j l)%F.
  Hypothesis Hmy : forall i j l, my i j l = (al * py i j l + be * qy i j l)%F.
  Hypothesis Hmz : forall i j l, mz i j l = (al * pz i j l + be * qz i j l)%F.
  Hypothesis Hsx : forall i j l, smx i j l = (al * spx i j l + be * sqx i j l)%F.
  Hypothesis Hsy : forall i j l, smy i j l = (al * spy i j l + be * sqy i j l)%F.
  Hypothesis Hsz : forall i j l, smz i j l = (al * spz i j l + be * sqz i j l)%F.

  Notation CRm := (cRz mx my mz smx smy smz eta_x eta_y eta_z zeta hx hy hz nu lhx nx lhy ny lhz nz ix iy).
  Notation CRp := (cRz px py pz spx spy spz eta_x eta_y eta_z zeta hx hy hz nu lhx nx lhy ny lhz nz ix iy).
  Notation CRq := (cRz qx qy qz sqx sqy sqz eta_x eta_y eta_z zeta hx hy hz nu lhx nx lhy ny lhz nz ix iy).
  Notation SYSm := (gsz_sys mx my mz smx smy smz eta_x eta_y eta_z zeta hx hy hz nu lhx nx lhy ny lhz nz ix iy).
  Notation SYSp := (gsz_sys px py pz spx spy spz eta_x eta_y eta_z zeta hx hy hz nu lhx nx lhy ny lhz nz ix iy).
  Notation SYSq := (gsz_sys qx qy qz sqx sqy sqz eta_x eta_y eta_z zeta hx hy hz nu lhx nx lhy ny lhz nz ix iy).

  Ltac side := first [ exact two_nz | apply (four_nz Fth two_nz) | apply (one_nz Fth)
                     | apply hx_nz | apply hy_nz | apply hz_nz ].

  Ltac cr_eval :=
    match goal with
    | |- ?G =>
        let G' := eval cbv beta iota zeta delta
                    [cRz st0 blkR gsz_blk gauss_seidel_z_L4_call1
                     upd1 upd1f upd3f fill1 arr_of_list nth Z.to_nat Pos.to_nat Pos.iter_op
                     Nat.add Z.eqb Pos.eqb Z.ltb Z.compare Pos.compare
                     Pos.compare_cont negb fst snd kof] in G in
        cut G'; [ let H := fresh "H" in intro H; vm_cast_no_check H | ]
    end.
  Ltac cr_row := cr_eval; rewrite ?Hmx, ?Hmy, ?Hmz, ?Hsx, ?Hsy, ?Hsz; flit; field; repeat split; side.

  Lemma cRz_lin0 a : CRm a 0 = (al * CRp a 0%Z + be * CRq a 0%Z)%F.
  Proof using Fth two_nz hx_nz hy_nz hz_nz Hmx Hmy Hmz Hsx Hsy Hsz. cr_row. Qed.
  Lemma cRz_lin1 a : CRm a 1 = (al * CRp a 1%Z + be * CRq a 1%Z)%F.
  Proof using Fth two_nz hx_nz hy_nz hz_nz Hmx Hmy Hmz Hsx Hsy Hsz. cr_row. Qed.
  Lemma cRz_lin2 a : CRm a 2 = (al * CRp a 2%Z + be * CRq a 2%Z)%F.
  Proof using Fth two_nz hx_nz hy_nz hz_nz Hmx Hmy Hmz Hsx Hsy Hsz. cr_row. Qed.
  Lemma cRz_lin3 a : CRm a 3 = (al * CRp a 3%Z + be * CRq a 3%Z)%F.
  Proof using Fth two_nz hx_nz hy_nz hz_nz Hmx Hmy Hmz Hsx Hsy Hsz. cr_row. Qed.
  Lemma cRz_lin4 a : CRm a 4 = (al * CRp a 4%Z + be * CRq a 4%Z)%F.
  Proof using Fth two_nz hx_nz hy_nz hz_nz Hmx Hmy Hmz Hsx Hsy Hsz. cr_row. Qed.

  Lemma gsz_bvec_lin : 2 <= nz -> forall i, 0 <= i < 5*nz-4 ->
    snd SYSm i = (al * snd SYSp i + be * snd SYSq i)%F.
  Proof.
    intros Hn i Hi.
    pose proof (proj2 (proj2 (proj2 (gsz_system_layout mx my mz smx smy smz eta_x eta_y eta_z zeta
                  hx hy hz nu lhx nx lhy ny lhz nz ix iy Hn)))) as Bm.
    pose proof (proj2 (proj2 (proj2 (gsz_system_layout px py pz spx spy spz eta_x eta_y eta_z zeta
                  hx hy hz nu lhx nx lhy ny lhz nz ix iy Hn)))) as Bp.
    pose proof (proj2 (proj2 (proj2 (gsz_system_layout qx qy qz sqx sqy sqz eta_x eta_y eta_z zeta
                  hx hy hz nu lhx nx lhy ny lhz nz ix iy Hn)))) as Bq.
    pose proof (Z.div_mod i 5 ltac:(lia)) as E.
    pose proof (Z.mod_pos_bound i 5 ltac:(lia)) as Hr.
    set (a := i / 5) in *. set (r := i mod 5) in *. clearbody a r. subst i.
    assert (Ha : 0 <= a < nz) by lia.
    assert (Hok : rowok nz a r) by (unfold rowok; lia).
    rewrite (Bm a r Ha Hok), (Bp a r Ha Hok), (Bq a r Ha Hok).
    destruct (r_cases r Hr) as [->|[->|[->|[->| ->]]]].
    - apply cRz_lin0.
    - apply cRz_lin1.
    - apply cRz_lin2.
    - apply cRz_lin3.
    - apply cRz_lin4.
  Qed.

  Lemma gsz_sol_lin : 2 <= nz ->
    (forall j, 0 <= j < 5*nz-4 -> pivot (5*nz-4) (fst SYSp) j <> 0%F) ->
    forall i, 0 <= i < 5*nz-4 ->
      gsz_sol mx my mz smx smy smz eta_x eta_y eta_z zeta hx hy hz nu lhx nx lhy ny lhz nz ix iy i
      = (al * gsz_sol px py pz spx spy spz eta_x eta_y eta_z zeta hx hy hz nu lhx nx lhy ny lhz nz ix iy i
         + be * gsz_sol qx qy qz sqx sqy sqz eta_x eta_y eta_z zeta hx hy hz nu lhx nx lhy ny lhz nz ix iy i)%F.
  Proof.
    intros Hn Hpiv. unfold gsz_sol.
    rewrite (gsz_matrix_indep2 mx my mz px py pz smx smy smz spx spy spz eta_x eta_y eta_z zeta
               hx hy hz nu lhx nx lhy ny lhz nz ix iy Hn).
    rewrite (gsz_matrix_indep2 qx qy qz px py pz sqx sqy sqz spx spy spz eta_x eta_y eta_z zeta
               hx hy hz nu lhx nx lhy ny lhz nz ix iy Hn).
    apply (GSAffine.solve_lin_ext Fth al be (5*nz-4) (fst SYSp) (snd SYSm) (snd SYSp) (snd SYSq)
             ltac:(lia) Hpiv).
    intros k Hk. now apply gsz_bvec_lin.
  Qed.

  (* the field written back, in the kernel's state order (ez, ex, ey) *)
  Lemma gsz_out_lin : 2 <= nz ->
    (forall j, 0 <= j < 5*nz-4 -> pivot (5*nz-4) (fst SYSp) j <> 0%F) ->
    LinFld al be
      (gsz_outk mx my mz smx smy smz eta_x eta_y eta_z zeta hx hy hz nu lhx nx lhy ny lhz nz ix iy)
      (gsz_outk px py pz spx spy spz eta_x eta_y eta_z zeta hx hy hz nu lhx nx lhy ny lhz nz ix iy)
      (gsz_outk qx qy qz sqx sqy sqz eta_x eta_y eta_z zeta hx hy hz nu lhx nx lhy ny lhz nz ix iy).
  Proof.
    intros Hn Hpiv. pose proof (gsz_sol_lin Hn Hpiv) as Hsol. unfold gsz_outk.
    set (xm := gsz_sol mx my mz _ _ _ _ _ _ _ _ _ _ _ _ _ _ _ _ _ _ _) in *.
    set (x1 := gsz_sol px py pz _ _ _ _ _ _ _ _ _ _ _ _ _ _ _ _ _ _ _) in *.
    set (x2 := gsz_sol qx qy qz _ _ _ _ _ _ _ _ _ _ _ _ _ _ _ _ _ _ _) in *.
    clearbody xm x1 x2.
    unfold LinFld. repeat split; intros i j l.
    - rewrite (proj1 (gsz_wb_spec mx my mz smx smy smz eta_x eta_y eta_z zeta hx hy hz nu lhx nx lhy ny lhz nz ix iy xm ltac:(lia) i j l)).
      rewrite (proj1 (gsz_wb_spec px py pz spx spy spz eta_x eta_y eta_z zeta hx hy hz nu lhx nx lhy ny lhz nz ix iy x1 ltac:(lia) i j l)).
      rewrite (proj1 (gsz_wb_spec qx qy qz sqx sqy sqz eta_x eta_y eta_z zeta hx hy hz nu lhx nx lhy ny lhz nz ix iy x2 ltac:(lia) i j l)).
      unfold lzZ. bdestr; cbn [andb]; first [apply Hsol; lia|apply Hmz].
    - rewrite (proj1 (proj2 (gsz_wb_spec mx my mz smx smy smz eta_x eta_y eta_z zeta hx hy hz nu lhx nx lhy ny lhz nz ix iy xm ltac:(lia) i j l))).
      rewrite (proj1 (proj2 (gsz_wb_spec px py pz spx spy spz eta_x eta_y eta_z zeta hx hy hz nu lhx nx lhy ny lhz nz ix iy x1 ltac:(lia) i j l))).
      rewrite (proj1 (proj2 (gsz_wb_spec qx qy qz sqx sqy sqz eta_x eta_y eta_z zeta hx hy hz nu lhx nx lhy ny lhz nz ix iy x2 ltac:(lia) i j l))).
      unfold lxZ. bdestr; cbn [andb]; first [apply Hsol; lia|apply Hmx].
    - rewrite (proj2 (proj2 (gsz_wb_spec mx my mz smx smy smz eta_x eta_y eta_z zeta hx hy hz nu lhx nx lhy ny lhz nz ix iy xm ltac:(lia) i j l))).
      rewrite (proj2 (proj2 (gsz_wb_spec px py pz spx spy spz eta_x eta_y eta_z zeta hx hy hz nu lhx nx lhy ny lhz nz ix iy x1 ltac:(lia) i j l))).
      rewrite (proj2 (proj2 (gsz_wb_spec qx qy qz sqx sqy sqz eta_x eta_y eta_z zeta hx hy hz nu lhx nx lhy ny lhz nz ix iy x2 ltac:(lia) i j l))).
      unfold lyZ. bdestr; cbn [andb]; first [apply Hsol; lia|apply Hmy].
  Qed.
End LinZ.

Section GSZLinear.
  Context {F : Type} {O : FOps F}.
  Hypothesis Fth : field_theory F0 F1 Fadd Fmul Fsub Fopp Fdiv Finv (@eq F).
  Hypothesis two_nz : (1 + 1)%F <> 0%F.
  Variables (al be : F).
  Variables (emx emy emz e1x e1y e1z e2x e2y e2z : Z -> Z -> Z -> F).
  Variables (smx smy smz s1x s1y s1z s2x s2y s2z : Z -> Z -> Z -> F).
  Variables (eta_x eta_y eta_z zeta : Z -> Z -> Z -> F).
  Variables (hx hy hz : Z -> F).
  Hypothesis hx_nz : forall i, hx i <> 0%F.
  Hypothesis hy_nz : forall i, hy i <> 0%F.
  Hypothesis hz_nz : forall i, hz i <> 0%F.
  Variables (nu nx ny nz : Z).
  Hypothesis Hnc : 2 <= nz.
  Hypothesis Hex : forall i j l, emx i j l = (al * e1x i j l + be * e2x i j l)%F.
  Hypothesis Hey : forall i j l, emy i j l = (al * e1y i j l + be * e2y i j l)%F.
  Hypothesis Hez : forall i j l, emz i j l = (al * e1z i j l + be * e2z i j l)%F.
  Hypothesis Hsx : forall i j l, smx i j l = (al * s1x i j l + be * s2x i j l)%F.
  Hypothesis Hsy : forall i j l, smy i j l = (al * s1y i j l + be * s2y i j l)%F.
  Hypothesis Hsz : forall i j l, smz i j l = (al * s1z i j l + be * s2z i j l)%F.
  Hypothesis pivots : forall ix iy, 1 <= ix < nx -> 1 <= iy < ny ->
    PivZ e1x e1y e1z s1x s1y s1z eta_x eta_y eta_z zeta hx hy hz nu nx nx ny ny nz nz ix iy.

  Lemma linestepZ_lin ix iy fm f1 f2 : 1 <= ix < nx -> 1 <= iy < ny -> LinFld al be fm f1 f2 ->
    LinFld al be (linestepZ smx smy smz eta_x eta_y eta_z zeta hx hy hz nu nx ny nz ix iy fm)
                 (linestepZ s1x s1y s1z eta_x eta_y eta_z zeta hx hy hz nu nx ny nz ix iy f1)
                 (linestepZ s2x s2y s2z eta_x eta_y eta_z zeta hx hy hz nu nx ny nz ix iy f2).
  Proof.
    intros Hp Hq (G1 & G2 & G3).
    destruct fm as [[mz mx] my], f1 as [[pz px] py], f2 as [[qz qx] qy]. cbn [fst snd] in G1, G2, G3.
    unfold linestepZ. cbn [fst snd].
    apply (gsz_out_lin Fth two_nz al be mx my mz px py pz qx qy qz smx smy smz s1x s1y s1z s2x s2y s2z
             eta_x eta_y eta_z zeta hx hy hz hx_nz hy_nz hz_nz nu nx nx ny ny nz nz ix iy
             G2 G3 G1 Hsx Hsy Hsz Hnc).
    rewrite (gsz_matrix_indep2 px py pz e1x e1y e1z s1x s1y s1z s1x s1y s1z eta_x eta_y eta_z zeta
               hx hy hz nu nx nx ny ny nz nz ix iy Hnc).
    exact (pivots ix iy Hp Hq).
  Qed.

  Theorem gauss_seidel_z_linear :
    let rm := gauss_seidel_z nx ny nz emx emy emz smx smy smz eta_x eta_y eta_z zeta hx hy hz nu in
    let r1 := gauss_seidel_z nx ny nz e1x e1y e1z s1x s1y s1z eta_x eta_y eta_z zeta hx hy hz nu in
    let r2 := gauss_seidel_z nx ny nz e2x e2y e2z s2x s2y s2z eta_x eta_y eta_z zeta hx hy hz nu in
    forall i j l,
      fst (fst rm) i j l = (al * fst (fst r1) i j l + be * fst (fst r2) i j l)%F /\
      snd (fst rm) i j l = (al * snd (fst r1) i j l + be * snd (fst r2) i j l)%F /\
      snd rm i j l = (al * snd r1 i j l + be * snd r2 i j l)%F.
  Proof.
    cbv zeta. rewrite !gauss_seidel_z_is_sweeps. cbv zeta. cbn [fst snd].
    pose proof (sweeps_rel3 nx ny
                  (linestepZ smx smy smz eta_x eta_y eta_z zeta hx hy hz nu nx ny nz)
                  (linestepZ s1x s1y s1z eta_x eta_y eta_z zeta hx hy hz nu nx ny nz)
                  (linestepZ s2x s2y s2z eta_x eta_y eta_z zeta hx hy hz nu nx ny nz)
                  (LinFld al be) linestepZ_lin nu (emz, emx, emy) (e1z, e1x, e1y) (e2z, e2x, e2y)) as G.
    destruct G as (G1 & G2 & G3); [repeat split; assumption|].
    intros i j l. repeat split; [apply G2|apply G3|apply G1].
  Qed.
End GSZLinear.

Section GSZLast.
  Context {F : Type} {O : FOps F}.
  Hypothesis Fth : field_theory F0 F1 Fadd Fmul Fsub Fopp Fdiv Finv (@eq F).
  Hypothesis two_nz : (1 + 1)%F <> 0%F.
  Variables (ex ey ez sx sy sz eta_x eta_y eta_z zeta : Z -> Z -> Z -> F).
  Variables (hx hy hz : Z -> F).
  Hypothesis hx_nz : forall i, hx i <> 0%F.
  Hypothesis hy_nz : forall i, hy i <> 0%F.
  Hypothesis hz_nz : forall i, hz i <> 0%F.
  Variables (nu nx ny nz : Z).

  Theorem gauss_seidel_z_last_line_exact :
    1 <= nu -> 2 <= nx -> 2 <= ny -> 2 <= nz ->
    let ix := last_line nu nx in let iy := last_line nu ny in
    PECz ex ey nz ix iy ->
    PivZ ex ey ez sx sy sz eta_x eta_y eta_z zeta hx hy hz nu nx nx ny ny nz nz ix iy ->
    let r := gauss_seidel_z nx ny nz ex ey ez sx sy sz eta_x eta_y eta_z zeta hx hy hz nu in
    forall i, 0 <= i < 5*nz-4 ->
      fld_resZ sx sy sz eta_x eta_y eta_z zeta hx hy hz ix iy
        (fst (fst r)) (snd (fst r)) (snd r) (i / 5) (i mod 5) = 0%F.
  Proof.
    intros Hnu Hnx Hny Hnz ix iy Hpec Hpiv r. subst r. rewrite gauss_seidel_z_is_sweeps.
    cbv zeta. cbn [fst snd].
    pose (P := fun (p q : Z) (f : @Fld F) =>
      PECz ex ey nz p q ->
      PivZ ex ey ez sx sy sz eta_x eta_y eta_z zeta hx hy hz nu nx nx ny ny nz nz p q ->
      forall i, 0 <= i < 5*nz-4 ->
        fld_resZ sx sy sz eta_x eta_y eta_z zeta hx hy hz p q
          (snd (fst f)) (snd f) (fst (fst f)) (i / 5) (i mod 5) = 0%F).
    assert (G : P ix iy (sweeps nx ny (linestepZ sx sy sz eta_x eta_y eta_z zeta hx hy hz nu nx ny nz)
                           nu (ez, ex, ey))).
    { apply (sweeps_last nx ny (linestepZ sx sy sz eta_x eta_y eta_z zeta hx hy hz nu nx ny nz)
               (FrameZ ex ey ez nx ny nz)); try assumption.
      - intros p q f Hp Hq Gf.
        exact (FrameZ_step ex ey ez sx sy sz eta_x eta_y eta_z zeta hx hy hz nu nx ny nz p q f Hp Hq Gf).
      - intros p q f Hp Hq (G1 & G2 & G3) Hpec' Hpiv'. destruct f as [[fz fx] fy]. cbn [fst snd] in G1, G2, G3.
        pose proof (gsz_line_exact_out Fth two_nz fx fy fz sx sy sz eta_x eta_y eta_z zeta hx hy hz
                 hx_nz hy_nz hz_nz nu nx nx ny ny nz nz p q ltac:(lia) ltac:(lia) ltac:(lia)) as H.
        unfold gsz_out in H. cbn [fst snd] in H.
        unfold linestepZ. cbn [fst snd]. apply H.
        + unfold PECz in *. rewrite !G2, !G3 by lia. exact Hpec'.
        + unfold PivZ in *.
          rewrite (gsz_matrix_indep fx fy fz ex ey ez sx sy sz eta_x eta_y eta_z zeta hx hy hz
                     nu nx nx ny ny nz nz p q ltac:(lia)).
          exact Hpiv'.
      - unfold FrameZ. cbn [fst snd]. repeat split; intros; reflexivity. }
    exact (G Hpec Hpiv).
  Qed.
End GSZLast.

(* Sanity check of (B) on a concrete 3x2x3 rational instance (interior lines
   (1,1) and (2,1)): nu = 1 (last line (1,1)) leaves line (1,1) exact and
   (2,1) not. *)
From Coq Require Import QArith.
From V Require Import Base.ExecQ.
Local Open Scope Z_scope.
Definition resz_at (nu p q : Z) : Z -> Q :=
  let r := gauss_seidel_z 3 2 3 zex zey zez tsx tsy tsz xeta xeta xeta xzeta xh xh xh nu in
  fun i => fld_resZ tsx tsy tsz xeta xeta xeta xzeta xh xh xh p q
             (fst (fst r)) (snd (fst r)) (snd r) (i / 5) (i mod 5).

Example gsz_last_example :
  (forall i, 0 <= i < 11 -> resz_at 1 1 1 i = 0%F) /\ some_nonzero (resz_at 1 2 1) 11 = true.
Proof.
  split.
  - by_dump 11 (resz_at 1 1 1) (fun _ : Z => 0%F).
  - vm_compute; reflexivity.
Qed.

Print Assumptions gauss_seidel_z_is_sweeps.
Print Assumptions gsz_matrix_indep2.
Print Assumptions gsz_out_lin.
Print Assumptions gauss_seidel_z_linear.
Print Assumptions gauss_seidel_z_last_line_exact.
Print Assumptions gsz_last_example.
