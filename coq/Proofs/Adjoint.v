(* Proofs/Adjoint.v -- C07/C08: the algebra of the adjoint-state method for
   Model/Adjoint.v.  Everything is exact (no limits, no norms): K is any field
   of characteristic <> 2 with an involutive ring automorphism [conj]
   (instances: C with complex conjugation, Q(i), R with the identity). *)
From Coq Require Import ZArith List Bool Ring Field Lia.
From V Require Import Base.FieldSig Base.Sums Model.Adjoint.
Import ListNotations.

Section AdjointProofs.
  Context {K : Type} {O : FOps K}.
  Hypothesis Fth : field_theory F0 F1 Fadd Fmul Fsub Fopp Fdiv Finv (@eq K).
  Hypothesis two_nz : (1 + 1)%F <> 0%F.
  Add Field Kf : Fth.
  Local Open Scope F_scope.

  Variable conj : K -> K.
  Hypothesis conj_add : forall x y, conj (x + y) = conj x + conj y.
  Hypothesis conj_mul : forall x y, conj (x * y) = conj x * conj y.
  Hypothesis conj_invol : forall x, conj (conj x) = x.

  Notation re := (re conj).
  Notation abs2 := (abs2 conj).

  (* ---------------------------------------------------------------------- *)
  (* conj and re                                                             *)
  Lemma add_self_zero (x : K) : x = x + x -> x = 0.
  Proof. intros H. transitivity (x + x - x); [ring|]. rewrite <- H. ring. Qed.

  Lemma conj_0 : conj 0 = 0.
  Proof. apply add_self_zero. rewrite <- conj_add. f_equal. ring. Qed.

  Lemma conj_opp x : conj (- x) = - conj x.
  Proof.
    assert (H : conj (- x) + conj x = 0).
    { rewrite <- conj_add. replace (- x + x) with (0 : K) by ring. apply conj_0. }
    transitivity (conj (- x) + conj x - conj x); [ring|]. rewrite H. ring.
  Qed.

  Lemma conj_sub x y : conj (x - y) = conj x - conj y.
  Proof.
    replace (x - y) with (x + - y) by ring. rewrite conj_add, conj_opp. ring.
  Qed.

  Lemma conj_nz x : x <> 0 -> conj x <> 0.
  Proof. intros H E. apply H. rewrite <- (conj_invol x), E. apply conj_0. Qed.

  Lemma conj_div x y : y <> 0 -> conj (x / y) = conj x / conj y.
  Proof.
    intros Hy.
    assert (H : conj (x / y) * conj y = conj x).
    { rewrite <- conj_mul. f_equal. field. exact Hy. }
    transitivity (conj (x / y) * conj y / conj y).
    - field. now apply conj_nz.
    - now rewrite H.
  Qed.

  Lemma conj_sum {I} (l : list I) (f : I -> K) :
    conj (sum l f) = sum l (fun i => conj (f i)).
  Proof. apply (sum_morph conj l f conj_0 conj_add). Qed.

  Lemma re_0 : re 0 = 0.
  Proof. unfold Adjoint.re. rewrite conj_0. field. exact two_nz. Qed.

  Lemma re_add x y : re (x + y) = re x + re y.
  Proof. unfold Adjoint.re. rewrite conj_add. field. exact two_nz. Qed.

  Lemma re_sub x y : re (x - y) = re x - re y.
  Proof. unfold Adjoint.re. rewrite conj_sub. field. exact two_nz. Qed.

  Lemma re_opp x : re (- x) = - re x.
  Proof. unfold Adjoint.re. rewrite conj_opp. field. exact two_nz. Qed.

  Lemma re_real x : conj x = x -> re x = x.
  Proof. intros H. unfold Adjoint.re. rewrite H. field. exact two_nz. Qed.

  Lemma re_conj x : re (conj x) = re x.
  Proof. unfold Adjoint.re. rewrite conj_invol. field. exact two_nz. Qed.

  Lemma re_mul_real a x : conj a = a -> re (a * x) = a * re x.
  Proof. intros H. unfold Adjoint.re. rewrite conj_mul, H. field. exact two_nz. Qed.

  Lemma conj_re x : conj (re x) = re x.
  Proof.
    unfold Adjoint.re. rewrite conj_div by exact two_nz.
    rewrite !conj_add, conj_invol.
    assert (H1 : conj 1 = 1).
    { assert (N : conj 1 <> 0) by (apply conj_nz; intros E; apply two_nz; rewrite E; ring).
      assert (E : conj 1 * conj 1 = conj 1) by (rewrite <- conj_mul; f_equal; ring).
      transitivity (conj 1 * conj 1 / conj 1); [field; exact N|]. rewrite E. field. exact N. }
    rewrite H1. field. exact two_nz.
  Qed.

  Lemma re_sum {I} (l : list I) (f : I -> K) :
    re (sum l f) = sum l (fun i => re (f i)).
  Proof. apply (sum_morph re l f re_0 re_add). Qed.

  Lemma abs2_real x : conj (abs2 x) = abs2 x.
  Proof. unfold Adjoint.abs2. rewrite conj_mul, conj_invol. ring. Qed.

  (* ---------------------------------------------------------------------- *)
  Context {IE IC ID IM : Type}.
  Variables (E : list IE) (C : list IC) (Dt : list ID) (M : list IM).
  Variable K0 : (IE -> K) -> IE -> K.
  Variable Av : (IC -> K) -> IE -> K.
  Variable AvT : (IE -> K) -> IC -> K.
  Variable s : K.
  Variable p : ID -> IE -> K.
  Variable fin : ID -> bool.
  Variables (obs w : ID -> K).

  Notation dotE := (dotE E).
  Notation dotC := (dotC C).
  Notation dotD := (dotD Dt).
  Notation dotM := (dotM M).
  Notation Aop := (Aop K0 Av s).
  Notation P := (P E p).
  Notation PT := (PT Dt p).
  Notation residual := (residual E p obs).
  Notation misfit_of := (misfit_of conj Dt fin w).
  Notation misfit := (misfit conj E Dt p fin obs w).
  Notation strength := (strength conj s w).
  Notation rsource := (rsource conj Dt s p fin w).
  Notation gfield := (gfield conj s).
  Notation grad := (grad conj AvT s).
  Notation remainder := (remainder conj E Dt Av s p fin w).

  (* hypotheses on the operators (discharged elsewhere: C02 symmetry of the
     kernel, vol_avg_is_edge_avg_transpose below, C13 weights) *)
  Hypothesis K0_sym : forall u v, dotE (K0 u) v = dotE u (K0 v).
  Hypothesis Av_add : forall a b i, Av (fun k => a k + b k) i = Av a i + Av b i.
  Hypothesis Av_T : forall a x, dotE (Av a) x = dotC a (AvT x).
  Hypothesis Av_real : forall a, (forall k, conj (a k) = a k) ->
                                 forall i, conj (Av a i) = Av a i.
  Hypothesis w_real : forall j, conj (w j) = w j.
  Hypothesis s_imag : conj s = - s.          (* frequency domain: s = i omega mu0 *)
  Hypothesis s_nz : s <> 0.

  Lemma neg_s_nz : - s <> 0.
  Proof. intros H. apply s_nz. transitivity (- - s); [ring|]. rewrite H. ring. Qed.

  Lemma dotE_comm u v : dotE u v = dotE v u.
  Proof. unfold Adjoint.dotE. apply sum_ext. intros. ring. Qed.

  Lemma dotC_comm u v : dotC u v = dotC v u.
  Proof. unfold Adjoint.dotC. apply sum_ext. intros. ring. Qed.

  (* the system matrix is (complex-)symmetric *)
  Lemma Aop_sym sig u v : dotE (Aop sig u) v = dotE u (Aop sig v).
  Proof.
    transitivity (dotE (K0 u) v + sum E (fun i => s * Av sig i * u i * v i)).
    { unfold Adjoint.dotE, Adjoint.Aop. rewrite <- (sum_add Fth).
      apply sum_ext. intros. ring. }
    rewrite K0_sym. unfold Adjoint.dotE, Adjoint.Aop. rewrite <- (sum_add Fth).
    apply sum_ext. intros. ring.
  Qed.

  (* sampling and its transpose *)
  Lemma P_PT u y : dotD (P u) y = dotE u (PT y).
  Proof.
    unfold Adjoint.dotD, Adjoint.dotE, Adjoint.P, Adjoint.PT.
    transitivity (sum Dt (fun j => sum E (fun i => p j i * u i * y j))).
    { apply sum_ext. intros j _. symmetry.
      apply (sum_scale_r Fth E (y j) (fun i => p j i * u i)). }
    rewrite (sum_exchange Fth). apply sum_ext. intros i _.
    rewrite <- (sum_scale_l Fth). apply sum_ext. intros. ring.
  Qed.

  Lemma P_sub u v j : P (fun i => u i - v i) j = P u j - P v j.
  Proof.
    unfold Adjoint.P. rewrite <- (sum_sub Fth). apply sum_ext. intros. ring.
  Qed.

  Lemma P_add u v j : P (fun i => u i + v i) j = P u j + P v j.
  Proof.
    unfold Adjoint.P. rewrite <- (sum_add Fth). apply sum_ext. intros. ring.
  Qed.

  (* what the code builds as adjoint source strength, times (-smu0) *)
  Lemma strength_eq r j : strength r j * (- s) = - (conj (r j) * w j).
  Proof.
    unfold Adjoint.strength. rewrite conj_div by exact neg_s_nz.
    rewrite conj_mul, conj_opp, s_imag, w_real.
    replace (- - s) with s by ring. field. exact s_nz.
  Qed.

  (* the residual source is  - PT (conj (r w))  on finite data, 0 elsewhere *)
  Lemma rsource_eq r i :
    rsource r i = - PT (fun j => if fin j then conj (r j) * w j else 0) i.
  Proof.
    unfold Adjoint.rsource, Adjoint.PT. rewrite <- (sum_opp Fth).
    apply sum_ext. intros j _. destruct (fin j).
    - rewrite strength_eq. ring.
    - ring.
  Qed.

  (* C07 nan_data_ignored, source half: a datum with NaN residual contributes
     nothing to the residual source, whatever the values stored for it *)
  Lemma rsource_ignores_nan r r' :
    (forall j, fin j = true -> r j = r' j) -> forall i, rsource r i = rsource r' i.
  Proof.
    intros H i. unfold Adjoint.rsource, Adjoint.PT. apply sum_ext. intros j _.
    destruct (fin j) eqn:Ej; [|reflexivity].
    unfold Adjoint.strength. now rewrite (H j Ej).
  Qed.

  Lemma misfit_ignores_nan r r' :
    (forall j, fin j = true -> r j = r' j) -> misfit_of r = misfit_of r'.
  Proof.
    intros H. unfold Adjoint.misfit_of. do 2 f_equal. apply sum_ext.
    intros j Hj. apply filter_In in Hj. destruct Hj as [_ Hj].
    now rewrite (H j Hj).
  Qed.

  (* the residual source tested against any field z *)
  Lemma rsource_dot r z :
    dotE (rsource r) z = - sum (filter fin Dt) (fun j => w j * (conj (r j) * P z j)).
  Proof.
    rewrite dotE_comm.
    transitivity (dotE z (PT (fun j => if fin j then - (conj (r j) * w j) else 0))).
    { unfold Adjoint.dotE. apply sum_ext. intros i _. f_equal.
      rewrite rsource_eq. unfold Adjoint.PT. rewrite <- (sum_opp Fth).
      apply sum_ext. intros j _. destruct (fin j); ring. }
    rewrite <- P_PT. unfold Adjoint.dotD. rewrite (sum_filter Fth), <- (sum_opp Fth).
    apply sum_ext. intros j _. destruct (fin j); ring.
  Qed.

  (* ---------------------------------------------------------------------- *)
  (* C07: the exact expansion of the misfit                                   *)
  Section Expansion.
    Variables (sig delta : IC -> K) (f e e' b : IE -> K).
    Hypothesis delta_real : forall k, conj (delta k) = delta k.
    Hypothesis He : forall i, In i E -> Aop sig e i = f i.
    Hypothesis He' : forall i, In i E -> Aop (fun k => sig k + delta k) e' i = f i.
    Hypothesis Hb : forall i, In i E -> Aop sig b i = rsource (residual e) i.

    Let De : IE -> K := fun i => e' i - e i.
    Let r : ID -> K := residual e.

    Lemma adjoint_identity :
      dotE (rsource r) De = - dotE b (fun i => s * Av delta i * e' i).
    Proof.
      assert (H1 : dotE (rsource r) De = dotE b (Aop sig e') - dotE b (Aop sig e)).
      { rewrite <- !Aop_sym. unfold Adjoint.dotE. rewrite <- (sum_sub Fth).
        apply sum_ext. intros i Hi. rewrite (Hb i Hi). unfold De, r. ring. }
      rewrite H1. unfold Adjoint.dotE. rewrite <- (sum_sub Fth), <- (sum_opp Fth).
      apply sum_ext. intros i Hi.
      pose proof (He i Hi) as A1. pose proof (He' i Hi) as A2.
      unfold Adjoint.Aop in *. rewrite Av_add in A2. rewrite A1.
      replace (K0 e' i + s * Av sig i * e' i) with (f i - s * Av delta i * e' i)
        by (rewrite <- A2; ring).
      ring.
    Qed.

    (* cross term of the misfit difference = <b, s Av(delta) e'> *)
    Lemma cross_term :
      sum (filter fin Dt) (fun j => w j * (conj (r j) * P De j))
      = dotE b (fun i => s * Av delta i * e' i).
    Proof.
      pose proof (rsource_dot r De) as H.
      rewrite adjoint_identity in H.
      transitivity (- - sum (filter fin Dt) (fun j => w j * (conj (r j) * P De j))); [ring|].
      rewrite <- H. ring.
    Qed.

    Theorem misfit_expansion :
      misfit e' - misfit e = dotC (grad e b) delta + remainder e e' b delta.
    Proof.
      set (L := sum (filter fin Dt) (fun j => w j * (conj (r j) * P De j))).
      set (T := sum (filter fin Dt) (fun j => w j * abs2 (P De j))).
      (* 1. the difference of the two sums *)
      assert (HS : sum (filter fin Dt) (fun j => w j * (conj (residual e' j) * residual e' j))
                   - sum (filter fin Dt) (fun j => w j * (conj (r j) * r j))
                   = L + conj L + T).
      { unfold L, T. rewrite conj_sum.
        rewrite <- (sum_sub Fth), <- !(sum_add Fth). apply sum_ext. intros j _.
        assert (Hr : residual e' j = r j + P De j).
        { unfold r, Adjoint.residual, De. rewrite P_sub. ring. }
        rewrite Hr, conj_add, !conj_mul, conj_invol, w_real.
        unfold Adjoint.abs2. ring. }
      (* 2. real parts *)
      assert (HT : conj T = T).
      { unfold T. rewrite conj_sum. apply sum_ext. intros j _.
        now rewrite conj_mul, w_real, abs2_real. }
      assert (HM : misfit e' - misfit e = re L + T / (1 + 1)).
      { unfold Adjoint.misfit, Adjoint.misfit_of. fold r.
        transitivity (re (sum (filter fin Dt)
                            (fun j => w j * (conj (residual e' j) * residual e' j))
                          - sum (filter fin Dt) (fun j => w j * (conj (r j) * r j)))
                      / (1 + 1)).
        { rewrite re_sub. field. exact two_nz. }
        rewrite HS, !re_add, re_conj, (re_real T HT). field. exact two_nz. }
      rewrite HM. unfold Adjoint.remainder. fold De. fold T.
      (* 3. the linear term *)
      unfold L. rewrite cross_term.
      assert (Hsplit : dotE b (fun i => s * Av delta i * e' i)
                       = dotE b (fun i => s * Av delta i * e i)
                         + dotE b (fun i => s * Av delta i * De i)).
      { unfold Adjoint.dotE. rewrite <- (sum_add Fth). apply sum_ext. intros.
        unfold De. ring. }
      rewrite Hsplit, re_add.
      assert (Hg : re (dotE b (fun i => s * Av delta i * e i)) = dotC (grad e b) delta).
      { rewrite dotC_comm. unfold Adjoint.grad. rewrite <- Av_T.
        unfold Adjoint.dotE. rewrite re_sum. apply sum_ext. intros i _.
        unfold Adjoint.gfield.
        rewrite <- (re_mul_real (Av delta i)) by (now apply Av_real).
        f_equal. ring. }
      rewrite Hg. unfold De. field. exact two_nz.
    Qed.
  End Expansion.

  (* sum over source-frequency pairs: expansions add up *)
  Lemma expansion_sum {X} (Xs : list X) (phi phi' Q : X -> K) (g : X -> IC -> K)
        (delta : IC -> K) :
    (forall x, In x Xs -> phi' x - phi x = dotC (g x) delta + Q x) ->
    sum Xs phi' - sum Xs phi
    = dotC (fun k => sum Xs (fun x => g x k)) delta + sum Xs Q.
  Proof.
    intros H. rewrite <- (sum_sub Fth).
    rewrite (sum_ext Xs _ (fun x => dotC (g x) delta + Q x) H).
    rewrite (sum_add Fth). f_equal.
    unfold Adjoint.dotC. rewrite (sum_exchange Fth). apply sum_ext. intros k _.
    apply (sum_scale_r Fth).
  Qed.

  (* sum over source-frequency pairs, adjoint side: if for every pair x the
     data-space pairing S x equals the model-space pairing of that pair's
     contribution g x (brought to the model grid by ITS transpose VT_x), then
     the total pairing equals the pairing with the ACCUMULATED contributions,
     the chain factor being applied once after accumulation (as the code does) *)
  Lemma adjoint_sum {X} (Xs : list X) (S : X -> K) (g : X -> IM -> K) (c v : IM -> K) :
    (forall x, In x Xs -> re (S x) = dotM (fun m => c m * g x m) v) ->
    re (sum Xs S) = dotM (fun m => c m * sum Xs (fun x => g x m)) v.
  Proof.
    intros H. rewrite re_sum. rewrite (sum_ext Xs _ _ H).
    unfold Adjoint.dotM. rewrite (sum_exchange Fth). apply sum_ext. intros m _.
    rewrite <- (sum_scale_l Fth), <- (sum_scale_r Fth). apply sum_ext. intros. ring.
  Qed.

  (* ---------------------------------------------------------------------- *)
  (* C08                                                                      *)
  Section Sensitivity.
    Variable V : (IM -> K) -> IC -> K.
    Variable VT : (IC -> K) -> IM -> K.
    Variable c : IM -> K.
    Notation jsource := (jsource Av s).
    Notation jvec_dsig := (jvec_dsig V c).
    Notation jt_residual := (jt_residual w).
    Notation jtvec_of := (jtvec_of conj AvT s VT c).

    (* J delta is the derivative of the data: exact form *)
    Section Derivative.
      Variables (sig delta : IC -> K) (f e e' u rho : IE -> K).
      Hypothesis K0_sub : forall a b i, K0 (fun k => a k - b k) i = K0 a i - K0 b i.
      Hypothesis A_inj : forall z, (forall i, In i E -> Aop sig z i = 0) ->
                                   forall i, In i E -> z i = 0.
      Hypothesis He : forall i, In i E -> Aop sig e i = f i.
      Hypothesis He' : forall i, In i E -> Aop (fun k => sig k + delta k) e' i = f i.
      Hypothesis Hu : forall i, In i E -> Aop sig u i = jsource e delta i.
      Hypothesis Hrho : forall i, In i E ->
                          Aop sig rho i = jsource (fun k => e' k - e k) delta i.

      Lemma field_difference i : In i E -> e' i - e i = u i + rho i.
      Proof.
        intros Hi.
        assert (Z : e' i - e i - u i - rho i = 0).
        { apply (A_inj (fun k => e' k - e k - u k - rho k)); [|exact Hi]. intros k Hk.
          pose proof (He k Hk) as A1. pose proof (He' k Hk) as A2.
          pose proof (Hu k Hk) as A3. pose proof (Hrho k Hk) as A4.
          unfold Adjoint.Aop, Adjoint.jsource in *. rewrite Av_add in A2.
          rewrite !K0_sub.
          replace (K0 e' k) with (f k - s * (Av sig k + Av delta k) * e' k)
            by (rewrite <- A2; ring).
          replace (K0 e k) with (f k - s * Av sig k * e k) by (rewrite <- A1; ring).
          replace (K0 u k) with (- s * (e k * Av delta k) - s * Av sig k * u k)
            by (rewrite <- A3; ring).
          replace (K0 rho k) with (- s * ((e' k - e k) * Av delta k) - s * Av sig k * rho k)
            by (rewrite <- A4; ring).
          ring. }
        transitivity (e' i - e i - u i - rho i + (u i + rho i)); [ring|].
        rewrite Z. ring.
      Qed.

      Theorem jvec_derivative j : P e' j - P e j = P u j + P rho j.
      Proof.
        rewrite <- P_sub, <- P_add. unfold Adjoint.P. apply sum_ext. intros i Hi.
        now rewrite (field_difference i Hi).
      Qed.
    End Derivative.

    (* J^T is the exact adjoint of J, for EVERY pair V / VT of transposes
       (identity, volume averaging to any computational grid, ...) *)
    Section Adjointness.
      Variables (sig : IC -> K) (e u b : IE -> K) (v : IM -> K) (y : ID -> K).
      Hypothesis V_T : forall a x, dotC (V a) x = dotM a (VT x).
      Hypothesis V_real : forall a, (forall m, conj (a m) = a m) ->
                                    forall k, conj (V a k) = V a k.
      Hypothesis c_real : forall m, conj (c m) = c m.
      Hypothesis v_real : forall m, conj (v m) = v m.
      Hypothesis w_nz : forall j, fin j = true -> w j <> 0.
      Hypothesis Hu : forall i, In i E -> Aop sig u i = jsource e (jvec_dsig v) i.
      Hypothesis Hb : forall i, In i E -> Aop sig b i = rsource (jt_residual y) i.

      Theorem jt_adjoint_eq :
        re (sum (filter fin Dt) (fun j => conj (y j) * P u j)) = dotM (jtvec_of e b) v.
      Proof.
        set (ds := jvec_dsig v).
        assert (ds_real : forall k, conj (ds k) = ds k).
        { unfold ds, Adjoint.jvec_dsig. apply V_real. intros m.
          now rewrite conj_mul, c_real, v_real. }
        (* right-hand side down to the edges *)
        assert (R1 : dotM (jtvec_of e b) v = dotE (Av ds) (gfield e b)).
        { rewrite Av_T.
          transitivity (dotM (fun m => c m * v m) (VT (grad e b))).
          { unfold Adjoint.dotM, Adjoint.jtvec_of. apply sum_ext. intros. ring. }
          rewrite <- V_T. reflexivity. }
        assert (R2 : dotE (Av ds) (gfield e b) = - re (dotE b (jsource e ds))).
        { unfold Adjoint.dotE. rewrite <- re_opp, <- (sum_opp Fth), re_sum.
          apply sum_ext. intros i _. unfold Adjoint.gfield, Adjoint.jsource.
          rewrite <- (re_mul_real (Av ds i)) by (now apply Av_real).
          f_equal. ring. }
        assert (R3 : dotE b (jsource e ds) = dotE (rsource (jt_residual y)) u).
        { transitivity (dotE b (Aop sig u)).
          { unfold Adjoint.dotE. apply sum_ext. intros i Hi. now rewrite (Hu i Hi). }
          rewrite <- Aop_sym. unfold Adjoint.dotE. apply sum_ext. intros i Hi.
          now rewrite (Hb i Hi). }
        rewrite R1, R2, R3, rsource_dot, <- re_opp. f_equal.
        transitivity (sum (filter fin Dt)
                        (fun j => w j * (conj (jt_residual y j) * P u j))); [|ring].
        apply sum_ext. intros j Hj. apply filter_In in Hj. destruct Hj as [_ Hj].
        unfold Adjoint.jt_residual. rewrite conj_div by (now apply w_nz).
        rewrite w_real. field. now apply w_nz.
      Qed.
    End Adjointness.

    (* jtvec of the weighted residual solves the same adjoint problem as the
       gradient: same residual source, hence same back-propagated field and
       the same result *)
    Theorem jtvec_weighted_residual_source r i :
      (forall j, fin j = true -> w j <> 0) ->
      rsource (jt_residual (fun j => r j * w j)) i = rsource r i.
    Proof.
      intros w_nz. apply rsource_ignores_nan. intros j Hj.
      unfold Adjoint.jt_residual. field. now apply w_nz.
    Qed.
  End Sensitivity.
End AdjointProofs.
