(* Proofs/GriddingSea.v -- C16: the sea-surface branch (_seasurface) and the
   full postcondition of origin_and_widths.  brentq is an oracle with the
   contract stated as Section hypotheses:
     brentq_bracket : the answer lies in the bracket [0.5, 10] handed to scipy
     brentq_root    : it is a root of f(alpha) = sum(tdmin*alpha**k, k=1..n) - delta
                      to within [tol]   (only used for "how close is the node") *)
From Coq Require Import Reals ZArith Bool List Arith Lra Lia Sorted Psatz.
From V Require Import Base.FieldSig Model.Gridding Proofs.Gridding.
Import ListNotations.
Local Open Scope R_scope.

Lemma c07_val : @c07 R GROps = 7 / 10.
Proof. unfold c07, Flit. rewrite FofZ_IZR, Fpos_IZR. reflexivity. Qed.
Lemma c13_val : @c13 R GROps = 13 / 10.
Proof. unfold c13, Flit. rewrite FofZ_IZR, Fpos_IZR. reflexivity. Qed.
Lemma c11_val : @c11 R GROps = 11 / 10.
Proof. unfold c11, Flit. rewrite FofZ_IZR, Fpos_IZR. reflexivity. Qed.
Lemma c125_val : @c125 R GROps = 5 / 4.
Proof. unfold c125, Flit. rewrite FofZ_IZR, Fpos_IZR. reflexivity. Qed.

Lemma nth_posR i (l : list R) d : Forall posR l -> posR d -> posR (nth i l d).
Proof.
  intros Hl Hd. destruct (nth_in_or_default i l d) as [H|H]; [|rewrite H; exact Hd].
  rewrite Forall_forall in Hl. apply Hl, H.
Qed.

Lemma linspace_Forall_pos a b n : 0 < a -> 0 < b -> Forall posR (linspace a b n).
Proof.
  intros Ha Hb. apply Forall_forall. intros x Hx. exact (linspace_pos a b n x Ha Hb Hx).
Qed.

Section Sea.
  Variable floorZ : R -> Z.
  Variable brentq : R -> R -> Z -> R.
  Variable argsort13 : list R -> list nat.
  Hypothesis brentq_bracket : forall t d n, 1 / 2 <= brentq t d n <= 10.

  Notation sadj := (seasurface_adjust gleb floorZ brentq argsort13).
  Notation stry := (sea_try gleb floorZ brentq).

  (* every squeeze/stretch factor tried is positive *)
  Lemma sea_frange_pos widths hv lim :
    0 < hd0 widths -> limits_pos lim -> Forall posR (sea_frange gleb argsort13 widths hv lim).
  Proof using Type.
    intros Hw Hl. assert (H1 : posR 1) by (unfold posR; lra).
    assert (Hone : Forall posR [1%F]) by (constructor; [exact H1|constructor]).
    unfold sea_frange. destruct hv; [exact Hone|].
    assert (Hgen : forall fmn fmx, 0 < fmn -> 0 < fmx ->
      Forall posR (let fr := linspace fmn fmx 13 in
                   let keys := map (fun f => fabs gleb (f - 1)%F) fr in
                   let srt := map (fun i => nth i fr 1%F) (argsort13 keys) in
                   if (gleb (hd 0%F srt) 1%F && gleb 1%F (hd 0%F srt))%bool then srt else 1%F :: srt)).
    { intros fmn fmx Hmn Hmx. cbv zeta.
      assert (Hs : Forall posR (map (fun i => nth i (linspace fmn fmx 13) 1%F)
                     (argsort13 (map (fun f => fabs gleb (f - 1)%F) (linspace fmn fmx 13))))).
      { apply Forall_forall. intros x Hx. apply in_map_iff in Hx. destruct Hx as [k [<- _]].
        apply nth_posR; [apply linspace_Forall_pos; assumption|exact H1]. }
      destruct (_ && _)%bool; [exact Hs|constructor; [exact H1|exact Hs]]. }
    destruct Hl as [|v Hv|lo hi Hhi].
    - apply Hgen; rewrite ?c07_val, ?c13_val; lra.
    - exact Hone.
    - apply Hgen.
      + rewrite fmax_spec, c07_val. pose proof (Rmax_l (7 / 10) (lo / hd0 widths)%F). lra.
      + rewrite fmin_spec, c13_val. cbn [Fdiv GROps].
        assert (0 < hi / hd0 widths) by (apply Rdiv_lt_0_compat; assumption).
        unfold Rmin. destruct (Rle_dec (13 / 10) (hi / hd0 widths)); lra.
  Qed.

  Definition sea_allow (hv : bool) (s0 s1 : R) : R :=
    Rmin ((if hv then 5 / 4 else 11 / 10) * s0) s1.

  (* one successful iteration of the factor loop *)
  Lemma sea_try_ok edges widths center sea s0 s1 hv fact e' w' :
    Forall posR widths -> widths <> [] -> 0 < fact ->
    stry edges widths center sea s0 s1 hv fact = Some (e', w') ->
    Forall posR w' /\ w' <> [] /\ snd e' - fst e' = lsum w' /\
    exists tdmin alph hx,
      0 < tdmin /\ geo_chain alph tdmin hx /\ 1 / 2 <= alph /\ alph < sea_allow hv s0 s1 /\
      (exists n, alph = brentq tdmin (sea - (if hv then snd edges else center + tdmin / 2)) n
                 /\ hx = map (fun s => tdmin * s)%F (pows alph (Z.to_nat n)) /\ (1 <= n)%Z) /\
      (hv = true -> w' = widths ++ hx /\ fst e' = fst edges /\ tdmin = last0 widths) /\
      (hv = false -> w' = tdmin :: hx /\ tdmin = fact * hd0 widths /\ fst e' = center - tdmin / 2).
  Proof using brentq_bracket.
    intros Hp Hne Hf. unfold sea_try.
    set (tdmin := if hv then last0 widths else (fact * hd0 widths)%F).
    set (cedge := if hv then snd edges else (center + half tdmin)%F).
    set (alphmax := if hv then (c125 * s0)%F else (c11 * s0)%F).
    set (delta := (sea - cedge)%F).
    set (n := floorZ (delta / tdmin)%F).
    destruct (Z.ltb_spec n 1) as [|Hn]; [discriminate|].
    set (alph := brentq tdmin delta n).
    destruct (ltb gleb alph (fmin gleb alphmax s1)) eqn:Ea; [|discriminate].
    apply gltb_true in Ea.
    assert (Ht : 0 < tdmin).
    { unfold tdmin. destruct hv.
      - pose proof (last0_in widths Hne) as H. rewrite Forall_forall in Hp. apply Hp, H.
      - pose proof (hd0_in widths Hne) as H. rewrite Forall_forall in Hp.
        cbn [Fmul GROps]. apply Rmult_lt_0_compat; [exact Hf|apply Hp, H]. }
    pose proof (brentq_bracket tdmin delta n) as Hb. fold alph in Hb.
    assert (Ha : 0 < alph) by lra.
    set (hx := map (fun s => (tdmin * s)%F) (pows alph (Z.to_nat n))).
    assert (Hhx : Forall posR hx).
    { unfold hx, pows. apply map_scale_pos; [exact Ht|apply pows_from_pos; exact Ha]. }
    assert (Hg : geo_chain alph tdmin hx).
    { unfold hx, pows. apply geo_chain_pows. cbn [Fmul GROps]. ring. }
    intros H. injection H as <- <-. cbn [fst snd].
    assert (Hw' : Forall posR (if hv then widths ++ hx else tdmin :: hx)).
    { destruct hv; [apply Forall_app; split; assumption|constructor; assumption]. }
    split; [exact Hw'|]. split; [destruct hv; [destruct widths; [congruence|discriminate]|discriminate]|].
    split; [cbn [Fadd GROps]; lra|].
    exists tdmin, alph, hx. split; [exact Ht|]. split; [exact Hg|]. split; [lra|].
    split.
    { unfold sea_allow. rewrite fmin_spec in Ea. unfold alphmax in Ea.
      destruct hv; rewrite ?c125_val, ?c11_val in Ea; exact Ea. }
    split.
    { exists n. split; [|split; [reflexivity|exact Hn]].
      unfold alph, delta, cedge, half. destruct hv; [reflexivity|].
      cbn [F1 Fadd Fsub Fdiv GROps]. replace (1 + 1) with 2 by lra. reflexivity. }
    split.
    - intros ->. repeat split.
    - intros ->. repeat split.
  Qed.

  (* the three possible outcomes of _seasurface *)
  Lemma sadj_cases edges widths center sea s0 s1 hv lim :
    let r := fst (sadj edges widths center sea s0 s1 hv lim) in
    (hv = false /\ Rabs (sea - snd edges) <= hd0 widths / 2 /\
       r = ((fst edges + (sea - snd edges), snd edges + (sea - snd edges)), widths)) \/
    (exists fact, In fact (sea_frange gleb argsort13 widths hv lim) /\
       stry edges widths center sea s0 s1 hv fact = Some r) \/
    r = (edges, widths).
  Proof using Type.
    cbv zeta. unfold seasurface_adjust. cbn [fst].
    destruct (negb hv && gleb (fabs gleb (sea - snd edges)%F) (half (hd0 widths)))%bool eqn:E.
    - left. apply andb_true_iff in E. destruct E as [E1 E2]. apply negb_true_iff in E1.
      apply gleb_true in E2. rewrite fabs_spec in E2. unfold half in E2.
      cbn [F1 Fadd Fsub Fdiv GROps] in E2. replace (1 + 1) with 2 in E2 by lra.
      split; [exact E1|]. split; [exact E2|reflexivity].
    - right. destruct (first_some _ _) as [r|] eqn:Ef.
      + left. apply first_some_some in Ef. destruct Ef as [fact [Hin Hf]]. exists fact. tauto.
      + right. reflexivity.
  Qed.

  (* _seasurface keeps the centre part well formed *)
  Lemma sadj_center_ok edges widths center sea s0 s1 hv lim :
    center_ok edges widths -> (hv = false -> limits_pos lim) ->
    center_ok (fst (fst (sadj edges widths center sea s0 s1 hv lim)))
              (snd (fst (sadj edges widths center sea s0 s1 hv lim))).
  Proof using brentq_bracket.
    intros [Hp [Hne Hext]] Hl.
    destruct (sadj_cases edges widths center sea s0 s1 hv lim) as [[_ [_ E]]|[[fact [Hin E]]|E]];
      cbv zeta in E.
    - rewrite E. unfold center_ok. cbn [fst snd]. split; [exact Hp|]. split; [exact Hne|]. lra.
    - assert (Hf : 0 < fact).
      { assert (Hfr : Forall posR (sea_frange gleb argsort13 widths hv lim)).
        { destruct hv.
          - unfold sea_frange. constructor; [unfold posR; cbn; lra|constructor].
          - apply sea_frange_pos; [|apply Hl; reflexivity].
            pose proof (hd0_in widths Hne) as H. rewrite Forall_forall in Hp. apply Hp, H. }
        rewrite Forall_forall in Hfr. apply Hfr, Hin. }
      destruct (fst (sadj edges widths center sea s0 s1 hv lim)) as [e' w'].
      destruct (sea_try_ok _ _ _ _ _ _ _ _ _ _ Hp Hne Hf E) as [H1 [H2 [H3 _]]].
      unfold center_ok. cbn [fst snd]. split; [exact H1|]. split; assumption.
    - rewrite E. unfold center_ok. cbn [fst snd]. split; [exact Hp|]. split; assumption.
  Qed.
End Sea.

(* ============================================================ mesh nodes *)
Definition mesh_node (x0 : R) (hx : list R) (v : R) : Prop :=
  exists k, (k <= length hx)%nat /\ v = x0 + lsum (firstn k hx).

Lemma cumsum_from_in acc (l : list R) c :
  In c (cumsum_from acc l) <->
  exists j, (j < length l)%nat /\ c = acc + lsum (firstn (S j) l).
Proof.
  revert acc. induction l as [|a t IH]; intros acc; cbn [cumsum_from].
  - split; [intros []|intros [j [Hj _]]; cbn in Hj; lia].
  - cbn [In]. rewrite IH. split.
    + intros [<-|[j [Hj ->]]].
      * exists 0%nat. split; [cbn; lia|]. cbn [firstn]. rewrite lsum_cons, lsum_nil.
        cbn [Fadd GROps]. lra.
      * exists (S j). split; [cbn; lia|].
        change (firstn (S (S j)) (a :: t)) with (a :: firstn (S j) t). rewrite lsum_cons.
        cbn [Fadd GROps]. lra.
    + intros [[|j] [Hj ->]].
      * left. cbn [firstn]. rewrite lsum_cons, lsum_nil. cbn [Fadd GROps]. lra.
      * right. exists j. split; [cbn in Hj; lia|].
        change (firstn (S (S j)) (a :: t)) with (a :: firstn (S j) t). rewrite lsum_cons.
        cbn [Fadd GROps]. lra.
Qed.

Lemma nodes_of_char e (w : list R) v :
  In v (nodes_of e w) <-> exists j, (j <= length w)%nat /\ v = e + lsum (firstn j w).
Proof.
  unfold nodes_of, cumsum. cbn [In]. rewrite in_map_iff. split.
  - intros [<-|[c [<- Hc]]].
    + exists 0%nat. split; [lia|]. cbn [firstn]. rewrite lsum_nil. lra.
    + apply cumsum_from_in in Hc. destruct Hc as [j [Hj ->]]. exists (S j).
      split; [lia|]. cbn [F0 Fadd GROps]. lra.
  - intros [[|j] [Hj ->]].
    + left. cbn [firstn]. rewrite lsum_nil. lra.
    + right. exists (0 + lsum (firstn (S j) w)). split; [cbn [Fadd GROps]; lra|].
      apply cumsum_from_in. exists j. split; [lia|reflexivity].
Qed.

(* a node of the centre part is a node of the returned mesh *)
Lemma center_node_is_mesh_node x0 hx l1 r1 l2 r2 cw e v :
  hx = rev l2 ++ (rev l1 ++ cw ++ r1) ++ r2 ->
  x0 + lsum (rev l2 ++ rev l1) = e ->
  In v (nodes_of e cw) -> mesh_node x0 hx v.
Proof.
  intros Hhx He Hv. apply nodes_of_char in Hv. destruct Hv as [j [Hj ->]].
  set (p := rev l2 ++ rev l1).
  assert (E : hx = p ++ (cw ++ r1 ++ r2)).
  { rewrite Hhx. unfold p. rewrite <- !app_assoc. reflexivity. }
  exists (length p + j)%nat. split.
  - rewrite E, !app_length. lia.
  - rewrite E, firstn_app_2, lsum_app, firstn_app.
    replace (j - length cw)%nat with 0%nat by lia. cbn [firstn]. rewrite app_nil_r.
    fold p in He. lra.
Qed.

(* ======================================================= the centre part *)
Section CentrePart.
  Variable floorZ : R -> Z.
  Variable brentq : R -> R -> Z -> R.
  Variable argsort13 : list R -> list nat.
  Variable twopi : R.
  Hypothesis brentq_bracket : forall t d n, 1 / 2 <= brentq t d n <= 10.
  Notation cpart := (center_part gleb floorZ brentq argsort13).
  Notation oaw := (origin_and_widths gleb floorZ brentq argsort13 twopi).
  Notation sadj := (seasurface_adjust gleb floorZ brentq argsort13).
  Notation dmin_of i := (cell_width gleb (sd_at i 0) (i_pps i) (i_limits i)).

  (* what origin_and_widths assumes of its input *)
  Definition input_ok (i : @OawIn R) : Prop :=
    0 < sd_at i 0 /\ 0 < i_pps i /\ limits_pos (i_limits i) /\
    (forall v, i_vector i = Some v -> StronglySorted Rlt v) /\
    0 < fst (i_stretching i) /\ 0 < snd (i_stretching i).

  (* the centre part before the sea-surface adjustment *)
  Definition pre_vec (i : @OawIn R) (dom : R * R) : option (list R) :=
    match match i_vector i with Some v => vector_cut gleb v dom | None => None end with
    | Some v => Some v
    | None => if match i_center_on_edge i with Some b => b | None => true end
              then Some [i_center i - dmin_of i; i_center i; i_center i + dmin_of i]
              else None
    end.
  Definition pre_ce (i : @OawIn R) (dom : R * R) : R * R :=
    match pre_vec i dom with
    | Some v => (hd0 v, last0 v)
    | None => (i_center i - dmin_of i / 2, i_center i + dmin_of i / 2) end.
  Definition pre_cw (i : @OawIn R) (dom : R * R) : list R :=
    match pre_vec i dom with Some v => diffs v | None => [dmin_of i] end.
  Definition pre_hv (i : @OawIn R) (dom : R * R) : bool :=
    match pre_vec i dom with Some _ => true | None => false end.

  Lemma cpart_unfold i dom :
    cpart i dom =
    match i_sea i with
    | None => ([], (pre_ce i dom, pre_cw i dom))
    | Some sea =>
        let r := sadj (pre_ce i dom) (pre_cw i dom) (i_center i) sea (fst (i_stretching i))
                      (snd (i_stretching i)) (pre_hv i dom) (i_limits i) in
        ((if snd r then [WSea] else []), fst r)
    end.
  Proof using Type.
    unfold center_part, pre_ce, pre_cw, pre_hv, pre_vec, half.
    cbn [F1 Fadd Fsub Fdiv GROps]. replace (1 + 1) with 2 by lra.
    destruct (i_sea i); reflexivity.
  Qed.

  Lemma pre_center_ok i dom : input_ok i -> center_ok (pre_ce i dom) (pre_cw i dom).
  Proof using Type.
    intros [Hsd [Hpps [Hlim [Hvec _]]]].
    assert (Hd : 0 < dmin_of i) by (apply cell_width_pos; assumption).
    unfold pre_ce, pre_cw, pre_vec.
    destruct (i_vector i) as [v|] eqn:Ev.
    - destruct (vector_cut gleb v dom) as [v'|] eqn:Ec.
      + exact (proj1 (vector_cut_ok v dom v' (Hvec v eq_refl) Ec)).
      + destruct (match i_center_on_edge i with Some b => b | None => true end).
        * exact (center_ok_node (i_center i) _ Hd).
        * exact (center_ok_cell_centre (i_center i) _ Hd).
    - destruct (match i_center_on_edge i with Some b => b | None => true end).
      + exact (center_ok_node (i_center i) _ Hd).
      + exact (center_ok_cell_centre (i_center i) _ Hd).
  Qed.

  (* the centre part handed to the search is always well formed *)
  Lemma center_part_ok i dom :
    input_ok i -> center_ok (fst (snd (cpart i dom))) (snd (snd (cpart i dom))).
  Proof using brentq_bracket.
    intros Hin. rewrite cpart_unfold. pose proof (pre_center_ok i dom Hin) as Hok.
    destruct (i_sea i) as [sea|]; [|exact Hok].
    cbv zeta. cbn [fst snd]. apply sadj_center_ok; [exact brentq_bracket|exact Hok|].
    intros _. destruct Hin as [_ [_ [Hlim _]]]. exact Hlim.
  Qed.

  (* shape of the centre part when it comes from a (user or centre) vector:
     the vector's widths, then possibly sea-surface cells growing by alph with
     1/2 <= alph < min(1.25*stretching[0], stretching[1]) *)
  Lemma cpart_vector_shape i dom v :
    pre_vec i dom = Some v -> v <> [] -> (2 <= length v)%nat -> StronglySorted Rlt v ->
    exists hx,
      snd (snd (cpart i dom)) = diffs v ++ hx /\ fst (fst (snd (cpart i dom))) = hd0 v /\
      (hx = [] \/ exists alph, geo_chain alph (last0 (diffs v)) hx /\ 1 / 2 <= alph
                               /\ alph < sea_allow true (fst (i_stretching i)) (snd (i_stretching i))).
  Proof using brentq_bracket.
    intros Hv Hne Hlen Hs. rewrite cpart_unfold.
    assert (Hce : pre_ce i dom = (hd0 v, last0 v)) by (unfold pre_ce; rewrite Hv; reflexivity).
    assert (Hcw : pre_cw i dom = diffs v) by (unfold pre_cw; rewrite Hv; reflexivity).
    assert (Hhv : pre_hv i dom = true) by (unfold pre_hv; rewrite Hv; reflexivity).
    destruct (i_sea i) as [sea|].
    2:{ exists []. cbn [fst snd]. rewrite Hce, Hcw, app_nil_r. cbn [fst]. auto. }
    cbv zeta. cbn [fst snd]. rewrite Hce, Hcw, Hhv.
    pose proof (center_ok_vector v Hs Hlen) as [Hp [Hne' _]].
    destruct (sadj_cases floorZ brentq argsort13 (hd0 v, last0 v) (diffs v) (i_center i) sea
                (fst (i_stretching i)) (snd (i_stretching i)) true (i_limits i))
      as [[E _]|[[fact [Hin E]]|E]]; cbv zeta in E.
    - discriminate.
    - assert (Hf : 0 < fact).
      { unfold sea_frange in Hin. destruct Hin as [<-|[]]. cbn. lra. }
      destruct (fst (sadj _ _ _ _ _ _ _ _)) as [e' w'].
      destruct (sea_try_ok floorZ brentq brentq_bracket _ _ _ _ _ _ _ _ _ _ Hp Hne' Hf E)
        as [_ [_ [_ [tdmin [alph [hx [_ [Hg [Ha1 [Ha2 [_ [Ht _]]]]]]]]]]]].
      destruct (Ht eq_refl) as [Ew [Ee Etd]]. exists hx. cbn [fst snd].
      split; [exact Ew|]. split; [exact Ee|]. right. exists alph. rewrite <- Etd. auto.
    - rewrite E. exists []. cbn [fst snd]. rewrite app_nil_r. auto.
  Qed.

  (* shape of the centre part for "centre at a cell centre, no vector":
     moved so that its right edge is the sea surface; or one (squeezed) centre
     cell around the centre followed by sea-surface cells; or unchanged *)
  Lemma cpart_cell_shape i dom :
    pre_vec i dom = None -> input_ok i ->
    let ce := fst (snd (cpart i dom)) in
    let cw := snd (snd (cpart i dom)) in
    (exists sea, i_sea i = Some sea /\ cw = [dmin_of i] /\ snd ce = sea /\
                 Rabs (sea - (i_center i + dmin_of i / 2)) <= dmin_of i / 2) \/
    (exists w hx, cw = w :: hx /\ fst ce = i_center i - w / 2 /\ 0 < w /\
       (hx = [] \/ exists alph, geo_chain alph w hx /\ 1 / 2 <= alph
                                /\ alph < sea_allow false (fst (i_stretching i)) (snd (i_stretching i)))).
  Proof using brentq_bracket.
    intros Hv Hin. cbv zeta. rewrite cpart_unfold.
    assert (Hd : 0 < dmin_of i).
    { destruct Hin as [Hsd [Hpps [Hlim _]]]. apply cell_width_pos; assumption. }
    assert (Hce : pre_ce i dom = (i_center i - dmin_of i / 2, i_center i + dmin_of i / 2))
      by (unfold pre_ce; rewrite Hv; reflexivity).
    assert (Hcw : pre_cw i dom = [dmin_of i]) by (unfold pre_cw; rewrite Hv; reflexivity).
    assert (Hhv : pre_hv i dom = false) by (unfold pre_hv; rewrite Hv; reflexivity).
    destruct (i_sea i) as [sea|].
    2:{ right. exists (dmin_of i), []. cbn [fst snd]. rewrite Hce, Hcw. cbn [fst]. auto. }
    cbv zeta. cbn [fst snd]. rewrite Hce, Hcw, Hhv.
    assert (Hp : Forall posR [dmin_of i]) by (repeat constructor; exact Hd).
    destruct (sadj_cases floorZ brentq argsort13
                (i_center i - dmin_of i / 2, i_center i + dmin_of i / 2) [dmin_of i] (i_center i) sea
                (fst (i_stretching i)) (snd (i_stretching i)) false (i_limits i))
      as [[_ [Habs E]]|[[fact [Hin' E]]|E]]; cbv zeta in E.
    - left. exists sea. rewrite E. cbn [fst snd hd0 hd] in *. repeat split; try lra; try exact Habs.
    - right.
      assert (Hf : 0 < fact).
      { assert (Hfr : Forall posR (sea_frange gleb argsort13 [dmin_of i] false (i_limits i))).
        { apply sea_frange_pos; [exact Hd|]. destruct Hin as [_ [_ [Hlim _]]]. exact Hlim. }
        rewrite Forall_forall in Hfr. apply Hfr, Hin'. }
      destruct (fst (sadj _ _ _ _ _ _ _ _)) as [e' w'].
      destruct (sea_try_ok floorZ brentq brentq_bracket _ _ _ _ _ _ _ _ _ _ Hp ltac:(discriminate) Hf E)
        as [_ [_ [_ [tdmin [alph [hx [Ht0 [Hg [Ha1 [Ha2 [_ [_ Ht]]]]]]]]]]]].
      destruct (Ht eq_refl) as [Ew [_ Ee]]. exists tdmin, hx. cbn [fst snd].
      split; [exact Ew|]. split; [exact Ee|]. split; [exact Ht0|]. right. exists alph. auto.
    - right. rewrite E. exists (dmin_of i), []. cbn [fst snd]. auto.
  Qed.
End CentrePart.

(* ============================================ the vector cut keeps the domain *)
Lemma last_In {A} (l : list A) d : l <> [] -> In (last l d) l.
Proof.
  induction l as [|a t IH]; [congruence|intros _].
  destruct t as [|b t']; [now left|]. right. apply IH. discriminate.
Qed.

Lemma idx_in_split {A} (p : A -> bool) s l k :
  In k (idx_where_from p s l) ->
  exists l1 y l2, l = l1 ++ y :: l2 /\ (length l1 + s = k)%nat /\ p y = true.
Proof.
  revert s. induction l as [|a t IH]; intros s; cbn [idx_where_from]; [intros []|].
  destruct (p a) eqn:Ep.
  - intros [<-|H].
    + exists [], a, t. repeat split; assumption.
    + destruct (IH (S s) H) as [l1 [y [l2 [-> [Hl Hp]]]]].
      exists (a :: l1), y, l2. repeat split; [cbn [length]; lia|exact Hp].
  - intros H. destruct (IH (S s) H) as [l1 [y [l2 [-> [Hl Hp]]]]].
    exists (a :: l1), y, l2. repeat split; [cbn [length]; lia|exact Hp].
Qed.

Lemma idx_ge {A} (p : A -> bool) s l k : In k (idx_where_from p s l) -> (s <= k)%nat.
Proof. intros H. destruct (idx_in_split p s l k H) as [l1 [y [l2 [_ [Hl _]]]]]. lia. Qed.

Lemma idx_sorted {A} (p : A -> bool) s l : StronglySorted lt (idx_where_from p s l).
Proof.
  revert s. induction l as [|a t IH]; intros s; cbn [idx_where_from]; [constructor|].
  destruct (p a); [|apply IH]. constructor; [apply IH|].
  apply Forall_forall. intros k Hk. apply idx_ge in Hk. lia.
Qed.

Lemma SS_app_lt (l1 l2 : list R) x y :
  StronglySorted Rlt (l1 ++ l2) -> In x l1 -> In y l2 -> x < y.
Proof.
  induction l1 as [|a t IH]; intros Hs Hx Hy; [destruct Hx|].
  cbn [app] in Hs. inversion Hs as [|? ? Hs' Hall]; subst. destruct Hx as [<-|Hx].
  - rewrite Forall_forall in Hall. apply Hall. apply in_or_app. now right.
  - apply IH; assumption.
Qed.

Lemma skipn_split {A} (l1 : list A) y l2 : skipn (length l1) (l1 ++ y :: l2) = y :: l2.
Proof. induction l1 as [|a t IH]; [reflexivity|exact IH]. Qed.
Lemma firstn_split {A} (l1 : list A) r : firstn (length l1) (l1 ++ r) = l1.
Proof. induction l1 as [|a t IH]; [destruct r; reflexivity|cbn; now rewrite IH]. Qed.

(* every node of a strictly increasing vector that lies in [domain[0], domain[1]]
   survives the cut *)
Lemma vector_cut_keeps v dom v' x :
  StronglySorted Rlt v -> vector_cut gleb v dom = Some v' ->
  In x v -> fst dom <= x <= snd dom -> In x v'.
Proof.
  intros Hs. unfold vector_cut. cbv zeta.
  remember (idx_where (fun x => gleb x (fst dom)) v) as vmin eqn:Evmin.
  remember (if (1 <? length vmin)%nat then skipn (last vmin 0%nat) v else v) as v1 eqn:Ev1.
  remember (idx_where (fun x => gleb (snd dom) x) v1) as vmax eqn:Evmax.
  remember (if (1 <? length vmax)%nat then firstn (nth 1 vmax 0%nat) v1 else v1) as v2 eqn:Ev2.
  destruct (length v2 <? 3)%nat; [discriminate|]. intros E Hx [Hlo Hhi]. injection E as <-.
  assert (H1 : In x v1 /\ StronglySorted Rlt v1).
  { rewrite Ev1. destruct (Nat.ltb_spec 1 (length vmin)) as [Hl|]; [|split; assumption].
    split; [|apply SS_skipn; exact Hs].
    assert (Hin : In (last vmin 0%nat) vmin) by (apply last_In; destruct vmin; [cbn in Hl; lia|discriminate]).
    rewrite Evmin in Hin at 2. unfold idx_where in Hin.
    destruct (idx_in_split _ _ _ _ Hin) as [l1 [y [l2 [Ev [Hlen Hp]]]]].
    apply gleb_true in Hp. rewrite Nat.add_0_r in Hlen. rewrite <- Hlen.
    rewrite Ev in *. rewrite skipn_split.
    apply in_app_or in Hx. destruct Hx as [Hx|Hx]; [exfalso|exact Hx].
    assert (x < y) by (apply (SS_app_lt l1 (y :: l2)); [exact Hs|exact Hx|now left]). lra. }
  destruct H1 as [Hx1 Hs1].
  rewrite Ev2. destruct (Nat.ltb_spec 1 (length vmax)) as [Hl|]; [|exact Hx1].
  destruct vmax as [|b0 [|b rest]]; try (cbn in Hl; lia). cbn [nth].
  assert (Hb0 : In b0 (idx_where (fun x => gleb (snd dom) x) v1)) by (rewrite <- Evmax; now left).
  assert (Hb : In b (idx_where (fun x => gleb (snd dom) x) v1)) by (rewrite <- Evmax; right; now left).
  assert (Hlt : (b0 < b)%nat).
  { pose proof (idx_sorted (fun x => gleb (snd dom) x) 0 v1) as Hso. unfold idx_where in Evmax.
    rewrite <- Evmax in Hso. inversion Hso as [|? ? _ Hall]; subst.
    rewrite Forall_forall in Hall. apply Hall. now left. }
  unfold idx_where in Hb0, Hb.
  destruct (idx_in_split _ _ _ _ Hb0) as [m1 [y0 [m2 [Em [Hm Hp0]]]]].
  destruct (idx_in_split _ _ _ _ Hb) as [l1 [y [l2 [El [Hlen Hp]]]]].
  apply gleb_true in Hp0. rewrite Nat.add_0_r in Hm, Hlen.
  assert (Hy0 : In y0 l1).
  { assert (E1 : firstn b v1 = l1) by (rewrite El, <- Hlen; apply firstn_split).
    rewrite <- E1, Em, firstn_app. apply in_or_app. right.
    rewrite Hm. destruct (b - b0)%nat eqn:Eb; [lia|]. now left. }
  rewrite El in Hx1 |- *. rewrite <- Hlen, firstn_split.
  apply in_app_or in Hx1. destruct Hx1 as [Hx1|Hx1]; [exact Hx1|exfalso].
  assert (y0 < x) by (apply (SS_app_lt l1 (y :: l2)); [rewrite <- El; exact Hs1|exact Hy0|exact Hx1]).
  lra.
Qed.

(* ===================================== full postcondition of origin_and_widths *)
Section Full.
  Variable floorZ : R -> Z.
  Variable brentq : R -> R -> Z -> R.
  Variable argsort13 : list R -> list nat.
  Variable twopi : R.
  Hypothesis brentq_bracket : forall t d n, 1 / 2 <= brentq t d n <= 10.
  Notation cpart := (center_part gleb floorZ brentq argsort13).
  Notation oaw := (origin_and_widths gleb floorZ brentq argsort13 twopi).
  Notation sadj := (seasurface_adjust gleb floorZ brentq argsort13).
  Notation pvec := (pre_vec).

  Definition future_warn (i : @OawIn R) : list Warn :=
    match i_center_on_edge i, i_vector i with None, None => [WFuture] | _, _ => [] end.

  Lemma oaw_ok_inv2 i ws x0 hx nx sa ca n :
    oaw i = mkOawOut ws (ROk x0 hx nx sa ca n) ->
    exists dom0,
      domain_of gleb i = Some dom0 /\
      ws = (future_warn i ++ fst (cpart i dom0))%list /\
      (forall s, i_sea i = Some s -> i_center i < s) /\
      search gleb floorZ (fst (snd (cpart i dom0))) (snd (snd (cpart i dom0)))
             (fst (i_stretching i)) (snd (i_stretching i)) (i_cell_numbers i)
             (sea_dom i dom0) (comp_domain gleb twopi i (sea_dom i dom0))
      = Some (x0, hx, nx, sa, ca, n).
  Proof using Type.
    unfold origin_and_widths. fold (future_warn i).
    destruct (domain_of gleb i) as [dom0|]; [|discriminate].
    destruct (match i_sea i with Some s => gleb s (i_center i) | None => false end) eqn:Es;
      [discriminate|].
    fold (sea_dom i dom0).
    destruct (search gleb floorZ _ _ _ _ _ _ _) as [r|] eqn:E.
    - intros H. injection H as <- <- <- <- <- <- <-. exists dom0. split; [reflexivity|].
      split; [reflexivity|]. split.
      + intros s Hs. rewrite Hs in Es. apply gleb_false in Es. exact Es.
      + rewrite E. destruct r as [[[[[a b] c] d] e] f]. reflexivity.
    - destruct (i_raise_error i); discriminate.
  Qed.

  (* THE postcondition: no hypothesis on the centre part any more *)
  Lemma oaw_post_full i ws x0 hx nx sa ca n :
    input_ok i ->
    oaw i = mkOawOut ws (ROk x0 hx nx sa ca n) ->
    exists dom0,
      domain_of gleb i = Some dom0 /\
      let dom := sea_dom i dom0 in
      let cdom := comp_domain gleb twopi i dom in
      let ce := fst (snd (cpart i dom0)) in
      let cw := snd (snd (cpart i dom0)) in
      center_ok ce cw /\
      In (Z.of_nat (length hx)) (i_cell_numbers i) /\ Z.of_nat (length hx) = nx /\
      Forall posR hx /\
      x0 <= fst dom /\ snd dom <= x0 + lsum hx /\
      x0 <= fst cdom /\ snd cdom <= x0 + lsum hx /\
      Rmin 1 (fst (i_stretching i)) <= sa <= Rmax 1 (fst (i_stretching i)) /\
      Rmin sa (snd (i_stretching i)) <= ca <= Rmax sa (snd (i_stretching i)) /\
      exists l1 r1 l2 r2,
        hx = rev l2 ++ (rev l1 ++ cw ++ r1) ++ r2 /\
        geo_chain sa (hd0 cw) l1 /\ geo_chain sa (last0 cw) r1 /\
        geo_chain ca (hd0 (rev l1 ++ cw ++ r1)) l2 /\
        geo_chain ca (last0 (rev l1 ++ cw ++ r1)) r2 /\
        n = length (rev l1 ++ cw ++ r1) /\
        x0 + lsum (rev l2 ++ rev l1) = fst ce /\
        (forall v, In v (nodes_of (fst ce) cw) -> mesh_node x0 hx v).
  Proof using brentq_bracket.
    intros Hin H. pose proof Hin as [_ [_ [_ [_ [Hs0 Hs1]]]]].
    destruct (oaw_post floorZ brentq argsort13 twopi i ws x0 hx nx sa ca n H Hs0 Hs1)
      as [dom0 [Hd Hpost]].
    exists dom0. split; [exact Hd|]. cbv zeta in *.
    pose proof (center_part_ok floorZ brentq argsort13 brentq_bracket i dom0 Hin) as Hok.
    split; [exact Hok|].
    destruct (Hpost Hok) as (A1 & A2 & A3 & A4 & A5 & A6 & A7 & A8 & A9 & l1 & r1 & l2 & r2 & B1 & B2 & B3 & B4 & B5 & B6 & B7).
    repeat (split; [assumption|]).
    exists l1, r1, l2, r2. repeat (split; [assumption|]).
    intros v Hv. exact (center_node_is_mesh_node x0 hx l1 r1 l2 r2 _ _ v B1 B7 Hv).
  Qed.

  (* sea surface: it is (np.isclose) a node of the returned mesh, or the warning was raised *)
  Lemma oaw_sea_node_or_warning i ws x0 hx nx sa ca n sea :
    input_ok i ->
    oaw i = mkOawOut ws (ROk x0 hx nx sa ca n) ->
    i_sea i = Some sea -> ~ In WSea ws ->
    exists v, mesh_node x0 hx v /\ isclose0 gleb (Rabs (v - sea)) = true.
  Proof using brentq_bracket.
    intros Hin H Hsea Hnw.
    destruct (oaw_post_full i ws x0 hx nx sa ca n Hin H) as [dom0 [Hd Hpost]]. cbv zeta in Hpost.
    destruct Hpost as (_ & _ & _ & _ & _ & _ & _ & _ & _ & _ & l1 & r1 & l2 & r2 & _ & _ & _ & _ & _ & _ & _ & Hnodes).
    destruct (oaw_ok_inv2 i ws x0 hx nx sa ca n H) as [dom0' [Hd' [Hws _]]].
    rewrite Hd in Hd'. injection Hd' as <-.
    rewrite (cpart_unfold floorZ brentq argsort13 i dom0), Hsea in Hnodes, Hws. cbv zeta in Hnodes, Hws.
    cbn [fst snd] in Hnodes, Hws.
    set (r := sadj _ _ _ _ _ _ _ _) in *.
    destruct r as [[e' w'] flag] eqn:Er. cbn [fst snd] in *.
    destruct flag.
    - exfalso. apply Hnw. rewrite Hws. apply in_or_app. right. now left.
    - destruct (seasurface_node_or_warning floorZ brentq argsort13 _ _ _ _ _ _ _ _ e' w' Er)
        as [v [Hv Hc]].
      exists v. split; [apply Hnodes; exact Hv|exact Hc].
  Qed.

  (* every node of the vector the centre part is built from (the cut user vector,
     or [c-dmin, c, c+dmin] for "centre on a node") is a node of the mesh *)
  Lemma oaw_vector_nodes i ws x0 hx nx sa ca n dom0 v k :
    input_ok i ->
    oaw i = mkOawOut ws (ROk x0 hx nx sa ca n) ->
    domain_of gleb i = Some dom0 ->
    pre_vec i dom0 = Some v -> StronglySorted Rlt v -> (2 <= length v)%nat ->
    (k < length v)%nat -> mesh_node x0 hx (nth k v 0).
  Proof using brentq_bracket.
    intros Hin H Hd Hv Hs Hl Hk.
    destruct (oaw_post_full i ws x0 hx nx sa ca n Hin H) as [dom0' [Hd' Hpost]]. cbv zeta in Hpost.
    rewrite Hd in Hd'. injection Hd' as <-.
    destruct Hpost as (_ & _ & _ & _ & _ & _ & _ & _ & _ & _ & l1 & r1 & l2 & r2 & _ & _ & _ & _ & _ & _ & _ & Hnodes).
    assert (Hne : v <> []) by (destruct v; [cbn in Hl; lia|discriminate]).
    destruct (cpart_vector_shape floorZ brentq argsort13 brentq_bracket i dom0 v Hv Hne Hl Hs)
      as [sx [Ecw [Ece _]]].
    apply Hnodes. apply nodes_of_char. exists k. rewrite Ecw, Ece. split.
    - rewrite app_length, diffs_length. lia.
    - rewrite firstn_app. replace (k - length (diffs v))%nat with 0%nat
        by (rewrite diffs_length; lia).
      cbn [firstn]. rewrite app_nil_r. symmetry. apply diffs_telescope. exact Hk.
  Qed.

  (* "centre on a node" (center_on_edge True or unset, no usable user vector) *)
  Lemma oaw_centre_is_node i ws x0 hx nx sa ca n dom0 :
    input_ok i ->
    oaw i = mkOawOut ws (ROk x0 hx nx sa ca n) ->
    domain_of gleb i = Some dom0 ->
    match i_vector i with Some v => vector_cut gleb v dom0 | None => None end = None ->
    i_center_on_edge i <> Some false ->
    mesh_node x0 hx (i_center i).
  Proof using brentq_bracket.
    intros Hin H Hd Hv Hc.
    set (d := cell_width gleb (sd_at i 0) (i_pps i) (i_limits i)).
    assert (Hdpos : 0 < d).
    { destruct Hin as [Hsd [Hpps [Hlim _]]]. apply cell_width_pos; assumption. }
    assert (Hpv : pre_vec i dom0 = Some [i_center i - d; i_center i; i_center i + d]).
    { unfold pre_vec. rewrite Hv. destruct (i_center_on_edge i) as [[|]|]; [reflexivity|congruence|reflexivity]. }
    assert (Hs : StronglySorted Rlt [i_center i - d; i_center i; i_center i + d]).
    { repeat constructor; lra. }
    exact (oaw_vector_nodes i ws x0 hx nx sa ca n dom0 _ 1%nat Hin H Hd Hpv Hs ltac:(cbn; lia) ltac:(cbn; lia)).
  Qed.

  (* "centre at a cell centre" (center_on_edge False, no usable user vector):
     the centre is the midpoint of a mesh cell, unless the sea surface lies within
     half a cell of the centre cell's upper edge (then the cell is moved there) *)
  Lemma oaw_centre_is_cell_centre i ws x0 hx nx sa ca n dom0 :
    input_ok i ->
    oaw i = mkOawOut ws (ROk x0 hx nx sa ca n) ->
    domain_of gleb i = Some dom0 ->
    match i_vector i with Some v => vector_cut gleb v dom0 | None => None end = None ->
    i_center_on_edge i = Some false ->
    (exists p w q, hx = p ++ w :: q /\ x0 + lsum p + w / 2 = i_center i) \/
    (exists sea, i_sea i = Some sea /\ mesh_node x0 hx sea /\
       Rabs (sea - (i_center i + cell_width gleb (sd_at i 0) (i_pps i) (i_limits i) / 2))
       <= cell_width gleb (sd_at i 0) (i_pps i) (i_limits i) / 2).
  Proof using brentq_bracket.
    intros Hin H Hd Hv Hc.
    destruct (oaw_post_full i ws x0 hx nx sa ca n Hin H) as [dom0' [Hd' Hpost]]. cbv zeta in Hpost.
    rewrite Hd in Hd'. injection Hd' as <-.
    destruct Hpost as (Hok & _ & _ & _ & _ & _ & _ & _ & _ & _ & l1 & r1 & l2 & r2 & Ehx & _ & _ & _ & _ & _ & Ex0 & Hnodes).
    assert (Hpv : pre_vec i dom0 = None) by (unfold pre_vec; rewrite Hv, Hc; reflexivity).
    destruct (cpart_cell_shape floorZ brentq argsort13 brentq_bracket i dom0 Hpv Hin)
      as [[sea [Hsea [Ecw [Esea Habs]]]]|[w [sx [Ecw [Ece [Hw _]]]]]].
    - right. exists sea. split; [exact Hsea|]. split; [|exact Habs].
      apply Hnodes. apply nodes_of_char. exists (length (snd (snd (cpart i dom0)))).
      split; [lia|]. rewrite firstn_all. destruct Hok as [_ [_ Hext]]. lra.
    - left. exists (rev l2 ++ rev l1), w, (sx ++ r1 ++ r2). split.
      + rewrite Ehx, Ecw. rewrite <- !app_assoc. reflexivity.
      + rewrite Ex0, Ece. lra.
  Qed.
End Full.

(* ======================== how close the sea-surface node is (root contract) *)
Section Root.
  Variable floorZ : R -> Z.
  Variable brentq : R -> R -> Z -> R.
  Variable tol : R.
  Hypothesis brentq_bracket : forall t d n, 1 / 2 <= brentq t d n <= 10.
  (* f(alph) = sum(tdmin*alph**k, k=1..n) - delta is within tol of 0 *)
  Hypothesis brentq_root : forall t d n,
    Rabs (lsum (map (fun s => t * s)%F (pows (brentq t d n) (Z.to_nat n))) - d) <= tol.

  Lemma sea_try_node edges widths center sea s0 s1 hv fact e' w' :
    center_ok edges widths -> 0 < fact ->
    sea_try gleb floorZ brentq edges widths center sea s0 s1 hv fact = Some (e', w') ->
    In (snd e') (nodes_of (fst e') w') /\ Rabs (snd e' - sea) <= tol.
  Proof using brentq_bracket brentq_root.
    intros [Hp [Hne Hext]] Hf E.
    destruct (sea_try_ok floorZ brentq brentq_bracket _ _ _ _ _ _ _ _ _ _ Hp Hne Hf E)
      as [_ [_ [Hext' [tdmin [alph [hx [_ [_ [_ [_ [[n [Ea [Ehx _]]] [Ht Hf']]]]]]]]]]]].
    split.
    - apply nodes_of_char. exists (length w'). split; [lia|]. rewrite firstn_all. lra.
    - pose proof (brentq_root tdmin (sea - (if hv then snd edges else center + tdmin / 2)) n) as Hr.
      rewrite <- Ea, <- Ehx in Hr.
      replace (snd e' - sea)
        with (lsum hx - (sea - (if hv then snd edges else center + tdmin / 2))); [exact Hr|].
      destruct hv.
      + destruct (Ht eq_refl) as [-> [Ee _]]. rewrite lsum_app in Hext'. lra.
      + destruct (Hf' eq_refl) as [-> [_ Ee]]. rewrite lsum_cons in Hext'. lra.
  Qed.
End Root.
