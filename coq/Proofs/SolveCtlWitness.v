(* Proofs/SolveCtlWitness.v -- concrete instances of the model (numbers = Z, fields = Z,
   resnorm = absolute value, pec/cycles = identity): non-vacuity examples for the
   theorems and the refutation witnesses for the UNFIXED variants. *)
From Coq Require Import ZArith String Bool List Lia.
From V Require Import Gen.SolveCtl Model.SolveCtl Proofs.SolveCtl.
Import ListNotations.
Local Open Scope Z_scope.
Local Open Scope string_scope.

Definition Wres (x : Z) : Z := Z.abs x.
Definition Wid (x : Z) : Z := x.
Definition Wcyc (k : nat) (x : Z) : Z := x.
(* a contracting cycle for the non-vacuity examples: halves the field *)
Definition Whalf (k : nat) (x : Z) : Z := x / 2.
Definition Wfin (x : Z) : bool := true.
Definition W_solve (cyc : nat -> Z -> Z) (VV : variant) :=
  solve_ctl Z Z.ltb Z.leb Wfin Z.mul Wid 1 (-1) Z Wres 0 Wid Wid cyc VV.
Definition W_certified := certified Z Z.ltb Z.leb Z.mul 1 Z Wres 0.
Definition W_describes := error_describes Z Wid Z Wres.
Definition W_contract := krylov_contract Z Z.leb Z.mul Z Wres.
Definition W_kpec := krylov_pec Z Z Wid.
Definition W_pec_laws (cyc : nat -> Z -> Z) := pec_laws Z 0 Wid Wid cyc.

Lemma W_laws cyc : W_pec_laws cyc.
Proof. unfold W_pec_laws, pec_laws, Wid. auto. Qed.

Definition Wcfg (ssl cyc : bool) (tol maxit : Z) : cfg Z :=
  {| c_ssl := ssl; c_ssl_name := "bicgstab"; c_cycle := cyc; c_tol := tol; c_maxit := maxit;
     c_maxcycle := 1; c_return_info := true; c_always_return := false |}.
Definition Wsrc (n : Z) : src Z := {| s_norm := n; s_complex := true; s_has_freq := true |}.
Definition Wsup (x : Z) : option (sup Z) := Some {| u_fld := x; u_complex := true |}.

(* D1: zero source (norm 0 < 1 = threshold), caller supplies the non-zero field 5 *)
Definition w1_c := Wcfg false true 1 5.
Definition w1_run (VV : variant) := W_solve Wcyc VV w1_c (Wsrc 0) (Wsup 5) [].
(* D2: Krylov, last callback iterate 7, returned iterate 3 with code 0; tol*|s| = 10 *)
Definition w2_c := Wcfg true false 1 5.
Definition w2_tr : list (kev Z Z) := [Callback _ _ 7; Return _ _ 3 0].
Definition w2_run (VV : variant) := W_solve Wcyc VV w2_c (Wsrc 10) None w2_tr.
(* D3: a preconditioner run reaches 0 < tol*|s| (message CONVERGED), then scipy returns
   the unconverged iterate 9 with breakdown code -10; tol*|s| = 5 *)
Definition w3_c := Wcfg true true 1 5.
Definition w3_tr : list (kev Z Z) := [Precond _ _ 2 [0] 0; Return _ _ 9 (-10)].
Definition w3_run (VV : variant) := W_solve Wcyc VV w3_c (Wsrc 5) None w3_tr.

Definition get (o : outcome Z Z) : option (result Z Z) :=
  match o with Done _ _ r => Some r | _ => None end.

Definition refuted (run : outcome Z Z) (c : cfg Z) (s : src Z) (tr : list (kev Z Z)) : Prop :=
  exists r, run = Done _ _ r /\ (W_contract c s tr /\ W_kpec tr) /\ r_exit _ _ r = 0 /\
            exists e, In e (held _ _ r) /\
                      ~ (W_certified c s r e /\ W_describes r e /\ Wid e = e).

Lemma contract2 : W_contract w2_c (Wsrc 10) w2_tr /\ W_kpec w2_tr.
Proof.
  split.
  - intros x [H|[H|[]]]; [discriminate|]. inversion H; subst. reflexivity.
  - intros x code _. reflexivity.
Qed.
Lemma contract3 : W_contract w3_c (Wsrc 5) w3_tr /\ W_kpec w3_tr.
Proof.
  split.
  - intros x [H|[H|[]]]; discriminate.
  - intros x code _. reflexivity.
Qed.
Lemma contract_nil c s : W_contract c s [] /\ W_kpec [].
Proof. split; intros x; [|intros code]; intros []. Qed.

Lemma refuted_zero : refuted (w1_run unfixed_zero) w1_c (Wsrc 0) [].
Proof.
  eexists. split; [vm_compute; reflexivity|]. split; [apply contract_nil|]. split; [reflexivity|].
  exists 5. split; [vm_compute; auto|]. intros [[_ H] _]. discriminate.
Qed.
Lemma refuted_krylov : refuted (w2_run unfixed_krylov) w2_c (Wsrc 10) w2_tr.
Proof.
  eexists. split; [vm_compute; reflexivity|]. split; [apply contract2|]. split; [reflexivity|].
  exists 3. split; [vm_compute; auto|]. intros [_ [H _]]. vm_compute in H. discriminate.
Qed.
Lemma refuted_negcode : refuted (w3_run unfixed_negcode) w3_c (Wsrc 5) w3_tr.
Proof.
  eexists. split; [vm_compute; reflexivity|]. split; [apply contract3|]. split; [reflexivity|].
  exists 9. split; [vm_compute; auto|]. intros [H _]. vm_compute in H. discriminate.
Qed.
(* the pinned commit shows all three *)
Lemma refuted_pinned :
  refuted (w1_run pinned_variant) w1_c (Wsrc 0) [] /\
  refuted (w2_run pinned_variant) w2_c (Wsrc 10) w2_tr /\
  refuted (w3_run pinned_variant) w3_c (Wsrc 5) w3_tr.
Proof.
  split; [|split].
  - eexists. split; [vm_compute; reflexivity|]. split; [apply contract_nil|]. split; [reflexivity|].
    exists 5. split; [vm_compute; auto|]. intros [[_ H] _]. discriminate.
  - eexists. split; [vm_compute; reflexivity|]. split; [apply contract2|]. split; [reflexivity|].
    exists 3. split; [vm_compute; auto|]. intros [_ [H _]]. vm_compute in H. discriminate.
  - eexists. split; [vm_compute; reflexivity|]. split; [apply contract3|]. split; [reflexivity|].
    exists 9. split; [vm_compute; auto|]. intros [H _]. vm_compute in H. discriminate.
Qed.

(* non-vacuity: on the repaired variant the same three inputs end as the property wants *)
Lemma fixed_on_witnesses :
  (exists r, w1_run fixed_variant = Done _ _ r /\ r_exit _ _ r = 0 /\ held _ _ r = [0] /\ r_l2 _ _ r = 0) /\
  (exists r, w2_run fixed_variant = Done _ _ r /\ r_exit _ _ r = 0 /\ held _ _ r = [3] /\ r_l2 _ _ r = 3) /\
  (exists r, w3_run fixed_variant = Done _ _ r /\ r_exit _ _ r = 1 /\ r_msg _ _ r = "Error in bicgstab (-10)").
Proof. repeat split; eexists; (split; [vm_compute; reflexivity|]); repeat split. Qed.

(* non-vacuity of the multigrid branch: |e| halves per cycle; start 64 (supplied), tol*|s| = 1*5:
   cycles 32,16,8,4 -> converged after 4 cycles (4 < 5); and a failing run with maxit = 2 *)
Lemma mg_example :
  (exists r, W_solve Whalf fixed_variant (Wcfg false true 1 50) (Wsrc 5) (Wsup 64) [] = Done _ _ r /\
             r_branch _ _ r = BMG /\ r_exit _ _ r = 0 /\ r_it _ _ r = 4 /\ held _ _ r = [4] /\ r_l2 _ _ r = 4) /\
  (exists r, W_solve Whalf fixed_variant (Wcfg false true 1 2) (Wsrc 5) (Wsup 64) [] = Done _ _ r /\
             r_exit _ _ r = 1 /\ r_msg _ _ r = MSG_MAXIT /\ r_it _ _ r = 2).
Proof. repeat split; eexists; (split; [vm_compute; reflexivity|]); repeat split. Qed.

(* non-vacuity of the already-good-enough branch and of the dtype rejection *)
Lemma good_example :
  exists r, W_solve Wcyc fixed_variant (Wcfg true true 1 50) (Wsrc 5) (Wsup 3) [] = Done _ _ r /\
            r_branch _ _ r = BGood /\ r_exit _ _ r = 0 /\ held _ _ r = [3] /\ r_l2 _ _ r = 3 /\ r_it _ _ r = 0.
Proof. eexists; (split; [vm_compute; reflexivity|]); repeat split. Qed.
