(* Proofs/GSLineX.v -- the line smoother along x (Gen/CoreGS.v gauss_seidel_x,
   regenerated from emg3d/core.py) relaxes the SAME linear system as the
   operator of C02.  WORK IN PROGRESS header, replaced at the end. *)
From Coq Require Import ZArith Lia Bool Field List.
From V Require Import Base.Loops Base.Arr Base.FieldSig Base.Tactics.
From V Require Import Gen.CoreBand Gen.CoreGS Model.FIT Proofs.BandSums Proofs.BandLDL.
Local Open Scope Z_scope.

(* ------------------------------------------------------------------ *)
(* blocks_to_amat: its three branches as explicit update chains        *)
Section BTA.
  Context {F : Type} {O : FOps F}.
  Variables (A b M L R : Z -> F).

  Definition bta_first_A : Z -> F :=
    upd1 (upd1 (upd1 (upd1 (upd1 (upd1 (upd1 (upd1 (upd1 (upd1 (upd1 (upd1 (upd1 (upd1 (upd1 A
      (0+5*0) (M (0+5*0))) (1+5*0) (M (1+5*0))) (1+5*1) (M (1+5*1)))
      (2+5*0) (M (2+5*0))) (2+5*1) (M (2+5*1))) (2+5*2) (M (2+5*2)))
      (3+5*0) (M (3+5*0))) (3+5*1) (M (3+5*1))) (3+5*2) (M (3+5*2))) (3+5*3) (M (3+5*3)))
      (4+5*0) (M (4+5*0))) (4+5*1) (M (4+5*1))) (4+5*2) (M (4+5*2))) (4+5*3) (M (4+5*3)))
      (4+5*4) (M (4+5*4)).
  Definition bta_first_b : Z -> F :=
    upd1 (upd1 (upd1 (upd1 (upd1 b 0 (R 0)) 1 (R 1)) 2 (R 2)) 3 (R 3)) 4 (R 4).

  Lemma blocks_to_amat_first nc :
    blocks_to_amat A b M L R 0 nc = (bta_first_A, bta_first_b).
  Proof. reflexivity. Qed.

  Definition bta_norm_A (im : Z) : Z -> F :=
    let fam := 5 * im in let mam := fam - 5 in
    let A1 :=
    upd1 (upd1 (upd1 (upd1 (upd1 (upd1 (upd1 (upd1 (upd1 (upd1 (upd1 (upd1 (upd1 (upd1 A
      ((0+fam)+5*(1+mam)) (L (0+5*1))) ((1+fam)+5*(1+mam)) (L (1+5*1)))
      ((0+fam)+5*(2+mam)) (L (0+5*2))) ((1+fam)+5*(2+mam)) (L (1+5*2))) ((2+fam)+5*(2+mam)) (L (2+5*2)))
      ((0+fam)+5*(3+mam)) (L (0+5*3))) ((1+fam)+5*(3+mam)) (L (1+5*3))) ((2+fam)+5*(3+mam)) (L (2+5*3)))
      ((3+fam)+5*(3+mam)) (L (3+5*3)))
      ((0+fam)+5*(4+mam)) (L (0+5*4))) ((1+fam)+5*(4+mam)) (L (1+5*4))) ((2+fam)+5*(4+mam)) (L (2+5*4)))
      ((3+fam)+5*(4+mam)) (L (3+5*4))) ((4+fam)+5*(4+mam)) (L (4+5*4)) in
    upd1 (upd1 (upd1 (upd1 (upd1 (upd1 (upd1 (upd1 (upd1 (upd1 (upd1 (upd1 (upd1 (upd1 (upd1 A1
      ((0+fam)+5*(0+fam)) (M (0+5*0))) ((1+fam)+5*(0+fam)) (M (1+5*0))) ((1+fam)+5*(1+fam)) (M (1+5*1)))
      ((2+fam)+5*(0+fam)) (M (2+5*0))) ((2+fam)+5*(1+fam)) (M (2+5*1))) ((2+fam)+5*(2+fam)) (M (2+5*2)))
      ((3+fam)+5*(0+fam)) (M (3+5*0))) ((3+fam)+5*(1+fam)) (M (3+5*1))) ((3+fam)+5*(2+fam)) (M (3+5*2)))
      ((3+fam)+5*(3+fam)) (M (3+5*3)))
      ((4+fam)+5*(0+fam)) (M (4+5*0))) ((4+fam)+5*(1+fam)) (M (4+5*1))) ((4+fam)+5*(2+fam)) (M (4+5*2)))
      ((4+fam)+5*(3+fam)) (M (4+5*3))) ((4+fam)+5*(4+fam)) (M (4+5*4)).
  Definition bta_norm_b (im : Z) : Z -> F :=
    let fam := 5 * im in
    upd1 (upd1 (upd1 (upd1 (upd1 b (0+fam) (R 0)) (1+fam) (R 1)) (2+fam) (R 2)) (3+fam) (R 3))
         (4+fam) (R 4).

  Lemma blocks_to_amat_normal im nc : im <> 0 -> im <= nc - 2 -> 2 < nc ->
    blocks_to_amat A b M L R im nc = (bta_norm_A im, bta_norm_b im).
  Proof.
    intros H0 H1 H2. unfold blocks_to_amat.
    zb_false (im =? 0). zb_true (im <=? nc - 2). zb_true (2 <? nc).
    reflexivity.
  Qed.

  Definition bta_last_A (im : Z) : Z -> F :=
    let fam := 5 * im in let mam := fam - 5 in
    upd1 (upd1 (upd1 (upd1 (upd1 A (fam+5*(1+mam)) (L 5)) (fam+5*(2+mam)) (L 10))
      (fam+5*(3+mam)) (L 15)) (fam+5*(4+mam)) (L 20)) (6*fam) (M 0).
  Definition bta_last_b (im : Z) : Z -> F := upd1 b (5 * im) (R 0).

  Lemma blocks_to_amat_last im nc : im <> 0 -> im = nc - 1 ->
    blocks_to_amat A b M L R im nc = (bta_last_A im, bta_last_b im).
  Proof.
    intros H0 H1. unfold blocks_to_amat.
    zb_false (im =? 0). zb_false (im <=? nc - 2). zb_true (im =? nc - 1).
    reflexivity.
  Qed.
End BTA.
