(* Proofs/GSLineX.v -- the line smoother along x (Gen/CoreGS.v [gauss_seidel_x],
   regenerated from emg3d/core.py) relaxes the SAME linear system as the
   operator of C02 (Model/FIT.v): the banded system it hands to [solve] for one
   (iy, iz) line is exactly "the residual equations A e[x] = s of the line's
   5 nx - 4 edges, with those edge values as unknowns".

   Unknown 5a+r of a line  <->  edge:  r=0: ex[a,iy,iz]   (0 <= a < nx)
     r=1: ey[a+1,iy-1,iz]  r=2: ey[a+1,iy,iz]  r=3: ez[a+1,iy,iz-1]  r=4: ez[a+1,iy,iz]
     (r = 1..4 only for a < nx-1);  e[x] = (lx x, ly x, lz x).

   PROVED (all closed under the global context; abstract field as in GSBlock.v;
   hypotheses: hx,hy,hz <> 0, 1+1 <> 0, 2 <= nx, 1 <= iy, 1 <= iz, and PECx = the
   eight tangential values ey/ez[0 | nx, iy-1|iy, iz-1|iz] at the two x-ends of the
   line are zero -- the kernel drops them from the system, "assumed to be zero"):
   * blocks_to_amat_first / _normal / _last : the three branches of
     [blocks_to_amat] as explicit update chains (which entries receive what).
   * gsx_system_layout : after the ixh loop (induction, Zfold_ind) the band
     storage holds middle(a) on the diagonal blocks, left(a) below them, zero in
     the unused corner, rhs(a) in bvec -- [Lay]; middle/left/rhs are the blocks
     of the generated straight-line code [gauss_seidel_x_L4_call1] (canonical
     form cM/cL/cR; the never-set entries of middle/left stay zero, [ZeroML]).
     gsx_sys_is_call1 : [gsx_sys] IS [gauss_seidel_x_L3_call1] (forward and
     backward ordering).
   * gsx_row_consistent (KEY; rows gsx_row0..4, each in its position cases
     first / middle / next-to-last / last, 22 [field] identities) : for ANY (A,b)
     laid out from the blocks and ANY x: row 5a+r of  A x - b  =  (A_fit e[x] - s)
     on the r-th edge of step a.  NB a row couples to the previous step through
     left(a) and to the NEXT step through left(a+1) transposed (symmetric band
     storage), so the statement is about the laid-out blocks, not about
     (middle, left) of a single step in isolation.
   * gsx_line_consistent : the same for the system of the generated call site,
     every 0 <= i < 5 nx - 4.
   * gsx_L3_step : one (iyh) step of the kernel = assemble, solve, write back;
     gsx_wb_spec : the write-back loop returns exactly e[solution] (pointwise).
   * gsx_line_exact / gsx_line_exact_out (pivots <> 0 as in BandLDL),
     gsx_line_fixed_point, gsx_line_frame.
   * gsx_matrix_indep : the matrix does not depend on the field.
   * sweepsx_inv (generic invariant lifting through iyh, izh, nu loops),
     gauss_seidel_x_fixed_point, gauss_seidel_x_frame : whole kernel, every nu,
     every shape (fixed point: 2 <= nx).
   * gsx_hyps_example : the hypotheses (pivots, PEC, exactness) hold on a concrete
     non-trivial 3x2x2 rational instance (vm_compute).
   MISSING: affinity in the field and "last line exact" at whole-sweep level
   (the line-level statements are here); the y and z line smoothers. *)
From Coq Require Import ZArith Lia Bool Field List.
From V Require Import Base.Loops Base.Arr Base.FieldSig Base.Tactics.
From V Require Import Gen.CoreBand Gen.CoreGS Model.FIT Proofs.BandSums Proofs.BandLDL.
Import ListNotations.
Local Open Scope Z_scope.

(* ------------------------------------------------------------------ *)
(* blocks_to_amat: its three branches as explicit update chains        *)
Section BTA.
  Context {F : Type} {O : FOps F}.
  Variables (A b M L R : Z -> F).

  Definition bta_first_A : Z -> F :=
    upd1 (upd1 (upd1 (upd1 (upd1 (upd1 (upd1 (upd1 (upd1 (upd1 (upd1 (upd1 (upd1 (upd1 (upd1 A
      (0+5*0) (M (0+5*0))) (1+5*0) (M (1+5*0))) (1+5*1) (M (1+5*1)))
      (2+5*0) (M (2+5*0))) (2+5*1) (M (2+5*1))) (2+5*2) (M (2+5*2)))
      (3+5*0) (M (3+5*0))) (3+5*1) (M (3+5*1))) (3+5*2) (M (3+5*2))) (3+5*3) (M (3+5*3)))
      (4+5*0) (M (4+5*0))) (4+5*1) (M (4+5*1))) (4+5*2) (M (4+5*2))) (4+5*3) (M (4+5*3)))
      (4+5*4) (M (4+5*4)).
  Definition bta_first_b : Z -> F :=
    upd1 (upd1 (upd1 (upd1 (upd1 b 0 (R 0)) 1 (R 1)) 2 (R 2)) 3 (R 3)) 4 (R 4).

  Lemma blocks_to_amat_first nc :
    blocks_to_amat A b M L R 0 nc = (bta_first_A, bta_first_b).
  Proof. reflexivity. Qed.

  Definition bta_norm_A (im : Z) : Z -> F :=
    let fam := 5 * im in let mam := fam - 5 in
    let A1 :=
    upd1 (upd1 (upd1 (upd1 (upd1 (upd1 (upd1 (upd1 (upd1 (upd1 (upd1 (upd1 (upd1 (upd1 A
      ((0+fam)+5*(1+mam)) (L (0+5*1))) ((1+fam)+5*(1+mam)) (L (1+5*1)))
      ((0+fam)+5*(2+mam)) (L (0+5*2))) ((1+fam)+5*(2+mam)) (L (1+5*2))) ((2+fam)+5*(2+mam)) (L (2+5*2)))
      ((0+fam)+5*(3+mam)) (L (0+5*3))) ((1+fam)+5*(3+mam)) (L (1+5*3))) ((2+fam)+5*(3+mam)) (L (2+5*3)))
      ((3+fam)+5*(3+mam)) (L (3+5*3)))
      ((0+fam)+5*(4+mam)) (L (0+5*4))) ((1+fam)+5*(4+mam)) (L (1+5*4))) ((2+fam)+5*(4+mam)) (L (2+5*4)))
      ((3+fam)+5*(4+mam)) (L (3+5*4))) ((4+fam)+5*(4+mam)) (L (4+5*4)) in
    upd1 (upd1 (upd1 (upd1 (upd1 (upd1 (upd1 (upd1 (upd1 (upd1 (upd1 (upd1 (upd1 (upd1 (upd1 A1
      ((0+fam)+5*(0+fam)) (M (0+5*0))) ((1+fam)+5*(0+fam)) (M (1+5*0))) ((1+fam)+5*(1+fam)) (M (1+5*1)))
      ((2+fam)+5*(0+fam)) (M (2+5*0))) ((2+fam)+5*(1+fam)) (M (2+5*1))) ((2+fam)+5*(2+fam)) (M (2+5*2)))
      ((3+fam)+5*(0+fam)) (M (3+5*0))) ((3+fam)+5*(1+fam)) (M (3+5*1))) ((3+fam)+5*(2+fam)) (M (3+5*2)))
      ((3+fam)+5*(3+fam)) (M (3+5*3)))
      ((4+fam)+5*(0+fam)) (M (4+5*0))) ((4+fam)+5*(1+fam)) (M (4+5*1))) ((4+fam)+5*(2+fam)) (M (4+5*2)))
      ((4+fam)+5*(3+fam)) (M (4+5*3))) ((4+fam)+5*(4+fam)) (M (4+5*4)).
  Definition bta_norm_b (im : Z) : Z -> F :=
    let fam := 5 * im in
    upd1 (upd1 (upd1 (upd1 (upd1 b (0+fam) (R 0)) (1+fam) (R 1)) (2+fam) (R 2)) (3+fam) (R 3))
         (4+fam) (R 4).

  Lemma blocks_to_amat_normal im nc : im <> 0 -> im <= nc - 2 -> 2 < nc ->
    blocks_to_amat A b M L R im nc = (bta_norm_A im, bta_norm_b im).
  Proof.
    intros H0 H1 H2. unfold blocks_to_amat.
    zb_false (im =? 0). zb_true (im <=? nc - 2). zb_true (2 <? nc).
    reflexivity.
  Qed.

  Definition bta_last_A (im : Z) : Z -> F :=
    let fam := 5 * im in let mam := fam - 5 in
    upd1 (upd1 (upd1 (upd1 (upd1 A (fam+5*(1+mam)) (L 5)) (fam+5*(2+mam)) (L 10))
      (fam+5*(3+mam)) (L 15)) (fam+5*(4+mam)) (L 20)) (6*fam) (M 0).
  Definition bta_last_b (im : Z) : Z -> F := upd1 b (5 * im) (R 0).

  Lemma blocks_to_amat_last im nc : im <> 0 -> im = nc - 1 ->
    blocks_to_amat A b M L R im nc = (bta_last_A im, bta_last_b im).
  Proof.
    intros H0 H1. unfold blocks_to_amat.
    zb_false (im =? 0). zb_false (im <=? nc - 2). zb_true (im =? nc - 1).
    reflexivity.
  Qed.
End BTA.

From V Require Import Proofs.GSBlock.

Section GSLineX.
  Context {F : Type} {O : FOps F}.
  Hypothesis Fth : field_theory F0 F1 Fadd Fmul Fsub Fopp Fdiv Finv (@eq F).
  Hypothesis two_nz : (1 + 1)%F <> 0%F.
  Add Field Fgsx : Fth.

  Variables (ex ey ez sx sy sz eta_x eta_y eta_z zeta : Z -> Z -> Z -> F).
  Variables (hx hy hz : Z -> F).
  Hypothesis hx_nz : forall i, hx i <> 0%F.
  Hypothesis hy_nz : forall i, hy i <> 0%F.
  Hypothesis hz_nz : forall i, hz i <> 0%F.
  Variables (nu lhx nx lhy ny lhz nz : Z).
  Variables (iy iz : Z).       (* the line *)

  Definition St4 : Type := ((Z -> F) * (Z -> F) * (Z -> F) * (Z -> F))%type.

  (* the straight-line part of one step of the ixh loop, block a = ixm = ixh-1 *)
  Definition gsx_blk (a : Z) (st : St4) :=
    gauss_seidel_x_L4_call1 ex ey ez sx sy sz eta_x eta_y eta_z zeta hx hy hz nu lhx nx lhy ny lhz nz
      (kof hx) (kof hy) (kof hz) 0 0 0 0 iz (iz-1) (iz+1) 0 iy (iy-1) (iy+1) (a+1) st.
  Definition gsx_L4 (a : Z) (st : St4) : St4 :=
    gauss_seidel_x_L4 ex ey ez sx sy sz eta_x eta_y eta_z zeta hx hy hz nu lhx nx lhy ny lhz nz
      (kof hx) (kof hy) (kof hz) 0 0 0 0 iz (iz-1) (iz+1) 0 iy (iy-1) (iy+1) (a+1) st.

  Definition blkM (r : (Z -> F) * (Z -> F) * (Z -> F) * (Z -> F) * (Z -> F)) : Z -> F := snd (fst (fst r)).
  Definition blkL (r : (Z -> F) * (Z -> F) * (Z -> F) * (Z -> F) * (Z -> F)) : Z -> F := snd (fst r).
  Definition blkR (r : (Z -> F) * (Z -> F) * (Z -> F) * (Z -> F) * (Z -> F)) : Z -> F := snd r.
  Definition blkA (r : (Z -> F) * (Z -> F) * (Z -> F) * (Z -> F) * (Z -> F)) : Z -> F := fst (fst (fst (fst r))).
  Definition blkB (r : (Z -> F) * (Z -> F) * (Z -> F) * (Z -> F) * (Z -> F)) : Z -> F := snd (fst (fst (fst r))).

  Lemma gsx_L4_step a st :
    gsx_L4 a st =
    let r := gsx_blk a st in
    let t := blocks_to_amat (blkA r) (blkB r) (blkM r) (blkL r) (blkR r) (a + 1 - 1) nx in
    (blkM r, blkL r, fst t, snd t).
  Proof.
    cbv delta [gsx_L4 gauss_seidel_x_L4 gsx_blk gauss_seidel_x_L4_call1 blkM blkL blkR blkA blkB].
    cbv beta. reflexivity.
  Qed.

  Lemma gsx_blk_AB a st : blkA (gsx_blk a st) = snd (fst st) /\ blkB (gsx_blk a st) = snd st.
  Proof.
    cbv delta [gsx_blk gauss_seidel_x_L4_call1 blkA blkB]. cbv beta. split; reflexivity.
  Qed.
  (* ---- canonical blocks: the step started from zeroed middle / left ------ *)
  Definition st0 : St4 := (fill1 0%F, fill1 0%F, fill1 0%F, fill1 0%F).
  Definition cM (a idx : Z) : F := blkM (gsx_blk a st0) idx.
  Definition cL (a idx : Z) : F := blkL (gsx_blk a st0) idx.
  Definition cR (a k : Z) : F := blkR (gsx_blk a st0) k.

  (* entries of middle / left that the step never sets but blocks_to_amat reads *)
  Definition ZeroML (m l : Z -> F) : Prop :=
    m 7 = 0%F /\ m 19 = 0%F /\
    l 11 = 0%F /\ l 16 = 0%F /\ l 17 = 0%F /\ l 21 = 0%F /\ l 22 = 0%F /\ l 23 = 0%F.

  (* symbolic evaluation of the update chains of the block at literal indices;
     the kernel re-checks the step with the VM (default conversion is very slow
     on the long let-chain) *)
  Ltac blk_eval :=
    match goal with
    | |- ?G =>
        let G' := eval cbv beta iota zeta delta
                    [cM cL cR st0 blkM blkL blkR gsx_blk gauss_seidel_x_L4_call1
                     upd1 upd1f upd3f fill1 arr_of_list nth Z.to_nat Pos.to_nat Pos.iter_op
                     Nat.add Z.eqb Pos.eqb Z.ltb Z.compare Pos.compare
                     Pos.compare_cont negb fst snd kof] in G in
        cut G'; [ let H := fresh "H" in intro H; vm_cast_no_check H | ]
    end.

  Definition usedM : list Z := [0;1;2;3;4;6;7;8;9;12;13;14;18;19;24].
  Definition usedL : list Z := [5;6;10;11;12;15;16;17;18;20;21;22;23;24].

  Lemma blk_canon_M a m0 l0 a0 b0 idx : ZeroML m0 l0 -> In idx usedM ->
    blkM (gsx_blk a (m0, l0, a0, b0)) idx = cM a idx.
  Proof.
    intros (Z7 & Z19 & _) H. unfold usedM in H. cbn [In] in H.
    repeat (destruct H as [H|H]; [subst idx; blk_eval; first [reflexivity|assumption]|]).
    contradiction.
  Qed.

  Lemma blk_canon_L a m0 l0 a0 b0 idx : ZeroML m0 l0 -> In idx usedL ->
    blkL (gsx_blk a (m0, l0, a0, b0)) idx = cL a idx.
  Proof.
    intros (_ & _ & Z11 & Z16 & Z17 & Z21 & Z22 & Z23) H. unfold usedL in H. cbn [In] in H.
    repeat (destruct H as [H|H]; [subst idx; blk_eval; first [reflexivity|assumption]|]).
    contradiction.
  Qed.

  Lemma blk_canon_R a st : blkR (gsx_blk a st) = cR a.
  Proof.
    apply eq_trans with (y := blkR (gsx_blk a st)); [reflexivity|].
    cbv delta [cR blkR gsx_blk gauss_seidel_x_L4_call1]. cbv beta. reflexivity.
  Qed.

  Lemma blk_zero a m0 l0 a0 b0 : ZeroML m0 l0 ->
    ZeroML (blkM (gsx_blk a (m0, l0, a0, b0))) (blkL (gsx_blk a (m0, l0, a0, b0))).
  Proof.
    intros (Z7 & Z19 & Z11 & Z16 & Z17 & Z21 & Z22 & Z23). unfold ZeroML.
    repeat split; blk_eval; assumption.
  Qed.
  (* ---- layout of the banded system after the ixh loop -------------------- *)
  Lemma upd1_eq {A} (a : Z -> A) i v j : j = i -> upd1 a i v j = v.
  Proof. intros ->. apply upd1_same. Qed.

  Ltac upd_res := repeat first [rewrite upd1_eq by lia | rewrite upd1_other by lia].

  Definition rowok (a r : Z) : Prop := 0 <= r < 5 /\ (a = nx - 1 -> r = 0).

  (* blocks 0 .. t-1 have been entered *)
  Definition Lay (t : Z) (A b : Z -> F) : Prop :=
    (forall a r c, 0 <= a < t -> rowok a r -> 0 <= c <= r ->
       A ((5*a+r) + 5*(5*a+c)) = cM a (r+5*c)) /\
    (forall a r c, 1 <= a < t -> rowok a r -> 1 <= c < 5 -> r <= c ->
       A ((5*a+r) + 5*(5*(a-1)+c)) = cL a (r+5*c)) /\
    (forall a, 1 <= a -> A (5*a + 5*(5*(a-1))) = 0%F) /\
    (forall a r, 0 <= a < t -> rowok a r -> b (5*a+r) = cR a r).

  Definition Inv (t : Z) (st : St4) : Prop :=
    ZeroML (fst (fst (fst st))) (snd (fst (fst st))) /\ Lay t (snd (fst st)) (snd st).

  Lemma r_cases r : 0 <= r < 5 -> r = 0 \/ r = 1 \/ r = 2 \/ r = 3 \/ r = 4.
  Proof. lia. Qed.

  Section LayStep.
    Variables (A b M' L' R' : Z -> F) (a0 : Z).
    Hypothesis HM : forall idx, In idx usedM -> M' idx = cM a0 idx.
    Hypothesis HL : forall idx, In idx usedL -> L' idx = cL a0 idx.
    Hypothesis HR : forall k, R' k = cR a0 k.
    Hypothesis Hnx : 2 <= nx.
    Hypothesis HLay : Lay a0 A b.

    Ltac inM := unfold usedM; cbn [In]; lia.
    Ltac inL := unfold usedL; cbn [In]; lia.

    Lemma lay_first : a0 = 0 -> Lay (a0 + 1) (bta_first_A A M') (bta_first_b b R').
    Proof.
      intros E0. destruct HLay as (H1 & H2 & H3 & H4).
      unfold Lay. repeat split.
      - intros a r c Ha [Hr Hr'] Hc. assert (a = a0) by lia. subst a. subst a0.
        cbv [bta_first_A].
        destruct (r_cases r Hr) as [E|[E|[E|[E|E]]]]; subst r;
          (assert (C : c = 0 \/ c = 1 \/ c = 2 \/ c = 3 \/ c = 4) by lia;
           destruct C as [E|[E|[E|[E|E]]]]; subst c; try lia);
          upd_res; apply HM; inM.
      - intros a r c Ha. lia.
      - intros a Ha. cbv [bta_first_A]. upd_res. apply H3. lia.
      - intros a r Ha [Hr Hr']. assert (a = a0) by lia. subst a. subst a0.
        cbv [bta_first_b].
        destruct (r_cases r Hr) as [E|[E|[E|[E|E]]]]; subst r; upd_res; apply HR.
    Qed.
    Ltac c_cases c := 
      let C := fresh "C" in let E := fresh "E" in
      assert (C : c = 0 \/ c = 1 \/ c = 2 \/ c = 3 \/ c = 4) by lia;
      destruct C as [E|[E|[E|[E|E]]]]; subst c; try lia.

    Lemma lay_normal : 1 <= a0 <= nx - 2 ->
      Lay (a0 + 1) (bta_norm_A A M' L' a0) (bta_norm_b b R' a0).
    Proof.
      intros E0. destruct HLay as (H1 & H2 & H3 & H4).
      unfold Lay. repeat split.
      - intros a r c Ha [Hr Hr'] Hc. cbv [bta_norm_A].
        destruct (Z.eq_dec a a0) as [->|Hne].
        + c_cases r; c_cases c; upd_res; apply HM; inM.
        + upd_res. apply H1; [lia|split; assumption|lia].
      - intros a r c Ha [Hr Hr'] Hc Hrc. cbv [bta_norm_A].
        destruct (Z.eq_dec a a0) as [->|Hne].
        + c_cases r; c_cases c; upd_res; apply HL; inL.
        + upd_res. apply H2; [lia|split; assumption|lia|lia].
      - intros a Ha. cbv [bta_norm_A]. upd_res. apply H3. lia.
      - intros a r Ha [Hr Hr']. cbv [bta_norm_b].
        destruct (Z.eq_dec a a0) as [->|Hne].
        + c_cases r; upd_res; apply HR.
        + upd_res. apply H4; [lia|split; assumption].
    Qed.

    Lemma lay_last : 1 <= a0 -> a0 = nx - 1 ->
      Lay (a0 + 1) (bta_last_A A M' L' a0) (bta_last_b b R' a0).
    Proof.
      intros E0 E1. destruct HLay as (H1 & H2 & H3 & H4).
      unfold Lay. repeat split.
      - intros a r c Ha [Hr Hr'] Hc. cbv [bta_last_A].
        destruct (Z.eq_dec a a0) as [->|Hne].
        + assert (r = 0) by (apply Hr'; exact E1). subst r. assert (c = 0) by lia. subst c.
          upd_res. apply HM; inM.
        + upd_res. apply H1; [lia|split; assumption|lia].
      - intros a r c Ha [Hr Hr'] Hc Hrc. cbv [bta_last_A].
        destruct (Z.eq_dec a a0) as [->|Hne].
        + assert (r = 0) by (apply Hr'; exact E1). subst r.
          c_cases c; upd_res; apply HL; inL.
        + upd_res. apply H2; [lia|split; assumption|lia|lia].
      - intros a Ha. cbv [bta_last_A]. upd_res. apply H3. lia.
      - intros a r Ha [Hr Hr']. cbv [bta_last_b].
        destruct (Z.eq_dec a a0) as [->|Hne].
        + assert (r = 0) by (apply Hr'; exact E1). subst r. upd_res. apply HR.
        + upd_res. apply H4; [lia|split; assumption].
    Qed.
  End LayStep.
  Lemma Inv_step a0 st : 2 <= nx -> 0 <= a0 < nx -> Inv a0 st -> Inv (a0 + 1) (gsx_L4 a0 st).
  Proof.
    intros Hnx Ha [HZ HLay]. destruct st as [[[m l] A] b]. cbn [fst snd] in HZ, HLay.
    rewrite gsx_L4_step. cbv zeta.
    destruct (gsx_blk_AB a0 (m, l, A, b)) as [EA EB]. rewrite EA, EB. cbn [fst snd].
    replace (a0 + 1 - 1) with a0 by lia.
    pose proof (fun idx => blk_canon_M a0 m l A b idx HZ) as HM.
    pose proof (fun idx => blk_canon_L a0 m l A b idx HZ) as HL.
    assert (HR : forall k, blkR (gsx_blk a0 (m, l, A, b)) k = cR a0 k)
      by (intros k; now rewrite blk_canon_R).
    pose proof (blk_zero a0 m l A b HZ) as HZ'.
    set (M' := blkM _) in *. set (L' := blkL _) in *. set (R' := blkR _) in *.
    clearbody M' L' R'.
    unfold Inv.
    destruct (Z.eq_dec a0 0) as [E0|N0].
    - subst a0. rewrite blocks_to_amat_first. cbn [fst snd]. split; [exact HZ'|].
      apply (lay_first A b M' L' R' 0); solve [assumption|lia|reflexivity].
    - destruct (Z.eq_dec a0 (nx - 1)) as [E1|N1].
      + rewrite blocks_to_amat_last by lia. cbn [fst snd]. split; [exact HZ'|].
        apply lay_last; solve [assumption|lia].
      + rewrite blocks_to_amat_normal by lia. cbn [fst snd]. split; [exact HZ'|].
        apply lay_normal; solve [assumption|lia].
  Qed.

  (* the ixh loop of one line, and the system it hands to the solver *)
  Definition gsx_loop : St4 := Zfold 1 (nx + 1) (fun ixh st => gsx_L4 (ixh - 1) st) st0.
  Definition gsx_sys : (Z -> F) * (Z -> F) := (snd (fst gsx_loop), snd gsx_loop).

  Theorem gsx_system_layout : 2 <= nx -> Lay nx (fst gsx_sys) (snd gsx_sys).
  Proof.
    intros Hnx. unfold gsx_sys, gsx_loop. cbn [fst snd].
    assert (G : Inv (nx + 1 - 1) (Zfold 1 (nx + 1) (fun ixh st => gsx_L4 (ixh - 1) st) st0)).
    { apply (Zfold_ind (fun t st => Inv (t - 1) st)); [lia| |].
      - unfold Inv, st0, ZeroML, Lay, fill1. cbn [fst snd].
        repeat split; intros; try reflexivity; lia.
      - intros t st Ht Hi. replace (t + 1 - 1) with (t - 1 + 1) by lia.
        apply Inv_step; [exact Hnx|lia|exact Hi]. }
    replace (nx + 1 - 1) with nx in G by lia. exact (proj2 G).
  Qed.

  (* tie to the generated call-site definition: the arguments handed to [solve] *)
  Lemma L4_as_blk iback nr it izh iyh ixh st :
    gauss_seidel_x_L4 ex ey ez sx sy sz eta_x eta_y eta_z zeta hx hy hz nu lhx nx lhy ny lhz nz
      (kof hx) (kof hy) (kof hz) iback nr it izh iz (iz-1) (iz+1) iyh iy (iy-1) (iy+1) ixh st
    = gsx_L4 (ixh - 1) st.
  Proof.
    unfold gsx_L4. replace (ixh - 1 + 1) with ixh by lia.
    cbv delta [gauss_seidel_x_L4]. cbv beta. reflexivity.
  Qed.

  Definition node (iback n ih : Z) : Z := if negb (iback =? 0) then n - ih else ih.

  Lemma gsx_sys_is_call1 iback nr it izh iyh (st7 : (Z -> F) * (Z -> F) * (Z -> F) * (Z -> F) *
        (Z -> Z -> Z -> F) * (Z -> Z -> Z -> F) * (Z -> Z -> Z -> F)) :
    node iback ny iyh = iy ->
    snd (fst (fst st7)) = ex -> snd (fst st7) = ey -> snd st7 = ez ->
    gauss_seidel_x_L3_call1 sx sy sz eta_x eta_y eta_z zeta hx hy hz nu lhx nx lhy ny lhz nz
      (kof hx) (kof hy) (kof hz) iback nr it izh iz (iz-1) (iz+1) iyh st7 = gsx_sys.
  Proof.
    intros Hn Hx Hy Hz.
    cbv delta [gauss_seidel_x_L3_call1]. cbv beta. cbv zeta.
    change (if negb (iback =? 0) then ny - iyh else iyh) with (node iback ny iyh).
    rewrite Hn, Hx, Hy, Hz. unfold gsx_sys, gsx_loop.
    rewrite (Zfold_ext 1 (nx + 1) _ (fun ixh st => gsx_L4 (ixh - 1) st)); [reflexivity|].
    intros i s _. apply L4_as_blk.
  Qed.
  (* ---- the banded product written out: eleven guarded terms --------------- *)
  Definition gd (n j : Z) (v : F) : F := if (0 <=? j) && (j <? n) then v else 0%F.
  Lemma gd_true n j v : 0 <= j < n -> gd n j v = v.
  Proof. intros H. unfold gd. zb_true (0 <=? j). zb_true (j <? n). reflexivity. Qed.
  Lemma gd_false n j v : (j < 0 \/ n <= j) -> gd n j v = 0%F.
  Proof.
    intros H. unfold gd. destruct (Z.leb_spec 0 j), (Z.ltb_spec j n); cbn [andb]; try reflexivity; lia.
  Qed.

  Lemma sumZ_11 lo (f : Z -> F) : sumZ lo (lo + 11) f = (f lo + f (lo+1)%Z + f (lo+2)%Z + f (lo+3)%Z + f (lo+4)%Z + f (lo+5)%Z + f (lo+6)%Z + f (lo+7)%Z + f (lo+8)%Z + f (lo+9)%Z + f (lo+10)%Z)%F.
  Proof.
    unfold sumZ, Zfold. replace (Z.to_nat (lo + 11 - lo)) with 11%nat by lia. cbn [nfold].
    replace (lo+1+1+1+1+1+1+1+1+1+1) with (lo+10) by lia.
    replace (lo+1+1+1+1+1+1+1+1+1) with (lo+9) by lia.
    replace (lo+1+1+1+1+1+1+1+1) with (lo+8) by lia.
    replace (lo+1+1+1+1+1+1+1) with (lo+7) by lia.
    replace (lo+1+1+1+1+1+1) with (lo+6) by lia.
    replace (lo+1+1+1+1+1) with (lo+5) by lia.
    replace (lo+1+1+1+1) with (lo+4) by lia.
    replace (lo+1+1+1) with (lo+3) by lia.
    replace (lo+1+1) with (lo+2) by lia.
    ring.
  Qed.

  Lemma term_lo n A x i d : 0 <= d <= 5 ->
    (if inrange (Z.max 0 (i-5)) (Z.min n (i+6)) (i-d) then (Asym A i (i-d) * x (i-d)%Z)%F else 0%F)
    = gd n (i-d) (A (i + 5*(i-d))%Z * x (i-d)%Z)%F.
  Proof.
    intros Hd. unfold gd, Asym, inrange. zb_true (i - d <=? i).
    destruct (Z.leb_spec 0 (i-d)), (Z.ltb_spec (i-d) n), (Z.leb_spec (Z.max 0 (i-5)) (i-d)),
      (Z.ltb_spec (i-d) (Z.min n (i+6))); cbn [andb]; try reflexivity; lia.
  Qed.
  Lemma term_mid n A x i :
    (if inrange (Z.max 0 (i-5)) (Z.min n (i+6)) i then (Asym A i i * x i)%F else 0%F)
    = gd n i (A (i + 5*i)%Z * x i)%F.
  Proof.
    unfold gd, Asym, inrange. zb_true (i <=? i).
    destruct (Z.leb_spec 0 i), (Z.ltb_spec i n), (Z.leb_spec (Z.max 0 (i-5)) i),
      (Z.ltb_spec i (Z.min n (i+6))); cbn [andb]; try reflexivity; lia.
  Qed.
  Lemma term_hi n A x i d : 1 <= d <= 5 ->
    (if inrange (Z.max 0 (i-5)) (Z.min n (i+6)) (i+d) then (Asym A i (i+d) * x (i+d)%Z)%F else 0%F)
    = gd n (i+d) (A (i+d + 5*i)%Z * x (i+d)%Z)%F.
  Proof.
    intros Hd. unfold gd, Asym, inrange. zb_false (i + d <=? i).
    destruct (Z.leb_spec 0 (i+d)), (Z.ltb_spec (i+d) n), (Z.leb_spec (Z.max 0 (i-5)) (i+d)),
      (Z.ltb_spec (i+d) (Z.min n (i+6))); cbn [andb]; try reflexivity; lia.
  Qed.

  Lemma bandmul_unroll n A x i :
    bandmul n A x i =
    (gd n (i-5)%Z (A (i + 5*(i-5))%Z * x (i-5)%Z) + gd n (i-4)%Z (A (i + 5*(i-4))%Z * x (i-4)%Z) + gd n (i-3)%Z (A (i + 5*(i-3))%Z * x (i-3)%Z) + gd n (i-2)%Z (A (i + 5*(i-2))%Z * x (i-2)%Z) + gd n (i-1)%Z (A (i + 5*(i-1))%Z * x (i-1)%Z) + gd n i (A (i + 5*i)%Z * x i) + gd n (i+1)%Z (A (i+1 + 5*i)%Z * x (i+1)%Z) + gd n (i+2)%Z (A (i+2 + 5*i)%Z * x (i+2)%Z) + gd n (i+3)%Z (A (i+3 + 5*i)%Z * x (i+3)%Z) + gd n (i+4)%Z (A (i+4 + 5*i)%Z * x (i+4)%Z) + gd n (i+5)%Z (A (i+5 + 5*i)%Z * x (i+5)%Z))%F.
  Proof.
    unfold bandmul.
    rewrite <- (sumZ_indicator Fth (i-5) (i-5+11) (Z.max 0 (i-5)) (Z.min n (i+6))) by lia.
    rewrite sumZ_11.
    replace (i-5+1) with (i-4) by lia. replace (i-5+2) with (i-3) by lia.
    replace (i-5+3) with (i-2) by lia. replace (i-5+4) with (i-1) by lia.
    replace (i-5+5) with i by lia. replace (i-5+6) with (i+1) by lia.
    replace (i-5+7) with (i+2) by lia. replace (i-5+8) with (i+3) by lia.
    replace (i-5+9) with (i+4) by lia. replace (i-5+10) with (i+5) by lia.
    rewrite !term_lo, term_mid, !term_hi by lia. reflexivity.
  Qed.
  (* ---- the field with the line's unknowns replaced by a vector x ---------- *)
  (* unknown 5*i       <-> ex[i,iy,iz]           (0 <= i < nx)
     unknown 5*(i-1)+1 <-> ey[i,iy-1,iz]         (1 <= i < nx)
     unknown 5*(i-1)+2 <-> ey[i,iy,iz]
     unknown 5*(i-1)+3 <-> ez[i,iy,iz-1]
     unknown 5*(i-1)+4 <-> ez[i,iy,iz] *)
  Definition lx (x : Z -> F) : Z -> Z -> Z -> F := fun i j k =>
    if (j =? iy) && (k =? iz) && (0 <=? i) && (i <? nx) then x (5*i) else ex i j k.
  Definition ly (x : Z -> F) : Z -> Z -> Z -> F := fun i j k =>
    if (k =? iz) && (1 <=? i) && (i <? nx) then
      (if j =? iy - 1 then x (5*(i-1)+1) else if j =? iy then x (5*(i-1)+2) else ey i j k)
    else ey i j k.
  Definition lz (x : Z -> F) : Z -> Z -> Z -> F := fun i j k =>
    if (j =? iy) && (1 <=? i) && (i <? nx) then
      (if k =? iz - 1 then x (5*(i-1)+3) else if k =? iz then x (5*(i-1)+4) else ez i j k)
    else ez i j k.

  Lemma lx_in x i j k : j = iy -> k = iz -> 0 <= i < nx -> lx x i j k = x (5*i).
  Proof.
    intros -> -> H. unfold lx. rewrite !Z.eqb_refl.
    zb_true (0 <=? i). zb_true (i <? nx). reflexivity.
  Qed.
  Lemma lx_out x i j k : (j <> iy \/ k <> iz) -> lx x i j k = ex i j k.
  Proof.
    intros H. unfold lx. destruct (Z.eqb_spec j iy), (Z.eqb_spec k iz); cbn [andb]; try reflexivity; lia.
  Qed.
  Lemma ly_in1 x i j k : j = iy - 1 -> k = iz -> 1 <= i < nx -> ly x i j k = x (5*(i-1)+1).
  Proof.
    intros -> -> H. unfold ly. rewrite !Z.eqb_refl.
    zb_true (1 <=? i). zb_true (i <? nx). reflexivity.
  Qed.
  Lemma ly_in2 x i j k : j = iy -> k = iz -> 1 <= i < nx -> ly x i j k = x (5*(i-1)+2).
  Proof.
    intros -> -> H. unfold ly. rewrite !Z.eqb_refl.
    zb_true (1 <=? i). zb_true (i <? nx). zb_false (iy =? iy - 1). reflexivity.
  Qed.
  Lemma ly_out x i j k : (k <> iz \/ (j <> iy - 1 /\ j <> iy) \/ i <= 0 \/ nx <= i) ->
    ly x i j k = ey i j k.
  Proof.
    intros H. unfold ly.
    destruct (Z.eqb_spec k iz), (Z.leb_spec 1 i), (Z.ltb_spec i nx), (Z.eqb_spec j (iy-1)),
      (Z.eqb_spec j iy); cbn [andb]; try reflexivity; lia.
  Qed.
  Lemma lz_in1 x i j k : j = iy -> k = iz - 1 -> 1 <= i < nx -> lz x i j k = x (5*(i-1)+3).
  Proof.
    intros -> -> H. unfold lz. rewrite !Z.eqb_refl.
    zb_true (1 <=? i). zb_true (i <? nx). reflexivity.
  Qed.
  Lemma lz_in2 x i j k : j = iy -> k = iz -> 1 <= i < nx -> lz x i j k = x (5*(i-1)+4).
  Proof.
    intros -> -> H. unfold lz. rewrite !Z.eqb_refl.
    zb_true (1 <=? i). zb_true (i <? nx). zb_false (iz =? iz - 1). reflexivity.
  Qed.
  Lemma lz_out x i j k : (j <> iy \/ (k <> iz - 1 /\ k <> iz) \/ i <= 0 \/ nx <= i) ->
    lz x i j k = ez i j k.
  Proof.
    intros H. unfold lz.
    destruct (Z.eqb_spec j iy), (Z.leb_spec 1 i), (Z.ltb_spec i nx), (Z.eqb_spec k (iz-1)),
      (Z.eqb_spec k iz); cbn [andb]; try reflexivity; lia.
  Qed.

  (* layout facts in the form used for rewriting *)
  Section LayUse.
    Variables (A b : Z -> F) (t : Z).
    Hypothesis HLay : Lay t A b.
    Lemma lay_M a r c p idx : p = (5*a+r) + 5*(5*a+c) -> idx = r + 5*c ->
      0 <= a < t -> rowok a r -> 0 <= c <= r -> A p = cM a idx.
    Proof. intros -> ->. apply (proj1 HLay). Qed.
    Lemma lay_L a r c p idx : p = (5*a+r) + 5*(5*(a-1)+c) -> idx = r + 5*c ->
      1 <= a < t -> rowok a r -> 1 <= c < 5 -> r <= c -> A p = cL a idx.
    Proof. intros -> ->. apply (proj1 (proj2 HLay)). Qed.
    Lemma lay_0 a p : p = 5*a + 5*(5*(a-1)) -> 1 <= a -> A p = 0%F.
    Proof. intros ->. apply (proj1 (proj2 (proj2 HLay))). Qed.
    Lemma lay_b a r p : p = 5*a + r -> 0 <= a < t -> rowok a r -> b p = cR a r.
    Proof. intros ->. apply (proj2 (proj2 (proj2 HLay))). Qed.
  End LayUse.
  (* ---- row consistency ---------------------------------------------------- *)
  Section Rows.
    Variables (A b : Z -> F).
    Hypothesis HLay : Lay nx A b.
    Hypothesis Hnx : 2 <= nx.
    Hypothesis Hiy : 1 <= iy.
    Hypothesis Hiz : 1 <= iz.
    (* PEC: the tangential boundary values at both x-ends of the line, which the
       kernel drops from the system ("assumed to be zero") *)
    Hypothesis pec_y0m : ey 0 (iy-1) iz = 0%F.
    Hypothesis pec_y0  : ey 0 iy iz = 0%F.
    Hypothesis pec_z0m : ez 0 iy (iz-1) = 0%F.
    Hypothesis pec_z0  : ez 0 iy iz = 0%F.
    Hypothesis pec_yNm : ey nx (iy-1) iz = 0%F.
    Hypothesis pec_yN  : ey nx iy iz = 0%F.
    Hypothesis pec_zNm : ez nx iy (iz-1) = 0%F.
    Hypothesis pec_zN  : ez nx iy iz = 0%F.

    Lemma pec_y i j : (i = 0 \/ i = nx) -> (j = iy - 1 \/ j = iy) -> ey i j iz = 0%F.
    Proof. intros [->| ->] [->| ->]; assumption. Qed.
    Lemma pec_z i k : (i = 0 \/ i = nx) -> (k = iz - 1 \/ k = iz) -> ez i iy k = 0%F.
    Proof. intros [->| ->] [->| ->]; assumption. Qed.

    Ltac sidec := first [lia | unfold rowok; lia].

    Ltac lo_rw a r d p :=
      let same := eval vm_compute in (d <=? r) in
      lazymatch same with
      | true =>
          let c := eval vm_compute in (r - d) in
          let idx := eval vm_compute in (r + 5*(r-d)) in
          try rewrite (lay_M A b nx HLay a r c p idx) by sidec
      | false =>
          let c := eval vm_compute in (r - d + 5) in
          let idx := eval vm_compute in (r + 5*(r-d+5)) in
          lazymatch c with
          | 0 => try rewrite (lay_0 A b nx HLay a p) by sidec
          | _ => try rewrite (lay_L A b nx HLay a r c p idx) by sidec
          end
      end.

    Ltac hi_rw a r d p :=
      let same := eval vm_compute in (r + d <? 5) in
      lazymatch same with
      | true =>
          let r' := eval vm_compute in (r + d) in
          let idx := eval vm_compute in (r + d + 5*r) in
          try rewrite (lay_M A b nx HLay a r' r p idx) by sidec
      | false =>
          let r' := eval vm_compute in (r + d - 5) in
          let idx := eval vm_compute in (r + d - 5 + 5*r) in
          lazymatch r with
          | 0 => try rewrite (lay_0 A b nx HLay (a+1) p) by sidec
          | _ => try rewrite (lay_L A b nx HLay (a+1) r' r p idx) by sidec
          end
      end.

    Ltac gd_res :=
      repeat match goal with
      | |- context [gd ?n ?j ?v] =>
          first [rewrite (gd_true n j v) by lia | rewrite (gd_false n j v) by lia]
      end.

    Ltac lay_rw a r :=
      lo_rw a r 5 (5*a+r + 5*(5*a+r-5)); lo_rw a r 4 (5*a+r + 5*(5*a+r-4));
      lo_rw a r 3 (5*a+r + 5*(5*a+r-3)); lo_rw a r 2 (5*a+r + 5*(5*a+r-2));
      lo_rw a r 1 (5*a+r + 5*(5*a+r-1)); lo_rw a r 0 (5*a+r + 5*(5*a+r));
      hi_rw a r 1 (5*a+r+1 + 5*(5*a+r)); hi_rw a r 2 (5*a+r+2 + 5*(5*a+r));
      hi_rw a r 3 (5*a+r+3 + 5*(5*a+r)); hi_rw a r 4 (5*a+r+4 + 5*(5*a+r));
      hi_rw a r 5 (5*a+r+5 + 5*(5*a+r));
      rewrite (lay_b A b nx HLay a r (5*a+r)) by sidec.

    Ltac reads :=
      repeat first
        [ rewrite lx_in by lia | rewrite lx_out by lia
        | rewrite ly_in1 by lia | rewrite ly_in2 by lia | rewrite ly_out by lia
        | rewrite lz_in1 by lia | rewrite lz_in2 by lia | rewrite lz_out by lia ].

    Ltac pecs :=
      repeat match goal with
      | |- context [ey ?i ?j iz] => rewrite (pec_y i j) by lia
      | |- context [ez ?i iy ?k] => rewrite (pec_z i k) by lia
      end.

    Ltac xnorm x :=
      repeat match goal with
      | |- context [x ?t] => progress ring_simplify t
      end.

    Ltac spec_eval x :=
      unfold A_x, A_y, A_z, curlT_x, curlT_y, curlT_z, u_x, u_y, u_z, Mf_x, Mf_y, Mf_z,
        Me_x, Me_y, Me_z, curl_x, curl_y, curl_z, pm;
      repeat match goal with
      | |- context [?a =? 0] => zb_false (a =? 0)
      end;
      cbn [orb]; zmax_norm; idx_norm; reads; pecs; xnorm x; flit.

    Ltac side := first [ exact two_nz | apply (four_nz Fth two_nz) | apply (one_nz Fth)
                       | apply hx_nz | apply hy_nz | apply hz_nz ].

    Ltac row x a r :=
      first [exfalso; lia | idtac];
      rewrite (bandmul_unroll (5*nx-4) A x (5*a+r)); gd_res; lay_rw a r;
      blk_eval; spec_eval x; field; repeat split; side.

    Notation FX x := (lx x). Notation FY x := (ly x). Notation FZ x := (lz x).

    Lemma gsx_row0 x a : 0 <= a < nx ->
      Fsub (bandmul (5*nx-4) A x (5*a+0)) (b (5*a+0))
      = Fsub (A_x (FX x) (FY x) (FZ x) eta_x zeta hx hy hz a iy iz) (sx a iy iz).
    Proof.
      intros Ha.
      assert (C1 : a = 0 \/ 1 <= a) by lia.
      assert (C2 : a = nx - 1 \/ a + 1 = nx - 1 \/ a + 1 < nx - 1) by lia.
      destruct C1 as [C1|C1], C2 as [C2|[C2|C2]]; row x a 0.
    Qed.
    Lemma gsx_row1 x a : 0 <= a < nx - 1 ->
      Fsub (bandmul (5*nx-4) A x (5*a+1)) (b (5*a+1))
      = Fsub (A_y (FX x) (FY x) (FZ x) eta_y zeta hx hy hz (a+1) (iy-1) iz) (sy (a+1) (iy-1) iz).
    Proof.
      intros Ha.
      assert (C1 : a = 0 \/ 1 <= a) by lia.
      assert (C2 : a + 1 = nx - 1 \/ a + 1 < nx - 1) by lia.
      destruct C1 as [C1|C1], C2 as [C2|C2]; row x a 1.
    Qed.
    Lemma gsx_row2 x a : 0 <= a < nx - 1 ->
      Fsub (bandmul (5*nx-4) A x (5*a+2)) (b (5*a+2))
      = Fsub (A_y (FX x) (FY x) (FZ x) eta_y zeta hx hy hz (a+1) iy iz) (sy (a+1) iy iz).
    Proof.
      intros Ha.
      assert (C1 : a = 0 \/ 1 <= a) by lia.
      assert (C2 : a + 1 = nx - 1 \/ a + 1 < nx - 1) by lia.
      destruct C1 as [C1|C1], C2 as [C2|C2]; row x a 2.
    Qed.
    Lemma gsx_row3 x a : 0 <= a < nx - 1 ->
      Fsub (bandmul (5*nx-4) A x (5*a+3)) (b (5*a+3))
      = Fsub (A_z (FX x) (FY x) (FZ x) eta_z zeta hx hy hz (a+1) iy (iz-1)) (sz (a+1) iy (iz-1)).
    Proof.
      intros Ha.
      assert (C1 : a = 0 \/ 1 <= a) by lia.
      assert (C2 : a + 1 = nx - 1 \/ a + 1 < nx - 1) by lia.
      destruct C1 as [C1|C1], C2 as [C2|C2]; row x a 3.
    Qed.
    Lemma gsx_row4 x a : 0 <= a < nx - 1 ->
      Fsub (bandmul (5*nx-4) A x (5*a+4)) (b (5*a+4))
      = Fsub (A_z (FX x) (FY x) (FZ x) eta_z zeta hx hy hz (a+1) iy iz) (sz (a+1) iy iz).
    Proof.
      intros Ha.
      assert (C1 : a = 0 \/ 1 <= a) by lia.
      assert (C2 : a + 1 = nx - 1 \/ a + 1 < nx - 1) by lia.
      destruct C1 as [C1|C1], C2 as [C2|C2]; row x a 4.
    Qed.
    (* (A e[x] - s) on the edge of unknown 5*a + r *)
    Definition line_res (x : Z -> F) (a r : Z) : F :=
      let fx := lx x in let fy := ly x in let fz := lz x in
      if r =? 0 then Fsub (A_x fx fy fz eta_x zeta hx hy hz a iy iz) (sx a iy iz)
      else if r =? 1 then Fsub (A_y fx fy fz eta_y zeta hx hy hz (a+1) (iy-1) iz) (sy (a+1) (iy-1) iz)
      else if r =? 2 then Fsub (A_y fx fy fz eta_y zeta hx hy hz (a+1) iy iz) (sy (a+1) iy iz)
      else if r =? 3 then Fsub (A_z fx fy fz eta_z zeta hx hy hz (a+1) iy (iz-1)) (sz (a+1) iy (iz-1))
      else Fsub (A_z fx fy fz eta_z zeta hx hy hz (a+1) iy iz) (sz (a+1) iy iz).

    (* KEY LEMMA.  For ANY banded system (A, b) that holds the 5x5 blocks
       middle / left / rhs of the steps in the layout [Lay] (middle on the
       diagonal, left below it -- and hence, by symmetry of the band storage,
       the transposed left of the NEXT step to the right), and ANY values x of
       the line unknowns: row 5a+r of  A x - b  is  (A_fit e[x] - s)  on the
       r-th edge of step a.  Positions: first (a = 0, no left block), middle,
       last (a = nx-1, only r = 0). *)
    Theorem gsx_row_consistent x a r : 0 <= a < nx -> 0 <= r < 5 -> (a = nx - 1 -> r = 0) ->
      Fsub (bandmul (5*nx-4) A x (5*a+r)) (b (5*a+r)) = line_res x a r.
    Proof.
      intros Ha Hr Hl. unfold line_res. cbv zeta.
      assert (a < nx - 1 \/ r = 0) by lia.
      destruct (r_cases r Hr) as [E|[E|[E|[E|E]]]]; subst r; cbn [Z.eqb Pos.eqb].
      - now apply gsx_row0.
      - apply gsx_row1; lia.
      - apply gsx_row2; lia.
      - apply gsx_row3; lia.
      - apply gsx_row4; lia.
    Qed.

    Theorem gsx_rows_consistent x i : 0 <= i < 5*nx-4 ->
      Fsub (bandmul (5*nx-4) A x i) (b i) = line_res x (i / 5) (i mod 5).
    Proof.
      intros Hi. pose proof (Z.div_mod i 5 ltac:(lia)) as E.
      pose proof (Z.mod_pos_bound i 5 ltac:(lia)) as Hm.
      rewrite <- (gsx_row_consistent x (i/5) (i mod 5)); [|lia|lia|lia].
      now rewrite <- E.
    Qed.
  End Rows.
  (* ---- the system of one line is the residual system ---------------------- *)
  Definition PECx : Prop :=
    ey 0 (iy-1) iz = 0%F /\ ey 0 iy iz = 0%F /\ ez 0 iy (iz-1) = 0%F /\ ez 0 iy iz = 0%F /\
    ey nx (iy-1) iz = 0%F /\ ey nx iy iz = 0%F /\ ez nx iy (iz-1) = 0%F /\ ez nx iy iz = 0%F.

  Theorem gsx_line_consistent : 2 <= nx -> 1 <= iy -> 1 <= iz -> PECx ->
    forall x i, 0 <= i < 5*nx-4 ->
      Fsub (bandmul (5*nx-4) (fst gsx_sys) x i) (snd gsx_sys i) = line_res x (i / 5) (i mod 5).
  Proof.
    intros Hnx Hy Hz (P1 & P2 & P3 & P4 & P5 & P6 & P7 & P8) x i Hi.
    exact (gsx_rows_consistent (fst gsx_sys) (snd gsx_sys) (gsx_system_layout Hnx) Hnx Hy Hz
             P1 P2 P3 P4 P5 P6 P7 P8 x i Hi).
  Qed.

  (* ---- write-back ---------------------------------------------------------- *)
  Definition Fld : Type := ((Z -> Z -> Z -> F) * (Z -> Z -> Z -> F) * (Z -> Z -> Z -> F))%type.
  Definition wb_step (bv : Z -> F) (ix : Z) (st : Fld) : Fld :=
    gauss_seidel_x_L5 sx sy sz eta_x eta_y eta_z zeta hx hy hz nu lhx nx lhy ny lhz nz
      (kof hx) (kof hy) (kof hz) 0 (fill1 0%F) (fill1 0%F) 0 bv (fill1 0%F) 0 0 iz (iz-1) (iz+1)
      0 iy (iy-1) (iy+1) ix st.
  Definition gsx_wb (bv : Z -> F) : Fld := Zfold 1 (nx + 1) (fun ix st => wb_step bv ix st) (ex, ey, ez).

  Lemma L5_as_wb iback m l nr bv am it izh iyh ix st :
    gauss_seidel_x_L5 sx sy sz eta_x eta_y eta_z zeta hx hy hz nu lhx nx lhy ny lhz nz
      (kof hx) (kof hy) (kof hz) iback m l nr bv am it izh iz (iz-1) (iz+1) iyh iy (iy-1) (iy+1) ix st
    = wb_step bv ix st.
  Proof. reflexivity. Qed.

  Definition St7 : Type := ((Z -> F) * (Z -> F) * (Z -> F) * (Z -> F) *
        (Z -> Z -> Z -> F) * (Z -> Z -> Z -> F) * (Z -> Z -> Z -> F))%type.
  Definition flds (st : St7) : Fld := (snd (fst (fst st)), snd (fst st), snd st).

  (* one (iy, iz) step of the kernel = assemble the line system, solve, write back *)
  Lemma gsx_L3_step iback nr it izh iyh (st7 : St7) :
    node iback ny iyh = iy -> flds st7 = (ex, ey, ez) ->
    flds (gauss_seidel_x_L3 sx sy sz eta_x eta_y eta_z zeta hx hy hz nu lhx nx lhy ny lhz nz
            (kof hx) (kof hy) (kof hz) iback nr it izh iz (iz-1) (iz+1) iyh st7)
    = gsx_wb (snd (solve nr (fst gsx_sys) (snd gsx_sys))).
  Proof.
    intros Hn Hf. unfold flds in Hf.
    assert (Hx : snd (fst (fst st7)) = ex) by congruence.
    assert (Hy : snd (fst st7) = ey) by congruence.
    assert (Hz : snd st7 = ez) by congruence.
    cbv delta [gauss_seidel_x_L3 flds]. cbv beta. cbv zeta. cbn [fst snd].
    change (if negb (iback =? 0) then ny - iyh else iyh) with (node iback ny iyh).
    rewrite Hn, Hx, Hy, Hz.
    rewrite (Zfold_ext 1 (nx + 1) _ (fun ixh st => gsx_L4 (ixh - 1) st))
      by (intros i s _; apply L4_as_blk).
    fold gsx_loop.
    match goal with |- (fst (fst ?W), snd (fst ?W), snd ?W) = _ =>
      transitivity W; [now destruct W as [[? ?] ?]|] end.
    unfold gsx_wb, gsx_sys. cbn [fst snd]. reflexivity.
  Qed.
  (* the write-back loop produces exactly the field e[bv] *)
  Definition lxT (hi : Z) (x : Z -> F) : Z -> Z -> Z -> F := fun i j k =>
    if (j =? iy) && (k =? iz) && (0 <=? i) && (i <? hi) then x (5*i) else ex i j k.
  Definition lyT (hi : Z) (x : Z -> F) : Z -> Z -> Z -> F := fun i j k =>
    if (k =? iz) && (1 <=? i) && (i <? hi) then
      (if j =? iy - 1 then x (5*(i-1)+1) else if j =? iy then x (5*(i-1)+2) else ey i j k)
    else ey i j k.
  Definition lzT (hi : Z) (x : Z -> F) : Z -> Z -> Z -> F := fun i j k =>
    if (j =? iy) && (1 <=? i) && (i <? hi) then
      (if k =? iz - 1 then x (5*(i-1)+3) else if k =? iz then x (5*(i-1)+4) else ez i j k)
    else ez i j k.

  Ltac bdestr :=
    repeat match goal with
    | |- context [Z.eqb ?a ?b] => destruct (Z.eqb_spec a b)
    | |- context [Z.leb ?a ?b] => destruct (Z.leb_spec a b)
    | |- context [Z.ltb ?a ?b] => destruct (Z.ltb_spec a b)
    end.

  Lemma wb_step_inv bv t (w : Fld) : 1 <= t <= nx ->
    (forall i j k, fst (fst w) i j k = lxT (t-1) bv i j k /\
                   snd (fst w) i j k = lyT (Z.min t nx) bv i j k /\
                   snd w i j k = lzT (Z.min t nx) bv i j k) ->
    (forall i j k, fst (fst (wb_step bv t w)) i j k = lxT (t+1-1) bv i j k /\
                   snd (fst (wb_step bv t w)) i j k = lyT (Z.min (t+1) nx) bv i j k /\
                   snd (wb_step bv t w) i j k = lzT (Z.min (t+1) nx) bv i j k).
  Proof.
    intros Ht H i j k. destruct (H i j k) as (Hx & Hy & Hz).
    destruct w as [[fx fy] fz]. cbn [fst snd] in *.
    cbv delta [wb_step gauss_seidel_x_L5]. cbv beta. cbv zeta. cbn [fst snd].
    destruct (Z.ltb_spec (t - 1) (nx - 1)) as [Hlt|Hge]; cbn [fst snd].
    - replace (Z.min (t+1) nx) with (t+1) by lia. replace (Z.min t nx) with t in * by lia.
      repeat split.
      + unfold upd3. rewrite Hx. unfold lxT.
        bdestr; cbn [andb]; try reflexivity; try lia; f_equal; lia.
      + unfold upd3. rewrite Hy. unfold lyT.
        bdestr; cbn [andb]; try reflexivity; try lia; f_equal; lia.
      + unfold upd3. rewrite Hz. unfold lzT.
        bdestr; cbn [andb]; try reflexivity; try lia; f_equal; lia.
    - assert (t = nx) by lia. subst t.
      replace (Z.min (nx+1) nx) with nx by lia. replace (Z.min nx nx) with nx in * by lia.
      repeat split; [|assumption|assumption].
      unfold upd3. rewrite Hx. unfold lxT.
      bdestr; cbn [andb]; try reflexivity; try lia; f_equal; lia.
  Qed.

  Theorem gsx_wb_spec bv : 1 <= nx ->
    forall i j k, fst (fst (gsx_wb bv)) i j k = lx bv i j k /\
                  snd (fst (gsx_wb bv)) i j k = ly bv i j k /\
                  snd (gsx_wb bv) i j k = lz bv i j k.
  Proof.
    intros Hnx. unfold gsx_wb.
    assert (G : forall i j k,
      fst (fst (Zfold 1 (nx+1) (fun ix st => wb_step bv ix st) (ex, ey, ez))) i j k
        = lxT (nx+1-1) bv i j k /\
      snd (fst (Zfold 1 (nx+1) (fun ix st => wb_step bv ix st) (ex, ey, ez))) i j k
        = lyT (Z.min (nx+1) nx) bv i j k /\
      snd (Zfold 1 (nx+1) (fun ix st => wb_step bv ix st) (ex, ey, ez)) i j k
        = lzT (Z.min (nx+1) nx) bv i j k).
    { apply (Zfold_ind (fun t w => forall i j k,
               fst (fst w) i j k = lxT (t-1) bv i j k /\
               snd (fst w) i j k = lyT (Z.min t nx) bv i j k /\
               snd w i j k = lzT (Z.min t nx) bv i j k)); [lia| |].
      - intros i j k. cbn [fst snd]. unfold lxT, lyT, lzT.
        replace (Z.min 1 nx) with 1 by lia.
        repeat split; bdestr; cbn [andb]; try reflexivity; lia.
      - intros t w Ht Hw. apply wb_step_inv; [lia|exact Hw]. }
    replace (nx+1-1) with nx in G by lia. replace (Z.min (nx+1) nx) with nx in G by lia.
    exact G.
  Qed.
  (* ---- corollaries with the banded solver --------------------------------- *)
  Definition gsx_sol : Z -> F := snd (solve (5*nx-4) (fst gsx_sys) (snd gsx_sys)).
  (* the field after the line step (pointwise e[gsx_sol], see gsx_wb_spec) *)
  Definition gsx_out : Fld := gsx_wb gsx_sol.

  Definition PivX : Prop := forall j, 0 <= j < 5*nx-4 -> pivot (5*nx-4) (fst gsx_sys) j <> 0%F.

  (* after the line step all equations of the line hold *)
  Theorem gsx_line_exact : 2 <= nx -> 1 <= iy -> 1 <= iz -> PECx -> PivX ->
    forall i, 0 <= i < 5*nx-4 -> line_res gsx_sol (i / 5) (i mod 5) = 0%F.
  Proof.
    intros Hnx Hy Hz Hpec Hpiv i Hi.
    rewrite <- (gsx_line_consistent Hnx Hy Hz Hpec gsx_sol i Hi).
    apply (Fsub_zero Fth). unfold gsx_sol.
    apply (solve_correct Fth (5*nx-4) (fst gsx_sys) (snd gsx_sys) ltac:(lia) Hpiv i Hi).
  Qed.

  (* the current values of the line's unknowns *)
  Definition cur_line : Z -> F := fun i =>
    let a := i / 5 in let r := i mod 5 in
    if r =? 0 then ex a iy iz else if r =? 1 then ey (a+1) (iy-1) iz
    else if r =? 2 then ey (a+1) iy iz else if r =? 3 then ez (a+1) iy (iz-1)
    else ez (a+1) iy iz.

  Lemma divmod5 a r : 0 <= r < 5 -> (5*a+r) / 5 = a /\ (5*a+r) mod 5 = r.
  Proof.
    intros Hr. split.
    - symmetry. apply (Z.div_unique (5*a+r) 5 a r); lia.
    - symmetry. apply (Z.mod_unique (5*a+r) 5 a r); lia.
  Qed.

  Lemma cur_at a r : 0 <= r < 5 ->
    cur_line (5*a+r) = if r =? 0 then ex a iy iz else if r =? 1 then ey (a+1) (iy-1) iz
    else if r =? 2 then ey (a+1) iy iz else if r =? 3 then ez (a+1) iy (iz-1)
    else ez (a+1) iy iz.
  Proof. intros Hr. unfold cur_line. cbv zeta. destruct (divmod5 a r Hr) as [-> ->]. reflexivity. Qed.

  Lemma lx_cur i j k : lx cur_line i j k = ex i j k.
  Proof.
    unfold lx. bdestr; cbn [andb]; try reflexivity. subst.
    replace (5*i) with (5*i+0) by lia. now rewrite cur_at by lia.
  Qed.
  Lemma ly_cur i j k : ly cur_line i j k = ey i j k.
  Proof.
    unfold ly. bdestr; cbn [andb]; try reflexivity; subst; rewrite cur_at by lia; cbn [Z.eqb Pos.eqb];
      f_equal; lia.
  Qed.
  Lemma lz_cur i j k : lz cur_line i j k = ez i j k.
  Proof.
    unfold lz. bdestr; cbn [andb]; try reflexivity; subst; rewrite cur_at by lia; cbn [Z.eqb Pos.eqb];
      f_equal; lia.
  Qed.

  (* extensionality of the residual in the three field arrays *)
  Definition fld_res (fx fy fz : Z -> Z -> Z -> F) (a r : Z) : F :=
    if r =? 0 then Fsub (A_x fx fy fz eta_x zeta hx hy hz a iy iz) (sx a iy iz)
    else if r =? 1 then Fsub (A_y fx fy fz eta_y zeta hx hy hz (a+1) (iy-1) iz) (sy (a+1) (iy-1) iz)
    else if r =? 2 then Fsub (A_y fx fy fz eta_y zeta hx hy hz (a+1) iy iz) (sy (a+1) iy iz)
    else if r =? 3 then Fsub (A_z fx fy fz eta_z zeta hx hy hz (a+1) iy (iz-1)) (sz (a+1) iy (iz-1))
    else Fsub (A_z fx fy fz eta_z zeta hx hy hz (a+1) iy iz) (sz (a+1) iy iz).

  Lemma fld_res_ext (fx fy fz gx gy gz : Z -> Z -> Z -> F) a r :
    (forall i j k, fx i j k = gx i j k) -> (forall i j k, fy i j k = gy i j k) ->
    (forall i j k, fz i j k = gz i j k) -> fld_res fx fy fz a r = fld_res gx gy gz a r.
  Proof.
    intros Hx Hy Hz. unfold fld_res.
    unfold A_x, A_y, A_z, curlT_x, curlT_y, curlT_z, u_x, u_y, u_z, curl_x, curl_y, curl_z.
    rewrite ?Hx, ?Hy, ?Hz. reflexivity.
  Qed.

  Lemma line_res_fld x a r : line_res x a r = fld_res (lx x) (ly x) (lz x) a r.
  Proof. reflexivity. Qed.

  (* the same, stated on the field the step returns *)
  Theorem gsx_line_exact_out : 2 <= nx -> 1 <= iy -> 1 <= iz -> PECx -> PivX ->
    forall i, 0 <= i < 5*nx-4 ->
      fld_res (fst (fst gsx_out)) (snd (fst gsx_out)) (snd gsx_out) (i / 5) (i mod 5) = 0%F.
  Proof.
    intros Hnx Hy Hz Hpec Hpiv i Hi.
    rewrite (fld_res_ext _ _ _ (lx gsx_sol) (ly gsx_sol) (lz gsx_sol)).
    - rewrite <- line_res_fld. now apply gsx_line_exact.
    - intros a b c. apply (gsx_wb_spec gsx_sol ltac:(lia) a b c).
    - intros a b c. apply (gsx_wb_spec gsx_sol ltac:(lia) a b c).
    - intros a b c. apply (gsx_wb_spec gsx_sol ltac:(lia) a b c).
  Qed.

  (* a field whose line equations hold is left unchanged by the line step *)
  Theorem gsx_line_fixed_point : 2 <= nx -> 1 <= iy -> 1 <= iz -> PECx -> PivX ->
    (forall i, 0 <= i < 5*nx-4 -> fld_res ex ey ez (i / 5) (i mod 5) = 0%F) ->
    (forall i, 0 <= i < 5*nx-4 -> gsx_sol i = cur_line i) /\
    (forall i j k, fst (fst gsx_out) i j k = ex i j k /\ snd (fst gsx_out) i j k = ey i j k /\
                   snd gsx_out i j k = ez i j k).
  Proof.
    intros Hnx Hy Hz Hpec Hpiv Hres.
    assert (FP : forall i, 0 <= i < 5*nx-4 -> gsx_sol i = cur_line i).
    { unfold gsx_sol.
      apply (solve_unique Fth (5*nx-4) (fst gsx_sys) (snd gsx_sys) ltac:(lia) Hpiv cur_line).
      intros i Hi. apply (Fsub_zero Fth).
      rewrite (gsx_line_consistent Hnx Hy Hz Hpec cur_line i Hi), line_res_fld.
      rewrite (fld_res_ext _ _ _ ex ey ez _ _ lx_cur ly_cur lz_cur). now apply Hres. }
    split; [exact FP|].
    intros i j k. unfold gsx_out.
    destruct (gsx_wb_spec gsx_sol ltac:(lia) i j k) as (Ex & Ey & Ez).
    rewrite Ex, Ey, Ez. rewrite <- (lx_cur i j k), <- (ly_cur i j k), <- (lz_cur i j k).
    unfold lx, ly, lz.
    repeat split; bdestr; cbn [andb]; try reflexivity; apply FP; lia.
  Qed.

  (* frame: the line step writes the line's interior edges and nothing else, for
     ANY solution vector; in particular never a tangential boundary edge *)
  Theorem gsx_line_frame bv : 1 <= nx -> forall i j k,
    (fst (fst (gsx_wb bv)) i j k = ex i j k \/ (j = iy /\ k = iz /\ 0 <= i < nx)) /\
    (snd (fst (gsx_wb bv)) i j k = ey i j k \/ (k = iz /\ 1 <= i < nx /\ (j = iy - 1 \/ j = iy))) /\
    (snd (gsx_wb bv) i j k = ez i j k \/ (j = iy /\ 1 <= i < nx /\ (k = iz - 1 \/ k = iz))).
  Proof.
    intros Hnx i j k. destruct (gsx_wb_spec bv Hnx i j k) as (Ex & Ey & Ez).
    rewrite Ex, Ey, Ez. unfold lx, ly, lz.
    repeat split; bdestr; cbn [andb]; try (left; reflexivity); right; lia.
  Qed.
End GSLineX.

(* ------------------------------------------------------------------ *)
(* the matrix of the line system does not depend on the field          *)
Lemma Zfold_rel {S1 S2} (R : S1 -> S2 -> Prop) lo hi (f : Z -> S1 -> S1) (g : Z -> S2 -> S2) s1 s2 :
  lo <= hi -> R s1 s2 ->
  (forall i a b, lo <= i < hi -> R a b -> R (f i a) (g i b)) ->
  R (Zfold lo hi f s1) (Zfold lo hi g s2).
Proof.
  intros Hle H0 Hs.
  apply (Zfold_ind (fun t s => R s (Zfold lo t g s2)) lo hi f s1 Hle).
  - now rewrite Zfold_empty by lia.
  - intros i s Hi Hr. rewrite Zfold_snoc by lia. now apply Hs.
Qed.

Section MatrixIndep.
  Context {F : Type} {O : FOps F}.
  Variables (fx fy fz gx gy gz sx sy sz eta_x eta_y eta_z zeta : Z -> Z -> Z -> F).
  Variables (hx hy hz : Z -> F).
  Variables (nu lhx nx lhy ny lhz nz iy iz : Z).

  Definition R3 (s1 s2 : @St4 F) : Prop :=
    fst (fst (fst s1)) = fst (fst (fst s2)) /\ snd (fst (fst s1)) = snd (fst (fst s2)) /\
    snd (fst s1) = snd (fst s2).

  Lemma gsx_L4_indep a s1 s2 : 2 <= nx -> 0 <= a < nx -> R3 s1 s2 ->
    R3 (gsx_L4 fx fy fz sx sy sz eta_x eta_y eta_z zeta hx hy hz nu lhx nx lhy ny lhz nz iy iz a s1)
       (gsx_L4 gx gy gz sx sy sz eta_x eta_y eta_z zeta hx hy hz nu lhx nx lhy ny lhz nz iy iz a s2).
  Proof.
    intros Hnx Ha (E1 & E2 & E3).
    destruct s1 as [[[m1 l1] A1] b1], s2 as [[[m2 l2] A2] b2]. cbn [fst snd] in E1, E2, E3. subst m2 l2 A2.
    rewrite !gsx_L4_step. cbv zeta.
    destruct (gsx_blk_AB fx fy fz sx sy sz eta_x eta_y eta_z zeta hx hy hz nu lhx nx lhy ny lhz nz
                iy iz a (m1, l1, A1, b1)) as [EA1 EB1].
    destruct (gsx_blk_AB gx gy gz sx sy sz eta_x eta_y eta_z zeta hx hy hz nu lhx nx lhy ny lhz nz
                iy iz a (m1, l1, A1, b2)) as [EA2 EB2].
    rewrite EA1, EA2. cbn [fst snd] in *.
    assert (EM : blkM (gsx_blk fx fy fz sx sy sz eta_x eta_y eta_z zeta hx hy hz nu lhx nx lhy ny lhz nz
                         iy iz a (m1, l1, A1, b1))
               = blkM (gsx_blk gx gy gz sx sy sz eta_x eta_y eta_z zeta hx hy hz nu lhx nx lhy ny lhz nz
                         iy iz a (m1, l1, A1, b2))).
    { cbv delta [gsx_blk gauss_seidel_x_L4_call1 blkM]. cbv beta. reflexivity. }
    assert (EL : blkL (gsx_blk fx fy fz sx sy sz eta_x eta_y eta_z zeta hx hy hz nu lhx nx lhy ny lhz nz
                         iy iz a (m1, l1, A1, b1))
               = blkL (gsx_blk gx gy gz sx sy sz eta_x eta_y eta_z zeta hx hy hz nu lhx nx lhy ny lhz nz
                         iy iz a (m1, l1, A1, b2))).
    { cbv delta [gsx_blk gauss_seidel_x_L4_call1 blkL]. cbv beta. reflexivity. }
    rewrite <- EM, <- EL.
    set (M' := blkM _). set (L' := blkL _). clearbody M' L'.
    replace (a + 1 - 1) with a by lia.
    unfold R3. cbn [fst snd]. repeat split.
    destruct (Z.eq_dec a 0) as [E0|N0].
    - subst a. rewrite !blocks_to_amat_first. reflexivity.
    - destruct (Z.eq_dec a (nx - 1)) as [E1|N1].
      + rewrite !blocks_to_amat_last by lia. reflexivity.
      + rewrite !blocks_to_amat_normal by lia. reflexivity.
  Qed.

  Lemma gsx_matrix_indep : 2 <= nx ->
    fst (gsx_sys fx fy fz sx sy sz eta_x eta_y eta_z zeta hx hy hz nu lhx nx lhy ny lhz nz iy iz)
    = fst (gsx_sys gx gy gz sx sy sz eta_x eta_y eta_z zeta hx hy hz nu lhx nx lhy ny lhz nz iy iz).
  Proof.
    intros Hnx. unfold gsx_sys, gsx_loop. cbn [fst].
    assert (G : R3 (Zfold 1 (nx + 1) (fun ixh st =>
                      gsx_L4 fx fy fz sx sy sz eta_x eta_y eta_z zeta hx hy hz nu lhx nx lhy ny lhz nz
                        iy iz (ixh - 1) st) st0)
                   (Zfold 1 (nx + 1) (fun ixh st =>
                      gsx_L4 gx gy gz sx sy sz eta_x eta_y eta_z zeta hx hy hz nu lhx nx lhy ny lhz nz
                        iy iz (ixh - 1) st) st0)).
    { apply Zfold_rel; [lia|repeat split|].
      intros i a b Hi Hr. apply gsx_L4_indep; [exact Hnx|lia|exact Hr]. }
    exact (proj2 (proj2 G)).
  Qed.
End MatrixIndep.

(* ------------------------------------------------------------------ *)
(* lifting through the loops over iyh, izh and the nu sweeps            *)
Section GSXSweep.
  Context {F : Type} {O : FOps F}.
  Variables (sx sy sz eta_x eta_y eta_z zeta : Z -> Z -> Z -> F).
  Variables (hx hy hz : Z -> F).
  Variables (nu nx ny nz : Z).

  Notation L3 := (gauss_seidel_x_L3 sx sy sz eta_x eta_y eta_z zeta hx hy hz nu nx nx ny ny nz nz
                    (kof hx) (kof hy) (kof hz)).
  Notation L2 := (gauss_seidel_x_L2 sx sy sz eta_x eta_y eta_z zeta hx hy hz nu nx nx ny ny nz nz
                    (kof hx) (kof hy) (kof hz)).
  Notation L1 := (gauss_seidel_x_L1 sx sy sz eta_x eta_y eta_z zeta hx hy hz nu nx nx ny ny nz nz
                    (kof hx) (kof hy) (kof hz)).

  (* one line step on a field: assemble, solve, write back *)
  Definition linestep (iy iz : Z) (f : @Fld F) : Fld :=
    gsx_out (fst (fst f)) (snd (fst f)) (snd f) sx sy sz eta_x eta_y eta_z zeta hx hy hz
      nu nx nx ny ny nz nz iy iz.

  Lemma node_range iback n ih : (iback = 0 \/ iback = 1) -> 1 <= ih < n -> 1 <= node iback n ih < n.
  Proof. intros [->| ->] H; unfold node; cbn [Z.eqb negb]; lia. Qed.

  Definition St8 : Type := (Z * (Z -> F) * (Z -> F) * (Z -> F) * (Z -> F) *
        (Z -> Z -> Z -> F) * (Z -> Z -> Z -> F) * (Z -> Z -> Z -> F))%type.
  Definition flds8 (st : St8) : Fld := (snd (fst (fst st)), snd (fst st), snd st).
  Definition iback8 (st : St8) : Z := fst (fst (fst (fst (fst (fst (fst st)))))).

  Section Invariant.
    Variable Inv : @Fld F -> Prop.
    Hypothesis Inv_step : forall iy iz f, 1 <= iy < ny -> 1 <= iz < nz -> Inv f -> Inv (linestep iy iz f).

    Lemma L3x_inv iback it izh iz iyh (st : St7) :
      (iback = 0 \/ iback = 1) -> 1 <= iz < nz -> 1 <= iyh < ny -> Inv (flds st) ->
      Inv (flds (L3 iback (5*nx-4) it izh iz (iz-1) (iz+1) iyh st)).
    Proof.
      intros Hb Hz Hy G.
      rewrite (gsx_L3_step (snd (fst (fst st))) (snd (fst st)) (snd st) sx sy sz eta_x eta_y eta_z zeta
                 hx hy hz nu nx nx ny ny nz nz (node iback ny iyh) iz iback (5*nx-4) it izh iyh st
                 eq_refl eq_refl).
      apply (Inv_step (node iback ny iyh) iz (flds st)); [apply node_range; assumption|assumption|exact G].
    Qed.

    Lemma L2x_inv iback it izh (st : St7) :
      (iback = 0 \/ iback = 1) -> 1 <= izh < nz -> Inv (flds st) ->
      Inv (flds (L2 iback (5*nx-4) it izh st)).
    Proof.
      intros Hb Hz G.
      cbv delta [gauss_seidel_x_L2]. cbv beta. cbv zeta.
      match goal with
      | |- Inv (flds (_, _, _, _, snd (fst (fst ?t)), snd (fst ?t), snd ?t)) => change (Inv (flds t))
      end.
      pose proof (node_range iback nz izh Hb Hz) as Hzz.
      destruct (Z_le_gt_dec 1 ny) as [Hn|Hn].
      - apply (Zfold_ind (fun _ s => Inv (flds s))); [assumption|exact G|].
        intros j s Hj Gs.
        change (Inv (flds (L3 iback (5*nx-4) it izh (node iback nz izh) (node iback nz izh - 1)
                             (node iback nz izh + 1) j s))).
        apply L3x_inv; assumption.
      - rewrite Zfold_empty by lia. exact G.
    Qed.

    Definition Inv8 (st : St8) : Prop := (iback8 st = 0 \/ iback8 st = 1) /\ Inv (flds8 st).

    Lemma L1x_inv it (st : St8) : Inv8 st -> Inv8 (L1 (5*nx-4) it st).
    Proof.
      intros [Hb G]. unfold iback8 in Hb.
      cbv delta [gauss_seidel_x_L1]. cbv beta. cbv zeta.
      set (ib := 1 - fst (fst (fst (fst (fst (fst (fst st))))))).
      assert (Hib : ib = 0 \/ ib = 1) by (unfold ib; lia).
      split; [exact Hib|].
      match goal with
      | |- Inv (flds8 (_, _, _, _, _, snd (fst (fst ?t)), snd (fst ?t), snd ?t)) => change (Inv (flds t))
      end.
      destruct (Z_le_gt_dec 1 nz) as [Hn|Hn].
      - apply (Zfold_ind (fun _ s => Inv (flds s))); [assumption|exact G|].
        intros k s Hk Gs. apply L2x_inv; assumption.
      - rewrite Zfold_empty by lia. exact G.
    Qed.

    Lemma sweepsx_inv (s0 : St8) : Inv8 s0 -> Inv8 (Zfold 0 nu (fun it st => L1 (5*nx-4) it st) s0).
    Proof.
      intros G. destruct (Z_le_gt_dec 0 nu) as [Hn|Hn].
      - apply (Zfold_ind (fun _ s => Inv8 s)); [assumption|exact G|].
        intros it s _ Gs. now apply L1x_inv.
      - now rewrite Zfold_empty by lia.
    Qed.
  End Invariant.
End GSXSweep.

(* ------------------------------------------------------------------ *)
(* the whole kernel, every number of sweeps nu, every shape             *)
Section GSXWhole.
  Context {F : Type} {O : FOps F}.
  Hypothesis Fth : field_theory F0 F1 Fadd Fmul Fsub Fopp Fdiv Finv (@eq F).
  Hypothesis two_nz : (1 + 1)%F <> 0%F.
  Variables (ex ey ez sx sy sz eta_x eta_y eta_z zeta : Z -> Z -> Z -> F).
  Variables (hx hy hz : Z -> F).
  Hypothesis hx_nz : forall i, hx i <> 0%F.
  Hypothesis hy_nz : forall i, hy i <> 0%F.
  Hypothesis hz_nz : forall i, hz i <> 0%F.
  Variables (nu nx ny nz : Z).

  Definition Good (f : @Fld F) : Prop :=
    (forall i j l, fst (fst f) i j l = ex i j l) /\
    (forall i j l, snd (fst f) i j l = ey i j l) /\
    (forall i j l, snd f i j l = ez i j l).

  Section FixedPoint.
    Hypothesis Hnx : 2 <= nx.
    (* the field solves every equation of every interior line *)
    Hypothesis exact : forall iy iz, 1 <= iy < ny -> 1 <= iz < nz -> forall i, 0 <= i < 5*nx-4 ->
      fld_res sx sy sz eta_x eta_y eta_z zeta hx hy hz iy iz ex ey ez (i / 5) (i mod 5) = 0%F.
    (* PEC at the two x-ends of every interior line *)
    Hypothesis pec : forall iy iz, 1 <= iy < ny -> 1 <= iz < nz -> PECx ey ez nx iy iz.
    Hypothesis pivots : forall iy iz, 1 <= iy < ny -> 1 <= iz < nz ->
      PivX ex ey ez sx sy sz eta_x eta_y eta_z zeta hx hy hz nu nx nx ny ny nz nz iy iz.

    Lemma Good_step iy iz f : 1 <= iy < ny -> 1 <= iz < nz -> Good f ->
      Good (linestep sx sy sz eta_x eta_y eta_z zeta hx hy hz nu nx ny nz iy iz f).
    Proof.
      intros Hy Hz (Gx & Gy & Gz). destruct f as [[fx fy] fz]. cbn [fst snd] in Gx, Gy, Gz.
      unfold linestep. cbn [fst snd].
      assert (PECf : PECx fy fz nx iy iz).
      { unfold PECx. rewrite !Gy, !Gz. exact (pec iy iz Hy Hz). }
      assert (PIVf : PivX fx fy fz sx sy sz eta_x eta_y eta_z zeta hx hy hz nu nx nx ny ny nz nz iy iz).
      { unfold PivX.
        rewrite (gsx_matrix_indep fx fy fz ex ey ez sx sy sz eta_x eta_y eta_z zeta hx hy hz
                   nu nx nx ny ny nz nz iy iz Hnx).
        exact (pivots iy iz Hy Hz). }
      assert (RESf : forall i, 0 <= i < 5*nx-4 ->
                fld_res sx sy sz eta_x eta_y eta_z zeta hx hy hz iy iz fx fy fz (i / 5) (i mod 5) = 0%F).
      { intros i Hi.
        rewrite (fld_res_ext sx sy sz eta_x eta_y eta_z zeta hx hy hz iy iz fx fy fz ex ey ez _ _ Gx Gy Gz).
        exact (exact iy iz Hy Hz i Hi). }
      destruct (gsx_line_fixed_point Fth two_nz fx fy fz sx sy sz eta_x eta_y eta_z zeta hx hy hz
                  hx_nz hy_nz hz_nz nu nx nx ny ny nz nz iy iz Hnx ltac:(lia) ltac:(lia) PECf PIVf RESf)
        as [_ Hout].
      unfold Good. repeat split; intros i j l; destruct (Hout i j l) as (Ex & Ey & Ez).
      - rewrite Ex. apply Gx.
      - rewrite Ey. apply Gy.
      - rewrite Ez. apply Gz.
    Qed.

    (* a field that solves the system on every interior line (with PEC at the
       x-ends) is returned unchanged, pointwise, for every nu *)
    Theorem gauss_seidel_x_fixed_point :
      let r := gauss_seidel_x nx ny nz ex ey ez sx sy sz eta_x eta_y eta_z zeta hx hy hz nu in
      forall i j l, fst (fst r) i j l = ex i j l /\ snd (fst r) i j l = ey i j l /\ snd r i j l = ez i j l.
    Proof.
      cbv zeta. cbv delta [gauss_seidel_x]. cbv beta. cbv zeta. cbn [fst snd].
      set (t := Zfold 0 nu _ _).
      assert (G : Inv8 Good t).
      { subst t.
        apply (sweepsx_inv sx sy sz eta_x eta_y eta_z zeta hx hy hz nu nx ny nz Good).
        - intros iy iz f Hy Hz Gf. now apply Good_step.
        - split; [left; reflexivity|]. repeat split; reflexivity. }
      destruct G as [_ (Gx & Gy & Gz)]. cbn [flds8 fst snd] in Gx, Gy, Gz.
      intros i j l. repeat split; [apply Gx|apply Gy|apply Gz].
    Qed.
  End FixedPoint.

  (* frame: only interior edges of interior lines are ever written *)
  Definition FrameX (f : @Fld F) : Prop :=
    (forall i j l, (i < 0 \/ nx <= i \/ j <= 0 \/ ny <= j \/ l <= 0 \/ nz <= l) ->
       fst (fst f) i j l = ex i j l) /\
    (forall i j l, (i <= 0 \/ nx <= i \/ j < 0 \/ ny <= j \/ l <= 0 \/ nz <= l) ->
       snd (fst f) i j l = ey i j l) /\
    (forall i j l, (i <= 0 \/ nx <= i \/ j <= 0 \/ ny <= j \/ l < 0 \/ nz <= l) ->
       snd f i j l = ez i j l).

  Lemma FrameX_step iy iz f : 1 <= iy < ny -> 1 <= iz < nz -> FrameX f ->
    FrameX (linestep sx sy sz eta_x eta_y eta_z zeta hx hy hz nu nx ny nz iy iz f).
  Proof.
    intros Hy Hz (Gx & Gy & Gz). destruct f as [[fx fy] fz]. cbn [fst snd] in Gx, Gy, Gz.
    unfold linestep, gsx_out. cbn [fst snd].
    destruct (Z_le_gt_dec 1 nx) as [Hn|Hn].
    - set (bv := gsx_sol _ _ _ _ _ _ _ _ _ _ _ _ _ _ _ _ _ _ _ _ _ _). clearbody bv.
      pose proof (gsx_line_frame fx fy fz sx sy sz eta_x eta_y eta_z zeta hx hy hz nu nx nx ny ny nz nz
                    iy iz bv Hn) as Hfr.
      unfold FrameX. repeat split; intros i j l Hb; destruct (Hfr i j l) as (Ex & Ey & Ez).
      + destruct Ex as [Ex|Ex]; [rewrite Ex; now apply Gx|lia].
      + destruct Ey as [Ey|Ey]; [rewrite Ey; now apply Gy|lia].
      + destruct Ez as [Ez|Ez]; [rewrite Ez; now apply Gz|lia].
    - unfold gsx_wb. rewrite Zfold_empty by lia. cbn [fst snd]. repeat split; assumption.
  Qed.

  Theorem gauss_seidel_x_frame :
    let r := gauss_seidel_x nx ny nz ex ey ez sx sy sz eta_x eta_y eta_z zeta hx hy hz nu in
    (forall i j l, (i < 0 \/ nx <= i \/ j <= 0 \/ ny <= j \/ l <= 0 \/ nz <= l) ->
       fst (fst r) i j l = ex i j l) /\
    (forall i j l, (i <= 0 \/ nx <= i \/ j < 0 \/ ny <= j \/ l <= 0 \/ nz <= l) ->
       snd (fst r) i j l = ey i j l) /\
    (forall i j l, (i <= 0 \/ nx <= i \/ j <= 0 \/ ny <= j \/ l < 0 \/ nz <= l) ->
       snd r i j l = ez i j l).
  Proof.
    cbv zeta. cbv delta [gauss_seidel_x]. cbv beta. cbv zeta. cbn [fst snd].
    set (t := Zfold 0 nu _ _).
    assert (G : Inv8 FrameX t).
    { subst t.
      apply (sweepsx_inv sx sy sz eta_x eta_y eta_z zeta hx hy hz nu nx ny nz FrameX).
      - intros iy iz f Hy Hz Gf. now apply FrameX_step.
      - split; [left; reflexivity|]. repeat split; intros; reflexivity. }
    destruct G as [_ G]. exact G.
  Qed.
End GSXWhole.

(* ------------------------------------------------------------------ *)
(* Non-vacuity: on a concrete 3 x 2 x 2 grid over Q (stretched cells, varying
   zeta and eta, a field with non-zero interior values that is zero on the
   tangential x-boundaries, source s := A e) the hypotheses of the line
   theorems -- pivots, PEC, exactness -- hold for the line (iy,iz) = (1,1);
   n = 5*3-4 = 11 unknowns. *)
From Coq Require Import QArith.
From V Require Import Base.ExecQ.
Local Open Scope Z_scope.
Definition xh (i : Z) : Q := qz (2 + Z.abs i) 2.
Definition xzeta (i j k : Z) : Q := qz (1 + Z.abs i + 2 * Z.abs j + 3 * Z.abs k) 3.
Definition xeta (i j k : Z) : Q := qz (- (2 + Z.abs i + Z.abs j * Z.abs k)) 5.
Definition xex (i j k : Z) : Q := qz (1 + i - 2 * j + 3 * k) 2.
Definition xey (i j k : Z) : Q := if (i =? 0) || (i =? 3) then 0%F else qz (2 - i + j + k) 3.
Definition xez (i j k : Z) : Q := if (i =? 0) || (i =? 3) then 0%F else qz (1 + 2 * i - j + k) 4.
Definition xsx : Z -> Z -> Z -> Q := A_x xex xey xez xeta xzeta xh xh xh.
Definition xsy : Z -> Z -> Z -> Q := A_y xex xey xez xeta xzeta xh xh xh.
Definition xsz : Z -> Z -> Z -> Q := A_z xex xey xez xeta xzeta xh xh xh.

Example gsx_hyps_example :
  PivX xex xey xez xsx xsy xsz xeta xeta xeta xzeta xh xh xh 1 3 3 2 2 2 2 1 1 /\
  PECx xey xez 3 1 1 /\
  (forall i, 0 <= i < 11 ->
     fld_res xsx xsy xsz xeta xeta xeta xzeta xh xh xh 1 1 xex xey xez (i / 5) (i mod 5) = 0%F) /\
  xex 1 1 1 <> 0%F /\ xey 1 1 1 <> 0%F /\ xez 2 1 1 <> 0%F.
Proof.
  split; [|split; [|split; [|repeat split]]].
  - unfold PivX. change (5 * 3 - 4) with 11.
    by_nz qzero 11 (ldl 11 (fst (gsx_sys xex xey xez xsx xsy xsz xeta xeta xeta xzeta xh xh xh
                                   1 3 3 2 2 2 2 1 1))).
  - unfold PECx. repeat split; vm_compute; reflexivity.
  - by_dump 11 (fun i => fld_res xsx xsy xsz xeta xeta xeta xzeta xh xh xh 1 1 xex xey xez
                           (i / 5) (i mod 5)) (fun _ : Z => 0%F).
  - vm_compute; discriminate.
  - vm_compute; discriminate.
  - vm_compute; discriminate.
Qed.

Print Assumptions blocks_to_amat_first.
Print Assumptions blocks_to_amat_normal.
Print Assumptions blocks_to_amat_last.
Print Assumptions gsx_system_layout.
Print Assumptions gsx_sys_is_call1.
Print Assumptions gsx_row_consistent.
Print Assumptions gsx_rows_consistent.
Print Assumptions gsx_line_consistent.
Print Assumptions gsx_L3_step.
Print Assumptions gsx_wb_spec.
Print Assumptions gsx_line_exact.
Print Assumptions gsx_line_exact_out.
Print Assumptions gsx_line_fixed_point.
Print Assumptions gsx_line_frame.
Print Assumptions gsx_matrix_indep.
Print Assumptions sweepsx_inv.
Print Assumptions gauss_seidel_x_fixed_point.
Print Assumptions gauss_seidel_x_frame.
Print Assumptions gsx_hyps_example.
