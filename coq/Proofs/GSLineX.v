(* Proofs/GSLineX.v -- the line smoother along x (Gen/CoreGS.v gauss_seidel_x,
   regenerated from emg3d/core.py) relaxes the SAME linear system as the
   operator of C02.  WORK IN PROGRESS header, replaced at the end. *)
From Coq Require Import ZArith Lia Bool Field List.
From V Require Import Base.Loops Base.Arr Base.FieldSig Base.Tactics.
From V Require Import Gen.CoreBand Gen.CoreGS Model.FIT Proofs.BandSums Proofs.BandLDL.
Import ListNotations.
Local Open Scope Z_scope.

(* ------------------------------------------------------------------ *)
(* blocks_to_amat: its three branches as explicit update chains        *)
Section BTA.
  Context {F : Type} {O : FOps F}.
  Variables (A b M L R : Z -> F).

  Definition bta_first_A : Z -> F :=
    upd1 (upd1 (upd1 (upd1 (upd1 (upd1 (upd1 (upd1 (upd1 (upd1 (upd1 (upd1 (upd1 (upd1 (upd1 A
      (0+5*0) (M (0+5*0))) (1+5*0) (M (1+5*0))) (1+5*1) (M (1+5*1)))
      (2+5*0) (M (2+5*0))) (2+5*1) (M (2+5*1))) (2+5*2) (M (2+5*2)))
      (3+5*0) (M (3+5*0))) (3+5*1) (M (3+5*1))) (3+5*2) (M (3+5*2))) (3+5*3) (M (3+5*3)))
      (4+5*0) (M (4+5*0))) (4+5*1) (M (4+5*1))) (4+5*2) (M (4+5*2))) (4+5*3) (M (4+5*3)))
      (4+5*4) (M (4+5*4)).
  Definition bta_first_b : Z -> F :=
    upd1 (upd1 (upd1 (upd1 (upd1 b 0 (R 0)) 1 (R 1)) 2 (R 2)) 3 (R 3)) 4 (R 4).

  Lemma blocks_to_amat_first nc :
    blocks_to_amat A b M L R 0 nc = (bta_first_A, bta_first_b).
  Proof. reflexivity. Qed.

  Definition bta_norm_A (im : Z) : Z -> F :=
    let fam := 5 * im in let mam := fam - 5 in
    let A1 :=
    upd1 (upd1 (upd1 (upd1 (upd1 (upd1 (upd1 (upd1 (upd1 (upd1 (upd1 (upd1 (upd1 (upd1 A
      ((0+fam)+5*(1+mam)) (L (0+5*1))) ((1+fam)+5*(1+mam)) (L (1+5*1)))
      ((0+fam)+5*(2+mam)) (L (0+5*2))) ((1+fam)+5*(2+mam)) (L (1+5*2))) ((2+fam)+5*(2+mam)) (L (2+5*2)))
      ((0+fam)+5*(3+mam)) (L (0+5*3))) ((1+fam)+5*(3+mam)) (L (1+5*3))) ((2+fam)+5*(3+mam)) (L (2+5*3)))
      ((3+fam)+5*(3+mam)) (L (3+5*3)))
      ((0+fam)+5*(4+mam)) (L (0+5*4))) ((1+fam)+5*(4+mam)) (L (1+5*4))) ((2+fam)+5*(4+mam)) (L (2+5*4)))
      ((3+fam)+5*(4+mam)) (L (3+5*4))) ((4+fam)+5*(4+mam)) (L (4+5*4)) in
    upd1 (upd1 (upd1 (upd1 (upd1 (upd1 (upd1 (upd1 (upd1 (upd1 (upd1 (upd1 (upd1 (upd1 (upd1 A1
      ((0+fam)+5*(0+fam)) (M (0+5*0))) ((1+fam)+5*(0+fam)) (M (1+5*0))) ((1+fam)+5*(1+fam)) (M (1+5*1)))
      ((2+fam)+5*(0+fam)) (M (2+5*0))) ((2+fam)+5*(1+fam)) (M (2+5*1))) ((2+fam)+5*(2+fam)) (M (2+5*2)))
      ((3+fam)+5*(0+fam)) (M (3+5*0))) ((3+fam)+5*(1+fam)) (M (3+5*1))) ((3+fam)+5*(2+fam)) (M (3+5*2)))
      ((3+fam)+5*(3+fam)) (M (3+5*3)))
      ((4+fam)+5*(0+fam)) (M (4+5*0))) ((4+fam)+5*(1+fam)) (M (4+5*1))) ((4+fam)+5*(2+fam)) (M (4+5*2)))
      ((4+fam)+5*(3+fam)) (M (4+5*3))) ((4+fam)+5*(4+fam)) (M (4+5*4)).
  Definition bta_norm_b (im : Z) : Z -> F :=
    let fam := 5 * im in
    upd1 (upd1 (upd1 (upd1 (upd1 b (0+fam) (R 0)) (1+fam) (R 1)) (2+fam) (R 2)) (3+fam) (R 3))
         (4+fam) (R 4).

  Lemma blocks_to_amat_normal im nc : im <> 0 -> im <= nc - 2 -> 2 < nc ->
    blocks_to_amat A b M L R im nc = (bta_norm_A im, bta_norm_b im).
  Proof.
    intros H0 H1 H2. unfold blocks_to_amat.
    zb_false (im =? 0). zb_true (im <=? nc - 2). zb_true (2 <? nc).
    reflexivity.
  Qed.

  Definition bta_last_A (im : Z) : Z -> F :=
    let fam := 5 * im in let mam := fam - 5 in
    upd1 (upd1 (upd1 (upd1 (upd1 A (fam+5*(1+mam)) (L 5)) (fam+5*(2+mam)) (L 10))
      (fam+5*(3+mam)) (L 15)) (fam+5*(4+mam)) (L 20)) (6*fam) (M 0).
  Definition bta_last_b (im : Z) : Z -> F := upd1 b (5 * im) (R 0).

  Lemma blocks_to_amat_last im nc : im <> 0 -> im = nc - 1 ->
    blocks_to_amat A b M L R im nc = (bta_last_A im, bta_last_b im).
  Proof.
    intros H0 H1. unfold blocks_to_amat.
    zb_false (im =? 0). zb_false (im <=? nc - 2). zb_true (im =? nc - 1).
    reflexivity.
  Qed.
End BTA.

From V Require Import Proofs.GSBlock.

Section GSLineX.
  Context {F : Type} {O : FOps F}.
  Hypothesis Fth : field_theory F0 F1 Fadd Fmul Fsub Fopp Fdiv Finv (@eq F).
  Hypothesis two_nz : (1 + 1)%F <> 0%F.
  Add Field Fgsx : Fth.

  Variables (ex ey ez sx sy sz eta_x eta_y eta_z zeta : Z -> Z -> Z -> F).
  Variables (hx hy hz : Z -> F).
  Hypothesis hx_nz : forall i, hx i <> 0%F.
  Hypothesis hy_nz : forall i, hy i <> 0%F.
  Hypothesis hz_nz : forall i, hz i <> 0%F.
  Variables (nu lhx nx lhy ny lhz nz : Z).
  Variables (iy iz : Z).       (* the line *)

  Definition St4 : Type := ((Z -> F) * (Z -> F) * (Z -> F) * (Z -> F))%type.

  (* the straight-line part of one step of the ixh loop, block a = ixm = ixh-1 *)
  Definition gsx_blk (a : Z) (st : St4) :=
    gauss_seidel_x_L4_call1 ex ey ez sx sy sz eta_x eta_y eta_z zeta hx hy hz nu lhx nx lhy ny lhz nz
      (kof hx) (kof hy) (kof hz) 0 0 0 0 iz (iz-1) (iz+1) 0 iy (iy-1) (iy+1) (a+1) st.
  Definition gsx_L4 (a : Z) (st : St4) : St4 :=
    gauss_seidel_x_L4 ex ey ez sx sy sz eta_x eta_y eta_z zeta hx hy hz nu lhx nx lhy ny lhz nz
      (kof hx) (kof hy) (kof hz) 0 0 0 0 iz (iz-1) (iz+1) 0 iy (iy-1) (iy+1) (a+1) st.

  Definition blkM (r : (Z -> F) * (Z -> F) * (Z -> F) * (Z -> F) * (Z -> F)) : Z -> F := snd (fst (fst r)).
  Definition blkL (r : (Z -> F) * (Z -> F) * (Z -> F) * (Z -> F) * (Z -> F)) : Z -> F := snd (fst r).
  Definition blkR (r : (Z -> F) * (Z -> F) * (Z -> F) * (Z -> F) * (Z -> F)) : Z -> F := snd r.
  Definition blkA (r : (Z -> F) * (Z -> F) * (Z -> F) * (Z -> F) * (Z -> F)) : Z -> F := fst (fst (fst (fst r))).
  Definition blkB (r : (Z -> F) * (Z -> F) * (Z -> F) * (Z -> F) * (Z -> F)) : Z -> F := snd (fst (fst (fst r))).

  Lemma gsx_L4_step a st :
    gsx_L4 a st =
    let r := gsx_blk a st in
    let t := blocks_to_amat (blkA r) (blkB r) (blkM r) (blkL r) (blkR r) (a + 1 - 1) nx in
    (blkM r, blkL r, fst t, snd t).
  Proof.
    cbv delta [gsx_L4 gauss_seidel_x_L4 gsx_blk gauss_seidel_x_L4_call1 blkM blkL blkR blkA blkB].
    cbv beta. reflexivity.
  Qed.

  Lemma gsx_blk_AB a st : blkA (gsx_blk a st) = snd (fst st) /\ blkB (gsx_blk a st) = snd st.
  Proof.
    cbv delta [gsx_blk gauss_seidel_x_L4_call1 blkA blkB]. cbv beta. split; reflexivity.
  Qed.
  (* ---- canonical blocks: the step started from zeroed middle / left ------ *)
  Definition st0 : St4 := (fill1 0%F, fill1 0%F, fill1 0%F, fill1 0%F).
  Definition cM (a idx : Z) : F := blkM (gsx_blk a st0) idx.
  Definition cL (a idx : Z) : F := blkL (gsx_blk a st0) idx.
  Definition cR (a k : Z) : F := blkR (gsx_blk a st0) k.

  (* entries of middle / left that the step never sets but blocks_to_amat reads *)
  Definition ZeroML (m l : Z -> F) : Prop :=
    m 7 = 0%F /\ m 19 = 0%F /\
    l 11 = 0%F /\ l 16 = 0%F /\ l 17 = 0%F /\ l 21 = 0%F /\ l 22 = 0%F /\ l 23 = 0%F.

  (* symbolic evaluation of the update chains of the block at literal indices;
     the kernel re-checks the step with the VM (default conversion is very slow
     on the long let-chain) *)
  Ltac blk_eval :=
    match goal with
    | |- ?G =>
        let G' := eval cbv beta iota zeta delta
                    [cM cL cR st0 blkM blkL blkR gsx_blk gauss_seidel_x_L4_call1
                     upd1 upd1f upd3f fill1 arr_of_list nth Z.to_nat Pos.to_nat Pos.iter_op
                     Nat.add Z.eqb Pos.eqb Z.ltb Z.compare Pos.compare
                     Pos.compare_cont negb fst snd kof] in G in
        cut G'; [ let H := fresh "H" in intro H; vm_cast_no_check H | ]
    end.

  Definition usedM : list Z := [0;1;2;3;4;6;7;8;9;12;13;14;18;19;24].
  Definition usedL : list Z := [5;6;10;11;12;15;16;17;18;20;21;22;23;24].

  Lemma blk_canon_M a m0 l0 a0 b0 idx : ZeroML m0 l0 -> In idx usedM ->
    blkM (gsx_blk a (m0, l0, a0, b0)) idx = cM a idx.
  Proof.
    intros (Z7 & Z19 & _) H. unfold usedM in H. cbn [In] in H.
    repeat (destruct H as [H|H]; [subst idx; blk_eval; first [reflexivity|assumption]|]).
    contradiction.
  Qed.

  Lemma blk_canon_L a m0 l0 a0 b0 idx : ZeroML m0 l0 -> In idx usedL ->
    blkL (gsx_blk a (m0, l0, a0, b0)) idx = cL a idx.
  Proof.
    intros (_ & _ & Z11 & Z16 & Z17 & Z21 & Z22 & Z23) H. unfold usedL in H. cbn [In] in H.
    repeat (destruct H as [H|H]; [subst idx; blk_eval; first [reflexivity|assumption]|]).
    contradiction.
  Qed.

  Lemma blk_canon_R a st : blkR (gsx_blk a st) = cR a.
  Proof.
    apply eq_trans with (y := blkR (gsx_blk a st)); [reflexivity|].
    cbv delta [cR blkR gsx_blk gauss_seidel_x_L4_call1]. cbv beta. reflexivity.
  Qed.

  Lemma blk_zero a m0 l0 a0 b0 : ZeroML m0 l0 ->
    ZeroML (blkM (gsx_blk a (m0, l0, a0, b0))) (blkL (gsx_blk a (m0, l0, a0, b0))).
  Proof.
    intros (Z7 & Z19 & Z11 & Z16 & Z17 & Z21 & Z22 & Z23). unfold ZeroML.
    repeat split; blk_eval; assumption.
  Qed.
  (* ---- layout of the banded system after the ixh loop -------------------- *)
  Lemma upd1_eq {A} (a : Z -> A) i v j : j = i -> upd1 a i v j = v.
  Proof. intros ->. apply upd1_same. Qed.

  Ltac upd_res := repeat first [rewrite upd1_eq by lia | rewrite upd1_other by lia].

  Definition rowok (a r : Z) : Prop := 0 <= r < 5 /\ (a = nx - 1 -> r = 0).

  (* blocks 0 .. t-1 have been entered *)
  Definition Lay (t : Z) (A b : Z -> F) : Prop :=
    (forall a r c, 0 <= a < t -> rowok a r -> 0 <= c <= r ->
       A ((5*a+r) + 5*(5*a+c)) = cM a (r+5*c)) /\
    (forall a r c, 1 <= a < t -> rowok a r -> 1 <= c < 5 -> r <= c ->
       A ((5*a+r) + 5*(5*(a-1)+c)) = cL a (r+5*c)) /\
    (forall a, 1 <= a -> A (5*a + 5*(5*(a-1))) = 0%F) /\
    (forall a r, 0 <= a < t -> rowok a r -> b (5*a+r) = cR a r).

  Definition Inv (t : Z) (st : St4) : Prop :=
    ZeroML (fst (fst (fst st))) (snd (fst (fst st))) /\ Lay t (snd (fst st)) (snd st).

  Lemma r_cases r : 0 <= r < 5 -> r = 0 \/ r = 1 \/ r = 2 \/ r = 3 \/ r = 4.
  Proof. lia. Qed.

  Section LayStep.
    Variables (A b M' L' R' : Z -> F) (a0 : Z).
    Hypothesis HM : forall idx, In idx usedM -> M' idx = cM a0 idx.
    Hypothesis HL : forall idx, In idx usedL -> L' idx = cL a0 idx.
    Hypothesis HR : forall k, R' k = cR a0 k.
    Hypothesis Hnx : 2 <= nx.
    Hypothesis HLay : Lay a0 A b.

    Ltac inM := unfold usedM; cbn [In]; lia.
    Ltac inL := unfold usedL; cbn [In]; lia.

    Lemma lay_first : a0 = 0 -> Lay (a0 + 1) (bta_first_A A M') (bta_first_b b R').
    Proof.
      intros E0. destruct HLay as (H1 & H2 & H3 & H4).
      unfold Lay. repeat split.
      - intros a r c Ha [Hr Hr'] Hc. assert (a = a0) by lia. subst a. subst a0.
        cbv [bta_first_A].
        destruct (r_cases r Hr) as [E|[E|[E|[E|E]]]]; subst r;
          (assert (C : c = 0 \/ c = 1 \/ c = 2 \/ c = 3 \/ c = 4) by lia;
           destruct C as [E|[E|[E|[E|E]]]]; subst c; try lia);
          upd_res; apply HM; inM.
      - intros a r c Ha. lia.
      - intros a Ha. cbv [bta_first_A]. upd_res. apply H3. lia.
      - intros a r Ha [Hr Hr']. assert (a = a0) by lia. subst a. subst a0.
        cbv [bta_first_b].
        destruct (r_cases r Hr) as [E|[E|[E|[E|E]]]]; subst r; upd_res; apply HR.
    Qed.
    Ltac c_cases c := 
      let C := fresh "C" in let E := fresh "E" in
      assert (C : c = 0 \/ c = 1 \/ c = 2 \/ c = 3 \/ c = 4) by lia;
      destruct C as [E|[E|[E|[E|E]]]]; subst c; try lia.

    Lemma lay_normal : 1 <= a0 <= nx - 2 ->
      Lay (a0 + 1) (bta_norm_A A M' L' a0) (bta_norm_b b R' a0).
    Proof.
      intros E0. destruct HLay as (H1 & H2 & H3 & H4).
      unfold Lay. repeat split.
      - intros a r c Ha [Hr Hr'] Hc. cbv [bta_norm_A].
        destruct (Z.eq_dec a a0) as [->|Hne].
        + c_cases r; c_cases c; upd_res; apply HM; inM.
        + upd_res. apply H1; [lia|split; assumption|lia].
      - intros a r c Ha [Hr Hr'] Hc Hrc. cbv [bta_norm_A].
        destruct (Z.eq_dec a a0) as [->|Hne].
        + c_cases r; c_cases c; upd_res; apply HL; inL.
        + upd_res. apply H2; [lia|split; assumption|lia|lia].
      - intros a Ha. cbv [bta_norm_A]. upd_res. apply H3. lia.
      - intros a r Ha [Hr Hr']. cbv [bta_norm_b].
        destruct (Z.eq_dec a a0) as [->|Hne].
        + c_cases r; upd_res; apply HR.
        + upd_res. apply H4; [lia|split; assumption].
    Qed.

    Lemma lay_last : 1 <= a0 -> a0 = nx - 1 ->
      Lay (a0 + 1) (bta_last_A A M' L' a0) (bta_last_b b R' a0).
    Proof.
      intros E0 E1. destruct HLay as (H1 & H2 & H3 & H4).
      unfold Lay. repeat split.
      - intros a r c Ha [Hr Hr'] Hc. cbv [bta_last_A].
        destruct (Z.eq_dec a a0) as [->|Hne].
        + assert (r = 0) by (apply Hr'; exact E1). subst r. assert (c = 0) by lia. subst c.
          upd_res. apply HM; inM.
        + upd_res. apply H1; [lia|split; assumption|lia].
      - intros a r c Ha [Hr Hr'] Hc Hrc. cbv [bta_last_A].
        destruct (Z.eq_dec a a0) as [->|Hne].
        + assert (r = 0) by (apply Hr'; exact E1). subst r.
          c_cases c; upd_res; apply HL; inL.
        + upd_res. apply H2; [lia|split; assumption|lia|lia].
      - intros a Ha. cbv [bta_last_A]. upd_res. apply H3. lia.
      - intros a r Ha [Hr Hr']. cbv [bta_last_b].
        destruct (Z.eq_dec a a0) as [->|Hne].
        + assert (r = 0) by (apply Hr'; exact E1). subst r. upd_res. apply HR.
        + upd_res. apply H4; [lia|split; assumption].
    Qed.
  End LayStep.
  Lemma Inv_step a0 st : 2 <= nx -> 0 <= a0 < nx -> Inv a0 st -> Inv (a0 + 1) (gsx_L4 a0 st).
  Proof.
    intros Hnx Ha [HZ HLay]. destruct st as [[[m l] A] b]. cbn [fst snd] in HZ, HLay.
    rewrite gsx_L4_step. cbv zeta.
    destruct (gsx_blk_AB a0 (m, l, A, b)) as [EA EB]. rewrite EA, EB. cbn [fst snd].
    replace (a0 + 1 - 1) with a0 by lia.
    pose proof (fun idx => blk_canon_M a0 m l A b idx HZ) as HM.
    pose proof (fun idx => blk_canon_L a0 m l A b idx HZ) as HL.
    assert (HR : forall k, blkR (gsx_blk a0 (m, l, A, b)) k = cR a0 k)
      by (intros k; now rewrite blk_canon_R).
    pose proof (blk_zero a0 m l A b HZ) as HZ'.
    set (M' := blkM _) in *. set (L' := blkL _) in *. set (R' := blkR _) in *.
    clearbody M' L' R'.
    unfold Inv.
    destruct (Z.eq_dec a0 0) as [E0|N0].
    - subst a0. rewrite blocks_to_amat_first. cbn [fst snd]. split; [exact HZ'|].
      apply lay_first; solve [assumption|lia|reflexivity].
    - destruct (Z.eq_dec a0 (nx - 1)) as [E1|N1].
      + rewrite blocks_to_amat_last by lia. cbn [fst snd]. split; [exact HZ'|].
        apply lay_last; solve [assumption|lia].
      + rewrite blocks_to_amat_normal by lia. cbn [fst snd]. split; [exact HZ'|].
        apply lay_normal; solve [assumption|lia].
  Qed.

  (* the ixh loop of one line, and the system it hands to the solver *)
  Definition gsx_loop : St4 := Zfold 1 (nx + 1) (fun ixh st => gsx_L4 (ixh - 1) st) st0.
  Definition gsx_sys : (Z -> F) * (Z -> F) := (snd (fst gsx_loop), snd gsx_loop).

  Theorem gsx_system_layout : 2 <= nx -> Lay nx (fst gsx_sys) (snd gsx_sys).
  Proof.
    intros Hnx. unfold gsx_sys, gsx_loop. cbn [fst snd].
    assert (G : Inv (nx + 1 - 1) (Zfold 1 (nx + 1) (fun ixh st => gsx_L4 (ixh - 1) st) st0)).
    { apply (Zfold_ind (fun t st => Inv (t - 1) st)); [lia| |].
      - unfold Inv, st0, ZeroML, Lay, fill1. cbn [fst snd].
        repeat split; intros; try reflexivity; lia.
      - intros t st Ht Hi. replace (t + 1 - 1) with (t - 1 + 1) by lia.
        apply Inv_step; [exact Hnx|lia|exact Hi]. }
    replace (nx + 1 - 1) with nx in G by lia. exact (proj2 G).
  Qed.

  (* tie to the generated call-site definition: the arguments handed to [solve] *)
  Lemma L4_as_blk iback nr it izh iyh ixh st :
    gauss_seidel_x_L4 ex ey ez sx sy sz eta_x eta_y eta_z zeta hx hy hz nu lhx nx lhy ny lhz nz
      (kof hx) (kof hy) (kof hz) iback nr it izh iz (iz-1) (iz+1) iyh iy (iy-1) (iy+1) ixh st
    = gsx_L4 (ixh - 1) st.
  Proof.
    unfold gsx_L4. replace (ixh - 1 + 1) with ixh by lia.
    cbv delta [gauss_seidel_x_L4]. cbv beta. reflexivity.
  Qed.

  Definition node (iback n ih : Z) : Z := if negb (iback =? 0) then n - ih else ih.

  Lemma gsx_sys_is_call1 iback nr it izh iyh (st7 : (Z -> F) * (Z -> F) * (Z -> F) * (Z -> F) *
        (Z -> Z -> Z -> F) * (Z -> Z -> Z -> F) * (Z -> Z -> Z -> F)) :
    node iback ny iyh = iy ->
    snd (fst (fst st7)) = ex -> snd (fst st7) = ey -> snd st7 = ez ->
    gauss_seidel_x_L3_call1 sx sy sz eta_x eta_y eta_z zeta hx hy hz nu lhx nx lhy ny lhz nz
      (kof hx) (kof hy) (kof hz) iback nr it izh iz (iz-1) (iz+1) iyh st7 = gsx_sys.
  Proof.
    intros Hn Hx Hy Hz.
    cbv delta [gauss_seidel_x_L3_call1]. cbv beta. cbv zeta.
    change (if negb (iback =? 0) then ny - iyh else iyh) with (node iback ny iyh).
    rewrite Hn, Hx, Hy, Hz. unfold gsx_sys, gsx_loop.
    rewrite (Zfold_ext 1 (nx + 1) _ (fun ixh st => gsx_L4 (ixh - 1) st)); [reflexivity|].
    intros i s _. apply L4_as_blk.
  Qed.
End GSLineX.
