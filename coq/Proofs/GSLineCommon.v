(* Proofs/GSLineCommon.v -- the kernel-independent part of the line-smoother
   proofs (GSLineY.v, GSLineZ.v; GSLineX.v keeps its own, older copy of the
   layout part): the layout [LayG] of the banded system produced by the loop
   "assemble 5x5 blocks, blocks_to_amat" for ANY step function that has the
   shape of the generated [gauss_seidel_?_L4] (hypotheses H_step .. H_Z, which
   each kernel file discharges by symbolic evaluation of its generated code),
   independence of the matrix from the field, and the rewriting tactics used in
   the row proofs.  Re-uses from GSLineX.v: the three branches of
   [blocks_to_amat] (Section BTA), [bandmul_unroll], [Zfold_rel], [rowok],
   [ZeroML], [usedM], [usedL], [blkM] .. [blkB], [st0], [node], [divmod5]. *)
From Coq Require Import ZArith Lia Bool Field List.
From V Require Import Base.Loops Base.Arr Base.FieldSig Base.Tactics.
From V Require Import Gen.CoreBand Proofs.BandSums Proofs.BandLDL Proofs.GSLineX.
Import ListNotations.
Local Open Scope Z_scope.

Ltac upd_res := repeat first [rewrite upd1_eq by lia | rewrite upd1_other by lia].

Ltac bdestr :=
  repeat match goal with
  | |- context [Z.eqb ?a ?b] => destruct (Z.eqb_spec a b)
  | |- context [Z.leb ?a ?b] => destruct (Z.leb_spec a b)
  | |- context [Z.ltb ?a ?b] => destruct (Z.ltb_spec a b)
  end.

Section LayGen.
  Context {F : Type} {O : FOps F}.
  Variable nc : Z.                       (* cells along the line *)
  Variables cM cL cR : Z -> Z -> F.      (* canonical blocks of step a *)

  Definition LayG (t : Z) (A b : Z -> F) : Prop :=
    (forall a r c, 0 <= a < t -> rowok nc a r -> 0 <= c <= r ->
       A ((5*a+r) + 5*(5*a+c)) = cM a (r+5*c)) /\
    (forall a r c, 1 <= a < t -> rowok nc a r -> 1 <= c < 5 -> r <= c ->
       A ((5*a+r) + 5*(5*(a-1)+c)) = cL a (r+5*c)) /\
    (forall a, 1 <= a -> A (5*a + 5*(5*(a-1))) = 0%F) /\
    (forall a r, 0 <= a < t -> rowok nc a r -> b (5*a+r) = cR a r).

  Section LayStep.
    Variables (A b M' L' R' : Z -> F) (a0 : Z).
    Hypothesis HM : forall idx, In idx usedM -> M' idx = cM a0 idx.
    Hypothesis HL : forall idx, In idx usedL -> L' idx = cL a0 idx.
    Hypothesis HR : forall k, R' k = cR a0 k.
    Hypothesis Hnc : 2 <= nc.
    Hypothesis HLayG : LayG a0 A b.

    Ltac inM := unfold usedM; cbn [In]; lia.
    Ltac inL := unfold usedL; cbn [In]; lia.

    Lemma lay_first : a0 = 0 -> LayG (a0 + 1) (bta_first_A A M') (bta_first_b b R').
    Proof.
      intros E0. destruct HLayG as (H1 & H2 & H3 & H4).
      unfold LayG. repeat split.
      - intros a r c Ha [Hr Hr'] Hc. assert (a = a0) by lia. subst a. subst a0.
        cbv [bta_first_A].
        destruct (r_cases r Hr) as [E|[E|[E|[E|E]]]]; subst r;
          (assert (C : c = 0 \/ c = 1 \/ c = 2 \/ c = 3 \/ c = 4) by lia;
           destruct C as [E|[E|[E|[E|E]]]]; subst c; try lia);
          upd_res; apply HM; inM.
      - intros a r c Ha. lia.
      - intros a Ha. cbv [bta_first_A]. upd_res. apply H3. lia.
      - intros a r Ha [Hr Hr']. assert (a = a0) by lia. subst a. subst a0.
        cbv [bta_first_b].
        destruct (r_cases r Hr) as [E|[E|[E|[E|E]]]]; subst r; upd_res; apply HR.
    Qed.
    Ltac c_cases c := 
      let C := fresh "C" in let E := fresh "E" in
      assert (C : c = 0 \/ c = 1 \/ c = 2 \/ c = 3 \/ c = 4) by lia;
      destruct C as [E|[E|[E|[E|E]]]]; subst c; try lia.

    Lemma lay_normal : 1 <= a0 <= nc - 2 ->
      LayG (a0 + 1) (bta_norm_A A M' L' a0) (bta_norm_b b R' a0).
    Proof.
      intros E0. destruct HLayG as (H1 & H2 & H3 & H4).
      unfold LayG. repeat split.
      - intros a r c Ha [Hr Hr'] Hc. cbv [bta_norm_A].
        destruct (Z.eq_dec a a0) as [->|Hne].
        + c_cases r; c_cases c; upd_res; apply HM; inM.
        + upd_res. apply H1; [lia|split; assumption|lia].
      - intros a r c Ha [Hr Hr'] Hc Hrc. cbv [bta_norm_A].
        destruct (Z.eq_dec a a0) as [->|Hne].
        + c_cases r; c_cases c; upd_res; apply HL; inL.
        + upd_res. apply H2; [lia|split; assumption|lia|lia].
      - intros a Ha. cbv [bta_norm_A]. upd_res. apply H3. lia.
      - intros a r Ha [Hr Hr']. cbv [bta_norm_b].
        destruct (Z.eq_dec a a0) as [->|Hne].
        + c_cases r; upd_res; apply HR.
        + upd_res. apply H4; [lia|split; assumption].
    Qed.

    Lemma lay_last : 1 <= a0 -> a0 = nc - 1 ->
      LayG (a0 + 1) (bta_last_A A M' L' a0) (bta_last_b b R' a0).
    Proof.
      intros E0 E1. destruct HLayG as (H1 & H2 & H3 & H4).
      unfold LayG. repeat split.
      - intros a r c Ha [Hr Hr'] Hc. cbv [bta_last_A].
        destruct (Z.eq_dec a a0) as [->|Hne].
        + assert (r = 0) by (apply Hr'; exact E1). subst r. assert (c = 0) by lia. subst c.
          upd_res. apply HM; inM.
        + upd_res. apply H1; [lia|split; assumption|lia].
      - intros a r c Ha [Hr Hr'] Hc Hrc. cbv [bta_last_A].
        destruct (Z.eq_dec a a0) as [->|Hne].
        + assert (r = 0) by (apply Hr'; exact E1). subst r.
          c_cases c; upd_res; apply HL; inL.
        + upd_res. apply H2; [lia|split; assumption|lia|lia].
      - intros a Ha. cbv [bta_last_A]. upd_res. apply H3. lia.
      - intros a r Ha [Hr Hr']. cbv [bta_last_b].
        destruct (Z.eq_dec a a0) as [->|Hne].
        + assert (r = 0) by (apply Hr'; exact E1). subst r. upd_res. apply HR.
        + upd_res. apply H4; [lia|split; assumption].
    Qed.
  End LayStep.

  (* layout facts in the form used for rewriting *)
  Section LayUse.
    Variables (A b : Z -> F) (t : Z).
    Hypothesis HLay : LayG t A b.
    Lemma lay_M a r c p idx : p = (5*a+r) + 5*(5*a+c) -> idx = r + 5*c ->
      0 <= a < t -> rowok nc a r -> 0 <= c <= r -> A p = cM a idx.
    Proof. intros -> ->. apply (proj1 HLay). Qed.
    Lemma lay_L a r c p idx : p = (5*a+r) + 5*(5*(a-1)+c) -> idx = r + 5*c ->
      1 <= a < t -> rowok nc a r -> 1 <= c < 5 -> r <= c -> A p = cL a idx.
    Proof. intros -> ->. apply (proj1 (proj2 HLay)). Qed.
    Lemma lay_0 a p : p = 5*a + 5*(5*(a-1)) -> 1 <= a -> A p = 0%F.
    Proof. intros ->. apply (proj1 (proj2 (proj2 HLay))). Qed.
    Lemma lay_b a r p : p = 5*a + r -> 0 <= a < t -> rowok nc a r -> b p = cR a r.
    Proof. intros ->. apply (proj2 (proj2 (proj2 HLay))). Qed.
  End LayUse.

  (* ---- the loop: any step function of the generated shape ----------------- *)
  Section Loop.
    Variable blk : Z -> @St4 F -> (Z -> F) * (Z -> F) * (Z -> F) * (Z -> F) * (Z -> F).
    Variable L4 : Z -> @St4 F -> @St4 F.
    Hypothesis H_step : forall a st, L4 a st =
      let r := blk a st in
      let t := blocks_to_amat (blkA r) (blkB r) (blkM r) (blkL r) (blkR r) (a + 1 - 1) nc in
      (blkM r, blkL r, fst t, snd t).
    Hypothesis H_AB : forall a st, blkA (blk a st) = snd (fst st) /\ blkB (blk a st) = snd st.
    Hypothesis H_M : forall a m0 l0 a0 b0 idx, ZeroML m0 l0 -> In idx usedM ->
      blkM (blk a (m0, l0, a0, b0)) idx = cM a idx.
    Hypothesis H_L : forall a m0 l0 a0 b0 idx, ZeroML m0 l0 -> In idx usedL ->
      blkL (blk a (m0, l0, a0, b0)) idx = cL a idx.
    Hypothesis H_R : forall a st k, blkR (blk a st) k = cR a k.
    Hypothesis H_Z : forall a m0 l0 a0 b0, ZeroML m0 l0 ->
      ZeroML (blkM (blk a (m0, l0, a0, b0))) (blkL (blk a (m0, l0, a0, b0))).

    Definition InvG (t : Z) (st : @St4 F) : Prop :=
      ZeroML (fst (fst (fst st))) (snd (fst (fst st))) /\ LayG t (snd (fst st)) (snd st).

    Lemma InvG_step a0 st : 2 <= nc -> 0 <= a0 < nc -> InvG a0 st -> InvG (a0 + 1) (L4 a0 st).
    Proof.
      intros Hnc Ha [HZ HLay]. destruct st as [[[m l] A] b]. cbn [fst snd] in HZ, HLay.
      rewrite H_step. cbv zeta.
      destruct (H_AB a0 (m, l, A, b)) as [EA EB]. rewrite EA, EB. cbn [fst snd].
      replace (a0 + 1 - 1) with a0 by lia.
      pose proof (fun idx => H_M a0 m l A b idx HZ) as HM.
      pose proof (fun idx => H_L a0 m l A b idx HZ) as HL.
      pose proof (H_R a0 (m, l, A, b)) as HR.
      pose proof (H_Z a0 m l A b HZ) as HZ'.
      set (M' := blkM _) in *. set (L' := blkL _) in *. set (R' := blkR _) in *.
      clearbody M' L' R'.
      unfold InvG.
      destruct (Z.eq_dec a0 0) as [E0|N0].
      - subst a0. rewrite blocks_to_amat_first. cbn [fst snd]. split; [exact HZ'|].
        apply (lay_first A b M' L' R' 0); solve [assumption|lia|reflexivity].
      - destruct (Z.eq_dec a0 (nc - 1)) as [E1|N1].
        + rewrite blocks_to_amat_last by lia. cbn [fst snd]. split; [exact HZ'|].
          apply lay_last; solve [assumption|lia].
        + rewrite blocks_to_amat_normal by lia. cbn [fst snd]. split; [exact HZ'|].
          apply lay_normal; solve [assumption|lia].
    Qed.

    Definition loopG : @St4 F := Zfold 1 (nc + 1) (fun h st => L4 (h - 1) st) st0.

    Theorem layout_gen : 2 <= nc -> LayG nc (snd (fst loopG)) (snd loopG).
    Proof.
      intros Hnc. unfold loopG.
      assert (G : InvG (nc + 1 - 1) (Zfold 1 (nc + 1) (fun h st => L4 (h - 1) st) st0)).
      { apply (Zfold_ind (fun t st => InvG (t - 1) st)); [lia| |].
        - unfold InvG, st0, ZeroML, LayG, fill1. cbn [fst snd].
          repeat split; intros; try reflexivity; lia.
        - intros t st Ht Hi. replace (t + 1 - 1) with (t - 1 + 1) by lia.
          apply InvG_step; [exact Hnc|lia|exact Hi]. }
      replace (nc + 1 - 1) with nc in G by lia. exact (proj2 G).
    Qed.
  End Loop.
End LayGen.

(* the matrix built by the loop does not depend on whatever the blocks' rhs
   depends on (the field): two step functions with the same middle / left *)
Section IndepGen.
  Context {F : Type} {O : FOps F}.
  Variable nc : Z.
  Variables blkf blkg : Z -> @St4 F -> (Z -> F) * (Z -> F) * (Z -> F) * (Z -> F) * (Z -> F).
  Variables L4f L4g : Z -> @St4 F -> @St4 F.
  Hypothesis Hf_step : forall a st, L4f a st =
    let r := blkf a st in
    let t := blocks_to_amat (blkA r) (blkB r) (blkM r) (blkL r) (blkR r) (a + 1 - 1) nc in
    (blkM r, blkL r, fst t, snd t).
  Hypothesis Hg_step : forall a st, L4g a st =
    let r := blkg a st in
    let t := blocks_to_amat (blkA r) (blkB r) (blkM r) (blkL r) (blkR r) (a + 1 - 1) nc in
    (blkM r, blkL r, fst t, snd t).
  Hypothesis Hf_AB : forall a st, blkA (blkf a st) = snd (fst st) /\ blkB (blkf a st) = snd st.
  Hypothesis Hg_AB : forall a st, blkA (blkg a st) = snd (fst st) /\ blkB (blkg a st) = snd st.
  Hypothesis H_EM : forall a m l A b1 b2, blkM (blkf a (m, l, A, b1)) = blkM (blkg a (m, l, A, b2)).
  Hypothesis H_EL : forall a m l A b1 b2, blkL (blkf a (m, l, A, b1)) = blkL (blkg a (m, l, A, b2)).

  Lemma L4_indep_gen a s1 s2 : 2 <= nc -> 0 <= a < nc -> R3 s1 s2 -> R3 (L4f a s1) (L4g a s2).
  Proof.
    intros Hnc Ha (E1 & E2 & E3).
    destruct s1 as [[[m1 l1] A1] b1], s2 as [[[m2 l2] A2] b2]. cbn [fst snd] in E1, E2, E3. subst m2 l2 A2.
    rewrite Hf_step, Hg_step. cbv zeta.
    destruct (Hf_AB a (m1, l1, A1, b1)) as [EA1 EB1].
    destruct (Hg_AB a (m1, l1, A1, b2)) as [EA2 EB2].
    rewrite EA1, EA2. cbn [fst snd] in *.
    rewrite <- (H_EM a m1 l1 A1 b1 b2), <- (H_EL a m1 l1 A1 b1 b2).
    set (M' := blkM _). set (L' := blkL _). clearbody M' L'.
    replace (a + 1 - 1) with a by lia.
    unfold R3. cbn [fst snd]. repeat split.
    destruct (Z.eq_dec a 0) as [E0|N0].
    - subst a. rewrite !blocks_to_amat_first. reflexivity.
    - destruct (Z.eq_dec a (nc - 1)) as [E1|N1].
      + rewrite !blocks_to_amat_last by lia. reflexivity.
      + rewrite !blocks_to_amat_normal by lia. reflexivity.
  Qed.

  Lemma matrix_indep_gen : 2 <= nc ->
    snd (fst (loopG nc L4f)) = snd (fst (loopG nc L4g)).
  Proof.
    intros Hnc. unfold loopG.
    assert (G : R3 (Zfold 1 (nc + 1) (fun h st => L4f (h - 1) st) st0)
                   (Zfold 1 (nc + 1) (fun h st => L4g (h - 1) st) st0)).
    { apply Zfold_rel; [lia|repeat split|].
      intros i a b Hi Hr. apply L4_indep_gen; [exact Hnc|lia|exact Hr]. }
    exact (proj2 (proj2 G)).
  Qed.
End IndepGen.

(* ---- tactics for the row proofs (HLay : LayG nc cM cL cR nc A b) ---------- *)
Ltac sidec := first [lia | unfold rowok; lia].

Ltac lo_rw HLay a r d p :=
  let same := eval vm_compute in (d <=? r) in
  lazymatch same with
  | true =>
      let c := eval vm_compute in (r - d) in
      let idx := eval vm_compute in (r + 5*(r-d)) in
      try rewrite (lay_M _ _ _ _ _ _ _ HLay a r c p idx) by sidec
  | false =>
      let c := eval vm_compute in (r - d + 5) in
      let idx := eval vm_compute in (r + 5*(r-d+5)) in
      lazymatch c with
      | 0 => try rewrite (lay_0 _ _ _ _ _ _ _ HLay a p) by sidec
      | _ => try rewrite (lay_L _ _ _ _ _ _ _ HLay a r c p idx) by sidec
      end
  end.

Ltac hi_rw HLay a r d p :=
  let same := eval vm_compute in (r + d <? 5) in
  lazymatch same with
  | true =>
      let r' := eval vm_compute in (r + d) in
      let idx := eval vm_compute in (r + d + 5*r) in
      try rewrite (lay_M _ _ _ _ _ _ _ HLay a r' r p idx) by sidec
  | false =>
      let r' := eval vm_compute in (r + d - 5) in
      let idx := eval vm_compute in (r + d - 5 + 5*r) in
      lazymatch r with
      | 0 => try rewrite (lay_0 _ _ _ _ _ _ _ HLay (a+1) p) by sidec
      | _ => try rewrite (lay_L _ _ _ _ _ _ _ HLay (a+1) r' r p idx) by sidec
      end
  end.

Ltac gd_res :=
  repeat match goal with
  | |- context [gd ?n ?j ?v] =>
      first [rewrite (gd_true n j v) by lia | rewrite (gd_false n j v) by lia]
  end.

Ltac lay_rw HLay a r :=
  lo_rw HLay a r 5 (5*a+r + 5*(5*a+r-5)); lo_rw HLay a r 4 (5*a+r + 5*(5*a+r-4));
  lo_rw HLay a r 3 (5*a+r + 5*(5*a+r-3)); lo_rw HLay a r 2 (5*a+r + 5*(5*a+r-2));
  lo_rw HLay a r 1 (5*a+r + 5*(5*a+r-1)); lo_rw HLay a r 0 (5*a+r + 5*(5*a+r));
  hi_rw HLay a r 1 (5*a+r+1 + 5*(5*a+r)); hi_rw HLay a r 2 (5*a+r+2 + 5*(5*a+r));
  hi_rw HLay a r 3 (5*a+r+3 + 5*(5*a+r)); hi_rw HLay a r 4 (5*a+r+4 + 5*(5*a+r));
  hi_rw HLay a r 5 (5*a+r+5 + 5*(5*a+r));
  rewrite (lay_b _ _ _ _ _ _ _ HLay a r (5*a+r)) by sidec.

Ltac xnorm x :=
  repeat match goal with
  | |- context [x ?t] => progress ring_simplify t
  end.
