(* Proofs/GSLineY.v -- the line smoother along y (Gen/CoreGS.v [gauss_seidel_y],
   regenerated from emg3d/core.py) relaxes the SAME linear system as the operator
   of C02 (Model/FIT.v).  Port of Proofs/GSLineX.v with the indices permuted; the
   kernel-independent parts (blocks_to_amat branches, layout induction, matrix
   independence, unrolled banded product, rewriting tactics) come from
   Proofs/GSLineX.v and Proofs/GSLineCommon.v.

   Line (ix, iz) fixed, n = 5 ny - 4 unknowns; unknown 5a+r <-> edge:
     r=0: ey[ix,a,iz] (0 <= a < ny);  r=1: ex[ix-1,a+1,iz]  r=2: ex[ix,a+1,iz]  r=3: ez[ix,a+1,iz-1]  r=4: ez[ix,a+1,iz]
     (r = 1..4 only for a < ny-1);  e[x] = (lxY x, lyY x, lzY x).
   The generated kernel keeps its field state in the order (ey, ex, ez).

   PROVED (closed under the global context; hypotheses: field, h <> 0, 1+1 <> 0,
   2 <= ny, the two fixed indices >= 1, PECy = the eight tangential values
   ex[ix-1|ix, 0|ny, iz], ez[ix, 0|ny, iz-1|iz] are zero -- dropped by the kernel):
   gsy_system_layout, gsy_sys_is_call1, gsy_row_consistent (rows 0..4, position cases
   first / middle / next-to-last / last, 22 field identities), gsy_line_consistent,
   gsy_L3_step, gsy_wb_spec, gsy_line_exact, gsy_line_exact_out, gsy_line_fixed_point,
   gsy_line_frame, gsy_matrix_indep, sweepsy_inv, gauss_seidel_y_fixed_point,
   gauss_seidel_y_frame (every nu, every shape), gsy_hyps_example (non-vacuity on a
   concrete rational instance, vm_compute).
   MISSING: affinity and "last line exact" at whole-sweep level. *)
From Coq Require Import ZArith Lia Bool Field List.
From V Require Import Base.Loops Base.Arr Base.FieldSig Base.Tactics.
From V Require Import Gen.CoreBand Gen.CoreGS Model.FIT Proofs.BandSums Proofs.BandLDL.
From V Require Import Proofs.GSBlock Proofs.GSLineX Proofs.GSLineCommon.
Import ListNotations.
Local Open Scope Z_scope.

Section GSLineY.
  Context {F : Type} {O : FOps F}.
  Hypothesis Fth : field_theory F0 F1 Fadd Fmul Fsub Fopp Fdiv Finv (@eq F).
  Hypothesis two_nz : (1 + 1)%F <> 0%F.
  Add Field Fgsy : Fth.

  Variables (ex ey ez sx sy sz eta_x eta_y eta_z zeta : Z -> Z -> Z -> F).
  Variables (hx hy hz : Z -> F).
  Hypothesis hx_nz : forall i, hx i <> 0%F.
  Hypothesis hy_nz : forall i, hy i <> 0%F.
  Hypothesis hz_nz : forall i, hz i <> 0%F.
  Variables (nu lhx nx lhy ny lhz nz : Z).
  Variables (ix iz : Z).       (* the line *)

  (* the straight-line part of one step of the iyh loop, block a = iym = iyh-1 *)
  Definition gsy_blk (a : Z) (st : @St4 F) :=
    gauss_seidel_y_L4_call1 ex ey ez sx sy sz eta_x eta_y eta_z zeta hx hy hz nu lhx nx lhy ny lhz nz
      (kof hx) (kof hy) (kof hz) 0 0 0 0 iz (iz-1) (iz+1) 0 ix (ix-1) (ix+1) (a+1) st.
  Definition gsy_L4 (a : Z) (st : @St4 F) : @St4 F :=
    gauss_seidel_y_L4 ex ey ez sx sy sz eta_x eta_y eta_z zeta hx hy hz nu lhx nx lhy ny lhz nz
      (kof hx) (kof hy) (kof hz) 0 0 0 0 iz (iz-1) (iz+1) 0 ix (ix-1) (ix+1) (a+1) st.

  Lemma gsy_L4_step a st :
    gsy_L4 a st =
    let r := gsy_blk a st in
    let t := blocks_to_amat (blkA r) (blkB r) (blkM r) (blkL r) (blkR r) (a + 1 - 1) ny in
    (blkM r, blkL r, fst t, snd t).
  Proof.
    cbv delta [gsy_L4 gauss_seidel_y_L4 gsy_blk gauss_seidel_y_L4_call1 blkM blkL blkR blkA blkB].
    cbv beta. reflexivity.
  Qed.

  Lemma gsy_blk_AB a st : blkA (gsy_blk a st) = snd (fst st) /\ blkB (gsy_blk a st) = snd st.
  Proof.
    cbv delta [gsy_blk gauss_seidel_y_L4_call1 blkA blkB]. cbv beta. split; reflexivity.
  Qed.

  (* ---- canonical blocks: the step started from zeroed middle / left ------ *)
  Definition cMy (a idx : Z) : F := blkM (gsy_blk a st0) idx.
  Definition cLy (a idx : Z) : F := blkL (gsy_blk a st0) idx.
  Definition cRy (a k : Z) : F := blkR (gsy_blk a st0) k.

  Ltac blk_eval :=
    match goal with
    | |- ?G =>
        let G' := eval cbv beta iota zeta delta
                    [cMy cLy cRy st0 blkM blkL blkR gsy_blk gauss_seidel_y_L4_call1
                     upd1 upd1f upd3f fill1 arr_of_list nth Z.to_nat Pos.to_nat Pos.iter_op
                     Nat.add Z.eqb Pos.eqb Z.ltb Z.compare Pos.compare
                     Pos.compare_cont negb fst snd kof] in G in
        cut G'; [ let H := fresh "H" in intro H; vm_cast_no_check H | ]
    end.

  Lemma blk_canon_My a m0 l0 a0 b0 idx : ZeroML m0 l0 -> In idx usedM ->
    blkM (gsy_blk a (m0, l0, a0, b0)) idx = cMy a idx.
  Proof.
    intros (Z7 & Z19 & _) H. unfold usedM in H. cbn [In] in H.
    repeat (destruct H as [H|H]; [subst idx; blk_eval; first [reflexivity|assumption]|]).
    contradiction.
  Qed.

  Lemma blk_canon_Ly a m0 l0 a0 b0 idx : ZeroML m0 l0 -> In idx usedL ->
    blkL (gsy_blk a (m0, l0, a0, b0)) idx = cLy a idx.
  Proof.
    intros (_ & _ & Z11 & Z16 & Z17 & Z21 & Z22 & Z23) H. unfold usedL in H. cbn [In] in H.
    repeat (destruct H as [H|H]; [subst idx; blk_eval; first [reflexivity|assumption]|]).
    contradiction.
  Qed.

  Lemma blk_canon_Ry a st k : blkR (gsy_blk a st) k = cRy a k.
  Proof.
    cbv delta [cRy blkR gsy_blk gauss_seidel_y_L4_call1]. cbv beta. reflexivity.
  Qed.

  Lemma blk_zero_y a m0 l0 a0 b0 : ZeroML m0 l0 ->
    ZeroML (blkM (gsy_blk a (m0, l0, a0, b0))) (blkL (gsy_blk a (m0, l0, a0, b0))).
  Proof.
    intros (Z7 & Z19 & Z11 & Z16 & Z17 & Z21 & Z22 & Z23). unfold ZeroML.
    repeat split; blk_eval; assumption.
  Qed.

  (* ---- the iyh loop of one line and the system handed to the solver ------- *)
  Definition gsy_loop : @St4 F := loopG ny gsy_L4.
  Definition gsy_sys : (Z -> F) * (Z -> F) := (snd (fst gsy_loop), snd gsy_loop).
  Notation LayY := (LayG ny cMy cLy cRy).

  Theorem gsy_system_layout : 2 <= ny -> LayY ny (fst gsy_sys) (snd gsy_sys).
  Proof.
    intros Hn. unfold gsy_sys, gsy_loop. cbn [fst snd].
    exact (layout_gen ny cMy cLy cRy gsy_blk gsy_L4 gsy_L4_step gsy_blk_AB blk_canon_My
             blk_canon_Ly blk_canon_Ry blk_zero_y Hn).
  Qed.

  (* tie to the generated call-site definition: the arguments handed to [solve] *)
  Lemma L4_as_blk_y iback nr it izh ixh iyh st :
    gauss_seidel_y_L4 ex ey ez sx sy sz eta_x eta_y eta_z zeta hx hy hz nu lhx nx lhy ny lhz nz
      (kof hx) (kof hy) (kof hz) iback nr it izh iz (iz-1) (iz+1) ixh ix (ix-1) (ix+1) iyh st
    = gsy_L4 (iyh - 1) st.
  Proof.
    unfold gsy_L4. replace (iyh - 1 + 1) with iyh by lia.
    cbv delta [gauss_seidel_y_L4]. cbv beta. reflexivity.
  Qed.

  (* NB the generated y kernel keeps its field state in the order (ey, ex, ez) *)
  Lemma gsy_sys_is_call1 iback nr it izh ixh (st7 : @St7 F) :
    node iback nx ixh = ix ->
    snd (fst (fst st7)) = ey -> snd (fst st7) = ex -> snd st7 = ez ->
    gauss_seidel_y_L3_call1 sx sy sz eta_x eta_y eta_z zeta hx hy hz nu lhx nx lhy ny lhz nz
      (kof hx) (kof hy) (kof hz) iback nr it izh iz (iz-1) (iz+1) ixh st7 = gsy_sys.
  Proof.
    intros Hn Hy Hx Hz.
    cbv delta [gauss_seidel_y_L3_call1]. cbv beta. cbv zeta.
    change (if negb (iback =? 0) then nx - ixh else ixh) with (node iback nx ixh).
    rewrite Hn, Hx, Hy, Hz. unfold gsy_sys, gsy_loop, loopG.
    rewrite (Zfold_ext 1 (ny + 1) _ (fun h st => gsy_L4 (h - 1) st)); [reflexivity|].
    intros i s _. apply L4_as_blk_y.
  Qed.
  (* ---- the field with the line's unknowns replaced by a vector x ---------- *)
  (* unknown 5*j       <-> ey[ix,j,iz]           (0 <= j < ny)
     unknown 5*(j-1)+1 <-> ex[ix-1,j,iz]         (1 <= j < ny)
     unknown 5*(j-1)+2 <-> ex[ix,j,iz]
     unknown 5*(j-1)+3 <-> ez[ix,j,iz-1]
     unknown 5*(j-1)+4 <-> ez[ix,j,iz] *)
  Definition lyY (x : Z -> F) : Z -> Z -> Z -> F := fun i j k =>
    if (i =? ix) && (k =? iz) && (0 <=? j) && (j <? ny) then x (5*j) else ey i j k.
  Definition lxY (x : Z -> F) : Z -> Z -> Z -> F := fun i j k =>
    if (k =? iz) && (1 <=? j) && (j <? ny) then
      (if i =? ix - 1 then x (5*(j-1)+1) else if i =? ix then x (5*(j-1)+2) else ex i j k)
    else ex i j k.
  Definition lzY (x : Z -> F) : Z -> Z -> Z -> F := fun i j k =>
    if (i =? ix) && (1 <=? j) && (j <? ny) then
      (if k =? iz - 1 then x (5*(j-1)+3) else if k =? iz then x (5*(j-1)+4) else ez i j k)
    else ez i j k.

  Lemma lyY_in x i j k : i = ix -> k = iz -> 0 <= j < ny -> lyY x i j k = x (5*j).
  Proof.
    intros -> -> H. unfold lyY. rewrite !Z.eqb_refl.
    zb_true (0 <=? j). zb_true (j <? ny). reflexivity.
  Qed.
  Lemma lyY_out x i j k : (i <> ix \/ k <> iz) -> lyY x i j k = ey i j k.
  Proof.
    intros H. unfold lyY. destruct (Z.eqb_spec i ix), (Z.eqb_spec k iz); cbn [andb]; try reflexivity; lia.
  Qed.
  Lemma lxY_in1 x i j k : i = ix - 1 -> k = iz -> 1 <= j < ny -> lxY x i j k = x (5*(j-1)+1).
  Proof.
    intros -> -> H. unfold lxY. rewrite !Z.eqb_refl.
    zb_true (1 <=? j). zb_true (j <? ny). reflexivity.
  Qed.
  Lemma lxY_in2 x i j k : i = ix -> k = iz -> 1 <= j < ny -> lxY x i j k = x (5*(j-1)+2).
  Proof.
    intros -> -> H. unfold lxY. rewrite !Z.eqb_refl.
    zb_true (1 <=? j). zb_true (j <? ny). zb_false (ix =? ix - 1). reflexivity.
  Qed.
  Lemma lxY_out x i j k : (k <> iz \/ (i <> ix - 1 /\ i <> ix) \/ j <= 0 \/ ny <= j) ->
    lxY x i j k = ex i j k.
  Proof.
    intros H. unfold lxY.
    destruct (Z.eqb_spec k iz), (Z.leb_spec 1 j), (Z.ltb_spec j ny), (Z.eqb_spec i (ix-1)),
      (Z.eqb_spec i ix); cbn [andb]; try reflexivity; lia.
  Qed.
  Lemma lzY_in1 x i j k : i = ix -> k = iz - 1 -> 1 <= j < ny -> lzY x i j k = x (5*(j-1)+3).
  Proof.
    intros -> -> H. unfold lzY. rewrite !Z.eqb_refl.
    zb_true (1 <=? j). zb_true (j <? ny). reflexivity.
  Qed.
  Lemma lzY_in2 x i j k : i = ix -> k = iz -> 1 <= j < ny -> lzY x i j k = x (5*(j-1)+4).
  Proof.
    intros -> -> H. unfold lzY. rewrite !Z.eqb_refl.
    zb_true (1 <=? j). zb_true (j <? ny). zb_false (iz =? iz - 1). reflexivity.
  Qed.
  Lemma lzY_out x i j k : (i <> ix \/ (k <> iz - 1 /\ k <> iz) \/ j <= 0 \/ ny <= j) ->
    lzY x i j k = ez i j k.
  Proof.
    intros H. unfold lzY.
    destruct (Z.eqb_spec i ix), (Z.leb_spec 1 j), (Z.ltb_spec j ny), (Z.eqb_spec k (iz-1)),
      (Z.eqb_spec k iz); cbn [andb]; try reflexivity; lia.
  Qed.

  (* ---- row consistency ---------------------------------------------------- *)
  Section Rows.
    Variables (A b : Z -> F).
    Hypothesis HLay : LayY ny A b.
    Hypothesis Hny : 2 <= ny.
    Hypothesis Hix : 1 <= ix.
    Hypothesis Hiz : 1 <= iz.
    (* PEC: the tangential boundary values at both y-ends of the line, which the
       kernel drops from the system ("assumed to be zero") *)
    Hypothesis pec_x0m : ex (ix-1) 0 iz = 0%F.
    Hypothesis pec_x0  : ex ix 0 iz = 0%F.
    Hypothesis pec_z0m : ez ix 0 (iz-1) = 0%F.
    Hypothesis pec_z0  : ez ix 0 iz = 0%F.
    Hypothesis pec_xNm : ex (ix-1) ny iz = 0%F.
    Hypothesis pec_xN  : ex ix ny iz = 0%F.
    Hypothesis pec_zNm : ez ix ny (iz-1) = 0%F.
    Hypothesis pec_zN  : ez ix ny iz = 0%F.

    Lemma pec_xY i j : (j = 0 \/ j = ny) -> (i = ix - 1 \/ i = ix) -> ex i j iz = 0%F.
    Proof. intros [->| ->] [->| ->]; assumption. Qed.
    Lemma pec_zY j k : (j = 0 \/ j = ny) -> (k = iz - 1 \/ k = iz) -> ez ix j k = 0%F.
    Proof. intros [->| ->] [->| ->]; assumption. Qed.

    Ltac reads :=
      repeat first
        [ rewrite lyY_in by lia | rewrite lyY_out by lia
        | rewrite lxY_in1 by lia | rewrite lxY_in2 by lia | rewrite lxY_out by lia
        | rewrite lzY_in1 by lia | rewrite lzY_in2 by lia | rewrite lzY_out by lia ].

    Ltac pecs :=
      repeat match goal with
      | |- context [ex ?i ?j iz] => rewrite (pec_xY i j) by lia
      | |- context [ez ix ?j ?k] => rewrite (pec_zY j k) by lia
      end.

    Ltac spec_eval x :=
      unfold A_x, A_y, A_z, curlT_x, curlT_y, curlT_z, u_x, u_y, u_z, Mf_x, Mf_y, Mf_z,
        Me_x, Me_y, Me_z, curl_x, curl_y, curl_z, pm;
      repeat match goal with
      | |- context [?a =? 0] => zb_false (a =? 0)
      end;
      cbn [orb]; zmax_norm; idx_norm; reads; pecs; xnorm x; flit.

    Ltac side := first [ exact two_nz | apply (four_nz Fth two_nz) | apply (one_nz Fth)
                       | apply hx_nz | apply hy_nz | apply hz_nz ].

    Ltac row x a r :=
      first [exfalso; lia | idtac];
      rewrite (bandmul_unroll Fth (5*ny-4) A x (5*a+r)); gd_res; lay_rw HLay a r;
      blk_eval; spec_eval x; field; repeat split; side.

    Notation FX x := (lxY x). Notation FY x := (lyY x). Notation FZ x := (lzY x).

    Lemma gsy_row0 x a : 0 <= a < ny ->
      Fsub (bandmul (5*ny-4) A x (5*a+0)) (b (5*a+0))
      = Fsub (A_y (FX x) (FY x) (FZ x) eta_y zeta hx hy hz ix a iz) (sy ix a iz).
    Proof.
      intros Ha.
      assert (C1 : a = 0 \/ 1 <= a) by lia.
      assert (C2 : a = ny - 1 \/ a + 1 = ny - 1 \/ a + 1 < ny - 1) by lia.
      destruct C1 as [C1|C1], C2 as [C2|[C2|C2]]; row x a 0.
    Qed.
    Lemma gsy_row1 x a : 0 <= a < ny - 1 ->
      Fsub (bandmul (5*ny-4) A x (5*a+1)) (b (5*a+1))
      = Fsub (A_x (FX x) (FY x) (FZ x) eta_x zeta hx hy hz (ix-1) (a+1) iz) (sx (ix-1) (a+1) iz).
    Proof.
      intros Ha.
      assert (C1 : a = 0 \/ 1 <= a) by lia.
      assert (C2 : a + 1 = ny - 1 \/ a + 1 < ny - 1) by lia.
      destruct C1 as [C1|C1], C2 as [C2|C2]; row x a 1.
    Qed.
    Lemma gsy_row2 x a : 0 <= a < ny - 1 ->
      Fsub (bandmul (5*ny-4) A x (5*a+2)) (b (5*a+2))
      = Fsub (A_x (FX x) (FY x) (FZ x) eta_x zeta hx hy hz ix (a+1) iz) (sx ix (a+1) iz).
    Proof.
      intros Ha.
      assert (C1 : a = 0 \/ 1 <= a) by lia.
      assert (C2 : a + 1 = ny - 1 \/ a + 1 < ny - 1) by lia.
      destruct C1 as [C1|C1], C2 as [C2|C2]; row x a 2.
    Qed.
    Lemma gsy_row3 x a : 0 <= a < ny - 1 ->
      Fsub (bandmul (5*ny-4) A x (5*a+3)) (b (5*a+3))
      = Fsub (A_z (FX x) (FY x) (FZ x) eta_z zeta hx hy hz ix (a+1) (iz-1)) (sz ix (a+1) (iz-1)).
    Proof.
      intros Ha.
      assert (C1 : a = 0 \/ 1 <= a) by lia.
      assert (C2 : a + 1 = ny - 1 \/ a + 1 < ny - 1) by lia.
      destruct C1 as [C1|C1], C2 as [C2|C2]; row x a 3.
    Qed.
    Lemma gsy_row4 x a : 0 <= a < ny - 1 ->
      Fsub (bandmul (5*ny-4) A x (5*a+4)) (b (5*a+4))
      = Fsub (A_z (FX x) (FY x) (FZ x) eta_z zeta hx hy hz ix (a+1) iz) (sz ix (a+1) iz).
    Proof.
      intros Ha.
      assert (C1 : a = 0 \/ 1 <= a) by lia.
      assert (C2 : a + 1 = ny - 1 \/ a + 1 < ny - 1) by lia.
      destruct C1 as [C1|C1], C2 as [C2|C2]; row x a 4.
    Qed.
    (* (A e[x] - s) on the edge of unknown 5*a + r *)
    Definition line_resY (x : Z -> F) (a r : Z) : F :=
      let fx := lxY x in let fy := lyY x in let fz := lzY x in
      if r =? 0 then Fsub (A_y fx fy fz eta_y zeta hx hy hz ix a iz) (sy ix a iz)
      else if r =? 1 then Fsub (A_x fx fy fz eta_x zeta hx hy hz (ix-1) (a+1) iz) (sx (ix-1) (a+1) iz)
      else if r =? 2 then Fsub (A_x fx fy fz eta_x zeta hx hy hz ix (a+1) iz) (sx ix (a+1) iz)
      else if r =? 3 then Fsub (A_z fx fy fz eta_z zeta hx hy hz ix (a+1) (iz-1)) (sz ix (a+1) (iz-1))
      else Fsub (A_z fx fy fz eta_z zeta hx hy hz ix (a+1) iz) (sz ix (a+1) iz).

    Theorem gsy_row_consistent x a r : 0 <= a < ny -> 0 <= r < 5 -> (a = ny - 1 -> r = 0) ->
      Fsub (bandmul (5*ny-4) A x (5*a+r)) (b (5*a+r)) = line_resY x a r.
    Proof.
      intros Ha Hr Hl. unfold line_resY. cbv zeta.
      assert (a < ny - 1 \/ r = 0) by lia.
      destruct (r_cases r Hr) as [E|[E|[E|[E|E]]]]; subst r; cbn [Z.eqb Pos.eqb].
      - now apply gsy_row0.
      - apply gsy_row1; lia.
      - apply gsy_row2; lia.
      - apply gsy_row3; lia.
      - apply gsy_row4; lia.
    Qed.

    Theorem gsy_rows_consistent x i : 0 <= i < 5*ny-4 ->
      Fsub (bandmul (5*ny-4) A x i) (b i) = line_resY x (i / 5) (i mod 5).
    Proof.
      intros Hi. pose proof (Z.div_mod i 5 ltac:(lia)) as E.
      pose proof (Z.mod_pos_bound i 5 ltac:(lia)) as Hm.
      rewrite <- (gsy_row_consistent x (i/5) (i mod 5)); [|lia|lia|lia].
      now rewrite <- E.
    Qed.
  End Rows.
  (* ---- the system of one line is the residual system ---------------------- *)
  Definition PECy : Prop :=
    ex (ix-1) 0 iz = 0%F /\ ex ix 0 iz = 0%F /\ ez ix 0 (iz-1) = 0%F /\ ez ix 0 iz = 0%F /\
    ex (ix-1) ny iz = 0%F /\ ex ix ny iz = 0%F /\ ez ix ny (iz-1) = 0%F /\ ez ix ny iz = 0%F.

  Theorem gsy_line_consistent : 2 <= ny -> 1 <= ix -> 1 <= iz -> PECy ->
    forall x i, 0 <= i < 5*ny-4 ->
      Fsub (bandmul (5*ny-4) (fst gsy_sys) x i) (snd gsy_sys i) = line_resY x (i / 5) (i mod 5).
  Proof.
    intros Hn Hx Hz (P1 & P2 & P3 & P4 & P5 & P6 & P7 & P8) x i Hi.
    exact (gsy_rows_consistent (fst gsy_sys) (snd gsy_sys) (gsy_system_layout Hn) Hn Hx Hz
             P1 P2 P3 P4 P5 P6 P7 P8 x i Hi).
  Qed.

  (* ---- write-back (kernel state order: ey, ex, ez) ------------------------- *)
  Definition wb_stepY (bv : Z -> F) (iy : Z) (st : @Fld F) : @Fld F :=
    gauss_seidel_y_L5 sx sy sz eta_x eta_y eta_z zeta hx hy hz nu lhx nx lhy ny lhz nz
      (kof hx) (kof hy) (kof hz) 0 (fill1 0%F) (fill1 0%F) 0 bv (fill1 0%F) 0 0 iz (iz-1) (iz+1)
      0 ix (ix-1) (ix+1) iy st.
  Definition gsy_wb (bv : Z -> F) : @Fld F :=
    Zfold 1 (ny + 1) (fun iy st => wb_stepY bv iy st) (ey, ex, ez).

  Lemma L5_as_wbY iback m l nr bv am it izh ixh iy st :
    gauss_seidel_y_L5 sx sy sz eta_x eta_y eta_z zeta hx hy hz nu lhx nx lhy ny lhz nz
      (kof hx) (kof hy) (kof hz) iback m l nr bv am it izh iz (iz-1) (iz+1) ixh ix (ix-1) (ix+1) iy st
    = wb_stepY bv iy st.
  Proof. reflexivity. Qed.

  (* one (ixh) step of the kernel = assemble the line system, solve, write back *)
  Lemma gsy_L3_step iback nr it izh ixh (st7 : @St7 F) :
    node iback nx ixh = ix -> flds st7 = (ey, ex, ez) ->
    flds (gauss_seidel_y_L3 sx sy sz eta_x eta_y eta_z zeta hx hy hz nu lhx nx lhy ny lhz nz
            (kof hx) (kof hy) (kof hz) iback nr it izh iz (iz-1) (iz+1) ixh st7)
    = gsy_wb (snd (solve nr (fst gsy_sys) (snd gsy_sys))).
  Proof.
    intros Hn Hf. unfold flds in Hf.
    assert (Hy : snd (fst (fst st7)) = ey) by congruence.
    assert (Hx : snd (fst st7) = ex) by congruence.
    assert (Hz : snd st7 = ez) by congruence.
    cbv delta [gauss_seidel_y_L3 flds]. cbv beta. cbv zeta. cbn [fst snd].
    change (if negb (iback =? 0) then nx - ixh else ixh) with (node iback nx ixh).
    rewrite Hn, Hx, Hy, Hz.
    rewrite (Zfold_ext 1 (ny + 1) _ (fun h st => gsy_L4 (h - 1) st))
      by (intros i s _; apply L4_as_blk_y).
    change (Zfold 1 (ny + 1) (fun h st => gsy_L4 (h - 1) st) st0) with gsy_loop.
    match goal with |- (fst (fst ?W), snd (fst ?W), snd ?W) = _ =>
      transitivity W; [now destruct W as [[? ?] ?]|] end.
    unfold gsy_wb, gsy_sys. cbn [fst snd]. reflexivity.
  Qed.

  (* the write-back loop produces exactly the field e[bv] *)
  Definition lyYT (hi : Z) (x : Z -> F) : Z -> Z -> Z -> F := fun i j k =>
    if (i =? ix) && (k =? iz) && (0 <=? j) && (j <? hi) then x (5*j) else ey i j k.
  Definition lxYT (hi : Z) (x : Z -> F) : Z -> Z -> Z -> F := fun i j k =>
    if (k =? iz) && (1 <=? j) && (j <? hi) then
      (if i =? ix - 1 then x (5*(j-1)+1) else if i =? ix then x (5*(j-1)+2) else ex i j k)
    else ex i j k.
  Definition lzYT (hi : Z) (x : Z -> F) : Z -> Z -> Z -> F := fun i j k =>
    if (i =? ix) && (1 <=? j) && (j <? hi) then
      (if k =? iz - 1 then x (5*(j-1)+3) else if k =? iz then x (5*(j-1)+4) else ez i j k)
    else ez i j k.

  Lemma wb_stepY_inv bv t (w : @Fld F) : 1 <= t <= ny ->
    (forall i j k, fst (fst w) i j k = lyYT (t-1) bv i j k /\
                   snd (fst w) i j k = lxYT (Z.min t ny) bv i j k /\
                   snd w i j k = lzYT (Z.min t ny) bv i j k) ->
    (forall i j k, fst (fst (wb_stepY bv t w)) i j k = lyYT (t+1-1) bv i j k /\
                   snd (fst (wb_stepY bv t w)) i j k = lxYT (Z.min (t+1) ny) bv i j k /\
                   snd (wb_stepY bv t w) i j k = lzYT (Z.min (t+1) ny) bv i j k).
  Proof.
    intros Ht H i j k. destruct (H i j k) as (Hy & Hx & Hz).
    destruct w as [[fy fx] fz]. cbn [fst snd] in *.
    cbv delta [wb_stepY gauss_seidel_y_L5]. cbv beta. cbv zeta. cbn [fst snd].
    destruct (Z.ltb_spec (t - 1) (ny - 1)) as [Hlt|Hge]; cbn [fst snd].
    - replace (Z.min (t+1) ny) with (t+1) by lia. replace (Z.min t ny) with t in * by lia.
      repeat split.
      + unfold upd3. rewrite Hy. unfold lyYT.
        bdestr; cbn [andb]; try reflexivity; try lia; f_equal; lia.
      + unfold upd3. rewrite Hx. unfold lxYT.
        bdestr; cbn [andb]; try reflexivity; try lia; f_equal; lia.
      + unfold upd3. rewrite Hz. unfold lzYT.
        bdestr; cbn [andb]; try reflexivity; try lia; f_equal; lia.
    - assert (t = ny) by lia. subst t.
      replace (Z.min (ny+1) ny) with ny by lia. replace (Z.min ny ny) with ny in * by lia.
      repeat split; [|assumption|assumption].
      unfold upd3. rewrite Hy. unfold lyYT.
      bdestr; cbn [andb]; try reflexivity; try lia; f_equal; lia.
  Qed.

  Theorem gsy_wb_spec bv : 1 <= ny ->
    forall i j k, fst (fst (gsy_wb bv)) i j k = lyY bv i j k /\
                  snd (fst (gsy_wb bv)) i j k = lxY bv i j k /\
                  snd (gsy_wb bv) i j k = lzY bv i j k.
  Proof.
    intros Hn. unfold gsy_wb.
    assert (G : forall i j k,
      fst (fst (Zfold 1 (ny+1) (fun iy st => wb_stepY bv iy st) (ey, ex, ez))) i j k
        = lyYT (ny+1-1) bv i j k /\
      snd (fst (Zfold 1 (ny+1) (fun iy st => wb_stepY bv iy st) (ey, ex, ez))) i j k
        = lxYT (Z.min (ny+1) ny) bv i j k /\
      snd (Zfold 1 (ny+1) (fun iy st => wb_stepY bv iy st) (ey, ex, ez)) i j k
        = lzYT (Z.min (ny+1) ny) bv i j k).
    { apply (Zfold_ind (fun t w => forall i j k,
               fst (fst w) i j k = lyYT (t-1) bv i j k /\
               snd (fst w) i j k = lxYT (Z.min t ny) bv i j k /\
               snd w i j k = lzYT (Z.min t ny) bv i j k)); [lia| |].
      - intros i j k. cbn [fst snd]. unfold lyYT, lxYT, lzYT.
        replace (Z.min 1 ny) with 1 by lia.
        repeat split; bdestr; cbn [andb]; try reflexivity; lia.
      - intros t w Ht Hw. apply wb_stepY_inv; [lia|exact Hw]. }
    replace (ny+1-1) with ny in G by lia. replace (Z.min (ny+1) ny) with ny in G by lia.
    exact G.
  Qed.

  (* ---- corollaries with the banded solver --------------------------------- *)
  Definition gsy_sol : Z -> F := snd (solve (5*ny-4) (fst gsy_sys) (snd gsy_sys)).
  (* the field after the line step, in the kernel's state order (ey, ex, ez) ... *)
  Definition gsy_outk : @Fld F := gsy_wb gsy_sol.
  (* ... and in the order (ex, ey, ez) *)
  Definition gsy_out : @Fld F := (snd (fst gsy_outk), fst (fst gsy_outk), snd gsy_outk).

  Definition PivY : Prop := forall j, 0 <= j < 5*ny-4 -> pivot (5*ny-4) (fst gsy_sys) j <> 0%F.

  Theorem gsy_line_exact : 2 <= ny -> 1 <= ix -> 1 <= iz -> PECy -> PivY ->
    forall i, 0 <= i < 5*ny-4 -> line_resY gsy_sol (i / 5) (i mod 5) = 0%F.
  Proof.
    intros Hn Hx Hz Hpec Hpiv i Hi.
    rewrite <- (gsy_line_consistent Hn Hx Hz Hpec gsy_sol i Hi).
    apply (Fsub_zero Fth). unfold gsy_sol.
    apply (solve_correct Fth (5*ny-4) (fst gsy_sys) (snd gsy_sys) ltac:(lia) Hpiv i Hi).
  Qed.

  (* the current values of the line's unknowns *)
  Definition cur_lineY : Z -> F := fun i =>
    let a := i / 5 in let r := i mod 5 in
    if r =? 0 then ey ix a iz else if r =? 1 then ex (ix-1) (a+1) iz
    else if r =? 2 then ex ix (a+1) iz else if r =? 3 then ez ix (a+1) (iz-1)
    else ez ix (a+1) iz.

  Lemma cur_atY a r : 0 <= r < 5 ->
    cur_lineY (5*a+r) = if r =? 0 then ey ix a iz else if r =? 1 then ex (ix-1) (a+1) iz
    else if r =? 2 then ex ix (a+1) iz else if r =? 3 then ez ix (a+1) (iz-1)
    else ez ix (a+1) iz.
  Proof. intros Hr. unfold cur_lineY. cbv zeta. destruct (divmod5 a r Hr) as [-> ->]. reflexivity. Qed.

  Lemma lyY_cur i j k : lyY cur_lineY i j k = ey i j k.
  Proof.
    unfold lyY. bdestr; cbn [andb]; try reflexivity. subst.
    replace (5*j) with (5*j+0) by lia. now rewrite cur_atY by lia.
  Qed.
  Lemma lxY_cur i j k : lxY cur_lineY i j k = ex i j k.
  Proof.
    unfold lxY. bdestr; cbn [andb]; try reflexivity; subst; rewrite cur_atY by lia; cbn [Z.eqb Pos.eqb];
      f_equal; lia.
  Qed.
  Lemma lzY_cur i j k : lzY cur_lineY i j k = ez i j k.
  Proof.
    unfold lzY. bdestr; cbn [andb]; try reflexivity; subst; rewrite cur_atY by lia; cbn [Z.eqb Pos.eqb];
      f_equal; lia.
  Qed.

  (* the residual of a field (fx, fy, fz) on the edge of unknown 5a+r *)
  Definition fld_resY (fx fy fz : Z -> Z -> Z -> F) (a r : Z) : F :=
    if r =? 0 then Fsub (A_y fx fy fz eta_y zeta hx hy hz ix a iz) (sy ix a iz)
    else if r =? 1 then Fsub (A_x fx fy fz eta_x zeta hx hy hz (ix-1) (a+1) iz) (sx (ix-1) (a+1) iz)
    else if r =? 2 then Fsub (A_x fx fy fz eta_x zeta hx hy hz ix (a+1) iz) (sx ix (a+1) iz)
    else if r =? 3 then Fsub (A_z fx fy fz eta_z zeta hx hy hz ix (a+1) (iz-1)) (sz ix (a+1) (iz-1))
    else Fsub (A_z fx fy fz eta_z zeta hx hy hz ix (a+1) iz) (sz ix (a+1) iz).

  Lemma fld_resY_ext (fx fy fz gx gy gz : Z -> Z -> Z -> F) a r :
    (forall i j k, fx i j k = gx i j k) -> (forall i j k, fy i j k = gy i j k) ->
    (forall i j k, fz i j k = gz i j k) -> fld_resY fx fy fz a r = fld_resY gx gy gz a r.
  Proof.
    intros Hx Hy Hz. unfold fld_resY.
    unfold A_x, A_y, A_z, curlT_x, curlT_y, curlT_z, u_x, u_y, u_z, curl_x, curl_y, curl_z.
    rewrite ?Hx, ?Hy, ?Hz. reflexivity.
  Qed.

  Lemma line_resY_fld x a r : line_resY x a r = fld_resY (lxY x) (lyY x) (lzY x) a r.
  Proof. reflexivity. Qed.

  (* after the line step every equation of the line holds on the returned field *)
  Theorem gsy_line_exact_out : 2 <= ny -> 1 <= ix -> 1 <= iz -> PECy -> PivY ->
    forall i, 0 <= i < 5*ny-4 ->
      fld_resY (fst (fst gsy_out)) (snd (fst gsy_out)) (snd gsy_out) (i / 5) (i mod 5) = 0%F.
  Proof.
    intros Hn Hx Hz Hpec Hpiv i Hi. unfold gsy_out, gsy_outk. cbn [fst snd].
    rewrite (fld_resY_ext _ _ _ (lxY gsy_sol) (lyY gsy_sol) (lzY gsy_sol)).
    - rewrite <- line_resY_fld. now apply gsy_line_exact.
    - intros a b c. apply (gsy_wb_spec gsy_sol ltac:(lia) a b c).
    - intros a b c. apply (gsy_wb_spec gsy_sol ltac:(lia) a b c).
    - intros a b c. apply (gsy_wb_spec gsy_sol ltac:(lia) a b c).
  Qed.

  (* a field whose line equations hold is left unchanged by the line step *)
  Theorem gsy_line_fixed_point : 2 <= ny -> 1 <= ix -> 1 <= iz -> PECy -> PivY ->
    (forall i, 0 <= i < 5*ny-4 -> fld_resY ex ey ez (i / 5) (i mod 5) = 0%F) ->
    (forall i, 0 <= i < 5*ny-4 -> gsy_sol i = cur_lineY i) /\
    (forall i j k, fst (fst gsy_out) i j k = ex i j k /\ snd (fst gsy_out) i j k = ey i j k /\
                   snd gsy_out i j k = ez i j k).
  Proof.
    intros Hn Hx Hz Hpec Hpiv Hres.
    assert (FP : forall i, 0 <= i < 5*ny-4 -> gsy_sol i = cur_lineY i).
    { unfold gsy_sol.
      apply (solve_unique Fth (5*ny-4) (fst gsy_sys) (snd gsy_sys) ltac:(lia) Hpiv cur_lineY).
      intros i Hi. apply (Fsub_zero Fth).
      rewrite (gsy_line_consistent Hn Hx Hz Hpec cur_lineY i Hi), line_resY_fld.
      rewrite (fld_resY_ext _ _ _ ex ey ez _ _ lxY_cur lyY_cur lzY_cur). now apply Hres. }
    split; [exact FP|].
    intros i j k. unfold gsy_out, gsy_outk. cbn [fst snd].
    destruct (gsy_wb_spec gsy_sol ltac:(lia) i j k) as (Ey & Ex & Ez).
    rewrite Ex, Ey, Ez. rewrite <- (lxY_cur i j k), <- (lyY_cur i j k), <- (lzY_cur i j k).
    unfold lxY, lyY, lzY.
    repeat split; bdestr; cbn [andb]; try reflexivity; apply FP; lia.
  Qed.

  (* frame: the line step writes the line's interior edges and nothing else, for
     ANY solution vector (kernel state order ey, ex, ez) *)
  Theorem gsy_line_frame bv : 1 <= ny -> forall i j k,
    (fst (fst (gsy_wb bv)) i j k = ey i j k \/ (i = ix /\ k = iz /\ 0 <= j < ny)) /\
    (snd (fst (gsy_wb bv)) i j k = ex i j k \/ (k = iz /\ 1 <= j < ny /\ (i = ix - 1 \/ i = ix))) /\
    (snd (gsy_wb bv) i j k = ez i j k \/ (i = ix /\ 1 <= j < ny /\ (k = iz - 1 \/ k = iz))).
  Proof.
    intros Hn i j k. destruct (gsy_wb_spec bv Hn i j k) as (Ey & Ex & Ez).
    rewrite Ex, Ey, Ez. unfold lxY, lyY, lzY.
    repeat split; bdestr; cbn [andb]; try (left; reflexivity); right; lia.
  Qed.
End GSLineY.

(* ------------------------------------------------------------------ *)
(* the matrix of the line system does not depend on the field          *)
Section MatrixIndepY.
  Context {F : Type} {O : FOps F}.
  Variables (fx fy fz gx gy gz sx sy sz eta_x eta_y eta_z zeta : Z -> Z -> Z -> F).
  Variables (hx hy hz : Z -> F).
  Variables (nu lhx nx lhy ny lhz nz ix iz : Z).

  Lemma gsy_matrix_indep : 2 <= ny ->
    fst (gsy_sys fx fy fz sx sy sz eta_x eta_y eta_z zeta hx hy hz nu lhx nx lhy ny lhz nz ix iz)
    = fst (gsy_sys gx gy gz sx sy sz eta_x eta_y eta_z zeta hx hy hz nu lhx nx lhy ny lhz nz ix iz).
  Proof.
    intros Hn. unfold gsy_sys, gsy_loop. cbn [fst].
    apply (matrix_indep_gen ny
             (gsy_blk fx fy fz sx sy sz eta_x eta_y eta_z zeta hx hy hz nu lhx nx lhy ny lhz nz ix iz)
             (gsy_blk gx gy gz sx sy sz eta_x eta_y eta_z zeta hx hy hz nu lhx nx lhy ny lhz nz ix iz)
             (gsy_L4 fx fy fz sx sy sz eta_x eta_y eta_z zeta hx hy hz nu lhx nx lhy ny lhz nz ix iz)
             (gsy_L4 gx gy gz sx sy sz eta_x eta_y eta_z zeta hx hy hz nu lhx nx lhy ny lhz nz ix iz)).
    - apply gsy_L4_step.
    - apply gsy_L4_step.
    - apply gsy_blk_AB.
    - apply gsy_blk_AB.
    - intros. cbv delta [gsy_blk gauss_seidel_y_L4_call1 blkM]. cbv beta. reflexivity.
    - intros. cbv delta [gsy_blk gauss_seidel_y_L4_call1 blkL]. cbv beta. reflexivity.
    - exact Hn.
  Qed.
End MatrixIndepY.

(* ------------------------------------------------------------------ *)
(* lifting through the loops over ixh, izh and the nu sweeps            *)
Section GSYSweep.
  Context {F : Type} {O : FOps F}.
  Variables (sx sy sz eta_x eta_y eta_z zeta : Z -> Z -> Z -> F).
  Variables (hx hy hz : Z -> F).
  Variables (nu nx ny nz : Z).

  Notation L3 := (gauss_seidel_y_L3 sx sy sz eta_x eta_y eta_z zeta hx hy hz nu nx nx ny ny nz nz
                    (kof hx) (kof hy) (kof hz)).
  Notation L2 := (gauss_seidel_y_L2 sx sy sz eta_x eta_y eta_z zeta hx hy hz nu nx nx ny ny nz nz
                    (kof hx) (kof hy) (kof hz)).
  Notation L1 := (gauss_seidel_y_L1 sx sy sz eta_x eta_y eta_z zeta hx hy hz nu nx nx ny ny nz nz
                    (kof hx) (kof hy) (kof hz)).

  (* one line step on a field triple in the kernel's state order (ey, ex, ez) *)
  Definition linestepY (ix iz : Z) (f : @Fld F) : @Fld F :=
    gsy_outk (snd (fst f)) (fst (fst f)) (snd f) sx sy sz eta_x eta_y eta_z zeta hx hy hz
      nu nx nx ny ny nz nz ix iz.

  Section Invariant.
    Variable Inv : @Fld F -> Prop.
    Hypothesis Inv_step : forall ix iz f, 1 <= ix < nx -> 1 <= iz < nz -> Inv f -> Inv (linestepY ix iz f).

    Lemma L3y_inv iback it izh iz ixh (st : @St7 F) :
      (iback = 0 \/ iback = 1) -> 1 <= iz < nz -> 1 <= ixh < nx -> Inv (flds st) ->
      Inv (flds (L3 iback (5*ny-4) it izh iz (iz-1) (iz+1) ixh st)).
    Proof.
      intros Hb Hz Hx G.
      rewrite (gsy_L3_step (snd (fst st)) (snd (fst (fst st))) (snd st) sx sy sz eta_x eta_y eta_z zeta
                 hx hy hz nu nx nx ny ny nz nz (node iback nx ixh) iz iback (5*ny-4) it izh ixh st
                 eq_refl eq_refl).
      apply (Inv_step (node iback nx ixh) iz (flds st)); [apply node_range; assumption|assumption|exact G].
    Qed.

    Lemma L2y_inv iback it izh (st : @St7 F) :
      (iback = 0 \/ iback = 1) -> 1 <= izh < nz -> Inv (flds st) ->
      Inv (flds (L2 iback (5*ny-4) it izh st)).
    Proof.
      intros Hb Hz G.
      cbv delta [gauss_seidel_y_L2]. cbv beta. cbv zeta.
      match goal with
      | |- Inv (flds (_, _, _, _, snd (fst (fst ?t)), snd (fst ?t), snd ?t)) => change (Inv (flds t))
      end.
      pose proof (node_range iback nz izh Hb Hz) as Hzz.
      destruct (Z_le_gt_dec 1 nx) as [Hn|Hn].
      - apply (Zfold_ind (fun _ s => Inv (flds s))); [assumption|exact G|].
        intros j s Hj Gs.
        change (Inv (flds (L3 iback (5*ny-4) it izh (node iback nz izh) (node iback nz izh - 1)
                             (node iback nz izh + 1) j s))).
        apply L3y_inv; assumption.
      - rewrite Zfold_empty by lia. exact G.
    Qed.

    Lemma L1y_inv it (st : @St8 F) : Inv8 Inv st -> Inv8 Inv (L1 (5*ny-4) it st).
    Proof.
      intros [Hb G]. unfold iback8 in Hb.
      cbv delta [gauss_seidel_y_L1]. cbv beta. cbv zeta.
      set (ib := 1 - fst (fst (fst (fst (fst (fst (fst st))))))).
      assert (Hib : ib = 0 \/ ib = 1) by (unfold ib; lia).
      split; [exact Hib|].
      match goal with
      | |- Inv (flds8 (_, _, _, _, _, snd (fst (fst ?t)), snd (fst ?t), snd ?t)) => change (Inv (flds t))
      end.
      destruct (Z_le_gt_dec 1 nz) as [Hn|Hn].
      - apply (Zfold_ind (fun _ s => Inv (flds s))); [assumption|exact G|].
        intros k s Hk Gs. apply L2y_inv; assumption.
      - rewrite Zfold_empty by lia. exact G.
    Qed.

    Lemma sweepsy_inv (s0 : @St8 F) :
      Inv8 Inv s0 -> Inv8 Inv (Zfold 0 nu (fun it st => L1 (5*ny-4) it st) s0).
    Proof.
      intros G. destruct (Z_le_gt_dec 0 nu) as [Hn|Hn].
      - apply (Zfold_ind (fun _ s => Inv8 Inv s)); [assumption|exact G|].
        intros it s _ Gs. now apply L1y_inv.
      - now rewrite Zfold_empty by lia.
    Qed.
  End Invariant.
End GSYSweep.

(* ------------------------------------------------------------------ *)
(* the whole kernel, every number of sweeps nu, every shape             *)
Section GSYWhole.
  Context {F : Type} {O : FOps F}.
  Hypothesis Fth : field_theory F0 F1 Fadd Fmul Fsub Fopp Fdiv Finv (@eq F).
  Hypothesis two_nz : (1 + 1)%F <> 0%F.
  Variables (ex ey ez sx sy sz eta_x eta_y eta_z zeta : Z -> Z -> Z -> F).
  Variables (hx hy hz : Z -> F).
  Hypothesis hx_nz : forall i, hx i <> 0%F.
  Hypothesis hy_nz : forall i, hy i <> 0%F.
  Hypothesis hz_nz : forall i, hz i <> 0%F.
  Variables (nu nx ny nz : Z).

  (* kernel state order (ey, ex, ez) *)
  Definition GoodY (f : @Fld F) : Prop :=
    (forall i j l, fst (fst f) i j l = ey i j l) /\
    (forall i j l, snd (fst f) i j l = ex i j l) /\
    (forall i j l, snd f i j l = ez i j l).

  Section FixedPoint.
    Hypothesis Hny : 2 <= ny.
    Hypothesis exact : forall ix iz, 1 <= ix < nx -> 1 <= iz < nz -> forall i, 0 <= i < 5*ny-4 ->
      fld_resY sx sy sz eta_x eta_y eta_z zeta hx hy hz ix iz ex ey ez (i / 5) (i mod 5) = 0%F.
    Hypothesis pec : forall ix iz, 1 <= ix < nx -> 1 <= iz < nz -> PECy ex ez ny ix iz.
    Hypothesis pivots : forall ix iz, 1 <= ix < nx -> 1 <= iz < nz ->
      PivY ex ey ez sx sy sz eta_x eta_y eta_z zeta hx hy hz nu nx nx ny ny nz nz ix iz.

    Lemma GoodY_step ix iz f : 1 <= ix < nx -> 1 <= iz < nz -> GoodY f ->
      GoodY (linestepY sx sy sz eta_x eta_y eta_z zeta hx hy hz nu nx ny nz ix iz f).
    Proof.
      intros Hx Hz (Gy & Gx & Gz). destruct f as [[fy fx] fz]. cbn [fst snd] in Gx, Gy, Gz.
      unfold linestepY. cbn [fst snd].
      assert (PECf : PECy fx fz ny ix iz).
      { unfold PECy. rewrite !Gx, !Gz. exact (pec ix iz Hx Hz). }
      assert (PIVf : PivY fx fy fz sx sy sz eta_x eta_y eta_z zeta hx hy hz nu nx nx ny ny nz nz ix iz).
      { unfold PivY.
        rewrite (gsy_matrix_indep fx fy fz ex ey ez sx sy sz eta_x eta_y eta_z zeta hx hy hz
                   nu nx nx ny ny nz nz ix iz Hny).
        exact (pivots ix iz Hx Hz). }
      assert (RESf : forall i, 0 <= i < 5*ny-4 ->
                fld_resY sx sy sz eta_x eta_y eta_z zeta hx hy hz ix iz fx fy fz (i / 5) (i mod 5) = 0%F).
      { intros i Hi.
        rewrite (fld_resY_ext sx sy sz eta_x eta_y eta_z zeta hx hy hz ix iz fx fy fz ex ey ez _ _ Gx Gy Gz).
        exact (exact ix iz Hx Hz i Hi). }
      destruct (gsy_line_fixed_point Fth two_nz fx fy fz sx sy sz eta_x eta_y eta_z zeta hx hy hz
                  hx_nz hy_nz hz_nz nu nx nx ny ny nz nz ix iz Hny ltac:(lia) ltac:(lia) PECf PIVf RESf)
        as [_ Hout].
      unfold gsy_out in Hout. cbn [fst snd] in Hout.
      unfold GoodY. repeat split; intros i j l; destruct (Hout i j l) as (Ex & Ey & Ez).
      - rewrite Ey. apply Gy.
      - rewrite Ex. apply Gx.
      - rewrite Ez. apply Gz.
    Qed.

    Theorem gauss_seidel_y_fixed_point :
      let r := gauss_seidel_y nx ny nz ex ey ez sx sy sz eta_x eta_y eta_z zeta hx hy hz nu in
      forall i j l, fst (fst r) i j l = ex i j l /\ snd (fst r) i j l = ey i j l /\ snd r i j l = ez i j l.
    Proof.
      cbv zeta. cbv delta [gauss_seidel_y]. cbv beta. cbv zeta. cbn [fst snd].
      set (t := Zfold 0 nu _ _).
      assert (G : Inv8 GoodY t).
      { subst t.
        apply (sweepsy_inv sx sy sz eta_x eta_y eta_z zeta hx hy hz nu nx ny nz GoodY).
        - intros ix iz f Hx Hz Gf. now apply GoodY_step.
        - split; [left; reflexivity|]. repeat split; reflexivity. }
      destruct G as [_ (Gy & Gx & Gz)]. cbn [flds8 fst snd] in Gx, Gy, Gz.
      intros i j l. repeat split; [apply Gx|apply Gy|apply Gz].
    Qed.
  End FixedPoint.

  (* frame: only interior edges of interior lines are ever written *)
  Definition FrameY (f : @Fld F) : Prop :=
    (forall i j l, (i <= 0 \/ nx <= i \/ j < 0 \/ ny <= j \/ l <= 0 \/ nz <= l) ->
       fst (fst f) i j l = ey i j l) /\
    (forall i j l, (i < 0 \/ nx <= i \/ j <= 0 \/ ny <= j \/ l <= 0 \/ nz <= l) ->
       snd (fst f) i j l = ex i j l) /\
    (forall i j l, (i <= 0 \/ nx <= i \/ j <= 0 \/ ny <= j \/ l < 0 \/ nz <= l) ->
       snd f i j l = ez i j l).

  Lemma FrameY_step ix iz f : 1 <= ix < nx -> 1 <= iz < nz -> FrameY f ->
    FrameY (linestepY sx sy sz eta_x eta_y eta_z zeta hx hy hz nu nx ny nz ix iz f).
  Proof.
    intros Hx Hz (Gy & Gx & Gz). destruct f as [[fy fx] fz]. cbn [fst snd] in Gx, Gy, Gz.
    unfold linestepY, gsy_outk. cbn [fst snd].
    destruct (Z_le_gt_dec 1 ny) as [Hn|Hn].
    - set (bv := gsy_sol _ _ _ _ _ _ _ _ _ _ _ _ _ _ _ _ _ _ _ _ _ _). clearbody bv.
      pose proof (gsy_line_frame fx fy fz sx sy sz eta_x eta_y eta_z zeta hx hy hz nu nx nx ny ny nz nz
                    ix iz bv Hn) as Hfr.
      unfold FrameY. repeat split; intros i j l Hb; destruct (Hfr i j l) as (Ey & Ex & Ez).
      + destruct Ey as [Ey|Ey]; [rewrite Ey; now apply Gy|lia].
      + destruct Ex as [Ex|Ex]; [rewrite Ex; now apply Gx|lia].
      + destruct Ez as [Ez|Ez]; [rewrite Ez; now apply Gz|lia].
    - unfold gsy_wb. rewrite Zfold_empty by lia. cbn [fst snd]. repeat split; assumption.
  Qed.

  Theorem gauss_seidel_y_frame :
    let r := gauss_seidel_y nx ny nz ex ey ez sx sy sz eta_x eta_y eta_z zeta hx hy hz nu in
    (forall i j l, (i < 0 \/ nx <= i \/ j <= 0 \/ ny <= j \/ l <= 0 \/ nz <= l) ->
       fst (fst r) i j l = ex i j l) /\
    (forall i j l, (i <= 0 \/ nx <= i \/ j < 0 \/ ny <= j \/ l <= 0 \/ nz <= l) ->
       snd (fst r) i j l = ey i j l) /\
    (forall i j l, (i <= 0 \/ nx <= i \/ j <= 0 \/ ny <= j \/ l < 0 \/ nz <= l) ->
       snd r i j l = ez i j l).
  Proof.
    cbv zeta. cbv delta [gauss_seidel_y]. cbv beta. cbv zeta. cbn [fst snd].
    set (t := Zfold 0 nu _ _).
    assert (G : Inv8 FrameY t).
    { subst t.
      apply (sweepsy_inv sx sy sz eta_x eta_y eta_z zeta hx hy hz nu nx ny nz FrameY).
      - intros ix iz f Hx Hz Gf. now apply FrameY_step.
      - split; [left; reflexivity|]. repeat split; intros; reflexivity. }
    destruct G as [_ (Gy & Gx & Gz)]. cbn [flds8 fst snd] in Gx, Gy, Gz.
    repeat split; assumption.
  Qed.
End GSYWhole.

(* ------------------------------------------------------------------ *)
(* Non-vacuity: 2 x 3 x 2 grid over Q, line (ix,iz) = (1,1), n = 11.   *)
From Coq Require Import QArith.
From V Require Import Base.ExecQ.
Local Open Scope Z_scope.
Definition yex (i j k : Z) : Q := if (j =? 0) || (j =? 3) then 0%F else qz (1 + i - 2 * j + 3 * k) 2.
Definition yey (i j k : Z) : Q := qz (2 - i + j + k) 3.
Definition yez (i j k : Z) : Q := if (j =? 0) || (j =? 3) then 0%F else qz (1 + 2 * i - j + k) 4.
Definition ysx : Z -> Z -> Z -> Q := A_x yex yey yez xeta xzeta xh xh xh.
Definition ysy : Z -> Z -> Z -> Q := A_y yex yey yez xeta xzeta xh xh xh.
Definition ysz : Z -> Z -> Z -> Q := A_z yex yey yez xeta xzeta xh xh xh.

Example gsy_hyps_example :
  PivY yex yey yez ysx ysy ysz xeta xeta xeta xzeta xh xh xh 1 2 2 3 3 2 2 1 1 /\
  PECy yex yez 3 1 1 /\
  (forall i, 0 <= i < 11 ->
     fld_resY ysx ysy ysz xeta xeta xeta xzeta xh xh xh 1 1 yex yey yez (i / 5) (i mod 5) = 0%F) /\
  yey 1 1 1 <> 0%F /\ yex 1 1 1 <> 0%F /\ yez 1 2 1 <> 0%F.
Proof.
  split; [|split; [|split; [|repeat split]]].
  - unfold PivY. change (5 * 3 - 4) with 11.
    by_nz qzero 11 (ldl 11 (fst (gsy_sys yex yey yez ysx ysy ysz xeta xeta xeta xzeta xh xh xh
                                   1 2 2 3 3 2 2 1 1))).
  - unfold PECy. repeat split; vm_compute; reflexivity.
  - by_dump 11 (fun i => fld_resY ysx ysy ysz xeta xeta xeta xzeta xh xh xh 1 1 yex yey yez
                           (i / 5) (i mod 5)) (fun _ : Z => 0%F).
  - vm_compute; discriminate.
  - vm_compute; discriminate.
  - vm_compute; discriminate.
Qed.

Print Assumptions gsy_system_layout.
Print Assumptions gsy_sys_is_call1.
Print Assumptions gsy_row_consistent.
Print Assumptions gsy_line_consistent.
Print Assumptions gsy_L3_step.
Print Assumptions gsy_wb_spec.
Print Assumptions gsy_line_exact.
Print Assumptions gsy_line_exact_out.
Print Assumptions gsy_line_fixed_point.
Print Assumptions gsy_line_frame.
Print Assumptions gsy_matrix_indep.
Print Assumptions sweepsy_inv.
Print Assumptions gauss_seidel_y_fixed_point.
Print Assumptions gauss_seidel_y_frame.
Print Assumptions gsy_hyps_example.
