(* Proofs/VolAvgInd.v -- C15: the unbounded 1-D statements about va_weights, for
   ALL strictly increasing node lists (any length), by induction:
   stateful loop = stateless description, the index is the cell containing the
   interval centre / the nearest cell outside the source grid, and the merged
   intervals assigned to a cell tile it (weights sum to its width). *)
From Coq Require Import Reals ZArith Bool List Arith Lra Lia Sorted FinFun.
From V Require Import Base.FieldSig Model.VolAvg Proofs.VolAvg.
Import ListNotations.
Local Open Scope R_scope.

Notation sorted := (StronglySorted Rlt).

Lemma sorted_tail a t : sorted (a :: t) -> sorted t.
Proof. intros H; inversion H; assumption. Qed.
Lemma sorted_head_lt a t y : sorted (a :: t) -> In y t -> a < y.
Proof. intros H Hy; inversion H as [|? ? _ Hall]; subst. rewrite Forall_forall in Hall. auto. Qed.

Lemma sorted_nth_lt x : sorted x -> forall i k, (i < k)%nat -> (k < length x)%nat ->
  nth i x 0 < nth k x 0.
Proof.
  induction x as [|y t IH]; intros Hs i k Hik Hk; cbn in Hk; [lia|].
  destruct k; [lia|]. destruct i; cbn [nth].
  - apply (sorted_head_lt y t); [exact Hs|]. apply nth_In. lia.
  - apply IH; [eapply sorted_tail; eauto|lia|lia].
Qed.
Lemma sorted_nth_le x i k : sorted x -> (i <= k)%nat -> (k < length x)%nat ->
  nth i x 0 <= nth k x 0.
Proof.
  intros Hs Hik Hk. destruct (Nat.eq_dec i k) as [->|Hne]; [lra|].
  left. apply sorted_nth_lt; auto; lia.
Qed.

(* ------------------------------------------------- counting nodes <= c *)
Definition cnt (x : list R) (c : R) : nat := length (filter (fun y => Rleb y c) x).
Lemma cnt_cons y t c : cnt (y :: t) c = if Rleb y c then S (cnt t c) else cnt t c.
Proof. unfold cnt; cbn [filter]. destruct (Rleb y c); reflexivity. Qed.
Lemma capcount_cnt x c : capcount Rleb x c = Nat.min (length x - 1) (cnt x c).
Proof. reflexivity. Qed.

Lemma cnt_all_gt x c : (forall y, In y x -> c < y) -> cnt x c = 0%nat.
Proof.
  induction x as [|a x IH]; intros H; [reflexivity|]. rewrite cnt_cons.
  destruct (Rleb a c) eqn:E.
  - apply Rleb_true in E. specialize (H a (or_introl eq_refl)). lra.
  - apply IH. intros; apply H; now right.
Qed.

(* in a sorted list the nodes <= c form a prefix of length cnt *)
Lemma nth_le_iff x c : sorted x -> forall i, (i < length x)%nat ->
  (nth i x 0 <= c <-> (i < cnt x c)%nat).
Proof.
  induction x as [|y t IH]; intros Hs i Hi; cbn in Hi; [lia|].
  rewrite cnt_cons. destruct (Rleb y c) eqn:E.
  - apply Rleb_true in E. destruct i; cbn [nth].
    + split; [lia|auto].
    + rewrite IH; [lia|eapply sorted_tail; eauto|lia].
  - apply Rleb_false in E.
    assert (Hz : cnt t c = 0%nat).
    { apply cnt_all_gt. intros z Hz. pose proof (sorted_head_lt _ _ _ Hs Hz). lra. }
    rewrite Hz. split; [|lia]. intros Hn. exfalso.
    destruct i; cbn [nth] in Hn; [lra|].
    assert (Hin : In (nth i t 0) t) by (apply nth_In; lia).
    pose proof (sorted_head_lt _ _ _ Hs Hin). lra.
Qed.

Lemma filter_length_mono {A} (f g : A -> bool) l :
  (forall a, f a = true -> g a = true) -> (length (filter f l) <= length (filter g l))%nat.
Proof.
  intros H. induction l as [|a l IH]; cbn; [lia|].
  destruct (f a) eqn:E.
  - rewrite (H a E). cbn. lia.
  - destruct (g a); cbn; lia.
Qed.
Lemma capcount_mono x c c' : c <= c' -> (capcount Rleb x c <= capcount Rleb x c')%nat.
Proof.
  intros H. unfold capcount. apply Nat.min_le_compat_l. apply filter_length_mono.
  intros y Hy. apply Rleb_true in Hy. apply Rleb_true. lra.
Qed.

(* ---------------------------------------------- a while-scan ends at capcount *)
Lemma scan_capcount x c : sorted x -> forall fuel i,
  (i <= capcount Rleb x c)%nat -> (length x - 1 - i < fuel)%nat ->
  scan Rleb fuel x (length x) c i = capcount Rleb x c.
Proof.
  intros Hs. induction fuel as [|f IH]; intros i Hi Hf; [lia|].
  cbn [scan]. destruct (Nat.ltb i (length x - 1)) eqn:E1; cbn [andb].
  - apply Nat.ltb_lt in E1.
    match goal with |- context [Rleb ?u c] => destruct (Rleb u c) eqn:E2 end.
    + apply Rleb_true in E2. apply (nth_le_iff x c Hs i) in E2; [|lia].
      apply IH; [rewrite capcount_cnt; lia|lia].
    + apply Rleb_false in E2. rewrite capcount_cnt in *.
      assert (~ (i < cnt x c)%nat).
      { intros H. apply (nth_le_iff x c Hs i) in H; [|lia].
        change (@F0 R ROps) with 0 in E2. lra. }
      lia.
  - apply Nat.ltb_ge in E1. rewrite capcount_cnt in *. lia.
Qed.

Lemma half_centre a b : (half * (a + b))%F = (a + b) / 2.
Proof. unfold half. cbn. field. Qed.

(* ------------------------------- stateful loop = stateless description *)
Definition first_centre_ok (x : list R) (i : nat) (xs : list R) : Prop :=
  match xs with
  | a :: b :: _ => (i <= capcount Rleb x (half * (a + b))%F)%nat
  | _ => True
  end.

Lemma va_loop_pairs x_i x_o lo hi :
  sorted x_i -> sorted x_o -> (1 <= length x_i)%nat -> (1 <= length x_o)%nat ->
  forall xs, sorted xs -> forall i1 i2,
  first_centre_ok x_i i1 xs -> first_centre_ok x_o i2 xs ->
  va_loop Rleb x_i x_o (length x_i) (length x_o) lo hi xs i1 i2
  = va_pairs Rleb x_i x_o lo hi xs.
Proof.
  intros Hi Ho Li Lo. induction xs as [|a t IH]; intros Hs i1 i2 H1 H2; [reflexivity|].
  destruct t as [|b rest]; [reflexivity|].
  cbn [va_loop va_pairs]. cbv zeta.
  assert (Hab : a < b) by (apply (sorted_head_lt a (b :: rest)); [exact Hs|now left]).
  assert (Hs' : sorted (b :: rest)) by (eapply sorted_tail; eauto).
  cbn [first_centre_ok] in H1, H2.
  set (c := (half * (a + b))%F) in *.
  assert (Hnext : forall x i, (i <= capcount Rleb x c)%nat -> first_centre_ok x i (b :: rest)).
  { intros x i Hle. destruct rest as [|b' r]; cbn [first_centre_ok]; [exact I|].
    etransitivity; [exact Hle|]. apply capcount_mono.
    assert (b < b') by (apply (sorted_head_lt b (b' :: r)); [exact Hs'|now left]).
    subst c. rewrite !half_centre. lra. }
  destruct (Rleb lo c && Rleb c hi)%bool.
  - rewrite (scan_capcount x_i c Hi) by (auto; lia).
    rewrite (scan_capcount x_o c Ho) by (auto; lia).
    unfold cell_of. f_equal. apply IH; auto; apply Hnext; lia.
  - apply IH; auto; apply Hnext; assumption.
Qed.

Lemma va_weights_stateless x_i x_o :
  sorted x_i -> sorted x_o -> (1 <= length x_i)%nat -> (1 <= length x_o)%nat ->
  va_weights Rleb x_i x_o
  = va_pairs Rleb x_i x_o (nth 0 x_o 0) (nth (length x_o - 1) x_o 0) (usort Rleb (x_i ++ x_o)).
Proof.
  intros Hi Ho Li Lo. unfold va_weights. cbv zeta.
  apply va_loop_pairs; auto.
  - apply usort_sorted.
  - destruct (usort Rleb (x_i ++ x_o)) as [|a [|b r]]; cbn; auto; lia.
  - destruct (usort Rleb (x_i ++ x_o)) as [|a [|b r]]; cbn; auto; lia.
Qed.

(* -------------------- the index: cell containing the centre / nearest cell *)
Lemma cell_of_inside x c k : sorted x -> (k + 1 < length x)%nat ->
  nth k x 0 <= c -> c < nth (k + 1) x 0 -> cell_of Rleb x c = k.
Proof.
  intros Hs Hk H1 H2. unfold cell_of, clampi. rewrite capcount_cnt.
  apply (nth_le_iff x c Hs k) in H1; [|lia].
  assert (~ (k + 1 < cnt x c)%nat).
  { intros H. apply (nth_le_iff x c Hs (k + 1)%nat) in H; [lra|lia]. }
  lia.
Qed.
Lemma cell_of_left x c : sorted x -> (2 <= length x)%nat ->
  c < nth 0 x 0 -> cell_of Rleb x c = 0%nat.
Proof.
  intros Hs Hn H. unfold cell_of, clampi. rewrite capcount_cnt.
  assert (~ (0 < cnt x c)%nat).
  { intros H0. apply (nth_le_iff x c Hs 0%nat) in H0; [lra|lia]. }
  lia.
Qed.
Lemma cell_of_right x c : sorted x -> (2 <= length x)%nat ->
  nth (length x - 1) x 0 <= c -> cell_of Rleb x c = (length x - 2)%nat.
Proof.
  intros Hs Hn H. unfold cell_of, clampi. rewrite capcount_cnt.
  apply (nth_le_iff x c Hs (length x - 1)%nat) in H; [|lia]. lia.
Qed.
Lemma cell_of_bound x c : (2 <= length x)%nat -> (cell_of Rleb x c < length x - 1)%nat.
Proof. intros Hn. unfold cell_of, clampi. rewrite capcount_cnt. lia. Qed.

(* ------------------------------------------------------------------ tiling *)
(* contribution of the merged intervals to cell j of the node list x *)
Fixpoint Gsum (x : list R) (lo hi : R) (j : nat) (xs : list R) : R :=
  match xs with
  | a :: t =>
      match t with
      | b :: _ =>
          (if (Rleb lo (half * (a + b))%F && Rleb (half * (a + b))%F hi)%bool
           then (if Nat.eqb (cell_of Rleb x (half * (a + b))%F) j then b - a else 0) else 0)
          + Gsum x lo hi j t
      | [] => 0
      end
  | [] => 0
  end.
(* total length of the merged intervals inside [p, q] *)
Fixpoint tele (p q : R) (xs : list R) : R :=
  match xs with
  | a :: t =>
      match t with
      | b :: _ => (if (Rleb p a && Rleb b q)%bool then b - a else 0) + tele p q t
      | [] => 0
      end
  | [] => 0
  end.

Lemma wsum_out_cons (t : R * nat * nat) T j :
  wsum_out Nat.eqb (t :: T) j = (if Nat.eqb (snd t) j then fst (fst t) else 0) + wsum_out Nat.eqb T j.
Proof. reflexivity. Qed.
Lemma wsum_in_cons (t : R * nat * nat) T j :
  wsum_in Nat.eqb (t :: T) j
  = (if Nat.eqb (snd (fst t)) j then fst (fst t) else 0) + wsum_in Nat.eqb T j.
Proof. reflexivity. Qed.

Lemma va_pairs_cons2 x_i x_o lo hi a b rest :
  va_pairs Rleb x_i x_o lo hi (a :: b :: rest)
  = if (Rleb lo (half * (a + b))%F && Rleb (half * (a + b))%F hi)%bool
    then ((b - a)%F, cell_of Rleb x_i (half * (a + b))%F, cell_of Rleb x_o (half * (a + b))%F)
           :: va_pairs Rleb x_i x_o lo hi (b :: rest)
    else va_pairs Rleb x_i x_o lo hi (b :: rest).
Proof. reflexivity. Qed.
Lemma Gsum_cons2 x lo hi j a b rest :
  Gsum x lo hi j (a :: b :: rest)
  = (if (Rleb lo (half * (a + b))%F && Rleb (half * (a + b))%F hi)%bool
     then (if Nat.eqb (cell_of Rleb x (half * (a + b))%F) j then b - a else 0) else 0)
    + Gsum x lo hi j (b :: rest).
Proof. reflexivity. Qed.
Lemma tele_cons2 p q a b rest :
  tele p q (a :: b :: rest)
  = (if (Rleb p a && Rleb b q)%bool then b - a else 0) + tele p q (b :: rest).
Proof. reflexivity. Qed.

Lemma wsum_out_pairs x_i x_o lo hi j xs :
  wsum_out Nat.eqb (va_pairs Rleb x_i x_o lo hi xs) j = Gsum x_o lo hi j xs.
Proof.
  induction xs as [|a t IH]; [reflexivity|]. destruct t as [|b rest]; [reflexivity|].
  rewrite va_pairs_cons2, Gsum_cons2.
  destruct (Rleb lo (half * (a + b))%F && Rleb (half * (a + b))%F hi)%bool.
  - rewrite wsum_out_cons, IH. reflexivity.
  - rewrite IH. lra.
Qed.
Lemma wsum_in_pairs x_i x_o lo hi j xs :
  wsum_in Nat.eqb (va_pairs Rleb x_i x_o lo hi xs) j = Gsum x_i lo hi j xs.
Proof.
  induction xs as [|a t IH]; [reflexivity|]. destruct t as [|b rest]; [reflexivity|].
  rewrite va_pairs_cons2, Gsum_cons2.
  destruct (Rleb lo (half * (a + b))%F && Rleb (half * (a + b))%F hi)%bool.
  - rewrite wsum_in_cons, IH. reflexivity.
  - rewrite IH. lra.
Qed.

(* every node of x is in the (suffix of the) merged list or left of it *)
Definition Sep (x xs : list R) : Prop :=
  forall y, In y x -> In y xs \/ (forall z, In z xs -> y < z).

Lemma Sep_tail x a t : sorted (a :: t) -> Sep x (a :: t) -> Sep x t.
Proof.
  intros Hs H y Hy. destruct (H y Hy) as [[<-|Hin]|Hlt].
  - right. intros z Hz. eapply sorted_head_lt; eauto.
  - now left.
  - right. intros z Hz. apply Hlt. now right.
Qed.
Lemma Sep_head x a b rest y :
  sorted (a :: b :: rest) -> Sep x (a :: b :: rest) -> In y x -> y <= a \/ b <= y.
Proof.
  intros Hs H Hy. destruct (H y Hy) as [[<-|[<-|Hin]]|Hlt].
  - left; lra.
  - right; lra.
  - right. left. apply (sorted_head_lt b rest); [eapply sorted_tail; eauto|exact Hin].
  - left. left. apply Hlt. now left.
Qed.

(* the head interval belongs to cell j of x  iff  it lies inside [x_j, x_{j+1}] *)
Lemma head_term x j a b w :
  sorted x -> (j + 1 < length x)%nat -> a < b ->
  (forall y, In y x -> y <= a \/ b <= y) ->
  (if (Rleb (nth 0 x 0) (half * (a + b))%F
       && Rleb (half * (a + b))%F (nth (length x - 1) x 0))%bool
   then (if Nat.eqb (cell_of Rleb x (half * (a + b))%F) j then w else 0) else 0)
  = (if (Rleb (nth j x 0) a && Rleb b (nth (j + 1) x 0))%bool then w else 0).
Proof.
  intros Hs Hj Hab Hsep. rewrite half_centre. set (c := (a + b) / 2).
  assert (Hac : a < c) by (unfold c; lra). assert (Hcb : c < b) by (unfold c; lra).
  assert (In0 : In (nth 0 x 0) x) by (apply nth_In; lia).
  assert (InL : In (nth (length x - 1) x 0) x) by (apply nth_In; lia).
  assert (Inj : In (nth j x 0) x) by (apply nth_In; lia).
  assert (Inj1 : In (nth (j + 1) x 0) x) by (apply nth_In; lia).
  destruct (Rleb (nth j x 0) a) eqn:Ep; [destruct (Rleb b (nth (j + 1) x 0)) eqn:Eq|]; cbn [andb].
  - (* inside *)
    apply Rleb_true in Ep. apply Rleb_true in Eq.
    assert (L1 : nth 0 x 0 <= nth j x 0) by (apply sorted_nth_le; auto; lia).
    assert (L2 : nth (j + 1) x 0 <= nth (length x - 1) x 0) by (apply sorted_nth_le; auto; lia).
    replace (Rleb (nth 0 x 0) c) with true by (symmetry; apply Rleb_true; lra).
    replace (Rleb c (nth (length x - 1) x 0)) with true by (symmetry; apply Rleb_true; lra).
    cbn [andb]. rewrite (cell_of_inside x c j Hs Hj) by lra. now rewrite Nat.eqb_refl.
  - apply Rleb_true in Ep. apply Rleb_false in Eq.
    destruct (Rleb (nth 0 x 0) c && Rleb c (nth (length x - 1) x 0))%bool eqn:Ek; [|reflexivity].
    destruct (Nat.eqb (cell_of Rleb x c) j) eqn:Ec; [|reflexivity]. exfalso.
    apply Nat.eqb_eq in Ec. apply andb_true_iff in Ek. destruct Ek as [Ek1 Ek2].
    apply Rleb_true in Ek1. apply Rleb_true in Ek2.
    (* x_{j+1} < b, hence (separation) x_{j+1} <= a < c: the index is > j *)
    destruct (Hsep _ Inj1) as [H|H]; [|lra].
    destruct (Nat.eq_dec (j + 2) (length x)) as [Hlast|Hnl].
    + replace (length x - 1)%nat with (j + 1)%nat in Ek2 by lia. lra.
    + unfold cell_of, clampi in Ec. rewrite capcount_cnt in Ec.
      assert ((j + 1 < cnt x c)%nat) by (apply (nth_le_iff x c Hs); [lia|lra]).
      lia.
  - apply Rleb_false in Ep.
    destruct (Rleb (nth 0 x 0) c && Rleb c (nth (length x - 1) x 0))%bool eqn:Ek; [|reflexivity].
    destruct (Nat.eqb (cell_of Rleb x c) j) eqn:Ec; [|reflexivity]. exfalso.
    apply Nat.eqb_eq in Ec. apply andb_true_iff in Ek. destruct Ek as [Ek1 Ek2].
    apply Rleb_true in Ek1. apply Rleb_true in Ek2.
    (* a < x_j, hence (separation) b <= x_j and c < x_j: the index is < j *)
    destruct (Hsep _ Inj) as [H|H]; [lra|].
    unfold cell_of, clampi in Ec. rewrite capcount_cnt in Ec.
    assert (~ (j < cnt x c)%nat).
    { intros H0. apply (nth_le_iff x c Hs j) in H0; [lra|lia]. }
    destruct j; [lra|lia].
Qed.

Lemma Gsum_tele x j :
  sorted x -> (j + 1 < length x)%nat ->
  forall xs, sorted xs -> Sep x xs ->
  Gsum x (nth 0 x 0) (nth (length x - 1) x 0) j xs = tele (nth j x 0) (nth (j + 1) x 0) xs.
Proof.
  intros Hs Hj. induction xs as [|a t IH]; intros Hxs Hsep; [reflexivity|].
  destruct t as [|b rest]; [reflexivity|].
  rewrite Gsum_cons2, tele_cons2.
  rewrite IH; [|eapply sorted_tail; eauto|eapply Sep_tail; eauto].
  f_equal. apply head_term; auto.
  - apply (sorted_head_lt a (b :: rest)); [exact Hxs|now left].
  - intros y Hy. eapply Sep_head; eauto.
Qed.

(* telescoping *)
Lemma tele_zero p q a t : sorted (a :: t) -> q <= a -> tele p q (a :: t) = 0.
Proof.
  revert a. induction t as [|b rest IH]; intros a Hs Hq; [reflexivity|].
  rewrite tele_cons2. assert (a < b) by (apply (sorted_head_lt a (b :: rest)); [exact Hs|now left]).
  replace (Rleb b q) with false by (symmetry; apply Rleb_false; lra).
  rewrite andb_false_r, IH; [lra|eapply sorted_tail; eauto|lra].
Qed.
Lemma tele_from p q a t : sorted (a :: t) -> p <= a -> In q (a :: t) -> tele p q (a :: t) = q - a.
Proof.
  revert a. induction t as [|b rest IH]; intros a Hs Hp Hq.
  - destruct Hq as [<-|[]]. cbn. lra.
  - assert (Hab : a < b) by (apply (sorted_head_lt a (b :: rest)); [exact Hs|now left]).
    destruct Hq as [<-|Hq].
    + rewrite tele_zero; [lra|exact Hs|lra].
    + assert (b <= q).
      { destruct Hq as [<-|Hq]; [lra|]. left.
        apply (sorted_head_lt b rest); [eapply sorted_tail; eauto|exact Hq]. }
      rewrite tele_cons2.
      replace (Rleb p a) with true by (symmetry; apply Rleb_true; lra).
      replace (Rleb b q) with true by (symmetry; apply Rleb_true; lra).
      cbn [andb]. rewrite IH; [lra|eapply sorted_tail; eauto|lra|exact Hq].
Qed.
Lemma tele_sum p q xs : sorted xs -> In p xs -> In q xs -> p <= q -> tele p q xs = q - p.
Proof.
  induction xs as [|a t IH]; intros Hs Hp Hq Hpq; [destruct Hp|].
  destruct Hp as [->|Hp].
  - apply tele_from; auto; lra.
  - assert (a < p) by (eapply sorted_head_lt; eauto).
    destruct Hq as [->|Hq]; [lra|].
    destruct t as [|b rest]; [destruct Hp|]. rewrite tele_cons2.
    replace (Rleb p a) with false by (symmetry; apply Rleb_false; lra).
    cbn [andb]. rewrite IH; [lra|eapply sorted_tail; eauto|exact Hp|exact Hq|exact Hpq].
Qed.

(* the merged list contains exactly the nodes of both grids *)
Lemma uinsert_in_conv x l y : (y = x \/ In y l) -> In y (uinsert Rleb x l).
Proof.
  induction l as [|z l IH]; cbn.
  - intros [->|[]]; now left.
  - destruct (Rleb x z) eqn:E1; [destruct (Rleb z x) eqn:E2|].
    + apply Rleb_true in E1. apply Rleb_true in E2.
      intros [->|H]; [left; lra|exact H].
    + intros [->|H]; [now left|now right].
    + intros [->|[->|H]]; [right; apply IH; now left|now left|right; apply IH; now right].
Qed.
Lemma usort_in l y : In y l -> In y (usort Rleb l).
Proof.
  induction l as [|x l IH]; [intros []|]. cbn [usort fold_right].
  intros [<-|H]; apply uinsert_in_conv; [now left|right; apply IH; exact H].
Qed.

(* ---- the tiling theorems, for all strictly increasing node lists ---------- *)
Lemma va_weights_tile_out x_i x_o j :
  sorted x_i -> sorted x_o -> (1 <= length x_i)%nat -> (j + 1 < length x_o)%nat ->
  wsum_out Nat.eqb (va_weights Rleb x_i x_o) j = nth (j + 1) x_o 0 - nth j x_o 0.
Proof.
  intros Hi Ho Li Hj.
  rewrite va_weights_stateless by (auto; lia).
  rewrite wsum_out_pairs, (Gsum_tele x_o j Ho Hj).
  - apply tele_sum.
    + apply usort_sorted.
    + apply usort_in, in_or_app. right. apply nth_In. lia.
    + apply usort_in, in_or_app. right. apply nth_In. lia.
    + left. apply sorted_nth_lt; auto; lia.
  - apply usort_sorted.
  - intros y Hy. left. apply usort_in, in_or_app. now right.
Qed.

Lemma va_weights_tile_in x_i x_o i :
  sorted x_i -> sorted x_o -> (1 <= length x_o)%nat -> (i + 1 < length x_i)%nat ->
  nth 0 x_i 0 = nth 0 x_o 0 -> nth (length x_i - 1) x_i 0 = nth (length x_o - 1) x_o 0 ->
  wsum_in Nat.eqb (va_weights Rleb x_i x_o) i = nth (i + 1) x_i 0 - nth i x_i 0.
Proof.
  intros Hi Ho Lo Hj E0 E1.
  rewrite va_weights_stateless by (auto; lia).
  rewrite wsum_in_pairs, <- E0, <- E1, (Gsum_tele x_i i Hi Hj).
  - apply tele_sum.
    + apply usort_sorted.
    + apply usort_in, in_or_app. left. apply nth_In. lia.
    + apply usort_in, in_or_app. left. apply nth_In. lia.
    + left. apply sorted_nth_lt; auto; lia.
  - apply usort_sorted.
  - intros y Hy. left. apply usort_in, in_or_app. now left.
Qed.

(* ---------------------------------------------------------------- identity *)
Lemma uinsert_head a t : sorted (a :: t) -> uinsert Rleb a t = a :: t.
Proof.
  intros Hs. destruct t as [|b r]; [reflexivity|]. cbn [uinsert].
  assert (a < b) by (apply (sorted_head_lt a (b :: r)); [exact Hs|now left]).
  replace (Rleb a b) with true by (symmetry; apply Rleb_true; lra).
  replace (Rleb b a) with false by (symmetry; apply Rleb_false; lra). reflexivity.
Qed.
Lemma usort_of_sorted x : sorted x -> usort Rleb x = x.
Proof.
  induction x as [|a t IH]; intros Hs; [reflexivity|]. cbn [usort fold_right].
  change (fold_right (uinsert Rleb) [] t) with (usort Rleb t).
  rewrite IH by (eapply sorted_tail; eauto). now apply uinsert_head.
Qed.
Lemma uinsert_present y l : sorted l -> In y l -> uinsert Rleb y l = l.
Proof.
  induction l as [|z r IH]; intros Hs Hy; [destruct Hy|]. cbn [uinsert].
  destruct Hy as [->|Hy].
  - replace (Rleb y y) with true by (symmetry; apply Rleb_true; lra). reflexivity.
  - assert (z < y) by (eapply sorted_head_lt; eauto).
    replace (Rleb y z) with false by (symmetry; apply Rleb_false; lra).
    rewrite IH; [reflexivity|eapply sorted_tail; eauto|exact Hy].
Qed.
Lemma usort_twice x : sorted x -> usort Rleb (x ++ x) = x.
Proof.
  intros Hs. unfold usort. rewrite fold_right_app.
  change (fold_right (uinsert Rleb) [] x) with (usort Rleb x). rewrite usort_of_sorted by exact Hs.
  assert (G : forall l, (forall y, In y l -> In y x) -> fold_right (uinsert Rleb) x l = x).
  { induction l as [|a l IH]; intros H; [reflexivity|]. cbn [fold_right].
    rewrite IH by (intros; apply H; now right).
    apply uinsert_present; [exact Hs|apply H; now left]. }
  apply G. auto.
Qed.

Lemma va_pairs_identity x : sorted x -> (2 <= length x)%nat ->
  forall suf pre, x = pre ++ suf ->
  va_pairs Rleb x x (nth 0 x 0) (nth (length x - 1) x 0) suf
  = map (fun k => (nth (k + 1) x 0 - nth k x 0, k, k)) (seq (length pre) (length suf - 1)).
Proof.
  intros Hs Hn. induction suf as [|a t IH]; intros pre E; [reflexivity|].
  destruct t as [|b rest]; [reflexivity|].
  rewrite va_pairs_cons2.
  set (k := length pre).
  assert (Ea : nth k x 0 = a) by (subst x k; rewrite app_nth2, Nat.sub_diag by lia; reflexivity).
  assert (Eb : nth (k + 1) x 0 = b).
  { subst x k. rewrite app_nth2 by lia. replace (length pre + 1 - length pre)%nat with 1%nat by lia.
    reflexivity. }
  assert (Hk : (k + 1 < length x)%nat) by (subst x k; rewrite app_length; cbn; lia).
  assert (Hab : a < b) by (rewrite <- Ea, <- Eb; apply sorted_nth_lt; auto; lia).
  assert (L1 : nth 0 x 0 <= a) by (rewrite <- Ea; apply sorted_nth_le; auto; lia).
  assert (L2 : b <= nth (length x - 1) x 0) by (rewrite <- Eb; apply sorted_nth_le; auto; lia).
  rewrite half_centre.
  replace (Rleb (nth 0 x 0) ((a + b) / 2)) with true by (symmetry; apply Rleb_true; lra).
  replace (Rleb ((a + b) / 2) (nth (length x - 1) x 0)) with true by (symmetry; apply Rleb_true; lra).
  cbn [andb].
  rewrite (cell_of_inside x ((a + b) / 2) k Hs Hk) by lra.
  replace (length (a :: b :: rest) - 1)%nat with (S (length (b :: rest) - 1)) by (cbn; lia).
  cbn [seq map]. rewrite Ea, Eb. f_equal.
  rewrite (IH (pre ++ [a])).
  - rewrite app_length. cbn [length]. replace (length pre + 1)%nat with (S k) by (unfold k; lia).
    reflexivity.
  - rewrite <- app_assoc. exact E.
Qed.

(* equal grids: one weight per cell, its width, same index in and out *)
Lemma va_weights_identity x : sorted x -> (2 <= length x)%nat ->
  va_weights Rleb x x
  = map (fun k => (nth (k + 1) x 0 - nth k x 0, k, k)) (seq 0 (length x - 1)).
Proof.
  intros Hs Hn. rewrite va_weights_stateless by (auto; lia).
  rewrite usort_twice by exact Hs. exact (va_pairs_identity x Hs Hn x [] eq_refl).
Qed.

(* ------------------------------------------------------- 3-D, full strength *)
Lemma nth_widths x : forall k, (k + 1 < length x)%nat ->
  nth k (@widths R ROps x) 0 = nth (k + 1) x 0 - nth k x 0.
Proof.
  induction x as [|a t IH]; intros k Hk; cbn [length] in Hk; [lia|].
  destruct t as [|b r]; cbn [length] in Hk; [lia|].
  change (@widths R ROps (a :: b :: r)) with ((b - a) :: @widths R ROps (b :: r)).
  destruct k; [reflexivity|].
  replace (S k + 1)%nat with (S (k + 1)) by lia. cbn [nth]. apply IH. cbn [length]. lia.
Qed.

Lemma va_weights_nonneg x_i x_o t : In t (va_weights Rleb x_i x_o) -> 0 <= fst (fst t).
Proof. intros H. left. eapply va_weights_pos; eauto. Qed.

Lemma vol3_widths (mx my mz : list R) a b c :
  (a + 1 < length mx)%nat -> (b + 1 < length my)%nat -> (c + 1 < length mz)%nat ->
  vol3 mx my mz (a, b, c)
  = (nth (a + 1) mx 0 - nth a mx 0) * (nth (b + 1) my 0 - nth b my 0)
    * (nth (c + 1) mz 0 - nth c mz 0).
Proof.
  intros Ha Hb Hc. unfold vol3. cbn [fst snd]. rewrite !nth_widths by assumption. reflexivity.
Qed.

Lemma vol3_pos (mx my mz : list R) a b c :
  sorted mx -> sorted my -> sorted mz ->
  (a + 1 < length mx)%nat -> (b + 1 < length my)%nat -> (c + 1 < length mz)%nat ->
  0 < vol3 mx my mz (a, b, c).
Proof.
  intros Sx Sy Sz Ha Hb Hc. rewrite vol3_widths by assumption.
  pose proof (sorted_nth_lt mx Sx a (a + 1)%nat ltac:(lia) Ha).
  pose proof (sorted_nth_lt my Sy b (b + 1)%nat ltac:(lia) Hb).
  pose proof (sorted_nth_lt mz Sz c (c + 1)%nat ltac:(lia) Hc).
  apply Rmult_lt_0_compat; [apply Rmult_lt_0_compat|]; lra.
Qed.

(* range: every new value is a convex combination of old values *)
Lemma interp_va_convex nx ny nz mx my mz v a b c m M :
  sorted nx -> sorted ny -> sorted nz -> sorted mx -> sorted my -> sorted mz ->
  (1 <= length nx)%nat -> (1 <= length ny)%nat -> (1 <= length nz)%nat ->
  (a + 1 < length mx)%nat -> (b + 1 < length my)%nat -> (c + 1 < length mz)%nat ->
  (forall i, m <= v i <= M) ->
  m <= interp_va Rleb nx ny nz mx my mz (vol3 mx my mz) (fun _ => 0) v (a, b, c) <= M.
Proof.
  intros Snx Sny Snz Smx Smy Smz Lx Ly Lz Ha Hb Hc Hv. unfold interp_va.
  apply convex_given_tile.
  - apply trip3_nonneg; intros t Ht; eapply va_weights_nonneg; eauto.
  - rewrite wsum_out_trip3, !va_weights_tile_out by assumption.
    rewrite vol3_widths by assumption. reflexivity.
  - apply vol3_pos; assumption.
  - intros t _. apply Hv.
Qed.

(* index bounds of the weight list *)
Lemma va_pairs_bounds x_i x_o lo hi : (2 <= length x_i)%nat -> (2 <= length x_o)%nat ->
  forall xs t, In t (va_pairs Rleb x_i x_o lo hi xs) ->
  (snd (fst t) < length x_i - 1)%nat /\ (snd t < length x_o - 1)%nat.
Proof.
  intros Li Lo. induction xs as [|a r IH]; intros t Ht; [destruct Ht|].
  destruct r as [|b rest]; [destruct Ht|]. rewrite va_pairs_cons2 in Ht.
  destruct (Rleb lo (half * (a + b))%F && Rleb (half * (a + b))%F hi)%bool.
  - destruct Ht as [<-|Ht]; [|apply IH; exact Ht]. cbn [fst snd].
    split; apply cell_of_bound; assumption.
  - apply IH; exact Ht.
Qed.
Lemma va_weights_bounds x_i x_o t : sorted x_i -> sorted x_o ->
  (2 <= length x_i)%nat -> (2 <= length x_o)%nat -> In t (va_weights Rleb x_i x_o) ->
  (snd (fst t) < length x_i - 1)%nat /\ (snd t < length x_o - 1)%nat.
Proof.
  intros Si So Li Lo. rewrite va_weights_stateless by (auto; lia). apply va_pairs_bounds; auto.
Qed.

Lemma in_cells3 (x y z : list R) a b c :
  In (a, b, c) (cells3 x y z) <->
  (a < length x - 1)%nat /\ (b < length y - 1)%nat /\ (c < length z - 1)%nat.
Proof.
  unfold cells3. rewrite in_flat_map. split.
  - intros [i [Hi H]]. apply in_flat_map in H. destruct H as [j [Hj H]].
    apply in_map_iff in H. destruct H as [k [E Hk]]. injection E as -> -> ->.
    apply in_seq in Hi, Hj, Hk. lia.
  - intros (Ha & Hb & Hc). exists a. split; [apply in_seq; lia|].
    apply in_flat_map. exists b. split; [apply in_seq; lia|].
    apply in_map_iff. exists c. split; [reflexivity|apply in_seq; lia].
Qed.

Lemma NoDup_app' {A} (l1 l2 : list A) :
  NoDup l1 -> NoDup l2 -> (forall x, In x l1 -> ~ In x l2) -> NoDup (l1 ++ l2).
Proof.
  induction l1 as [|a l1 IH]; intros H1 H2 Hd; [exact H2|].
  inversion H1 as [|? ? Hna H1']; subst. cbn. constructor.
  - intros Hin. apply in_app_or in Hin. destruct Hin as [Hin|Hin]; [contradiction|].
    apply (Hd a); [now left|exact Hin].
  - apply IH; auto. intros x Hx. apply Hd. now right.
Qed.
Lemma NoDup_flat_map' {A B} (f : A -> list B) l :
  NoDup l -> (forall a, In a l -> NoDup (f a)) ->
  (forall a a' b, In a l -> In a' l -> In b (f a) -> In b (f a') -> a = a') ->
  NoDup (flat_map f l).
Proof.
  induction l as [|a l IH]; intros Hl Hf Hd; [constructor|].
  inversion Hl as [|? ? Hna Hl']; subst. cbn [flat_map]. apply NoDup_app'.
  - apply Hf. now left.
  - apply IH; auto.
    + intros a' Ha'. apply Hf. now right.
    + intros a1 a2 b H1 H2. apply Hd; now right.
  - intros b Hb Hin. apply in_flat_map in Hin. destruct Hin as [a' [Ha' Hb']].
    assert (a = a') by (apply (Hd a a' b); [now left|now right|exact Hb|exact Hb']).
    subst. contradiction.
Qed.
Lemma NoDup_cells3 (x y z : list R) : NoDup (cells3 x y z).
Proof.
  unfold cells3. apply NoDup_flat_map'.
  - apply seq_NoDup.
  - intros i _. apply NoDup_flat_map'.
    + apply seq_NoDup.
    + intros j _. apply Injective_map_NoDup; [|apply seq_NoDup].
      intros k k' E. now injection E.
    + intros j j' b _ _ H1 H2. apply in_map_iff in H1, H2.
      destruct H1 as [k [<- _]], H2 as [k' [E _]]. now injection E.
  - intros i i' b _ _ H1 H2. apply in_flat_map in H1, H2.
    destruct H1 as [j [_ H1]], H2 as [j' [_ H2]]. apply in_map_iff in H1, H2.
    destruct H1 as [k [<- _]], H2 as [k' [E _]]. now injection E.
Qed.

Lemma trip3_in (wx wy wz : list (R * nat * nat)) t :
  In t (trip3 wx wy wz) ->
  exists tx ty tz, In tx wx /\ In ty wy /\ In tz wz /\
    snd (fst t) = (snd (fst tx), snd (fst ty), snd (fst tz)) /\
    snd t = (snd tx, snd ty, snd tz).
Proof.
  unfold trip3. intros Ht.
  apply in_flat_map in Ht. destruct Ht as [tz [Hz Ht]].
  apply in_flat_map in Ht. destruct Ht as [ty [Hy Ht]].
  apply in_map_iff in Ht. destruct Ht as [tx [<- Hx]].
  exists tx, ty, tz. cbn. auto.
Qed.

(* conservation: both grids cover the same region *)
Lemma interp_va_conserves nx ny nz mx my mz v :
  sorted nx -> sorted ny -> sorted nz -> sorted mx -> sorted my -> sorted mz ->
  (2 <= length nx)%nat -> (2 <= length ny)%nat -> (2 <= length nz)%nat ->
  (2 <= length mx)%nat -> (2 <= length my)%nat -> (2 <= length mz)%nat ->
  nth 0 nx 0 = nth 0 mx 0 -> nth (length nx - 1) nx 0 = nth (length mx - 1) mx 0 ->
  nth 0 ny 0 = nth 0 my 0 -> nth (length ny - 1) ny 0 = nth (length my - 1) my 0 ->
  nth 0 nz 0 = nth 0 mz 0 -> nth (length nz - 1) nz 0 = nth (length mz - 1) mz 0 ->
  sumL (fun o => vol3 mx my mz o
                 * interp_va Rleb nx ny nz mx my mz (vol3 mx my mz) (fun _ => 0) v o)
       (cells3 mx my mz)
  = sumL (fun i => vol3 nx ny nz i * v i) (cells3 nx ny nz).
Proof.
  intros Snx Sny Snz Smx Smy Smz Lnx Lny Lnz Lmx Lmy Lmz X0 X1 Y0 Y1 Z0 Z1.
  unfold interp_va.
  apply (conserves_given_tile idx3_eqb idx3_eqb idx3_eqb_spec idx3_eqb_spec).
  - apply NoDup_cells3.
  - apply NoDup_cells3.
  - intros t Ht. destruct (trip3_in _ _ _ t Ht) as (tx & ty & tz & Hx & Hy & Hz & E & _).
    rewrite E. apply in_cells3.
    pose proof (va_weights_bounds nx mx tx Snx Smx Lnx Lmx Hx).
    pose proof (va_weights_bounds ny my ty Sny Smy Lny Lmy Hy).
    pose proof (va_weights_bounds nz mz tz Snz Smz Lnz Lmz Hz). tauto.
  - intros t Ht. destruct (trip3_in _ _ _ t Ht) as (tx & ty & tz & Hx & Hy & Hz & _ & E).
    rewrite E. apply in_cells3.
    pose proof (va_weights_bounds nx mx tx Snx Smx Lnx Lmx Hx).
    pose proof (va_weights_bounds ny my ty Sny Smy Lny Lmy Hy).
    pose proof (va_weights_bounds nz mz tz Snz Smz Lnz Lmz Hz). tauto.
  - intros [[a b] c] Ho. apply in_cells3 in Ho.
    pose proof (vol3_pos mx my mz a b c Smx Smy Smz ltac:(lia) ltac:(lia) ltac:(lia)). lra.
  - intros [[a b] c] Hi. apply in_cells3 in Hi.
    rewrite wsum_in_trip3, !va_weights_tile_in by (auto; lia).
    rewrite vol3_widths by lia. reflexivity.
Qed.

(* log mode: the integral of log10 is conserved *)
Lemma interp_va_log_conserves nx ny nz mx my mz v :
  sorted nx -> sorted ny -> sorted nz -> sorted mx -> sorted my -> sorted mz ->
  (2 <= length nx)%nat -> (2 <= length ny)%nat -> (2 <= length nz)%nat ->
  (2 <= length mx)%nat -> (2 <= length my)%nat -> (2 <= length mz)%nat ->
  nth 0 nx 0 = nth 0 mx 0 -> nth (length nx - 1) nx 0 = nth (length mx - 1) mx 0 ->
  nth 0 ny 0 = nth 0 my 0 -> nth (length ny - 1) ny 0 = nth (length my - 1) my 0 ->
  nth 0 nz 0 = nth 0 mz 0 -> nth (length nz - 1) nz 0 = nth (length mz - 1) mz 0 ->
  sumL (fun o => vol3 mx my mz o
                 * log10R (apply_va_log idx3_eqb
                     (trip3 (va_weights Rleb nx mx) (va_weights Rleb ny my) (va_weights Rleb nz mz))
                     (vol3 mx my mz) v o))
       (cells3 mx my mz)
  = sumL (fun i => vol3 nx ny nz i * log10R (v i)) (cells3 nx ny nz).
Proof.
  intros Snx Sny Snz Smx Smy Smz Lnx Lny Lnz Lmx Lmy Lmz X0 X1 Y0 Y1 Z0 Z1.
  apply (log_mode_conserves idx3_eqb idx3_eqb idx3_eqb_spec idx3_eqb_spec).
  - apply NoDup_cells3.
  - apply NoDup_cells3.
  - intros t Ht. destruct (trip3_in _ _ _ t Ht) as (tx & ty & tz & Hx & Hy & Hz & E & _).
    rewrite E. apply in_cells3.
    pose proof (va_weights_bounds nx mx tx Snx Smx Lnx Lmx Hx).
    pose proof (va_weights_bounds ny my ty Sny Smy Lny Lmy Hy).
    pose proof (va_weights_bounds nz mz tz Snz Smz Lnz Lmz Hz). tauto.
  - intros t Ht. destruct (trip3_in _ _ _ t Ht) as (tx & ty & tz & Hx & Hy & Hz & _ & E).
    rewrite E. apply in_cells3.
    pose proof (va_weights_bounds nx mx tx Snx Smx Lnx Lmx Hx).
    pose proof (va_weights_bounds ny my ty Sny Smy Lny Lmy Hy).
    pose proof (va_weights_bounds nz mz tz Snz Smz Lnz Lmz Hz). tauto.
  - intros [[a b] c] Ho. apply in_cells3 in Ho.
    pose proof (vol3_pos mx my mz a b c Smx Smy Smz ltac:(lia) ltac:(lia) ltac:(lia)). lra.
  - intros [[a b] c] Hi. apply in_cells3 in Hi.
    rewrite wsum_in_trip3, !va_weights_tile_in by (auto; lia).
    rewrite vol3_widths by lia. reflexivity.
Qed.

(* non-vacuity: a concrete pair of sorted grids covering the same region *)
Lemma sorted_example : sorted [0; 1; 3] /\ sorted [0; 2; 3] /\ sorted [0; 1].
Proof.
  repeat split; repeat (constructor; [|repeat (constructor; try lra)]); constructor.
Qed.
